import Dippy.Props.C08
#print axioms Dippy.C08.same_atoms
#print axioms Dippy.C08.verdict_after_rule
#print axioms Dippy.C08.redirect_atom_unchanged
#print axioms Dippy.C08.inject_atom_unchanged
#print axioms Dippy.C08.unknown_atom_unchanged
#print axioms Dippy.C08.text_atom
#print axioms Dippy.C08.checkTargets_unchanged
#print axioms Dippy.C08.builtin_unchanged
#print axioms Dippy.C08.flatMap_congr_mem
#print axioms Dippy.C08.skipWrapperArgs_suffix
#print axioms Dippy.C08.simpleCmd_unmatched
#print axioms Dippy.C08.proper_atom_unmatched
#print axioms Dippy.C08.proper_atom_matched
#print axioms Dippy.C08.atom_survives
#print axioms Dippy.C08.redirect_survives
#print axioms Dippy.C08.unmatched_command_survives
#print axioms Dippy.C08.unmatched_tree_unchanged
