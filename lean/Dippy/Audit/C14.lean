import Dippy.Props.C14
#print axioms Dippy.C14.mcp_last
#print axioms Dippy.C14.mcp_none_iff
#print axioms Dippy.C14.mcp_depends_only_on_mcp_rules
#print axioms Dippy.C14.after_mcp_depends_only_on_after_mcp_rules
#print axioms Dippy.C14.shell_ignores_mcp
#print axioms Dippy.C14.shell_verdict_ignores_mcp
#print axioms Dippy.C14.line_family
#print axioms Dippy.C14.filterMap_without_mcp
#print axioms Dippy.C14.filterMap_only_mcp
#print axioms Dippy.C14.mcp_lines_invisible_to_shell
#print axioms Dippy.C14.shell_lines_invisible_to_mcp
#print axioms Dippy.C14.merge_mcp_only
#print axioms Dippy.C14.merge_shell_only
#print axioms Dippy.C14.layered_mcp_ignores_shell
#print axioms Dippy.C14.layered_shell_ignores_mcp
