import Dippy.Props.C11
#print axioms Dippy.C11.line_local
#print axioms Dippy.C11.bad_line_identity
#print axioms Dippy.C11.line_independent
#print axioms Dippy.C11.parse_concat
#print axioms Dippy.C11.parse_merge_hom
#print axioms Dippy.C11.default_not_hom
#print axioms Dippy.C11.unescape_escape
#print axioms Dippy.C11.extract_render
