import Dippy.Props.C15
#print axioms Dippy.C15.logging_never_raises
#print axioms Dippy.C15.log_transparent
#print axioms Dippy.C15.log_transparent_full_fails
#print axioms Dippy.C15.failure_disables
#print axioms Dippy.C15.one_line_per_decision
#print axioms Dippy.C15.entry_keys
#print axioms Dippy.C15.full_only_if_set
#print axioms Dippy.C15.no_path_no_log
#print axioms Dippy.C15.concurrent_lines
#print axioms Dippy.C15.concurrent_count
