import Dippy.Props.C09
#print axioms Dippy.C09.normalizePath_denotes
#print axioms Dippy.C09.spelling_invariant
#print axioms Dippy.C09.command_word_denotes
#print axioms Dippy.C09.detour
#print axioms Dippy.C09.dot_segment
#print axioms Dippy.C09.repeated_slash
#print axioms Dippy.C09.trailing_slash
#print axioms Dippy.C09.confined
#print axioms Dippy.C09.star_no_slash
#print axioms Dippy.C09.question_no_slash
