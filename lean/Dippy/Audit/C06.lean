import Dippy.Props.C06
#print axioms Dippy.C06.hook_one_object
#print axioms Dippy.C06.hook_output_shape
#print axioms Dippy.C06.hook_allow_only_if
#print axioms Dippy.C06.shellPath_analysis
#print axioms Dippy.C06.analysis_provenance
#print axioms Dippy.C06.failure_defers
#print axioms Dippy.C06.not_json_defers
#print axioms Dippy.C06.config_error_asks
#print axioms Dippy.C06.load_raise_defers
#print axioms Dippy.C06.analysis_raise_defers
#print axioms Dippy.C06.bad_cwd_defers
#print axioms Dippy.C06.other_tool_defers
#print axioms Dippy.C06.main_shape
#print axioms Dippy.C06.name_tables
