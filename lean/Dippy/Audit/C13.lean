import Dippy.Props.C13
#print axioms Dippy.C13.walk_flag_constant
#print axioms Dippy.C13.outer_commands_local
#print axioms Dippy.C13.outer_texts_local
#print axioms Dippy.C13.local_verdict_local_atoms
#print axioms Dippy.C13.remote_has_no_redirect_atoms
#print axioms Dippy.C13.remote_redirect_still_walked
#print axioms Dippy.C13.remote_heredoc_still_scanned
#print axioms Dippy.C13.remote_rules_env_free
#print axioms Dippy.C13.remote_rules_alias_free
#print axioms Dippy.C13.remote_rule_decides
#print axioms Dippy.C13.remote_literal_deny
#print axioms Dippy.C13.builtin_remote_eq_local
#print axioms Dippy.C13.remote_eq_local_simple
#print axioms Dippy.C13.kubectl_exec_inner
#print axioms Dippy.C13.docker_exec_inner
