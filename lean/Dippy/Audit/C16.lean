import Dippy.Props.C16
#print axioms Dippy.C16.multi_never_ro
#print axioms Dippy.C16.variable_suffix_not_ro
#print axioms Dippy.C16.variable_suffix_pattern
#print axioms Dippy.C16.ro_single
#print axioms Dippy.C16.dropWhile_ne_semi
#print axioms Dippy.C16.mem_lstripL
#print axioms Dippy.C16.mem_stripL
#print axioms Dippy.C16.second_statement_detected
#print axioms Dippy.C16.ro_shape
#print axioms Dippy.C16.write_first_not_ro
#print axioms Dippy.C16.unknown_first_not_ro
#print axioms Dippy.C16.select_into_not_ro
#print axioms Dippy.C16.args_separate
#print axioms Dippy.C16.allowed_cases
#print axioms Dippy.C16.write_arg_asks
#print axioms Dippy.C16.keyword_sets_disjoint
#print axioms Dippy.C16.quoted_pattern_modelled
