import Dippy.Props.C02
#print axioms Dippy.C02.write_redirect_granted
#print axioms Dippy.C02.write_granted_by_last_rule
#print axioms Dippy.C02.later_rule_overrides
#print axioms Dippy.C02.tool_targets_granted
#print axioms Dippy.C02.op_table_complete
#print axioms Dippy.C02.op_table_sound
#print axioms Dippy.C02.fd_prefix_regex
#print axioms Dippy.C02.sink_table
