import Dippy.Props.C07
#print axioms Dippy.C07.last_match_wins
#print axioms Dippy.C07.no_match_iff
#print axioms Dippy.C07.inert
#print axioms Dippy.C07.later_overrides
#print axioms Dippy.C07.literal_prefix
#print axioms Dippy.C07.literal_exact
#print axioms Dippy.C07.simpleCmd_unfold
#print axioms Dippy.C07.rule_decides
#print axioms Dippy.C07.deny_message
#print axioms Dippy.C07.no_rule_builtin
#print axioms Dippy.C07.env_prefix_transparent
#print axioms Dippy.C07.rule_through_env_prefix
#print axioms Dippy.C07.wrapper_transparent
#print axioms Dippy.C07.rule_through_wrapper
