import Dippy.Props.C19
#print axioms Dippy.C19.post_output
#print axioms Dippy.C19.post_no_decision
#print axioms Dippy.C19.after_last
#print axioms Dippy.C19.after_mcp_last
#print axioms Dippy.C19.silent_when_no_rule
#print axioms Dippy.C19.after_rules_invisible
#print axioms Dippy.C19.filterMap_without_after
#print axioms Dippy.C19.after_lines_invisible
