import Dippy.Props.C17
#print axioms Dippy.C17.safe_flag_facts
#print axioms Dippy.C17.table_facts
#print axioms Dippy.C17.safeIn_cons
#print axioms Dippy.C17.spec_cons
#print axioms Dippy.C17.cluster_agrees
#print axioms Dippy.C17.spec_holds
#print axioms Dippy.C17.decideV_allowed
#print axioms Dippy.C17.runs_analysed_file
#print axioms Dippy.C17.approval_needs
#print axioms Dippy.C17.split_prefix
#print axioms Dippy.C17.program_args_inert
#print axioms Dippy.C17.stdin_program_asks
#print axioms Dippy.C17.inline_code_asks
#print axioms Dippy.C17.file_gates
#print axioms Dippy.C17.module_tables_disjoint
