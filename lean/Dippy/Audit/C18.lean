import Dippy.Props.C18
#print axioms Dippy.C18.inv_nil
#print axioms Dippy.C18.lru_transparent
#print axioms Dippy.C18.analysis_cache_free
#print axioms Dippy.C18.analysis_cache_bounded
#print axioms Dippy.C18.good_init
#print axioms Dippy.C18.good_step
#print axioms Dippy.C18.good_history
#print axioms Dippy.C18.step_answer
#print axioms Dippy.C18.history_free
#print axioms Dippy.C18.repeat_same
#print axioms Dippy.C18.log_rearmed
#print axioms Dippy.C18.cache_bounded
#print axioms Dippy.C18.inventory_covered
#print axioms Dippy.C18.shape_facts
