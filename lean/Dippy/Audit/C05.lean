import Dippy.Props.C05
#print axioms Dippy.C05.unknown_asks
#print axioms Dippy.C05.help_shape
#print axioms Dippy.C05.unknown_never_allowed
#print axioms Dippy.C05.parse_error_asks
#print axioms Dippy.C05.empty_asks
#print axioms Dippy.C05.no_nodes_asks
#print axioms Dippy.C05.unknown_kind_asks
#print axioms Dippy.C05.unknown_kind_in_pipeline
#print axioms Dippy.C05.name_spelling
#print axioms Dippy.C05.tables_plain
#print axioms Dippy.C05.no_launcher_in_simple_safe
#print axioms Dippy.C05.help_tuples
#print axioms Dippy.C05.no_missing_tables
#print axioms Dippy.C05.strip_is_bash_blank
