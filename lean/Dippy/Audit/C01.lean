import Dippy.Props.C01
#print axioms Dippy.C01.S_eq_allow
#print axioms Dippy.C01.allow_covers_atoms
#print axioms Dippy.C01.no_hidden_execution
#print axioms Dippy.C01.scan_item_allowed
#print axioms Dippy.C01.text_substitutions_allowed
#print axioms Dippy.C01.string_level
#print axioms Dippy.C01.out_of_fuel_never_allows
#print axioms Dippy.C01.no_hidden_execution_deep
#print axioms Dippy.C01.scan_rescans_quoted_body
#print axioms Dippy.C01.kinds_accounted
#print axioms Dippy.C01.dispatched_kinds
