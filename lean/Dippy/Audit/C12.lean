import Dippy.Props.C12
#print axioms Dippy.C12.mode_precedence
#print axioms Dippy.C12.explicit_order
#print axioms Dippy.C12.verdict_mode_free
#print axioms Dippy.C12.shell_route_mode_free
#print axioms Dippy.C12.gemini_aliases_are_shell_tools
#print axioms Dippy.C12.envelope_claude
#print axioms Dippy.C12.envelope_gemini
#print axioms Dippy.C12.envelope_cursor
#print axioms Dippy.C12.vocabulary
#print axioms Dippy.C12.output_is_envelope
#print axioms Dippy.C12.mismatched_shape_defers
