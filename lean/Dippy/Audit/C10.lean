import Dippy.Props.C10
#print axioms Dippy.C10.find_nearest
#print axioms Dippy.C10.find_none
#print axioms Dippy.C10.ObsEq.rfl'
#print axioms Dippy.C10.ObsEq.trans
#print axioms Dippy.C10.ObsEq.symm
#print axioms Dippy.C10.merge_congr
#print axioms Dippy.C10.merge_empty_left
#print axioms Dippy.C10.merge_empty_right
#print axioms Dippy.C10.hom
#print axioms Dippy.C10.splitLinesAux_append
#print axioms Dippy.C10.splitLines_join
#print axioms Dippy.C10.parse_empty
#print axioms Dippy.C10.layers_concat
#print axioms Dippy.C10.load_is_merged
