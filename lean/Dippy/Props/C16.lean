/-
C16 — SQL classified read-only: the classifier side, for every input text.

Property theorems only (classifier and sqlite3 handler; that a single SELECT/EXPLAIN statement
leaves an SQLite database unchanged is engine semantics, exercised by T2 against the real engine,
not proved):
  * `multi_never_ro`, `ro_single`, `second_statement_detected`: text with a second statement after a
    separator (outside quotes and comments) is never classified read-only;
  * `ro_shape`: read-only ⇒ the main statement (after any `WITH` prefix) begins with SELECT without
    INTO-before-FROM, or with a read-only keyword; `write_first_not_ro`, `unknown_first_not_ro`,
    `select_into_not_ro`;
  * `args_separate`: `sqlite3 … ARGS` is a read-only query only if every SQL argument (and `-cmd`
    argument) on its own is; `allowed_cases` lists the only three ways to an allow;
  * T0 obligations: keyword sets disjoint, the six alternatives of the quoting pattern are the ones modelled.
-/
import Dippy.Model.Sql

namespace Dippy.C16

open Dippy Dippy.Sql

set_option linter.unusedSimpArgs false

/-! ### several statements -/

theorem multi_never_ro (s : List Char) (xr xw : List String) (h : hasMultiple s = true) : isReadonly s xr xw = none := by
  simp [isReadonly, h]

/-- text with a `$name(…)` / `:name(…)` / `@name(…)` / `#name(…)` token is never classified: SQLite reads such a token as one
    variable, quote characters and all, so the quote scanner cannot be trusted on it -/
theorem variable_suffix_not_ro (s : List Char) (xr xw : List String) (h : hasVarSuffix s = true) : isReadonly s xr xw = none := by
  simp [isReadonly, h]

/-- T0: the guard is the first test of `is_readonly_sql` and its pattern is the one `hasVarSuffix` transcribes -/
theorem variable_suffix_pattern :
    Generated.Sql.variableWithSuffixPattern = "(?<![:\\w])[$@:#][\\w$][^\\s()'\\\"`;,]*\\(" := by decide

example : hasVarSuffix "SELECT $a(') ; DELETE FROM t --'".toList = true ∧ hasVarSuffix "SELECT :a(x)".toList = true
    ∧ hasVarSuffix "SELECT x::numeric(10,2) FROM t".toList = false ∧ hasVarSuffix "SELECT count(*), :id, $1 FROM t".toList = false := by
  decide +kernel

theorem ro_single (s : List Char) (xr xw : List String) (h : isReadonly s xr xw = some true) : hasMultiple s = false := by
  cases hm : hasMultiple s with
  | false => rfl
  | true => rw [multi_never_ro s xr xw hm] at h; cases h

theorem dropWhile_ne_semi (a b : List Char) (ha : ';' ∉ a) : (a ++ ';' :: b).dropWhile (· != ';') = ';' :: b := by
  induction a with
  | nil => simp
  | cons c t ih =>
    have hc : c ≠ ';' := fun h => ha (by simp [h])
    simp only [List.cons_append, List.dropWhile_cons, bne_iff_ne, ne_eq, hc, not_false_eq_true, decide_true, ↓reduceIte]
    exact ih (fun h => ha (by simp [h]))

theorem mem_lstripL (p : Char → Bool) (l : List Char) (c : Char) (hc : c ∈ l) (hp : p c = false) : c ∈ Py.lstripL p l := by
  induction l with
  | nil => cases hc
  | cons a t ih =>
    unfold Py.lstripL
    split
    · rename_i ha
      rcases List.mem_cons.mp hc with h | h
      · subst h; rw [hp] at ha; cases ha
      · exact ih h
    · exact hc

theorem mem_stripL (p : Char → Bool) (l : List Char) (c : Char) (hc : c ∈ l) (hp : p c = false) : c ∈ Py.stripL p l := by
  unfold Py.stripL Py.rstripL
  rw [List.mem_reverse]
  apply mem_lstripL p _ c _ hp
  rw [List.mem_reverse]
  exact mem_lstripL p l c hc hp

/-- a separator outside quotes/comments followed by anything that is not blank or another separator:
    several statements, whatever the text -/
theorem second_statement_detected (s a b : List Char) (c : Char)
    (hs : stripQuoted s = a ++ ';' :: b) (ha : ';' ∉ a) (hc : c ∈ b) (hsp : Py.isSpace c = false) (hsemi : c ≠ ';') :
    hasMultiple s = true := by
  unfold hasMultiple
  simp only [hs, dropWhile_ne_semi a b ha]
  have hmem := mem_stripL Py.isSpace b c hc hsp
  have hne : (Py.stripL Py.isSpace b).isEmpty = false := by
    cases h : Py.stripL Py.isSpace b with
    | nil => rw [h] at hmem; cases hmem
    | cons _ _ => rfl
  have hall : (Py.stripL Py.isSpace b).all (· == ';') = false := by
    cases hx : (Py.stripL Py.isSpace b).all (· == ';') with
    | false => rfl
    | true =>
      have := List.all_eq_true.mp hx c hmem
      simp at this
      exact absurd this hsemi
  simp [hne, hall]

/-! ### the main statement -/

/-- `w rest` is the keyword the classification is made on: the first keyword, or – after `WITH` – the
    one `_skip_cte` stops at -/
inductive Main : List Char → List Char → List Char → Prop where
  | first {s c t w rest} : skipWs s = c :: t → matchKw (c :: t) = some (w, rest) → kwIs w "WITH" = false → Main s w rest
  | cte {s c t w0 rest0 w rest} : skipWs s = c :: t → matchKw (c :: t) = some (w0, rest0) → kwIs w0 "WITH" = true →
      Main (skipCte (rest0.length + 1) rest0 true) w rest → Main s w rest

/-- read-only ⇒ the main statement is a SELECT without INTO before FROM, or starts with a read-only keyword -/
theorem ro_shape (ro wr : List String) (n : Nat) (s : List Char) (h : classifyLoop ro wr n s = some true) :
    ∃ w rest, Main s w rest ∧
      ((kwIs w "SELECT" = true ∧ selectInto (rest.length + 1) rest = false) ∨ (kwIs w "SELECT" = false ∧ kwIn w ro = true)) := by
  induction n generalizing s with
  | zero => simp [classifyLoop] at h
  | succ n ih =>
    unfold classifyLoop at h
    split at h
    · cases h
    · rename_i c t hws
      split at h
      · cases h
      · rename_i w rest hkw
        by_cases hwith : kwIs w "WITH" = true
        · simp only [hwith, ↓reduceIte] at h
          obtain ⟨w', rest', hm, hsh⟩ := ih _ h
          exact ⟨w', rest', Main.cte hws hkw hwith hm, hsh⟩
        · have hwith' : kwIs w "WITH" = false := by simpa using hwith
          simp only [hwith', Bool.false_eq_true, ↓reduceIte] at h
          by_cases hsel : kwIs w "SELECT" = true
          · simp only [hsel, ↓reduceIte] at h
            refine ⟨w, rest, Main.first hws hkw hwith', Or.inl ⟨hsel, ?_⟩⟩
            cases hi : selectInto (rest.length + 1) rest with
            | false => rfl
            | true => simp [hi] at h
          · have hsel' : kwIs w "SELECT" = false := by simpa using hsel
            simp only [hsel', Bool.false_eq_true, ↓reduceIte] at h
            refine ⟨w, rest, Main.first hws hkw hwith', Or.inr ⟨hsel', ?_⟩⟩
            cases hr : kwIn w ro with
            | true => rfl
            | false =>
              simp only [hr, Bool.false_eq_true, ↓reduceIte] at h
              split at h <;> cases h

/-- a text whose first keyword is a write keyword (and not also a read-only one) is classified a write -/
theorem write_first_not_ro (ro wr : List String) (n : Nat) (s : List Char) (c : Char) (t w rest : List Char)
    (hws : skipWs s = c :: t) (hkw : matchKw (c :: t) = some (w, rest))
    (hwith : kwIs w "WITH" = false) (hsel : kwIs w "SELECT" = false) (hro : kwIn w ro = false) (hwr : kwIn w wr = true) :
    classifyLoop ro wr (n + 1) s = some false := by
  unfold classifyLoop
  simp [hws, hkw, hwith, hsel, hro, hwr]

/-- anything that does not begin with a known keyword (a dot-command, a number, an unknown word) is unknown -/
theorem unknown_first_not_ro (ro wr : List String) (n : Nat) (s : List Char) (c : Char) (t : List Char)
    (hws : skipWs s = c :: t)
    (h : matchKw (c :: t) = none ∨ ∃ w rest, matchKw (c :: t) = some (w, rest) ∧ kwIs w "WITH" = false ∧ kwIs w "SELECT" = false
          ∧ kwIn w ro = false ∧ kwIn w wr = false) :
    classifyLoop ro wr (n + 1) s = none := by
  unfold classifyLoop
  rcases h with h | ⟨w, rest, hk, h1, h2, h3, h4⟩
  · simp [hws, h]
  · simp [hws, hk, h1, h2, h3, h4]

theorem select_into_not_ro (ro wr : List String) (n : Nat) (s : List Char) (c : Char) (t w rest : List Char)
    (hws : skipWs s = c :: t) (hkw : matchKw (c :: t) = some (w, rest))
    (hwith : kwIs w "WITH" = false) (hsel : kwIs w "SELECT" = true) (hinto : selectInto (rest.length + 1) rest = true) :
    classifyLoop ro wr (n + 1) s = some false := by
  unfold classifyLoop
  simp [hws, hkw, hwith, hsel, hinto]

/-! ### sqlite3 command lines -/

/-- a read-only verdict needs every SQL text the shell would run – each argument after the file name and
    each `-cmd` argument – to be read-only on its own -/
theorem args_separate (tokens : List String) (h : sqliteClassify tokens = .readOnlyQuery) :
    ∀ p ∈ sqlArgs false 0 (tokens.drop 1), isReadonly p.toList [] Generated.Sql.sqliteWrite = some true := by
  unfold sqliteClassify at h
  split at h
  · cases h
  · split at h
    · cases h
    · split at h
      · cases h
      · simp only at h
        split at h
        · cases h
        · split at h
          · rename_i hall
            intro p hp
            have := List.all_eq_true.mp hall (isReadonly p.toList [] Generated.Sql.sqliteWrite) (List.mem_map.mpr ⟨p, hp, rfl⟩)
            simpa using this
          · split at h <;> cases h

/-- the only ways to an auto-approval -/
theorem allowed_cases (tokens : List String) (h : (sqliteClassify tokens).allowed = true) :
    sqliteClassify tokens = .helpVersion ∨ sqliteClassify tokens = .readonlyMode ∨ sqliteClassify tokens = .readOnlyQuery := by
  cases hc : sqliteClassify tokens <;> simp [hc, SqliteVerdict.allowed] at h ⊢

/-- a dot-command or a write among the arguments is never approved -/
theorem write_arg_asks (tokens : List String) (p : String)
    (hh : tokens.any (fun t => Generated.Sql.sqliteHelp.contains t) = false)
    (hr : ((optionWords 0 (tokens.drop 1)).contains "-readonly" || (optionWords 0 (tokens.drop 1)).contains "-safe") = false)
    (hp : p ∈ sqlArgs false 0 (tokens.drop 1)) (hw : isReadonly p.toList [] Generated.Sql.sqliteWrite ≠ some true) :
    (sqliteClassify tokens).allowed = false := by
  cases ha : (sqliteClassify tokens).allowed with
  | false => rfl
  | true =>
    exfalso
    unfold sqliteClassify at ha
    simp only [hh, hr, Bool.false_eq_true, ↓reduceIte] at ha
    split at ha
    · simp [SqliteVerdict.allowed] at ha
    · split at ha
      · simp [SqliteVerdict.allowed] at ha
      · split at ha
        · rename_i hall
          have := List.all_eq_true.mp hall (isReadonly p.toList [] Generated.Sql.sqliteWrite) (List.mem_map.mpr ⟨p, hp, rfl⟩)
          exact hw (by simpa using this)
        · split at ha <;> simp [SqliteVerdict.allowed] at ha

/-- the value of a one-argument option is not an option word: `-separator -readonly` does not open the database
    read-only -/
theorem option_value_skipped (o v : String) (rest : List String) (ho : o ∈ Generated.Sql.sqliteOneArg) :
    optionWords 0 (o :: v :: rest) = o :: optionWords 0 rest := by
  have hall : Generated.Sql.sqliteOneArg.all (fun t => Py.startsWith t "-") = true := by decide +kernel
  have hs := List.all_eq_true.mp hall o ho
  simp [optionWords, hs, ho]

/-- option words are words of the command line -/
theorem optionWords_sub (k : Nat) (l : List String) : ∀ x ∈ optionWords k l, x ∈ l := by
  induction l generalizing k with
  | nil => simp [optionWords]
  | cons t rest ih =>
    intro x hx
    cases k with
    | succ k => simp only [optionWords] at hx; exact List.mem_cons_of_mem _ (ih _ x hx)
    | zero =>
      simp only [optionWords, List.mem_append] at hx
      rcases hx with hx | hx
      · split at hx
        · simp only [List.mem_singleton] at hx; simp [hx]
        · cases hx
      · exact List.mem_cons_of_mem _ (ih _ x hx)

/-- the read-only-mode shortcut needs `-readonly` or `-safe` in option position -/
theorem readonly_mode_option (tokens : List String) (h : sqliteClassify tokens = .readonlyMode) :
    "-readonly" ∈ optionWords 0 (tokens.drop 1) ∨ "-safe" ∈ optionWords 0 (tokens.drop 1) := by
  unfold sqliteClassify at h
  split at h
  · cases h
  · split at h
    · cases h
    · split at h
      · rename_i hr
        simpa using hr
      · simp only at h
        split at h
        · cases h
        · split at h
          · cases h
          · split at h <;> cases h

/-- an `-init` script is never approved, whatever else is on the line (`-readonly` does not hold its dot-commands back) -/
theorem init_script_asks (tokens : List String)
    (hh : tokens.any (fun t => Generated.Sql.sqliteHelp.contains t) = false)
    (hi : "-init" ∈ optionWords 0 (tokens.drop 1)) :
    (sqliteClassify tokens).allowed = false := by
  have hc : (optionWords 0 (tokens.drop 1)).contains "-init" = true := by simpa using hi
  unfold sqliteClassify
  simp only [hh, hc, Bool.false_eq_true, ↓reduceIte]
  rfl

example : sqliteClassify ["sqlite3", "-readonly", "-init", "x.sql", "db"] = .initScript := by decide +kernel

example : sqliteClassify ["sqlite3", "-separator", "-readonly", "db", "DELETE FROM t"] = .writeQuery := by decide +kernel
example : sqliteClassify ["sqlite3", "-readonly", "db", "DELETE FROM t"] = .readonlyMode := by decide +kernel
example : sqliteClassify ["sqlite3", "-lookaside", "1", "-safe", "db", "DELETE FROM t"] = .writeQuery := by decide +kernel

/-! ### T0 obligations -/

theorem keyword_sets_disjoint :
    Generated.Sql.readonlyKeywords.all (fun k => !(Generated.Sql.writeKeywords ++ Generated.Sql.sqliteWrite).contains k) = true
      ∧ !(Generated.Sql.readonlyKeywords ++ Generated.Sql.writeKeywords ++ Generated.Sql.sqliteWrite).contains "WITH" = true := by decide

/-- the quoting pattern has exactly the six alternatives the model implements, in this order -/
theorem quoted_pattern_modelled :
    Generated.Sql.quotedAlternatives =
      ["'(?:[^']*'')*[^']*'", "\"(?:[^\"]*\"\")*[^\"]*\"", "`[^`]*`", "\\[[^\\]]*\\]", "--[^\\n]*", "/\\*.*?\\*/"] := by decide

/-! ### examples (tests, not theorems about all inputs) -/

example : isReadonly "SELECT 1; DROP TABLE t".toList [] [] = none := by decide +kernel
example : isReadonly "SELECT ';' ; -- x".toList [] [] = some true := by decide +kernel
example : isReadonly "WITH a AS (SELECT 1) DELETE FROM t".toList [] [] = some false := by decide +kernel
example : isReadonly "select 'a''; drop table t; --'".toList [] [] = some true := by decide +kernel
example : isReadonly ".shell id".toList [] [] = none := by decide +kernel
example : sqliteClassify ["sqlite3", "db", "SELECT 1", "DROP TABLE t"] = .writeQuery := by decide +kernel
example : sqliteClassify ["sqlite3", "db", "select 1", ".shell id"] = .unknownQuery := by decide +kernel

end Dippy.C16
