/-
C08 — Allow rules are local to the command they match.

`withAllow w P pat` is the world after adding an allow rule: the command-rule lookup
answers "allow (pat)" exactly on the lookups `P` selects (those the new rule matches as the
last matching rule) and is unchanged everywhere else; nothing else of the world changes.
`Props/C07` (`later_overrides`, `inert`) shows that appending or inserting a rule into a
configuration has exactly this shape.
-/
import Dippy.Lemmas.Flat

set_option linter.unusedSimpArgs false
set_option linter.unusedVariables false

namespace Dippy.C08
open Dippy

def withAllow (w : World) (P : List String → String → Bool → Bool) (pat : String) : World :=
  { w with matchCommand := fun ws cwd rem =>
      match P ws cwd rem with
      | true => some ⟨.allow, pat, none⟩
      | false => w.matchCommand ws cwd rem }

variable (w : World) (P : List String → String → Bool → Bool) (pat : String) (h : HelpTables)

/-- the rule does not change which atoms a tree has -/
theorem same_atoms (n : Node) (cwd : String) (r : Bool) :
    flat (withAllow w P pat).syn n cwd r = flat w.syn n cwd r := rfl

/-- R1 under the extended rule set, over the *same* atoms -/
theorem verdict_after_rule (rec' : Rec) (n : Node) (cwd : String) (r : Bool) :
    (aNode (withAllow w P pat) rec' h n cwd r).action
      = S ((flat w.syn n cwd r).flatMap (atomDecisions (withAllow w P pat) rec' h)) :=
  verdict_eq_leaves (withAllow w P pat) rec' h n cwd r

/-! ### which atoms can change at all -/

/-- redirections never consult command rules -/
theorem redirect_atom_unchanged (rec rec' : Rec) (op t cwd : String) :
    atomDecisions (withAllow w P pat) rec' h (.redir op t cwd) = atomDecisions w rec h (.redir op t cwd) := rfl

theorem inject_atom_unchanged (rec rec' : Rec) (ctx : CmdCtx) (wd : Word) (pos : Nat) :
    atomDecisions (withAllow w P pat) rec' h (.inject ctx wd pos) = atomDecisions w rec h (.inject ctx wd pos) := rfl

theorem unknown_atom_unchanged (rec rec' : Rec) (k : String) :
    atomDecisions (withAllow w P pat) rec' h (.unknown k) = atomDecisions w rec h (.unknown k) := rfl

/-- a raw text's contribution is the re-analysis of what the scanner finds in it – the same
    statement one level down -/
theorem text_atom (rec' : Rec) (ps : Bool) (s : Option String) (cwd : String) (r : Bool) :
    atomDecisions (withAllow w P pat) rec' h (.text ps s cwd r) = scanArg rec' ps s cwd r := rfl

theorem checkTargets_unchanged (cwd desc : String) (ts : List String) :
    checkTargets (withAllow w P pat) cwd desc ts = checkTargets w cwd desc ts := by
  induction ts with
  | nil => rfl
  | cons t ts ih =>
    unfold checkTargets
    rw [ih]
    rfl

theorem builtin_unchanged (rec : Rec) (tokens : List String) (cwd : String) (r : Bool) :
    builtinVerdict (withAllow w P pat) rec h.helpWords h.helpFlags2 h.helpFlagsLast tokens cwd r
      = builtinVerdict w rec h.helpWords h.helpFlags2 h.helpFlagsLast tokens cwd r := by
  unfold builtinVerdict
  simp only [checkTargets_unchanged]
  rfl

theorem flatMap_congr_mem {α β : Type} (l : List α) (f g : α → List β) (hfg : ∀ a ∈ l, f a = g a) :
    l.flatMap f = l.flatMap g := by
  induction l with
  | nil => rfl
  | cons a l ih =>
    simp only [List.flatMap_cons]
    rw [hfg a (List.mem_cons_self ..), ih (fun x hx => hfg x (List.mem_cons_of_mem _ hx))]

theorem skipWrapperAux_suffix (fwa : WrapOpts) (b dur : Bool) (l : List String) : ∃ j, skipWrapperAux fwa b dur l = l.drop j := by
  induction l generalizing b dur with
  | nil => exact ⟨0, by cases b <;> rfl⟩
  | cons t ts ih =>
    cases b with
    | true =>
      obtain ⟨j, hj⟩ := ih false dur
      exact ⟨j + 1, by simpa [skipWrapperAux] using hj⟩
    | false =>
      unfold skipWrapperAux
      split
      · obtain ⟨j, hj⟩ := ih false false
        exact ⟨j + 1, by simpa using hj⟩
      · split
        · obtain ⟨j, hj⟩ := ih true dur
          exact ⟨j + 1, by simpa using hj⟩
        · split
          · obtain ⟨j, hj⟩ := ih false dur
            exact ⟨j + 1, by simpa using hj⟩
          · split
            · exact ⟨1, by simp⟩
            · exact ⟨0, by simp⟩

theorem skipWrapperArgs_suffix (fwa : WrapOpts) (l : List String) : ∃ j, skipWrapperArgs fwa l = l.drop j :=
  skipWrapperAux_suffix fwa false fwa.duration l

/-- a command none of whose word suffixes the new rule matches keeps its verdict *and reason* -/
theorem simpleCmd_unmatched (rec : Rec) (n : Nat) (words : List String) (cwd : String) (r : Bool)
    (hP : ∀ k, P (words.drop k) cwd r = false) :
    simpleCmd (withAllow w P pat) rec h n words cwd r = simpleCmd w rec h n words cwd r := by
  induction n generalizing words with
  | zero => rfl
  | succ n ih =>
    unfold simpleCmd
    dsimp only
    split
    · rfl
    · have hmc : (withAllow w P pat).matchCommand words cwd r = w.matchCommand words cwd r := by
        have := hP 0
        simp only [List.drop_zero] at this
        simp [withAllow, this]
      simp only [hmc]
      cases hm : w.matchCommand words cwd r with
      | some m => rfl
      | none =>
        simp only
        have hwr : (withAllow w P pat).wrapper = w.wrapper := rfl
        rw [hwr]
        split
        · split
          · rfl
          · have hwf : (withAllow w P pat).wrapperArgFlags = w.wrapperArgFlags := rfl
            rw [hwf]
            obtain ⟨j, hj⟩ := skipWrapperArgs_suffix (w.wrapperArgFlags (words.headD "")) (words.drop 1)
            cases hs : skipWrapperArgs (w.wrapperArgFlags (words.headD "")) (words.drop 1) with
            | nil => rfl
            | cons a as =>
              simp only
              apply ih
              intro k
              rw [← hs, hj]
              simp only [List.drop_drop]
              exact hP _
        · exact builtin_unchanged w P pat h rec _ cwd r

theorem proper_atom_unmatched (rec : Rec) (words : List String) (b : Nat) (cwd : String) (r : Bool)
    (hP : ∀ k, P (words.drop k) cwd r = false) :
    atomDecisions (withAllow w P pat) rec h (.proper words b cwd r) = atomDecisions w rec h (.proper words b cwd r) := by
  simp only [atomDecisions, properDecisions]
  rw [simpleCmd_unmatched w P pat h rec _ (words.drop b) cwd r (by intro k; rw [List.drop_drop]; exact hP _)]

/-- the second pass (the words after quote removal) of a command the rule matches in neither spelling -/
theorem unquoted_atom_unmatched (rec : Rec) (words unquoted : List String) (b : Nat) (cwd : String) (r : Bool)
    (hP : ∀ k, P (unquoted.drop k) cwd r = false) :
    atomDecisions (withAllow w P pat) rec h (.unquotedCmd words unquoted b cwd r)
      = atomDecisions w rec h (.unquotedCmd words unquoted b cwd r) := by
  simp only [atomDecisions, unquotedDecisions]
  rw [simpleCmd_unmatched w P pat h rec _ (unquoted.drop b) cwd r (by intro k; rw [List.drop_drop]; exact hP _)]

/-- the command the rule does match: its command-proper atom is allowed … -/
theorem proper_atom_matched (rec : Rec) (words : List String) (b : Nat) (cwd : String) (r : Bool)
    (hlt : b < words.length)
    (hP : P (words.drop b) cwd r = true) :
    S (atomDecisions (withAllow w P pat) rec h (.proper words b cwd r)) = .allow := by
  have hw : words.isEmpty = false := by
    cases words with
    | nil => simp at hlt
    | cons _ _ => rfl
  simp only [atomDecisions, properDecisions, hw, Bool.false_eq_true, ↓reduceIte]
  split
  · simp [S]
  · simp only [ge_iff_le, Nat.not_le.mpr hlt, ↓reduceIte]
    have hne : (words.drop b).isEmpty = false := by
      have : (words.drop b).length > 0 := by rw [List.length_drop]; omega
      cases hd : words.drop b with
      | nil => rw [hd] at this; simp at this
      | cons _ _ => rfl
    rw [simpleCmd]
    simp only [hne, Bool.false_eq_true, ↓reduceIte]
    simp [withAllow, hP, S]

/-! ### … and nothing else of that command, or next to it, is suppressed -/

/-- every atom bounds the verdict from below: an ask or deny arising from a redirection, an
    embedded substitution or a sibling command survives the rule -/
theorem atom_survives (rec' : Rec) (n : Node) (cwd : String) (r : Bool) (a : Atom)
    (ha : a ∈ flat w.syn n cwd r) (d : Decision) (hd : d ∈ atomDecisions (withAllow w P pat) rec' h a) :
    d.action ≤ (aNode (withAllow w P pat) rec' h n cwd r).action := by
  rw [verdict_after_rule]
  apply le_supList
  simp only [acts, List.mem_map, List.mem_flatMap]
  exact ⟨d, ⟨a, ha, hd⟩, rfl⟩

/-- in particular a redirection's prompt or denial: it is the same decision as before the rule,
    and the verdict is at least as restrictive -/
theorem redirect_survives (rec rec' : Rec) (n : Node) (cwd : String) (r : Bool) (op t c : String)
    (ha : Atom.redir op t c ∈ flat w.syn n cwd r) (d : Decision) (hd : d ∈ redirectDecision w op t c) :
    d.action ≤ (aNode (withAllow w P pat) rec' h n cwd r).action :=
  atom_survives w P pat h rec' n cwd r _ ha d hd

/-- an unmatched sibling (or enclosing/enclosed command) keeps its old decision, which bounds
    the new verdict -/
theorem unmatched_command_survives (rec : Rec) (n : Node) (cwd : String) (r : Bool)
    (words : List String) (b : Nat) (c : String) (rm : Bool)
    (ha : Atom.proper words b c rm ∈ flat w.syn n cwd r)
    (hP : ∀ k, P (words.drop k) c rm = false)
    (d : Decision) (hd : d ∈ atomDecisions w rec h (.proper words b c rm)) :
    d.action ≤ (aNode (withAllow w P pat) rec h n cwd r).action := by
  apply atom_survives w P pat h rec n cwd r _ ha d
  rw [proper_atom_unmatched w P pat h rec words b c rm hP]
  exact hd

/-- a tree none of whose commands the rule matches, and whose re-analysed texts are unaffected,
    is judged exactly as before -/
theorem unmatched_tree_unchanged (rec : Rec) (n : Node) (cwd : String) (r : Bool)
    (hP : ∀ words b c rm, Atom.proper words b c rm ∈ flat w.syn n cwd r → ∀ k, P (words.drop k) c rm = false)
    (hQ : ∀ words unq b c rm, Atom.unquotedCmd words unq b c rm ∈ flat w.syn n cwd r → ∀ k, P (unq.drop k) c rm = false) :
    (aNode (withAllow w P pat) rec h n cwd r).action = (aNode w rec h n cwd r).action := by
  rw [verdict_after_rule, verdict_eq_leaves w rec h n cwd r]
  unfold leaves
  congr 1
  apply flatMap_congr_mem
  intro a ha
  cases a with
  | proper words b c rm => exact proper_atom_unmatched w P pat h rec words b c rm (hP words b c rm ha)
  | unquotedCmd words unq b c rm => exact unquoted_atom_unmatched w P pat h rec words unq b c rm (hQ words unq b c rm ha)
  | inject _ _ _ => rfl
  | redir _ _ _ => rfl
  | text _ _ _ => rfl
  | unknown _ => rfl

end Dippy.C08
