/-
C09 — Path rules follow the file, not its spelling.

`denote env cwd s` is the specification: the file a path spelling denotes (tilde, relative to cwd,
then the file system's resolution of the joined path).  `PathEnv.resolve` is an arbitrary function
(any symlink structure); the lexical theorems instantiate it with the symlink-free `lexResolve`.
-/
import Dippy.Lemmas.PathLex
import Dippy.Lemmas.GlobStar
import Dippy.Lemmas.LastMatch

set_option linter.unusedSimpArgs false

namespace Dippy.C09
open Dippy

/-- the file a spelling denotes -/
def denote (env : PathEnv) (cwd s : String) : String :=
  if Py.startsWith s "/" then env.resolve (purePath s)
  else if s == "~" || Py.startsWith s "~/" then env.resolve (purePath (expandHome env s))
  else env.resolve (pathJoin cwd s)

/-- spellings of a redirect target whose denotation is defined by the path alone (not `$VAR`, `~user`); a target that
    looks like a URL is a path like any other -/
def pathSpelling (s : String) : Prop :=
  classifyToken s true = .absolute ∨ classifyToken s true = .home ∨ classifyToken s true = .relative ∨ classifyToken s true = .bare

/-- a redirect target is normalised to the file it denotes (after dropping trailing slashes) -/
theorem normalizePath_denotes (env : PathEnv) (cwd s : String)
    (hs : pathSpelling (Py.rstripChars s ['/'])) :
    normalizePath env s cwd = denote env cwd (Py.rstripChars s ['/']) := by
  unfold normalizePath expandToken denote resolveAbs
  generalize Py.rstripChars s ['/'] = t at hs ⊢
  unfold pathSpelling at hs
  unfold classifyToken at hs ⊢
  have h1 : (Py.containsSub t "://" && !true) = false := by simp
  · by_cases h2 : Py.startsWith t "$" = true
    · simp [h1, h2] at hs
    · by_cases h3 : Py.startsWith t "/" = true
      · simp [h1, h2, h3]
      · by_cases h4 : (t == "~" || Py.startsWith t "~/") = true
        · simp [h1, h2, h3, h4]
        · by_cases h5 : Py.startsWith t "~" = true
          · simp [h1, h2, h3, h4, h5] at hs
          · by_cases h6 : (t == "." || t == ".." || Py.startsWith t "./" || Py.startsWith t "../" || Py.hasChar t '/') = true
            · simp [h1, h2, h3, h4, h5, h6]
            · simp [h1, h2, h3, h4, h5, h6]

/-- **spelling invariance**: two spellings of the same file get the same redirect-rule verdict,
    for every rule set, cwd and file system -/
theorem spelling_invariant (env : PathEnv) (cfg : Config) (cwd s₁ s₂ : String)
    (h₁ : pathSpelling (Py.rstripChars s₁ ['/'])) (h₂ : pathSpelling (Py.rstripChars s₂ ['/']))
    (hd : denote env cwd (Py.rstripChars s₁ ['/']) = denote env cwd (Py.rstripChars s₂ ['/'])) :
    matchRedirect env cfg s₁ cwd = matchRedirect env cfg s₂ cwd := by
  unfold matchRedirect redirectRuleMatches
  rw [normalizePath_denotes env cwd s₁ h₁, normalizePath_denotes env cwd s₂ h₂, hd]

/-- the same for path arguments of command rules: each word is normalised to what it denotes -/
theorem command_word_denotes (env : PathEnv) (cwd w : String)
    (hw : classifyToken w = .absolute ∨ classifyToken w = .home ∨ classifyToken w = .relative) :
    expandToken env w cwd false = denote env cwd w := by
  unfold expandToken denote resolveAbs
  unfold classifyToken at hw ⊢
  simp only [Bool.not_false, Bool.and_true] at hw ⊢
  by_cases h1 : Py.containsSub w "://" = true
  · simp [h1] at hw
  · by_cases h2 : Py.startsWith w "$" = true
    · simp [h1, h2] at hw
    · by_cases h3 : Py.startsWith w "/" = true
      · simp [h1, h2, h3]
      · by_cases h4 : (w == "~" || Py.startsWith w "~/") = true
        · simp [h1, h2, h3, h4]
        · by_cases h5 : Py.startsWith w "~" = true
          · simp [h1, h2, h3, h4, h5] at hw
          · by_cases h6 : (w == "." || w == ".." || Py.startsWith w "./" || Py.startsWith w "../" || Py.hasChar w '/') = true
            · simp [h1, h2, h3, h4, h5, h6]
            · simp [h1, h2, h3, h4, h5, h6] at hw

/-! ### lexically equivalent spellings denote the same file (symlink-free resolution) -/

theorem detour (d x rest : List Char) (hx : normalSeg x) (hs : '/' ∉ x) :
    lexResolve (String.ofList (d ++ '/' :: x ++ '/' :: '.' :: '.' :: '/' :: rest))
      = lexResolve (String.ofList (d ++ '/' :: rest)) := lexResolve_detour d x rest hx hs

theorem dot_segment (d rest : List Char) :
    lexResolve (String.ofList (d ++ '/' :: '.' :: '/' :: rest)) = lexResolve (String.ofList (d ++ '/' :: rest)) :=
  lexResolve_dot d rest

theorem repeated_slash (d rest : List Char) :
    lexResolve (String.ofList (d ++ '/' :: '/' :: rest)) = lexResolve (String.ofList (d ++ '/' :: rest)) :=
  lexResolve_dslash d rest

theorem trailing_slash (d : List Char) :
    lexResolve (String.ofList (d ++ ['/'])) = lexResolve (String.ofList d) := lexResolve_trailing d

/-- instances through the whole rule engine: every spelling of /tmp/probe/out gets the same answer,
    and a detour out of the granted directory is *not* granted -/
example :
    let env : PathEnv := ⟨"/home/u", lexResolve⟩
    let cfg : Config := { redirectRules := [{ decision := .allow, pattern := "/tmp/probe/**" }] }
    (["out", "./out", "sub/../out", "/tmp/probe/out", "/tmp//probe/./out", "/tmp/probe/out/", "../probe/out"].map
        fun s => (matchRedirect env cfg s "/tmp/probe").map (·.decision))
      = List.replicate 7 (some Action.allow)
    ∧ (matchRedirect env cfg "/tmp/probe/../etc/passwd" "/tmp/probe") = none
    ∧ (matchRedirect env cfg "../../etc/passwd" "/tmp/probe") = none := by decide

/-! ### an allow-redirect for a directory cannot be used to write outside it -/

/-- if the last matching redirect rule is `D/**` (D an absolute, glob-free directory) then the
    *file the target denotes* lies under `D/` -/
theorem confined (env : PathEnv) (cfg : Config) (cwd s D : String) (m : Match)
    (hs : pathSpelling (Py.rstripChars s ['/']))
    (hm : matchRedirect env cfg s cwd = some m) (hp : m.pattern = D ++ "/**")
    (hD : Glob.literal D.toList)
    (hnorm : normalizeRedirectPattern env (D ++ "/**") cwd = D ++ "/**") :
    (D.toList ++ ['/']).isPrefixOf (denote env cwd (Py.rstripChars s ['/'])).toList = true := by
  unfold matchRedirect at hm
  simp only [Option.map_eq_some_iff] at hm
  obtain ⟨r, hr, hrm⟩ := hm
  obtain ⟨_, hhit⟩ := lastMatch_some hr
  have hpat : r.pattern = D ++ "/**" := by rw [← hp, ← hrm]; rfl
  unfold redirectRuleMatches globMatchB at hhit
  rw [hpat, hnorm, normalizePath_denotes env cwd s hs] at hhit
  cases hg : Glob.globMatch (denote env cwd (Py.rstripChars s ['/'])) (D ++ "/**") with
  | none => simp [hg] at hhit
  | some b =>
    simp only [hg, Option.getD_some] at hhit
    subst hhit
    exact Glob.globMatch_dir_starstar _ D hD hg

/-! ### inside `**` patterns `*` and `?` never match a path separator -/

theorem star_no_slash (endOk : List Char → Bool) (ps : List Glob.Tok) (s : List Char)
    (h : Glob.matchToks endOk (.starNoSlash :: ps) s = true) :
    ∃ k, (∀ c ∈ s.take k, c ≠ '/') ∧ Glob.matchToks endOk ps (s.drop k) = true :=
  Glob.star_no_slash endOk ps s h

theorem question_no_slash (endOk : List Char → Bool) (ps : List Glob.Tok) (s : List Char)
    (h : Glob.matchToks endOk (.one .notSlash :: ps) s = true) :
    ∃ c t, s = c :: t ∧ c ≠ '/' ∧ Glob.matchToks endOk ps t = true :=
  Glob.question_no_slash endOk ps s h

/-- a grant for one directory level does not extend to deeper levels -/
example : Glob.globMatch "/srv/a/x" "/srv/*/**" = some true
    ∧ Glob.globMatch "/srv/a/b/x" "/srv/*/x**" = some false
    ∧ Glob.globMatch "/srv/ab/x" "/srv/a?/**" = some true
    ∧ Glob.globMatch "/srv/a//x" "/srv/a?/x**" = some false := by decide

end Dippy.C09
