/-
C19 — Post-execution feedback rules are advisory only.
-/
import Dippy.Lemmas.Hook
import Dippy.Lemmas.LastMatch
import Dippy.Lemmas.Parse

set_option linter.unusedSimpArgs false

namespace Dippy.C19
open Dippy

/-- on a PostToolUse event the hook prints nothing, one duck-prefixed message, or `{}` (a tool that
    is neither shell nor MCP) – for every stdin and every environment -/
theorem post_output (env : HookEnv) (stdin : Stdin) (hp : isPostEvent stdin = true) :
    hook env stdin = [] ∨ (∃ msg, hook env stdin = [.text (duck msg)]) ∨ hook env stdin = [.json (.obj [])] := by
  cases stdin with
  | undecodable => simp [isPostEvent] at hp
  | notJson => simp [isPostEvent] at hp
  | value j =>
    unfold hook
    simp only
    cases hb : hookBody env j with
    | none => right; right; rfl
    | some mr =>
      obtain ⟨m, r⟩ := mr
      rcases hookBody_post env j m r hp hb with ⟨msg, rfl⟩ | rfl | rfl
      · simp only [render]
        cases Py.truthy msg with
        | none => left; rfl
        | some t => right; left; exact ⟨t, rfl⟩
      · right; right; rfl
      · left; rfl

/-- … and never a permission decision -/
theorem post_no_decision (env : HookEnv) (stdin : Stdin) (hp : isPostEvent stdin = true) :
    decisionOfOut (hook env stdin) = none := by
  rcases post_output env stdin hp with h | ⟨msg, h⟩ | h <;> rw [h] <;> rfl

/-- the message printed is that of the last matching `after` rule (`""` and no message are silent) -/
theorem after_last (env : PathEnv) (cfg : Config) (words : List String) (cwd : String) :
    matchAfter env cfg words cwd
      = ((cfg.afterRules.filter fun r =>
            patternMatches env r.pattern false (normalizedCmd env cfg words cwd false) cwd false).getLast?).map
          fun r => r.message.getD "" := by
  simp only [matchAfter, lastMatch_eq]

theorem after_mcp_last (cfg : Config) (tool : String) :
    matchAfterMcp cfg tool
      = ((cfg.afterMcpRules.filter fun r => Glob.fnmatch tool r.pattern).getLast?).map fun r => r.message.getD "" := by
  unfold matchAfterMcp
  rw [lastMatch_eq]

theorem silent_when_no_rule (m : Mode) : render m (.feedback none) = [] ∧ render m (.feedback (some "")) = [] := by
  constructor <;> rfl

/-! ### after rules never alter a pre-execution verdict -/

/-- the rule lookups of the analysis and the MCP lookup do not read the after rules -/
theorem after_rules_invisible (env : PathEnv) (c₁ c₂ : Config)
    (hr : c₁.rules = c₂.rules) (hd : c₁.redirectRules = c₂.redirectRules) (ha : c₁.aliases = c₂.aliases)
    (hm : c₁.mcpRules = c₂.mcpRules) :
    (∀ ws cwd rem, matchCommand env c₁ ws cwd rem = matchCommand env c₂ ws cwd rem)
    ∧ (∀ t cwd, matchRedirect env c₁ t cwd = matchRedirect env c₂ t cwd)
    ∧ (∀ tool, matchMcp c₁ tool = matchMcp c₂ tool) := by
  refine ⟨?_, ?_, ?_⟩
  · intro ws cwd rem
    unfold matchCommand matchWords normalizedCmd resolveAlias
    rw [hr, ha]
  · intro t cwd
    unfold matchRedirect
    rw [hd]
  · intro tool
    unfold matchMcp
    rw [hm]

/-- a line that yields an after / after-mcp rule -/
def isAfterLine (e : ParseEnv) (l : String) : Bool :=
  match parseLine e l with
  | .after _ => true
  | .afterMcp _ => true
  | _ => false

theorem filterMap_without_after {α : Type} (e : ParseEnv) (lines : List String) (f : LineResult → Option α)
    (h1 : ∀ r, f (.after r) = none) (h2 : ∀ r, f (.afterMcp r) = none) :
    (lines.map (parseLine e)).filterMap f
      = ((lines.filter fun l => !isAfterLine e l).map (parseLine e)).filterMap f := by
  induction lines with
  | nil => rfl
  | cons l ls ih =>
    by_cases hm : isAfterLine e l = true
    · have : f (parseLine e l) = none := by
        unfold isAfterLine at hm
        cases hp : parseLine e l <;> simp_all
      simp [List.filter_cons, hm, List.filterMap_cons, this, ih]
    · simp [List.filter_cons, hm, List.filterMap_cons, ih]

/-- at the level of config text: deleting (or adding) after / after-mcp lines anywhere leaves every
    part of the configuration a pre-execution verdict can depend on unchanged -/
theorem after_lines_invisible (e : ParseEnv) (lines : List String) :
    let full := parseLines e lines
    let without := parseLines e (lines.filter fun l => !isAfterLine e l)
    full.rules = without.rules ∧ full.redirectRules = without.redirectRules
      ∧ full.aliases = without.aliases ∧ full.mcpRules = without.mcpRules := by
  simp only [parseLines_eq, applyAll_rules, applyAll_redirectRules, applyAll_aliases, applyAll_mcpRules]
  refine ⟨?_, ?_, ?_, ?_⟩
  · rw [filterMap_without_after e lines LineResult.ruleOf (fun _ => rfl) (fun _ => rfl)]
  · rw [filterMap_without_after e lines LineResult.redirectOf (fun _ => rfl) (fun _ => rfl)]
  · rw [filterMap_without_after e lines LineResult.aliasOf (fun _ => rfl) (fun _ => rfl)]
  · rw [filterMap_without_after e lines LineResult.mcpOf (fun _ => rfl) (fun _ => rfl)]

/-- any `hook_event_name` other than the string `PostToolUse` (including non-strings) is handled as
    a pre-execution event -/
example : isPostEvent (.value (.obj [("hook_event_name", .str "PostToolUse")])) = true
    ∧ isPostEvent (.value (.obj [("hook_event_name", .str "Other")])) = false
    ∧ isPostEvent (.value (.obj [("hook_event_name", .num false "5")])) = false
    ∧ isPostEvent (.value (.obj [])) = false := by decide

end Dippy.C19
