/-
C15 — Audit logging is a pure observer, even when it fails.
-/
import Dippy.Model.LogFS
import Dippy.Model.Hook
import Dippy.Lemmas.Hook

set_option linter.unusedSimpArgs false

namespace Dippy.C15
open Dippy

/-- every fault the code knows how to swallow -/
def benign (φ : SinkFaults) : Prop := φ.mkdir ≠ .other ∧ φ.open_ ≠ .other ∧ φ.write ≠ .other

/-- under any benign fault schedule, configuring and writing never raise -/
theorem logging_never_raises (cfg : Config) (φ : SinkFaults) (hφ : benign φ) : logOkOf cfg φ = true := by
  obtain ⟨h1, h2, h3⟩ := hφ
  unfold logOkOf configureLogging
  cases hl : cfg.log with
  | none => simp [logDecision]
  | some p =>
    simp only
    cases hm : φ.mkdir <;> simp_all [swallowed, logDecision]
    cases ho : φ.open_ <;> simp_all [swallowed]
    cases hw : φ.write <;> simp_all [swallowed]

/-- **fault transparency**: with the log sinks failing in any benign way the hook's stdout is
    identical to a run where logging works (or is off): the verdict does not depend on the sink -/
theorem log_transparent (env : HookEnv) (cfg : Config) (φ : SinkFaults) (hφ : benign φ) (stdin : Stdin) :
    hook { env with logOk := logOkOf cfg φ } stdin = hook { env with logOk := true } stdin := by
  rw [logging_never_raises cfg φ hφ]

/-- the hypothesis is not decoration: an exception class the code does not swallow turns the verdict into `{}` -/
theorem log_transparent_full_fails :
    ∃ (cfg : Config) (φ : SinkFaults), logOkOf cfg φ = false := by
  exact ⟨{ log := some "/x/log" }, ⟨.ok, .other, .ok⟩, by decide⟩

/-- a failing sink disables logging for the rest of the process instead of retrying -/
theorem failure_disables (st : LogState) (φ : SinkFaults) (p : String) (hp : st.path = some p) (hd : st.disabled = false)
    (ho : φ.open_ = .osError) :
    logDecision st φ "d" "c" none none none "t" = some ({ st with disabled := true }, none) := by
  simp [logDecision, hp, hd, ho, swallowed]

/-- **one line per decision** when the sink works, with exactly the documented keys -/
theorem one_line_per_decision (st : LogState) (p : String) (hp : st.path = some p) (hd : st.disabled = false)
    (decision cmd : String) (rule message command : Option String) (ts : String) :
    logDecision st .allOk decision cmd rule message command ts
      = some (st, some (logEntry st decision cmd rule message command ts)) := by
  simp [logDecision, hp, hd, SinkFaults.allOk]

theorem entry_keys (st : LogState) (decision cmd : String) (rule message command : Option String) (ts : String) :
    ∀ kv ∈ logEntry st decision cmd rule message command ts,
      kv.1 ∈ ["decision", "cmd", "rule", "message", "command", "ts"] := by
  intro kv hkv
  unfold logEntry at hkv
  cases rule <;> cases message <;> cases command <;> cases hf : st.full <;> simp_all <;>
    (rcases hkv with h | h | h | h | h | h <;> simp_all) 

/-- **the full command text is recorded only if log-full is set** -/
theorem full_only_if_set (st : LogState) (decision cmd : String) (rule message command : Option String) (ts : String) :
    (∃ v, ("command", v) ∈ logEntry st decision cmd rule message command ts)
      ↔ (st.full = true ∧ command.isSome = true) := by
  unfold logEntry
  cases rule <;> cases message <;> cases command <;> cases hf : st.full <;> simp

/-- logging is off unless a path is configured -/
theorem no_path_no_log (cfg : Config) (φ : SinkFaults) (h : cfg.log = none) :
    configureLogging cfg φ = some {} := by
  simp [configureLogging, h]

/-! ### concurrent appends -/

/-- whatever the interleaving of N processes' single atomic writes, the file holds each line exactly
    once, whole, in schedule order: a permutation of the lines -/
theorem concurrent_lines (lines : Nat → String) (procs schedule : List Nat) (h : schedule.Perm procs) :
    (fileAfter lines schedule).Perm (procs.map lines) := by
  unfold fileAfter
  exact h.map lines

theorem concurrent_count (lines : Nat → String) (procs schedule : List Nat) (h : schedule.Perm procs) :
    (fileAfter lines schedule).length = procs.length := by
  rw [(concurrent_lines lines procs schedule h).length_eq]; simp

end Dippy.C15
