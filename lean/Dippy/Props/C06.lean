/-
C06 — Hook protocol is total and fails closed.

`HookEnv` supplies *arbitrary* answers for everything external (cwd resolution, config loading,
analysis, tokenisation, log sinks – each may also raise); `Stdin` is any byte string: undecodable,
not JSON, or a JSON value of any shape.  All theorems are ∀ env, ∀ stdin.
-/
import Dippy.Lemmas.Hook
import Dippy.Generated.Hook

set_option linter.unusedSimpArgs false

namespace Dippy.C06
open Dippy

/-- **one object**: for a pre-execution event stdout is exactly one JSON object -/
theorem hook_one_object (env : HookEnv) (stdin : Stdin) (hpre : isPostEvent stdin = false) :
    ∃ o, hook env stdin = [.json (.obj o)] := by
  unfold hook
  cases stdin with
  | undecodable => exact ⟨[], rfl⟩
  | notJson => exact ⟨[], rfl⟩
  | value j =>
    simp only
    cases hb : hookBody env j with
    | none => exact ⟨[], rfl⟩
    | some mr =>
      obtain ⟨m, r⟩ := mr
      have hf := hookBody_pre env j m r hpre hb
      cases r <;> simp [Result.isFeedback] at hf <;> simp only [render]
      · exact ⟨[], rfl⟩
      all_goals (cases m <;> exact ⟨_, rfl⟩)

/-- for *every* stdin the output is one JSON object, one feedback line, or nothing -/
theorem hook_output_shape (env : HookEnv) (stdin : Stdin) :
    (∃ o, hook env stdin = [.json (.obj o)]) ∨ hook env stdin = [] ∨ ∃ t, hook env stdin = [.text t] := by
  unfold hook
  cases stdin with
  | undecodable => left; exact ⟨[], rfl⟩
  | notJson => left; exact ⟨[], rfl⟩
  | value j =>
    simp only
    cases hb : hookBody env j with
    | none => left; exact ⟨[], rfl⟩
    | some mr =>
      obtain ⟨m, r⟩ := mr
      cases r with
      | defer => left; exact ⟨[], rfl⟩
      | configError msg => left; cases m <;> exact ⟨_, rfl⟩
      | bypass pm => left; cases m <;> exact ⟨_, rfl⟩
      | mcp mt => left; cases m <;> exact ⟨_, rfl⟩
      | analysis d c cf cw => left; cases m <;> exact ⟨_, rfl⟩
      | feedback msg =>
        simp only [render]
        cases Py.truthy msg with
        | none => right; left; rfl
        | some t => right; right; exact ⟨_, rfl⟩
      | silent => right; left; rfl

/-- **allow only if**: an allow answer comes from a completed analysis that said allow, an MCP
    rule that says allow, or a declared bypass mode – nothing else -/
theorem hook_allow_only_if (env : HookEnv) (stdin : Stdin)
    (h : decisionOfOut (hook env stdin) = some "allow") :
    ∃ j m r, stdin = .value j ∧ hookBody env j = some (m, r) ∧
      ((∃ d cmd cfg cwd, r = .analysis d cmd cfg cwd ∧ d.action = .allow)
       ∨ (∃ mt, r = .mcp mt ∧ mt.decision = .allow)
       ∨ (∃ pm, r = .bypass pm)) := by
  unfold hook at h
  cases stdin with
  | undecodable => simp [decisionOfOut, decisionOfJson] at h
  | notJson => simp [decisionOfOut, decisionOfJson] at h
  | value j =>
    simp only at h
    cases hb : hookBody env j with
    | none => simp [hb, decisionOfOut, decisionOfJson] at h
    | some mr =>
      obtain ⟨m, r⟩ := mr
      simp only [hb, decisionOf_render] at h
      refine ⟨j, m, r, rfl, hb, ?_⟩
      cases r with
      | defer => simp [Result.verdict] at h
      | configError msg => simp [Result.verdict, Action.toString] at h
      | feedback msg => simp [Result.verdict] at h
      | silent => simp [Result.verdict] at h
      | bypass pm => right; right; exact ⟨pm, rfl⟩
      | mcp mt =>
        right; left
        refine ⟨mt, rfl, ?_⟩
        simp only [Result.verdict, Option.map_some, Option.some.injEq] at h
        cases hd : mt.decision <;> simp [hd, Action.toString] at h <;> rfl
      | analysis d cmd cfg cwd =>
        left
        refine ⟨d, cmd, cfg, cwd, rfl, ?_⟩
        simp only [Result.verdict, Option.map_some, Option.some.injEq] at h
        cases hd : d.action <;> simp [hd, Action.toString] at h <;> rfl

/-! provenance of each kind of result -/

theorem shellPath_analysis (env : HookEnv) (j : PJson) (cfg : Config) (cwd : String) (p : Bool) (c : PJson)
    (d : Decision) (cmd : String) (cfg' : Config) (cwd' : String)
    (h : shellPath env j cfg cwd p c = some (.analysis d cmd cfg' cwd')) :
    c = .str cmd ∧ cfg' = cfg ∧ cwd' = cwd ∧ env.analyze cmd cfg cwd = some d ∧ p = false := by
  cases p with
  | true =>
    obtain ⟨msg, hm⟩ := shellPath_post env j cfg cwd c _ h
    cases hm
  | false =>
    unfold shellPath at h
    split at h
    · cases h
    · split at h <;> simp at h
    · simp only [Bool.false_eq_true, ↓reduceIte] at h
      split at h
      · rename_i s
        split at h
        · rename_i d' hd
          split at h
          · simp only [Option.some.injEq, Result.analysis.injEq] at h
            obtain ⟨rfl, rfl, rfl, rfl⟩ := h
            exact ⟨rfl, rfl, rfl, hd, rfl⟩
          · cases h
        · cases h
      · cases h

/-- an analysis result really is the analysis of a well-formed shell command under the loaded config -/
theorem analysis_provenance (env : HookEnv) (j : PJson) (m : Mode) (d : Decision) (cmd : String) (cfg : Config)
    (cwd : String) (h : hookBody env j = some (m, .analysis d cmd cfg cwd)) :
    env.loadConfig cwd = .ok cfg ∧ env.analyze cmd cfg cwd = some d ∧ hookCwd env j = some cwd := by
  unfold hookBody at h
  split at h
  · cases h
  · split at h
    · cases h
    · rename_i cwd0 hcwd
      split at h
      · cases h
      · dsimp only at h
        split at h
        · cases h
        · split at h <;> simp at h
        · rename_i cfg0 hcfg
          simp only [Option.map_eq_some_iff, Prod.mk.injEq] at h
          obtain ⟨r, hr, _, rfl⟩ := h
          unfold route at hr
          split at hr
          · split at hr
            · obtain ⟨_, rfl, rfl, ha, _⟩ := shellPath_analysis _ _ _ _ _ _ _ _ _ _ hr
              exact ⟨hcfg, ha, hcwd⟩
            · cases hr
          · split at hr
            · split at hr
              · split at hr
                · unfold mcpPath at hr
                  split at hr
                  · cases hr
                  · split at hr <;> simp at hr
                  · split at hr
                    · simp at hr
                    · split at hr
                      · simp at hr
                      · split at hr <;> simp at hr
                · split at hr
                  · simp at hr
                  · split at hr
                    · obtain ⟨_, rfl, rfl, ha, _⟩ := shellPath_analysis _ _ _ _ _ _ _ _ _ _ hr
                      exact ⟨hcfg, ha, hcwd⟩
                    · cases hr
              · cases hr
            · cases hr

/-- **every failure path defers**: whenever anything inside the `try` raises, stdout is `{}` -/
theorem failure_defers (env : HookEnv) (j : PJson) (h : hookBody env j = none) :
    hook env (.value j) = [.json (.obj [])] := by
  simp [hook, h]

theorem not_json_defers (env : HookEnv) : hook env .notJson = [.json (.obj [])] ∧ hook env .undecodable = [.json (.obj [])] :=
  ⟨rfl, rfl⟩

/-- a config layer that cannot be read: ask (pre-execution) or nothing (post-execution), never allow -/
theorem config_error_asks (env : HookEnv) (j : PJson) (m : Mode) (cwd ev : String) (msg : String)
    (hm : hookMode env j = some m) (hc : hookCwd env j = some cwd)
    (he : j.get "hook_event_name" (.str "PreToolUse") = some (.str ev))
    (hl : env.loadConfig cwd = .configError msg) :
    hook env (.value j) = if ev == "PostToolUse" then [] else [.json (envelope m .ask ("config error: " ++ msg))] := by
  by_cases hev : (ev == "PostToolUse") = true <;> simp [hook, hookBody, hm, hc, he, hl, PJson.isStr, hev, render]

theorem load_raise_defers (env : HookEnv) (j : PJson) (m : Mode) (cwd : String) (ev : PJson)
    (hm : hookMode env j = some m) (hc : hookCwd env j = some cwd)
    (he : j.get "hook_event_name" (.str "PreToolUse") = some ev)
    (hl : env.loadConfig cwd = .raised) :
    hook env (.value j) = [.json (.obj [])] := by
  simp [hook, hookBody, hm, hc, he, hl]

/-- an analysis that raises (at any point) defers -/
theorem analysis_raise_defers (env : HookEnv) (j : PJson) (cfg : Config) (cwd cmd : String)
    (hb : bypassOf env j false = some none) (ha : env.analyze cmd cfg cwd = none) :
    shellPath env j cfg cwd false (.str cmd) = none := by
  simp [shellPath, hb, ha]

/-- an unusable cwd (wrong type, or `Path(..).resolve()` raises) defers -/
theorem bad_cwd_defers (env : HookEnv) (j : PJson) (h : hookCwd env j = none) :
    hook env (.value j) = [.json (.obj [])] := by
  unfold hook hookBody
  cases hm : hookMode env j <;> simp [hm, h]

/-- non-shell, non-MCP tools: `{}` -/
theorem other_tool_defers (env : HookEnv) (j : PJson) (cfg : Config) (cwd tool : String) (p : Bool) (ti : PJson)
    (m : Mode) (hm : m ≠ .cursor)
    (ht : j.get "tool_name" (.str "") = some (.str tool)) (hti : j.get "tool_input" (.obj []) = some ti)
    (hn : Py.startsWith tool "mcp__" = false) (hs : env.shellToolNames.contains tool = false) :
    route env m j cfg cwd p = some .defer := by
  have hs' : ¬ tool ∈ env.shellToolNames := by simpa using hs
  unfold route
  cases m with
  | cursor => exact absurd rfl hm
  | claude => simp [ht, hti, hn, hs']
  | gemini => simp [ht, hti, hn, hs']

/-! ### the shape of `main()` itself (T0 obligations, re-checked against the source on every run) -/

/-- `main` = `global MODE; setup_logging(); try: … except json.JSONDecodeError: print({}) except Exception: print({})`,
    nothing after the `try`, no handler re-raises or exits, and bin/dippy-hook just calls `main()`:
    so the process exits 0 and every exception inside the `try` prints `{}` -/
theorem main_shape :
    Generated.mainTryCount = 1
    ∧ Generated.mainHandlers = ["json.JSONDecodeError", "Exception"]
    ∧ Generated.mainBeforeTry = ["global MODE", "setup_logging()"]
    ∧ Generated.mainAfterTry = 0
    ∧ Generated.mainHandlersPrintEmpty = true
    ∧ Generated.entryCallsMain = true := by decide

theorem name_tables :
    Generated.bypassModes = ["bypassPermissions", "dontAsk"]
    ∧ Generated.shellToolNames = ["Bash", "execute_shell", "run_shell", "run_shell_command", "shell"]
    ∧ Generated.geminiNames.all (fun n => Generated.shellToolNames.contains n) = true := by decide

end Dippy.C06
