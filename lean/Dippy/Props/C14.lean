/-
C14 — MCP rules and shell rules never influence each other.

Property theorems only (rule-engine and parser level; the hook-level routing –
"no matching MCP rule ⇒ {}" – is `Dippy.C06.mcp_no_match_defers` in Props/C06).
-/
import Dippy.Lemmas.LastMatch
import Dippy.Lemmas.Parse

set_option linter.unusedSimpArgs false

namespace Dippy.C14
open Dippy

/-- MCP tools: the last matching `*-mcp` glob wins -/
theorem mcp_last (cfg : Config) (tool : String) :
    matchMcp cfg tool
      = ((cfg.mcpRules.filter fun r => Glob.fnmatch tool r.pattern).getLast?).map Rule.toMatch := by
  unfold matchMcp; rw [lastMatch_eq]

theorem mcp_none_iff (cfg : Config) (tool : String) :
    matchMcp cfg tool = none ↔ ∀ r ∈ cfg.mcpRules, Glob.fnmatch tool r.pattern = false := by
  unfold matchMcp
  simp only [Option.map_eq_none_iff]
  exact lastMatch_none

/-- the MCP verdict depends on the `*-mcp` rules only -/
theorem mcp_depends_only_on_mcp_rules (c₁ c₂ : Config) (tool : String) (h : c₁.mcpRules = c₂.mcpRules) :
    matchMcp c₁ tool = matchMcp c₂ tool := by
  unfold matchMcp; rw [h]

theorem after_mcp_depends_only_on_after_mcp_rules (c₁ c₂ : Config) (tool : String)
    (h : c₁.afterMcpRules = c₂.afterMcpRules) : matchAfterMcp c₁ tool = matchAfterMcp c₂ tool := by
  unfold matchAfterMcp; rw [h]

/-- shell commands: the rule lookups depend on command rules, redirect rules and aliases only -/
theorem shell_ignores_mcp (env : PathEnv) (c₁ c₂ : Config)
    (hr : c₁.rules = c₂.rules) (hd : c₁.redirectRules = c₂.redirectRules) (ha : c₁.aliases = c₂.aliases) :
    (∀ ws cwd rem, matchCommand env c₁ ws cwd rem = matchCommand env c₂ ws cwd rem)
    ∧ (∀ t cwd, matchRedirect env c₁ t cwd = matchRedirect env c₂ t cwd) := by
  constructor
  · intro ws cwd rem
    unfold matchCommand matchWords normalizedCmd resolveAlias
    rw [hr, ha]
  · intro t cwd
    unfold matchRedirect
    rw [hd]

/-- hence the whole analysis of any command is the same under both configurations -/
theorem shell_verdict_ignores_mcp (w : World) (env : PathEnv) (c₁ c₂ : Config)
    (hr : c₁.rules = c₂.rules) (hd : c₁.redirectRules = c₂.redirectRules) (ha : c₁.aliases = c₂.aliases) :
    w.withConfig env c₁ = w.withConfig env c₂ := by
  obtain ⟨h1, h2⟩ := shell_ignores_mcp env c₁ c₂ hr hd ha
  unfold World.withConfig
  congr 1
  · funext ws cwd rem; exact h1 ws cwd rem
  · funext t cwd; exact h2 t cwd

/-! ### at the level of config *text* -/

/-- a line that yields an MCP-family rule -/
def isMcpLine (e : ParseEnv) (l : String) : Bool :=
  match parseLine e l with
  | .mcp _ => true
  | .afterMcp _ => true
  | _ => false

/-- a line contributes to at most one rule family -/
theorem line_family (c : Config) (lr : LineResult) :
    let c' := c.apply lr
    (c'.mcpRules = c.mcpRules ∧ c'.afterMcpRules = c.afterMcpRules)
    ∨ (c'.rules = c.rules ∧ c'.redirectRules = c.redirectRules ∧ c'.aliases = c.aliases
        ∧ c'.afterRules = c.afterRules) := by
  cases lr <;> simp [Config.apply]

theorem filterMap_without_mcp {α : Type} (e : ParseEnv) (lines : List String) (f : LineResult → Option α)
    (h1 : ∀ r, f (.mcp r) = none) (h2 : ∀ r, f (.afterMcp r) = none) :
    (lines.map (parseLine e)).filterMap f
      = ((lines.filter fun l => !isMcpLine e l).map (parseLine e)).filterMap f := by
  induction lines with
  | nil => rfl
  | cons l ls ih =>
    by_cases hm : isMcpLine e l = true
    · have : f (parseLine e l) = none := by
        unfold isMcpLine at hm
        cases hp : parseLine e l <;> simp_all
      simp [List.filter_cons, hm, List.filterMap_cons, this, ih]
    · simp [List.filter_cons, hm, List.filterMap_cons, ih]

theorem filterMap_only_mcp {α : Type} (e : ParseEnv) (lines : List String) (f : LineResult → Option α)
    (hf : ∀ lr, (match lr with | .mcp _ => False | .afterMcp _ => False | _ => True) → f lr = none) :
    (lines.map (parseLine e)).filterMap f
      = ((lines.filter fun l => isMcpLine e l).map (parseLine e)).filterMap f := by
  induction lines with
  | nil => rfl
  | cons l ls ih =>
    by_cases hm : isMcpLine e l = true
    · simp [List.filter_cons, hm, List.filterMap_cons, ih]
    · have : f (parseLine e l) = none := by
        apply hf
        unfold isMcpLine at hm
        cases hp : parseLine e l <;> simp_all
      simp [List.filter_cons, hm, List.filterMap_cons, this, ih]

/-- deleting (or adding) MCP lines anywhere in a config text leaves every shell-relevant part of
    the parsed configuration unchanged -/
theorem mcp_lines_invisible_to_shell (e : ParseEnv) (lines : List String) :
    let full := parseLines e lines
    let without := parseLines e (lines.filter fun l => !isMcpLine e l)
    full.rules = without.rules ∧ full.redirectRules = without.redirectRules
      ∧ full.aliases = without.aliases ∧ full.afterRules = without.afterRules := by
  simp only [parseLines_eq, applyAll_rules, applyAll_redirectRules, applyAll_aliases, applyAll_afterRules]
  refine ⟨?_, ?_, ?_, ?_⟩
  · rw [filterMap_without_mcp e lines LineResult.ruleOf (fun _ => rfl) (fun _ => rfl)]
  · rw [filterMap_without_mcp e lines LineResult.redirectOf (fun _ => rfl) (fun _ => rfl)]
  · rw [filterMap_without_mcp e lines LineResult.aliasOf (fun _ => rfl) (fun _ => rfl)]
  · rw [filterMap_without_mcp e lines LineResult.afterOf (fun _ => rfl) (fun _ => rfl)]

/-- symmetrically: deleting every non-MCP line leaves the MCP rule lists unchanged -/
theorem shell_lines_invisible_to_mcp (e : ParseEnv) (lines : List String) :
    let full := parseLines e lines
    let only := parseLines e (lines.filter fun l => isMcpLine e l)
    full.mcpRules = only.mcpRules ∧ full.afterMcpRules = only.afterMcpRules := by
  simp only [parseLines_eq, applyAll_mcpRules, applyAll_afterMcpRules]
  constructor
  · rw [filterMap_only_mcp e lines LineResult.mcpOf (by intro lr h; cases lr <;> simp_all [LineResult.mcpOf])]
  · rw [filterMap_only_mcp e lines LineResult.afterMcpOf (by intro lr h; cases lr <;> simp_all [LineResult.afterMcpOf])]

/-! ### across config layers (`_merge_configs`) -/

/-- merging layers keeps the families apart: the MCP lists of the result are built from the MCP
    lists of the layers alone -/
theorem merge_mcp_only (a a' b b' : Config)
    (ha : a.mcpRules = a'.mcpRules) (hb : b.mcpRules = b'.mcpRules)
    (ha2 : a.afterMcpRules = a'.afterMcpRules) (hb2 : b.afterMcpRules = b'.afterMcpRules) :
    (mergeConfigs a b).mcpRules = (mergeConfigs a' b').mcpRules
      ∧ (mergeConfigs a b).afterMcpRules = (mergeConfigs a' b').afterMcpRules := by
  simp [mergeConfigs, ha, hb, ha2, hb2]

/-- … and the shell-relevant parts from the shell-relevant parts of the layers alone -/
theorem merge_shell_only (a a' b b' : Config)
    (hr : a.rules = a'.rules) (hr' : b.rules = b'.rules)
    (hd : a.redirectRules = a'.redirectRules) (hd' : b.redirectRules = b'.redirectRules)
    (hal : a.aliases = a'.aliases) (hal' : b.aliases = b'.aliases) :
    (mergeConfigs a b).rules = (mergeConfigs a' b').rules
      ∧ (mergeConfigs a b).redirectRules = (mergeConfigs a' b').redirectRules
      ∧ (mergeConfigs a b).aliases = (mergeConfigs a' b').aliases := by
  simp [mergeConfigs, hr, hr', hd, hd', hal, hal']

/-- **layered non-interference, MCP side**: edit the shell lines of any layer (user, project,
    `$DIPPY_CONFIG`) in any way that keeps each layer's MCP lines – the verdict for every MCP tool
    is unchanged -/
theorem layered_mcp_ignores_shell (e : ParseEnv) (u p v u' p' v' : List String) (tool : String)
    (hu : u.filter (isMcpLine e) = u'.filter (isMcpLine e))
    (hp : p.filter (isMcpLine e) = p'.filter (isMcpLine e))
    (hv : v.filter (isMcpLine e) = v'.filter (isMcpLine e)) :
    matchMcp (mergeConfigs (mergeConfigs (parseLines e u) (parseLines e p)) (parseLines e v)) tool
      = matchMcp (mergeConfigs (mergeConfigs (parseLines e u') (parseLines e p')) (parseLines e v')) tool := by
  apply mcp_depends_only_on_mcp_rules
  have key : ∀ a a' : List String, a.filter (isMcpLine e) = a'.filter (isMcpLine e) →
      (parseLines e a).mcpRules = (parseLines e a').mcpRules := by
    intro a a' h
    rw [(shell_lines_invisible_to_mcp e a).1, (shell_lines_invisible_to_mcp e a').1, h]
  simp [mergeConfigs, key u u' hu, key p p' hp, key v v' hv]

/-- **layered non-interference, shell side**: edit the MCP lines of any layer – every shell-relevant
    part of the merged configuration, hence every shell verdict, is unchanged -/
theorem layered_shell_ignores_mcp (w : World) (env : PathEnv) (e : ParseEnv) (u p v u' p' v' : List String)
    (hu : u.filter (fun l => !isMcpLine e l) = u'.filter (fun l => !isMcpLine e l))
    (hp : p.filter (fun l => !isMcpLine e l) = p'.filter (fun l => !isMcpLine e l))
    (hv : v.filter (fun l => !isMcpLine e l) = v'.filter (fun l => !isMcpLine e l)) :
    w.withConfig env (mergeConfigs (mergeConfigs (parseLines e u) (parseLines e p)) (parseLines e v))
      = w.withConfig env (mergeConfigs (mergeConfigs (parseLines e u') (parseLines e p')) (parseLines e v')) := by
  have key : ∀ a a' : List String, a.filter (fun l => !isMcpLine e l) = a'.filter (fun l => !isMcpLine e l) →
      (parseLines e a).rules = (parseLines e a').rules
        ∧ (parseLines e a).redirectRules = (parseLines e a').redirectRules
        ∧ (parseLines e a).aliases = (parseLines e a').aliases := by
    intro a a' h
    have h1 := mcp_lines_invisible_to_shell e a
    have h2 := mcp_lines_invisible_to_shell e a'
    simp only at h1 h2
    rw [h1.1, h1.2.1, h1.2.2.1, h2.1, h2.2.1, h2.2.2.1, h]
    exact ⟨rfl, rfl, rfl⟩
  obtain ⟨u1, u2, u3⟩ := key u u' hu
  obtain ⟨p1, p2, p3⟩ := key p p' hp
  obtain ⟨v1, v2, v3⟩ := key v v' hv
  apply shell_verdict_ignores_mcp <;> simp [mergeConfigs, u1, u2, u3, p1, p2, p3, v1, v2, v3]

/-- non-vacuity: a mixed text really has both families -/
example :
    let e : ParseEnv := ⟨"/h", fun _ => none⟩
    let c := parseLines e ["deny rm", "allow-mcp mcp__gh__*", "deny-mcp mcp__fs__*"]
    c.rules.length = 1 ∧ c.mcpRules.length = 2 := by decide

end Dippy.C14
