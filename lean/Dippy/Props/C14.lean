/-
C14 — MCP rules and shell rules never influence each other.

Property theorems only (rule-engine and parser level; the hook-level routing –
"no matching MCP rule ⇒ {}" – is `Dippy.C06.mcp_no_match_defers` in Props/C06).
-/
import Dippy.Lemmas.LastMatch
import Dippy.Lemmas.Parse

set_option linter.unusedSimpArgs false

namespace Dippy.C14
open Dippy

/-- MCP tools: the last matching `*-mcp` glob wins -/
theorem mcp_last (cfg : Config) (tool : String) :
    matchMcp cfg tool
      = ((cfg.mcpRules.filter fun r => Glob.fnmatch tool r.pattern).getLast?).map Rule.toMatch := by
  unfold matchMcp; rw [lastMatch_eq]

theorem mcp_none_iff (cfg : Config) (tool : String) :
    matchMcp cfg tool = none ↔ ∀ r ∈ cfg.mcpRules, Glob.fnmatch tool r.pattern = false := by
  unfold matchMcp
  simp only [Option.map_eq_none_iff]
  exact lastMatch_none

/-- the MCP verdict depends on the `*-mcp` rules only -/
theorem mcp_depends_only_on_mcp_rules (c₁ c₂ : Config) (tool : String) (h : c₁.mcpRules = c₂.mcpRules) :
    matchMcp c₁ tool = matchMcp c₂ tool := by
  unfold matchMcp; rw [h]

theorem after_mcp_depends_only_on_after_mcp_rules (c₁ c₂ : Config) (tool : String)
    (h : c₁.afterMcpRules = c₂.afterMcpRules) : matchAfterMcp c₁ tool = matchAfterMcp c₂ tool := by
  unfold matchAfterMcp; rw [h]

/-- shell commands: the rule lookups depend on command rules, redirect rules and aliases only -/
theorem shell_ignores_mcp (env : PathEnv) (c₁ c₂ : Config)
    (hr : c₁.rules = c₂.rules) (hd : c₁.redirectRules = c₂.redirectRules) (ha : c₁.aliases = c₂.aliases) :
    (∀ ws cwd rem, matchCommand env c₁ ws cwd rem = matchCommand env c₂ ws cwd rem)
    ∧ (∀ t cwd, matchRedirect env c₁ t cwd = matchRedirect env c₂ t cwd) := by
  constructor
  · intro ws cwd rem
    unfold matchCommand matchWords normalizedCmd resolveAlias
    rw [hr, ha]
  · intro t cwd
    unfold matchRedirect
    rw [hd]

/-- hence the whole analysis of any command is the same under both configurations -/
theorem shell_verdict_ignores_mcp (w : World) (env : PathEnv) (c₁ c₂ : Config)
    (hr : c₁.rules = c₂.rules) (hd : c₁.redirectRules = c₂.redirectRules) (ha : c₁.aliases = c₂.aliases) :
    w.withConfig env c₁ = w.withConfig env c₂ := by
  obtain ⟨h1, h2⟩ := shell_ignores_mcp env c₁ c₂ hr hd ha
  unfold World.withConfig
  congr 1
  · funext ws cwd rem; exact h1 ws cwd rem
  · funext t cwd; exact h2 t cwd

/-! ### at the level of config *text* -/

/-- a line that yields an MCP-family rule -/
def isMcpLine (e : ParseEnv) (l : String) : Bool :=
  match parseLine e l with
  | .mcp _ => true
  | .afterMcp _ => true
  | _ => false

/-- a line contributes to at most one rule family -/
theorem line_family (c : Config) (lr : LineResult) :
    let c' := c.apply lr
    (c'.mcpRules = c.mcpRules ∧ c'.afterMcpRules = c.afterMcpRules)
    ∨ (c'.rules = c.rules ∧ c'.redirectRules = c.redirectRules ∧ c'.aliases = c.aliases
        ∧ c'.afterRules = c.afterRules) := by
  cases lr <;> simp [Config.apply]

theorem filterMap_without_mcp {α : Type} (e : ParseEnv) (lines : List String) (f : LineResult → Option α)
    (h1 : ∀ r, f (.mcp r) = none) (h2 : ∀ r, f (.afterMcp r) = none) :
    (lines.map (parseLine e)).filterMap f
      = ((lines.filter fun l => !isMcpLine e l).map (parseLine e)).filterMap f := by
  induction lines with
  | nil => rfl
  | cons l ls ih =>
    by_cases hm : isMcpLine e l = true
    · have : f (parseLine e l) = none := by
        unfold isMcpLine at hm
        cases hp : parseLine e l <;> simp_all
      simp [List.filter_cons, hm, List.filterMap_cons, this, ih]
    · simp [List.filter_cons, hm, List.filterMap_cons, ih]

theorem filterMap_only_mcp {α : Type} (e : ParseEnv) (lines : List String) (f : LineResult → Option α)
    (hf : ∀ lr, (match lr with | .mcp _ => False | .afterMcp _ => False | _ => True) → f lr = none) :
    (lines.map (parseLine e)).filterMap f
      = ((lines.filter fun l => isMcpLine e l).map (parseLine e)).filterMap f := by
  induction lines with
  | nil => rfl
  | cons l ls ih =>
    by_cases hm : isMcpLine e l = true
    · simp [List.filter_cons, hm, List.filterMap_cons, ih]
    · have : f (parseLine e l) = none := by
        apply hf
        unfold isMcpLine at hm
        cases hp : parseLine e l <;> simp_all
      simp [List.filter_cons, hm, List.filterMap_cons, this, ih]

/-- deleting (or adding) MCP lines anywhere in a config text leaves every shell-relevant part of
    the parsed configuration unchanged -/
theorem mcp_lines_invisible_to_shell (e : ParseEnv) (lines : List String) :
    let full := parseLines e lines
    let without := parseLines e (lines.filter fun l => !isMcpLine e l)
    full.rules = without.rules ∧ full.redirectRules = without.redirectRules
      ∧ full.aliases = without.aliases ∧ full.afterRules = without.afterRules := by
  simp only [parseLines_eq, applyAll_rules, applyAll_redirectRules, applyAll_aliases, applyAll_afterRules]
  refine ⟨?_, ?_, ?_, ?_⟩
  · rw [filterMap_without_mcp e lines LineResult.ruleOf (fun _ => rfl) (fun _ => rfl)]
  · rw [filterMap_without_mcp e lines LineResult.redirectOf (fun _ => rfl) (fun _ => rfl)]
  · rw [filterMap_without_mcp e lines LineResult.aliasOf (fun _ => rfl) (fun _ => rfl)]
  · rw [filterMap_without_mcp e lines LineResult.afterOf (fun _ => rfl) (fun _ => rfl)]

/-- symmetrically: deleting every non-MCP line leaves the MCP rule lists unchanged -/
theorem shell_lines_invisible_to_mcp (e : ParseEnv) (lines : List String) :
    let full := parseLines e lines
    let only := parseLines e (lines.filter fun l => isMcpLine e l)
    full.mcpRules = only.mcpRules ∧ full.afterMcpRules = only.afterMcpRules := by
  simp only [parseLines_eq, applyAll_mcpRules, applyAll_afterMcpRules]
  constructor
  · rw [filterMap_only_mcp e lines LineResult.mcpOf (by intro lr h; cases lr <;> simp_all [LineResult.mcpOf])]
  · rw [filterMap_only_mcp e lines LineResult.afterMcpOf (by intro lr h; cases lr <;> simp_all [LineResult.afterMcpOf])]

/-- non-vacuity: a mixed text really has both families -/
example :
    let e : ParseEnv := ⟨"/h", fun _ => none⟩
    let c := parseLines e ["deny rm", "allow-mcp mcp__gh__*", "deny-mcp mcp__fs__*"]
    c.rules.length = 1 ∧ c.mcpRules.length = 2 := by decide

end Dippy.C14
