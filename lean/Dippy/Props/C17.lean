/-
C17 — the command-line half: the file Dippy analyses is the file CPython would run.

The AST checker (`SafetyAnalyzer`) is modelled in Model/PyAst.lean over a generic Python AST; the section
"the checker reaches every node" below proves that an approved tree contains, at any depth and in any
field, no import of a module outside the safe list, no reference to a refused builtin, no reflection
attribute, no dangerous method, no async construct.  CPython's run-time behaviour is not modelled:
"a script that passes the checker raises no dangerous audit event" is exercised by T2 with an audit
hook, see harness/props/c17.py.  The command-line half:
  * `runs_analysed_file`: if `python …` is approved then, by CPython's argv grammar (`pythonRuns`,
    written independently), the command only prints help/version, or runs `-m calendar`, or runs a
    script whose file – resolved in the command's cwd – passed the analysis;
  * `program_args_inert`: whatever follows the script word (options of the script itself:
    `--version`, `-h`, `-c`, `-m` …) does not change the verdict;
  * `approval_needs`: the only three ways to an approval; `stdin_program_asks`, `inline_code_asks`;
  * T0 facts: suffix and size gates, module tables disjoint.
-/
import Dippy.Model.PyCli
import Dippy.Lemmas.PyWalk
import Dippy.Lemmas.PyFile
import Dippy.Generated.PyAst

namespace Dippy.C17

open Dippy Dippy.PyCli Generated.PyCli

set_option linter.unusedSimpArgs false

def safeIn (opts : List String) : Bool := opts.any (fun o => safeFlags.contains o)

/-- T0 facts about the two flag tables the proofs rely on -/
theorem safe_flag_facts (t : String) (h : t ∈ safeFlags) :
    t ≠ "-" ∧ t ≠ "-c" ∧ t ≠ "-m" ∧ t ∉ flagsWithArg ∧ Py.startsWith t "-" = true := by
  have hall : safeFlags.all (fun t => !(t == "-") && !(t == "-c") && !(t == "-m") && !flagsWithArg.contains t && Py.startsWith t "-") = true := by
    decide +kernel
  have := List.all_eq_true.mp hall t h
  simp only [Bool.and_eq_true, Bool.not_eq_true', beq_eq_false_iff_ne, ne_eq, List.contains_eq_mem, decide_eq_false_iff_not] at this
  exact ⟨this.1.1.1.1, this.1.1.1.2, this.1.1.2, this.1.2, this.2⟩

theorem table_facts :
    "-" ∉ safeFlags ∧ "-c" ∉ safeFlags ∧ "-m" ∉ safeFlags ∧ "-" ∉ flagsWithArg := by
  decide +kernel

/-- what the handler's scans say (`o` = option words, `m` = the `-m` module, `fs` = the script word found), for each
    thing `r` CPython may do -/
def SpecOf (o : List String) (m : Option String) (fs : Option String) : Runs → Prop
  | .infoOnly => True
  | .stdin => safeIn o = false ∧ "-c" ∉ o ∧ "-m" ∉ o ∧ "-" ∈ o
  | .code _ => safeIn o = false ∧ "-c" ∈ o
  | .module m' => safeIn o = false ∧ "-c" ∉ o ∧ "-m" ∈ o ∧ m = m'
  | .script s _ => safeIn o = false ∧ "-c" ∉ o ∧ "-m" ∉ o ∧ "-" ∉ o ∧ fs = some s
  | .interactive => safeIn o = false ∧ "-c" ∉ o ∧ "-m" ∉ o ∧ "-" ∉ o ∧ fs = none

def Spec (b : Bool) (l : List String) : Prop :=
  SpecOf (splitOpts b l).1 (splitOpts b l).2.1 (findScript b l) (pythonRuns b l)

theorem safeIn_cons (t : String) (o : List String) : safeIn (t :: o) = (safeFlags.contains t || safeIn o) := by
  simp [safeIn]

/-- one more (non-terminating, non-safe) option word in front does not change what `SpecOf` says -/
theorem spec_cons (t : String) (o : List String) (m : Option String) (r : Runs) (fs : Option String)
    (hsafe : t ∉ safeFlags) (hd : t ≠ "-") (hc : t ≠ "-c") (hm : t ≠ "-m")
    (h : SpecOf o m fs r) : SpecOf (t :: o) m fs r := by
  have hs : safeFlags.contains t = false := by simpa using hsafe
  have e1 : ∀ x : String, x ≠ t → (x ∈ t :: o ↔ x ∈ o) := by
    intro x hx; simp [hx]
  have c1 := e1 "-c" (fun h => hc h.symm)
  have c2 := e1 "-m" (fun h => hm h.symm)
  have c3 := e1 "-" (fun h => hd h.symm)
  cases r <;> simp only [SpecOf, safeIn_cons, hs, Bool.false_or, c1, c2, c3] at h ⊢ <;> exact h

/-- when no help/version letter precedes the deciding character, the handler's reading of a cluster is CPython's -/
theorem cluster_agrees (cs : List Char) (info : Bool) (h : (clusterSpecChars cs info).info = false) :
    scanChars cs = (clusterSpecChars cs info).kind := by
  induction cs generalizing info with
  | nil => rfl
  | cons c rest ih =>
    unfold clusterSpecChars at h ⊢
    unfold scanChars
    by_cases hc : c = 'c'
    · subst hc; simp
    · by_cases hm : c = 'm'
      · subst hm; simp
      · by_cases hw : (c = 'W' || c = 'X') = true
        · simp [hc, hm, hw]
        · have hw' : (c = 'W' || c = 'X') = false := by simpa using hw
          simp only [hc, hm, hw', ↓reduceIte, Bool.false_eq_true] at h ⊢
          exact ih _ h

theorem spec_holds (b : Bool) (l : List String) : Spec b l := by
  induction l generalizing b with
  | nil => cases b <;> simp [Spec, SpecOf, pythonRuns, splitOpts, findScript, safeIn]
  | cons t rest ih =>
    cases b with
    | true =>
      have := ih false
      simpa [Spec, pythonRuns, splitOpts, findScript] using this
    | false =>
      obtain ⟨f1, f2, f3, f4⟩ := table_facts
      by_cases hsafe : t ∈ safeFlags
      · have e1 : pythonRuns false (t :: rest) = .infoOnly := by simp [pythonRuns, hsafe]
        unfold Spec
        simp only [e1, SpecOf]
      · by_cases hd : t = "-"
        · subst hd
          have e1 : pythonRuns false ("-" :: rest) = .stdin := by simp [pythonRuns, hsafe]
          have e2 : (splitOpts false ("-" :: rest)).1 = ["-"] := by simp [splitOpts]
          unfold Spec
          simp only [e1, e2, SpecOf]
          simp [safeIn, f1]
        · by_cases hc : t = "-c"
          · subst hc
            have e1 : pythonRuns false ("-c" :: rest) = .code (rest.headD "") := by simp [pythonRuns, hsafe]
            have e2 : (splitOpts false ("-c" :: rest)).1 = ["-c"] := by simp [splitOpts]
            unfold Spec
            simp only [e1, e2, SpecOf]
            simp [safeIn, f2]
          · by_cases hm : t = "-m"
            · subst hm
              have e1 : pythonRuns false ("-m" :: rest) = .module rest.head? := by simp [pythonRuns, hsafe]
              have e2 : (splitOpts false ("-m" :: rest)) = (["-m"], rest.head?, rest.drop 1) := by simp [splitOpts]
              unfold Spec
              simp only [e1, e2, SpecOf]
              simp [safeIn, f3]
            · by_cases hw : t ∈ flagsWithArg
              · have e1 : pythonRuns false (t :: rest) = pythonRuns true rest := by simp [pythonRuns, hsafe, hd, hc, hm, hw]
                have e2 : splitOpts false (t :: rest) = (t :: (splitOpts true rest).1, (splitOpts true rest).2.1, (splitOpts true rest).2.2) := by
                  simp [splitOpts, hd, hc, hm, hw]
                have e3 : findScript false (t :: rest) = findScript true rest := by simp [findScript, hsafe, hc, hm, hw]
                have := ih true
                unfold Spec at this ⊢
                simp only [e1, e2, e3]
                exact spec_cons t _ _ _ _ hsafe hd hc hm this
              · -- neither a tabled word nor `-`: a cluster, a long option, or the script word
                by_cases hshort : (Py.startsWith t "-" && !Py.startsWith t "--" && decide (t.length ≥ 2)) = true
                · have hs1 : Py.startsWith t "-" = true := by
                    simp only [Bool.and_eq_true, Bool.not_eq_true', decide_eq_true_eq] at hshort; exact hshort.1.1
                  have hs2 : Py.startsWith t "--" = false := by
                    simp only [Bool.and_eq_true, Bool.not_eq_true', decide_eq_true_eq] at hshort; exact hshort.1.2
                  have hs3 : ¬ (t.length < 2) := by
                    simp only [Bool.and_eq_true, Bool.not_eq_true', decide_eq_true_eq] at hshort; omega
                  have escan : scanCluster t = scanChars t.toList.tail := by
                    simp [scanCluster, hs1, hs2, hs3]
                  cases hinfo : (clusterSpecChars t.toList.tail false).info with
                  | true =>
                    have e1 : pythonRuns false (t :: rest) = .infoOnly := by
                      simp [pythonRuns, hsafe, hd, hc, hm, hw, hshort, hinfo]
                    unfold Spec
                    simp only [e1, SpecOf]
                  | false =>
                    have hk := cluster_agrees t.toList.tail false hinfo
                    rw [← escan] at hk
                    cases hkind : scanCluster t with
                    | code =>
                      have e1 : pythonRuns false (t :: rest) = .code (rest.headD "") := by
                        simp [pythonRuns, hsafe, hd, hc, hm, hw, hshort, hinfo, ← hk, hkind]
                      have e2 : (splitOpts false (t :: rest)).1 = ["-c"] := by simp [splitOpts, hd, hc, hm, hw, hkind]
                      unfold Spec
                      simp only [e1, e2, SpecOf]
                      simp [safeIn, f2]
                    | module att =>
                      by_cases hatt : att.isEmpty = true
                      · have e1 : pythonRuns false (t :: rest) = .module rest.head? := by
                          simp [pythonRuns, hsafe, hd, hc, hm, hw, hshort, hinfo, ← hk, hkind, hatt]
                        have e2 : splitOpts false (t :: rest) = (["-m"], rest.head?, rest.drop 1) := by
                          simp [splitOpts, hd, hc, hm, hw, hkind, hatt]
                        unfold Spec
                        simp only [e1, e2, SpecOf]
                        simp [safeIn, f3]
                      · have e1 : pythonRuns false (t :: rest) = .module (some att) := by
                          simp [pythonRuns, hsafe, hd, hc, hm, hw, hshort, hinfo, ← hk, hkind, hatt]
                        have e2 : splitOpts false (t :: rest) = (["-m"], some att, rest) := by
                          simp [splitOpts, hd, hc, hm, hw, hkind, hatt]
                        unfold Spec
                        simp only [e1, e2, SpecOf]
                        simp [safeIn, f3]
                    | takesNext =>
                      have e1 : pythonRuns false (t :: rest) = pythonRuns true rest := by
                        simp [pythonRuns, hsafe, hd, hc, hm, hw, hshort, hinfo, ← hk, hkind]
                      have e2 : splitOpts false (t :: rest) = (t :: (splitOpts true rest).1, (splitOpts true rest).2.1, (splitOpts true rest).2.2) := by
                        simp [splitOpts, hd, hc, hm, hw, hkind]
                      have e3 : findScript false (t :: rest) = findScript true rest := by simp [findScript, hsafe, hc, hm, hw, hkind]
                      have := ih true
                      unfold Spec at this ⊢
                      simp only [e1, e2, e3]
                      exact spec_cons t _ _ _ _ hsafe hd hc hm this
                    | plain =>
                      have e1 : pythonRuns false (t :: rest) = pythonRuns false rest := by
                        simp [pythonRuns, hsafe, hd, hc, hm, hw, hshort, hinfo, ← hk, hkind]
                      have e2 : splitOpts false (t :: rest) = (t :: (splitOpts false rest).1, (splitOpts false rest).2.1, (splitOpts false rest).2.2) := by
                        simp [splitOpts, hd, hc, hm, hw, hkind, hs1]
                      have e3 : findScript false (t :: rest) = findScript false rest := by simp [findScript, hsafe, hc, hm, hw, hkind, hs1]
                      have := ih false
                      unfold Spec at this ⊢
                      simp only [e1, e2, e3]
                      exact spec_cons t _ _ _ _ hsafe hd hc hm this
                · have hshort' : (Py.startsWith t "-" && !Py.startsWith t "--" && decide (t.length ≥ 2)) = false := by simpa using hshort
                  -- a long option (or a one-character word): `_scan_cluster` says plain
                  have hplain : scanCluster t = .plain := by
                    unfold scanCluster
                    by_cases h1 : Py.startsWith t "-" = true
                    · by_cases h2 : Py.startsWith t "--" = true
                      · simp [h1, h2]
                      · have h2' : Py.startsWith t "--" = false := by simpa using h2
                        have h3 : t.length < 2 := by
                          simp only [h1, h2', Bool.not_false, Bool.and_self, Bool.true_and, decide_eq_false_iff_not] at hshort'
                          omega
                        simp [h1, h2', h3]
                    · have h1' : Py.startsWith t "-" = false := by simpa using h1
                      simp [h1']
                  have hsafeb : safeFlags.contains t = false := by simpa using hsafe
                  have hwb : flagsWithArg.contains t = false := by simpa using hw
                  have hdb : (t == "-") = false := by simpa using hd
                  have hcb : (t == "-c") = false := by simpa using hc
                  have hmb : (t == "-m") = false := by simpa using hm
                  by_cases hs : Py.startsWith t "-" = true
                  · have e1 : pythonRuns false (t :: rest) = pythonRuns false rest := by
                      simp only [pythonRuns, hsafeb, hdb, hcb, hmb, hwb, hshort', Bool.false_eq_true, ↓reduceIte]
                      simp only [hs, ↓reduceIte]
                    have e2 : splitOpts false (t :: rest) = (t :: (splitOpts false rest).1, (splitOpts false rest).2.1, (splitOpts false rest).2.2) := by
                      simp [splitOpts, hd, hc, hm, hw, hplain, hs]
                    have e3 : findScript false (t :: rest) = findScript false rest := by simp [findScript, hsafe, hc, hm, hw, hplain, hs]
                    have := ih false
                    unfold Spec at this ⊢
                    simp only [e1, e2, e3]
                    exact spec_cons t _ _ _ _ hsafe hd hc hm this
                  · have hs' : Py.startsWith t "-" = false := by simpa using hs
                    have e1 : pythonRuns false (t :: rest) = .script t rest := by
                      simp only [pythonRuns, hsafeb, hdb, hcb, hmb, hwb, hshort', Bool.false_eq_true, ↓reduceIte]
                      simp only [hs', Bool.false_eq_true, ↓reduceIte]
                    have e2 : (splitOpts false (t :: rest)).1 = [] := by simp [splitOpts, hd, hc, hm, hw, hplain, hs']
                    have e3 : findScript false (t :: rest) = some t := by simp [findScript, hsafe, hc, hm, hw, hplain, hs']
                    unfold Spec
                    simp only [e1, e2, e3, SpecOf]
                    simp [safeIn]

variable (env : Env)

/-- what an approved command may do: print help/version, run the calendar module, or run a script whose
    file – resolved against the command's cwd – passed the analysis -/
def Acceptable (env : Env) (cwd : String) : Runs → Prop
  | .infoOnly => True
  | .module m' => m' = some "calendar"
  | .script s _ => scriptRefused s = false ∧ env.fileSafe (env.resolve cwd s) = true
  | _ => False

/-- the decision against the specification: approval only in the three intended situations -/
theorem decideV_allowed (cwd : String) (o : List String) (m fs : Option String) (r : Runs) (hs : SpecOf o m fs r)
    (h : (decideV env cwd o m fs).allowed = true) : Acceptable env cwd r := by
  have cont : ∀ x : String, x ∉ o → o.contains x = false := by intro x hx; simpa using hx
  have cont' : ∀ x : String, x ∈ o → o.contains x = true := by intro x hx; simpa using hx
  unfold decideV at h
  cases r with
  | infoOnly => trivial
  | interactive =>
    obtain ⟨h1, h2, h3, h4, h5⟩ := hs
    simp only [safeIn] at h1
    simp only [h1, cont _ h2, cont _ h3, cont _ h4, h5, Bool.false_eq_true, ↓reduceIte, Bool.or_false] at h
    split at h
    · simp [Verdict.allowed] at h
    · split at h <;> simp [Verdict.allowed] at h
  | stdin =>
    obtain ⟨h1, h2, h3, h4⟩ := hs
    simp only [safeIn] at h1
    simp only [h1, cont _ h2, cont _ h3, cont' _ h4, Bool.false_eq_true, ↓reduceIte, Bool.or_true] at h
    simp [Verdict.allowed] at h
  | code c =>
    obtain ⟨h1, h2⟩ := hs
    simp only [safeIn] at h1
    simp only [h1, cont' _ h2, Bool.false_eq_true, ↓reduceIte] at h
    simp [Verdict.allowed] at h
  | module m' =>
    obtain ⟨h1, h2, h3, h4⟩ := hs
    simp only [safeIn] at h1
    simp only [h1, cont _ h2, cont' _ h3, Bool.false_eq_true, ↓reduceIte] at h
    split at h
    · rename_i hcal
      have : m = some "calendar" := by simpa using hcal
      show m' = some "calendar"
      rw [← h4]; exact this
    · simp [Verdict.allowed] at h
  | script s args =>
    obtain ⟨h1, h2, h3, h4, h5⟩ := hs
    simp only [safeIn] at h1
    simp only [h1, cont _ h2, cont _ h3, cont _ h4, h5, Bool.false_eq_true, ↓reduceIte, Bool.or_false] at h
    split at h
    · simp [Verdict.allowed] at h
    · split at h
      · simp [Verdict.allowed] at h
      · show scriptRefused s = false ∧ env.fileSafe (env.resolve cwd s) = true
        split at h
        · simp [Verdict.allowed] at h
        · rename_i hr
          exact ⟨by simpa using hr, by simpa [Verdict.allowed] using h⟩

/-- an approved python command: by CPython's own argv grammar it prints help/version, runs the calendar
    module, or runs a script whose file – resolved against the command's cwd – passed the analysis -/
theorem runs_analysed_file (cwd py : String) (l : List String) (h : (classify env cwd (py :: l)).allowed = true) :
    Acceptable env cwd (pythonRuns false l) := by
  cases l with
  | nil => simp [classify, Verdict.allowed] at h
  | cons t rest =>
    have hlen : ¬ ((py :: t :: rest).length < 2) := by simp
    unfold classify at h
    rw [if_neg hlen] at h
    exact decideV_allowed env cwd _ _ _ _ (spec_holds false (t :: rest)) h

/-- T0 fact: `~` is among the refused prefixes – a script word the shell would tilde-expand is never resolved
    (against the cwd it would name `<cwd>/~/…`, not the file that runs) -/
theorem tilde_refused (s : String) (h : scriptRefused s = false) : Py.startsWith s "~" = false := by
  have hm : "~" ∈ scriptRefusedPrefixes := by decide +kernel
  cases hs : Py.startsWith s "~" with
  | false => rfl
  | true =>
    have : scriptRefused s = true := by
      simp only [scriptRefused, List.any_eq_true]
      exact ⟨"~", hm, hs⟩
    rw [h] at this; cases this

/-- `python3 ~/tool.py` is never approved, whatever lies at `<cwd>/~/tool.py` -/
theorem tilde_script_asks (cwd py : String) (l : List String) (s : String) (args : List String)
    (hr : pythonRuns false l = .script s args) (ht : Py.startsWith s "~" = true) :
    (classify env cwd (py :: l)).allowed = false := by
  cases ha : (classify env cwd (py :: l)).allowed with
  | false => rfl
  | true =>
    have := runs_analysed_file env cwd py l ha
    rw [hr] at this
    have := tilde_refused s this.1
    rw [ht] at this; cases this

/-- the only ways to an approval -/
theorem approval_needs (cwd : String) (o : List String) (m fs : Option String) (h : (decideV env cwd o m fs).allowed = true) :
    decideV env cwd o m fs = .safeFlag ∨ decideV env cwd o m fs = .moduleCalendar
      ∨ ∃ s, fs = some s ∧ decideV env cwd o m fs = .analysed (env.resolve cwd s) true ∧ env.fileSafe (env.resolve cwd s) = true := by
  unfold decideV at h ⊢
  cases h1 : (o.any fun o => safeFlags.contains o) <;> simp only [h1, Bool.false_eq_true, ↓reduceIte] at h ⊢
  · cases h2 : o.contains "-c" <;> simp only [h2, Bool.false_eq_true, ↓reduceIte] at h ⊢
    · cases h3 : o.contains "-m" <;> simp only [h3, Bool.false_eq_true, ↓reduceIte] at h ⊢
      · cases h4 : (o.contains "-i" || o.contains "-") <;> simp only [h4, Bool.false_eq_true, ↓reduceIte] at h ⊢
        · cases h5 : o.any hasSkipLine <;> simp only [h5, Bool.false_eq_true, ↓reduceIte] at h ⊢
          · cases fs with
            | none => simp [Verdict.allowed] at h
            | some s =>
              simp only at h ⊢
              split at h
              · simp [Verdict.allowed] at h
              · rename_i hr
                simp only [Verdict.allowed] at h
                simp only [hr, Bool.false_eq_true, ↓reduceIte]
                exact Or.inr (Or.inr ⟨s, rfl, by simp only [h], h⟩)
          · simp [Verdict.allowed] at h
        · simp [Verdict.allowed] at h
      · cases h4 : (m == some "calendar") <;> simp only [h4, Bool.false_eq_true, ↓reduceIte] at h ⊢
        · simp [Verdict.allowed] at h
        · simp
    · simp [Verdict.allowed] at h
  · simp

/-- a prefix of interpreter options in front of the script word -/
inductive OptPrefix : Bool → List String → Prop where
  | nil : OptPrefix false []
  | value (t : String) (rest : List String) : OptPrefix false rest → OptPrefix true (t :: rest)
  | withArg (t : String) (rest : List String) : t ≠ "-" → t ≠ "-c" → t ≠ "-m" → t ∈ flagsWithArg →
      OptPrefix true rest → OptPrefix false (t :: rest)
  | clusterArg (t : String) (rest : List String) : t ≠ "-" → t ≠ "-c" → t ≠ "-m" → t ∉ flagsWithArg → t ∉ safeFlags →
      scanCluster t = .takesNext → OptPrefix true rest → OptPrefix false (t :: rest)
  | flag (t : String) (rest : List String) : t ≠ "-" → t ≠ "-c" → t ≠ "-m" → t ∉ flagsWithArg →
      scanCluster t = .plain → Py.startsWith t "-" = true → OptPrefix false rest → OptPrefix false (t :: rest)

theorem split_prefix (b : Bool) (pre : List String) (s : String) (args args' : List String) (hp : OptPrefix b pre)
    (hs : Py.startsWith s "-" = false) :
    (splitOpts b (pre ++ s :: args)).1 = (splitOpts b (pre ++ s :: args')).1
      ∧ (splitOpts b (pre ++ s :: args)).2.1 = (splitOpts b (pre ++ s :: args')).2.1
      ∧ findScript b (pre ++ s :: args) = findScript b (pre ++ s :: args') := by
  have hs1 : s ≠ "-" := by intro h; subst h; revert hs; decide +kernel
  have hs2 : s ≠ "-c" := by intro h; subst h; revert hs; decide +kernel
  have hs3 : s ≠ "-m" := by intro h; subst h; revert hs; decide +kernel
  have hs4 : s ∉ flagsWithArg := by
    intro h
    have hall : flagsWithArg.all (fun t => Py.startsWith t "-") = true := by decide +kernel
    have := List.all_eq_true.mp hall s h
    rw [hs] at this; cases this
  have hs5 : s ∉ safeFlags := by
    intro h
    have := (safe_flag_facts s h).2.2.2.2; rw [hs] at this; cases this
  have hs6 : scanCluster s = .plain := by simp [scanCluster, hs]
  induction hp with
  | nil => simp [splitOpts, findScript, hs, hs1, hs2, hs3, hs4, hs5, hs6]
  | value t rest _ ih => simpa [splitOpts, findScript] using ih
  | withArg t rest h1 h2 h3 h4 _ ih =>
    have h5 : t ∉ safeFlags := fun h => (safe_flag_facts t h).2.2.2.1 h4
    have hcm : (t == "-c" || t == "-m") = false := by simp [h2, h3]
    simp only [List.cons_append, splitOpts, findScript, hcm, beq_iff_eq, h1, h2, h3, List.contains_eq_mem, h4, h5, decide_true, decide_false,
      Bool.false_eq_true, ↓reduceIte, or_self]
    exact ⟨by rw [ih.1], ih.2.1, ih.2.2⟩
  | clusterArg t rest h1 h2 h3 h4 h5 hk _ ih =>
    have hcm : (t == "-c" || t == "-m") = false := by simp [h2, h3]
    simp only [List.cons_append, splitOpts, findScript, hcm, beq_iff_eq, h1, h2, h3, List.contains_eq_mem, h4, h5, hk, decide_true, decide_false,
      Bool.false_eq_true, ↓reduceIte, or_self]
    exact ⟨by rw [ih.1], ih.2.1, ih.2.2⟩
  | flag t rest h1 h2 h3 h4 hk h5 _ ih =>
    have hcm : (t == "-c" || t == "-m") = false := by simp [h2, h3]
    by_cases h6 : t ∈ safeFlags
    · simp only [List.cons_append, splitOpts, findScript, hcm, beq_iff_eq, h1, h2, h3, List.contains_eq_mem, h4, h5, h6, hk, decide_true, decide_false,
        Bool.false_eq_true, ↓reduceIte, or_self]
      exact ⟨by rw [ih.1], ih.2.1, trivial⟩
    · simp only [List.cons_append, splitOpts, findScript, hcm, beq_iff_eq, h1, h2, h3, List.contains_eq_mem, h4, h5, h6, hk, decide_true, decide_false,
        Bool.false_eq_true, ↓reduceIte, or_self]
      exact ⟨by rw [ih.1], ih.2.1, ih.2.2⟩

/-- whatever follows the script word belongs to the script: it cannot change the verdict -/
theorem program_args_inert (cwd py : String) (pre : List String) (s : String) (args args' : List String)
    (hp : OptPrefix false pre) (hs : Py.startsWith s "-" = false) :
    classify env cwd (py :: (pre ++ s :: args)) = classify env cwd (py :: (pre ++ s :: args')) := by
  obtain ⟨h1, h2, h3⟩ := split_prefix false pre s args args' hp hs
  unfold classify
  have hl : ∀ a : List String, ¬ ((py :: (pre ++ s :: a)).length < 2) := by
    intro a; simp; omega
  simp only [hl, ↓reduceIte, List.drop_succ_cons, List.drop_zero, h1, h2, h3]

/-- a program read from stdin, inline code: never approved, whatever file names follow -/
theorem stdin_program_asks (cwd py : String) (l : List String) (h : pythonRuns false l = .stdin) :
    (classify env cwd (py :: l)).allowed = false := by
  cases ha : (classify env cwd (py :: l)).allowed with
  | false => rfl
  | true => have := runs_analysed_file env cwd py l ha; rw [h] at this; exact this.elim

theorem inline_code_asks (cwd py : String) (l : List String) (c : String) (h : pythonRuns false l = .code c) :
    (classify env cwd (py :: l)).allowed = false := by
  cases ha : (classify env cwd (py :: l)).allowed with
  | false => rfl
  | true => have := runs_analysed_file env cwd py l ha; rw [h] at this; exact this.elim

/-! ### T0 facts -/

theorem file_gates : scriptSuffixes = [".py", ".pyw"] ∧ sizeLimit = 100000 := by decide

theorem module_tables_disjoint : safeModules.all (fun m => !dangerousModules.contains m) = true := by decide +kernel

/-! ### examples -/

example : pythonRuns false ["bad.py", "--version"] = .script "bad.py" ["--version"] := by decide +kernel
example : pythonRuns false ["-W", "-h", "bad.py"] = .script "bad.py" [] := by decide +kernel
example : pythonRuns false ["-", "safe.py"] = .stdin := by decide +kernel
example : (splitOpts false ["-B", "-m", "calendar", "-h"]) = (["-B", "-m"], some "calendar", ["-h"]) := by decide +kernel

/-! ### the checker reaches every node

`PyAst.visit` is `SafetyAnalyzer.visit` (tied by T1 on generated scripts, the repository's own sources
and the standard library as a corpus); `PyAst.Desc` is "is a node of the tree", written without
reference to the visitor. -/

section checker
open Dippy.PyAst

/-- the tables of python.py, as T0 reads them from the source on every run -/
def srcTables : Tables :=
  { safeModules := Generated.PyAst.safeModules, dangerousModules := Generated.PyAst.dangerousModules,
    dangerousBuiltins := Generated.PyAst.dangerousBuiltins, dangerousAttrs := Generated.PyAst.dangerousAttrs,
    reflectionAttrs := Generated.PyAst.reflectionAttrs, moduleAliasAttrs := Generated.PyAst.moduleAliasAttrs }

/-- `analyze_python_source(source)` returns no violation (`allow_print=True`, as the handler calls it) -/
def Approved (t : PNode) : Prop := visit srcTables true t = []

instance (t : PNode) : Decidable (Approved t) := inferInstanceAs (Decidable (visit srcTables true t = []))

/-- **no hidden node**: in an approved tree the class-specific check of every node, at any depth, is empty -/
theorem approved_covers (t n : PNode) (h : Approved t) (hd : Desc t n) : localViolations srcTables true n = [] :=
  visit_covers srcTables true t n h hd

/-- … and every reported violation is some node's own (the walk invents nothing) -/
theorem reports_are_local (t : PNode) (v : Violation) (hv : v ∈ visit srcTables true t) :
    ∃ n, Desc t n ∧ v ∈ localViolations srcTables true n :=
  visit_only_local srcTables true t v hv

variable (T : Tables)

/-- a module name passes: not dangerous (itself or its root package) and safe-listed (itself or its root) -/
def ModuleOk (m : String) : Prop :=
  T.dangerousModules.contains m = false ∧ T.dangerousModules.contains (rootOf m) = false
    ∧ (T.safeModules.contains m = true ∨ T.safeModules.contains (rootOf m) = true)

theorem moduleOk_iff (line : Nat) (m : String) : moduleViolation T line m = [] ↔ ModuleOk T m := by
  unfold moduleViolation ModuleOk
  by_cases h1 : T.dangerousModules.contains m = true <;> by_cases h2 : T.dangerousModules.contains (rootOf m) = true <;>
    by_cases h3 : T.safeModules.contains m = true <;> by_cases h4 : T.safeModules.contains (rootOf m) = true <;>
    simp_all

theorem import_local (ap : Bool) (n : PNode) (hk : n.kind = "Import") (h : localViolations T ap n = []) :
    ∀ a ∈ n.listField "names", ∀ m, a.strField "name" = some m → ModuleOk T m := by
  unfold localViolations at h
  simp only [hk] at h
  intro a ha m hm
  have := List.flatMap_eq_nil_iff.mp h a ha
  exact (moduleOk_iff T n.line m).mp (by simpa [hm] using this)

theorem importFrom_local (ap : Bool) (n : PNode) (hk : n.kind = "ImportFrom") (h : localViolations T ap n = []) :
    ∃ m, n.strField "module" = some m ∧ ModuleOk T m
      ∧ ∀ a ∈ n.listField "names", ∀ nm, a.strField "name" = some nm → fromNameViolation T n.line nm = [] := by
  unfold localViolations at h
  simp only [hk] at h
  cases hm : n.strField "module" with
  | none => simp [hm] at h
  | some m =>
    simp only [hm] at h
    cases hv : moduleViolation T n.line m with
    | cons v vs => simp [hv] at h
    | nil =>
      simp only [hv] at h
      refine ⟨m, rfl, (moduleOk_iff T n.line m).mp hv, ?_⟩
      intro a ha nm hnm
      have := List.flatMap_eq_nil_iff.mp h a ha
      simpa [hnm] using this

theorem name_local (ap : Bool) (n : PNode) (hk : n.kind = "Name") (h : localViolations T ap n = []) (name : String)
    (hn : n.strField "id" = some name) :
    name ≠ "__builtins__" ∧ name ≠ "__loader__" ∧ name ≠ "__spec__" ∧ (n.isLoad = true → builtinRefused T ap name = false) := by
  unfold localViolations at h
  simp only [hk, hn] at h
  by_cases h1 : name = "__builtins__" <;> by_cases h2 : name = "__loader__" <;> by_cases h3 : name = "__spec__" <;> simp_all

theorem attribute_local (ap : Bool) (n : PNode) (hk : n.kind = "Attribute") (h : localViolations T ap n = []) (attr : String)
    (hn : n.strField "attr" = some attr) :
    T.reflectionAttrs.contains attr = false ∧ T.dangerousModules.contains (lstripUnderscore attr) = false
      ∧ T.moduleAliasAttrs.contains attr = false ∧ (n.isLoad = true → T.dangerousAttrs.contains attr = false) := by
  unfold localViolations at h
  simp only [hk, hn] at h
  by_cases h1 : T.reflectionAttrs.contains attr = true <;> by_cases h2 : T.dangerousModules.contains (lstripUnderscore attr) = true <;>
    by_cases h3 : T.moduleAliasAttrs.contains attr = true <;> simp_all

theorem async_local (ap : Bool) (n : PNode) (h : localViolations T ap n = []) :
    n.kind ≠ "AsyncFunctionDef" ∧ n.kind ≠ "Await" := by
  constructor <;> intro hk <;> (unfold localViolations at h; simp [hk] at h)

/-- **what approval of a script guarantees, syntactically and at any nesting depth** -/
theorem approved_imports (t n : PNode) (h : Approved t) (hd : Desc t n) (hk : n.kind = "Import") :
    ∀ a ∈ n.listField "names", ∀ m, a.strField "name" = some m → ModuleOk srcTables m :=
  import_local srcTables true n hk (approved_covers t n h hd)

theorem approved_from_imports (t n : PNode) (h : Approved t) (hd : Desc t n) (hk : n.kind = "ImportFrom") :
    ∃ m, n.strField "module" = some m ∧ ModuleOk srcTables m
      ∧ ∀ a ∈ n.listField "names", ∀ nm, a.strField "name" = some nm → fromNameViolation srcTables n.line nm = [] :=
  importFrom_local srcTables true n hk (approved_covers t n h hd)

theorem approved_names (t n : PNode) (h : Approved t) (hd : Desc t n) (hk : n.kind = "Name") (name : String)
    (hn : n.strField "id" = some name) (hl : n.isLoad = true) : builtinRefused srcTables true name = false :=
  (name_local srcTables true n hk (approved_covers t n h hd) name hn).2.2.2 hl

theorem approved_attributes (t n : PNode) (h : Approved t) (hd : Desc t n) (hk : n.kind = "Attribute") (attr : String)
    (hn : n.strField "attr" = some attr) :
    srcTables.reflectionAttrs.contains attr = false ∧ srcTables.dangerousModules.contains (lstripUnderscore attr) = false
      ∧ srcTables.moduleAliasAttrs.contains attr = false ∧ (n.isLoad = true → srcTables.dangerousAttrs.contains attr = false) :=
  attribute_local srcTables true n hk (approved_covers t n h hd) attr hn

theorem approved_no_async (t n : PNode) (h : Approved t) (hd : Desc t n) : n.kind ≠ "AsyncFunctionDef" ∧ n.kind ≠ "Await" :=
  async_local srcTables true n (approved_covers t n h hd)

/-- concretely (T0 tables of this tree): no node of an approved script reads the name `eval`, `exec`, `open`,
    `compile`, `__import__`, `getattr` … -/
theorem refused_builtins :
    ["eval", "exec", "open", "compile", "__import__", "getattr", "setattr", "globals", "input", "breakpoint"].all
      (fun b => builtinRefused srcTables true b) = true := by decide +kernel

theorem dangerous_modules_listed :
    ["os", "sys", "subprocess", "socket", "shutil", "ctypes", "importlib", "pathlib", "io", "pickle"].all
      (fun m => srcTables.dangerousModules.contains m) = true := by decide +kernel

/-- T0: the visitor has exactly the `visit_` methods the model has cases for; every one ends in
    `self.generic_visit(node)` except `visit_Global`, only `visit_ImportFrom` returns early; the class
    overrides neither `visit` nor `generic_visit` and derives from `ast.NodeVisitor` alone; the driver
    parses, visits the module and returns the violations -/
theorem visitor_shape :
    Generated.PyAst.visitorMethods =
      [("AsyncFunctionDef", true, false), ("Attribute", true, false), ("Await", true, false), ("Call", true, false),
       ("FunctionDef", true, false), ("Global", false, false), ("Import", true, false), ("ImportFrom", true, true),
       ("Name", true, false), ("Starred", true, false), ("Try", true, false), ("With", true, false)]
      ∧ Generated.PyAst.visitorOther = []
      ∧ Generated.PyAst.driverCalls = ["SafetyAnalyzer", "Violation", "analyzer.visit", "ast.parse", "str"] := by
  decide

/-- the model's `descends` is that shape: a class whose method does not end in `generic_visit`, or returns
    early, is exactly one the model treats specially -/
theorem descends_matches_shape :
    Generated.PyAst.visitorMethods.all (fun m =>
      m.2.1 == descends (.mk m.1 0 [("module", .str "m")])
        && m.2.2 == (descends (.mk m.1 0 [("module", .none)]) != descends (.mk m.1 0 [("module", .str "m")]))) = true := by
  decide

/-- non-vacuity: `import json; print(json.dumps(1))` is approved … -/
example :
    Approved (.mk "Module" 0 [("body", .list [
      .node (.mk "Import" 1 [("names", .list [.node (.mk "alias" 1 [("name", .str "json"), ("asname", .none)])])]),
      .node (.mk "Expr" 2 [("value", .node (.mk "Call" 2 [
        ("func", .node (.mk "Name" 2 [("id", .str "print"), ("ctx", .node (.mk "Load" 0 []))])),
        ("args", .list [.node (.mk "Call" 2 [
          ("func", .node (.mk "Attribute" 2 [("value", .node (.mk "Name" 2 [("id", .str "json"), ("ctx", .node (.mk "Load" 0 []))])),
                                              ("attr", .str "dumps"), ("ctx", .node (.mk "Load" 0 []))])),
          ("args", .list [.node (.mk "Constant" 2 [("value", .other)])]), ("keywords", .list [])])]),
        ("keywords", .list [])]))])])]) := by
  decide +kernel

/-- … and a reference to `eval` buried in a lambda inside a list inside a default argument is not -/
example :
    ¬ Approved (.mk "Module" 0 [("body", .list [
      .node (.mk "FunctionDef" 1 [("name", .str "f"), ("args", .node (.mk "arguments" 0 [("defaults", .list [
        .node (.mk "List" 1 [("elts", .list [.node (.mk "Lambda" 1 [("body",
          .node (.mk "Name" 1 [("id", .str "eval"), ("ctx", .node (.mk "Load" 0 []))]))])])])])])),
        ("body", .list [.node (.mk "Pass" 2 [])])])])]) := by
  decide +kernel

/-! ### from the command line to the nodes of the script

`PyFile.analyzeFile` is `analyze_python_file` over what the file system, the decoder and `ast.parse` answered for
a path (`FileFacts`, recorded by T1 from the real run).  With the handler's `fileSafe` oracle instantiated by it,
an approved `python …` command that runs a script runs a file whose *every* node passed its check. -/

open Dippy.PyFile in
/-- the handler's environment, with the file analysis spelled out -/
def fileEnv (resolve : String → String → String) (facts : String → FileFacts) : Env :=
  { resolve := resolve
    fileSafe := fun p => (analyzeFile srcTables scriptSuffixes sizeLimit cookieNameChar (facts p)).isSafe }

open Dippy.PyFile in
/-- **C17, syntactic half, end to end**: if `python ARGS` is auto-approved and CPython's argv grammar says it runs the
    script word `s`, then the file `s` resolves to (in the command's cwd) exists, is a regular `.py`/`.pyw` file within
    the size limit, decodes as UTF-8 with no other declared encoding, parses, has no import shadowed by a sibling –
    and in its tree no node at any depth fails its check: no import outside the safe list, no reference to a refused
    builtin, no reflection attribute, no dangerous method reference, no async construct. -/
theorem approved_command_runs_checked_script (resolve : String → String → String) (facts : String → FileFacts)
    (cwd py : String) (l : List String) (s : String) (args : List String)
    (h : (classify (fileEnv resolve facts) cwd (py :: l)).allowed = true)
    (hr : pythonRuns false l = .script s args) :
    ∃ tree, (facts (resolve cwd s)).tree = some tree ∧ Approved tree
      ∧ (∀ n, Desc tree n → localViolations srcTables true n = [])
      ∧ (∀ r ∈ importRoots tree, (facts (resolve cwd s)).shadowed r = false)
      ∧ scriptSuffixes.contains (facts (resolve cwd s)).suffix = true
      ∧ (∃ sz, (facts (resolve cwd s)).size = some sz ∧ sz ≤ sizeLimit)
      ∧ Py.startsWith s "~" = false := by
  have hrun := runs_analysed_file (fileEnv resolve facts) cwd py l h
  rw [hr] at hrun
  have hsafe : (analyzeFile srcTables scriptSuffixes sizeLimit cookieNameChar (facts (resolve cwd s))).isSafe = true := hrun.2
  have htilde : Py.startsWith s "~" = false := tilde_refused s hrun.1
  have hs : analyzeFile srcTables scriptSuffixes sizeLimit cookieNameChar (facts (resolve cwd s)) = .safe := by
    cases hv : analyzeFile srcTables scriptSuffixes sizeLimit cookieNameChar (facts (resolve cwd s)) with
    | safe => rfl
    | refused r => rw [hv] at hsafe; cases hsafe
  obtain ⟨_, _, hsuf, hsz, src, tree, _, _, htree, hvis, hsh⟩ := safe_means _ _ _ _ _ hs
  exact ⟨tree, htree, hvis, fun n hd => approved_covers tree n hvis hd, hsh, hsuf, hsz, htilde⟩

/-- non-vacuity of the file model: a small safe script next to nothing … -/
example :
    PyFile.analyzeFile srcTables scriptSuffixes sizeLimit PyFile.cookieNameChar
      { pathExists := true, isFile := true, suffix := ".py", size := some 12, source := some "import json\n",
        tree := some (.mk "Module" 0 [("body", .list [.node (.mk "Import" 1 [("names", .list [.node (.mk "alias" 1 [("name", .str "json")])])])])]),
        shadowed := fun _ => false } = .safe := by decide +kernel

/-- … the same script next to a `json.py` -/
example :
    PyFile.analyzeFile srcTables scriptSuffixes sizeLimit PyFile.cookieNameChar
      { pathExists := true, isFile := true, suffix := ".py", size := some 12, source := some "import json\n",
        tree := some (.mk "Module" 0 [("body", .list [.node (.mk "Import" 1 [("names", .list [.node (.mk "alias" 1 [("name", .str "json")])])])])]),
        shadowed := fun r => r == "json" } = .refused "local module shadows import: json" := by decide +kernel

/-- … and with a coding cookie that makes the interpreter read other text than the analysed one -/
example :
    PyFile.foreignCookie PyFile.cookieNameChar "#!/usr/bin/python\n# -*- coding: latin-1 -*-\nimport json\n" = some "latin-1"
      ∧ PyFile.foreignCookie PyFile.cookieNameChar "# vim: set fileencoding=UTF_8 :\nx = 1\n" = none
      ∧ PyFile.foreignCookie PyFile.cookieNameChar "x = 1\n\n# coding: latin-1\n" = none := by decide +kernel

end checker

end Dippy.C17
