/-
C05 — Unknown or unparseable input defaults to ask.

Property theorems only.  The `World` is arbitrary except where a hypothesis says otherwise; the
table obligations at the end are about the *generated* tables (T0) and are re-checked on every run.
-/
import Dippy.Model.Analyzer
import Dippy.Generated.Tables
import Dippy.Generated.Missing
import Dippy.Lemmas.Walk
import Dippy.Lemmas.Strip

set_option linter.unusedSimpArgs false

namespace Dippy.C05
open Dippy

variable (w : World) (rec : Rec) (h : HelpTables)

/-- a program that is on no table and matches no rule is asked about, whatever its arguments –
    unless the command has the explicit help/version shape -/
theorem unknown_asks (n : Nat) (tokens : List String) (cwd : String) (rem : Bool)
    (hne : tokens.isEmpty = false)
    (hm : w.matchCommand tokens cwd rem = none)
    (hw : w.wrapper (tokens.headD "") = false)
    (hs : w.simpleSafe (tokens.headD "") = false)
    (hh : w.hasHandler (tokens.headD "") = false)
    (hv : isVersionOrHelp h.helpWords h.helpFlags2 h.helpFlagsLast tokens = false) :
    simpleCmd w rec h (n + 1) tokens cwd rem = ⟨.ask, w.description tokens⟩ := by
  rw [simpleCmd]
  simp only [hne, Bool.false_eq_true, ↓reduceIte, hm, hw, Bool.false_and]
  unfold builtinVerdict
  simp only [hs, Bool.false_eq_true, ↓reduceIte, hv, hh, Bool.false_and]

/-- the sole exception, spelled out -/
theorem help_shape (hw hf2 hfl : List String) (tokens : List String) :
    isVersionOrHelp hw hf2 hfl tokens = true ↔
      (tokens.length = 2 ∧ (hw.contains (tokens.getD 1 "") = true ∨ hf2.contains (tokens.getD 1 "") = true))
      ∨ (2 ≤ tokens.length ∧ tokens.length ≤ 4 ∧ hfl.contains (tokens.getLastD "") = true) := by
  unfold isVersionOrHelp
  by_cases h1 : tokens.length < 2
  · rw [if_pos h1]
    constructor
    · intro hc; cases hc
    · intro hc
      rcases hc with ⟨hl, _⟩ | ⟨hl, _, _⟩ <;> omega
  · rw [if_neg h1]
    by_cases h2 : tokens.length = 2 ∧ hw.contains (tokens.getD 1 "") = true
    · rw [if_pos h2]
      exact ⟨fun _ => Or.inl ⟨h2.1, Or.inl h2.2⟩, fun _ => rfl⟩
    · rw [if_neg h2]
      by_cases h3 : tokens.length = 2 ∧ hf2.contains (tokens.getD 1 "") = true
      · rw [if_pos h3]
        exact ⟨fun _ => Or.inl ⟨h3.1, Or.inr h3.2⟩, fun _ => rfl⟩
      · rw [if_neg h3]
        by_cases h4 : hfl.contains (tokens.getLastD "") = true ∧ tokens.length ≤ 4
        · rw [if_pos h4]
          exact ⟨fun _ => Or.inr ⟨by omega, h4.2, h4.1⟩, fun _ => rfl⟩
        · rw [if_neg h4]
          constructor
          · intro hc; cases hc
          · intro hc
            exfalso
            rcases hc with ⟨hl, hc⟩ | ⟨_, hl, hc⟩
            · rcases hc with hc | hc
              · exact h2 ⟨hl, hc⟩
              · exact h3 ⟨hl, hc⟩
            · exact h4 ⟨hc, hl⟩

/-- with the shipped tuples: `cmd help|version|--version|--help|-h`, or ≤ 4 words ending in `--help`/`-h` -/
example : isVersionOrHelp Generated.helpWords Generated.helpFlags2 Generated.helpFlagsLast ["frob", "--version"] = true
    ∧ isVersionOrHelp Generated.helpWords Generated.helpFlags2 Generated.helpFlagsLast ["frob", "a", "b", "-h"] = true
    ∧ isVersionOrHelp Generated.helpWords Generated.helpFlags2 Generated.helpFlagsLast ["frob", "a", "b", "c", "-h"] = false
    ∧ isVersionOrHelp Generated.helpWords Generated.helpFlags2 Generated.helpFlagsLast ["frob", "a", "--version"] = false
    ∧ isVersionOrHelp Generated.helpWords Generated.helpFlags2 Generated.helpFlagsLast ["frob"] = false := by decide

/-- never allow for an unknown program outside that shape -/
theorem unknown_never_allowed (n : Nat) (tokens : List String) (cwd : String) (rem : Bool)
    (hne : tokens.isEmpty = false)
    (hm : w.matchCommand tokens cwd rem = none)
    (hw : w.wrapper (tokens.headD "") = false)
    (hs : w.simpleSafe (tokens.headD "") = false)
    (hh : w.hasHandler (tokens.headD "") = false)
    (ha : (simpleCmd w rec h (n + 1) tokens cwd rem).action = .allow) :
    isVersionOrHelp h.helpWords h.helpFlags2 h.helpFlagsLast tokens = true := by
  cases hv : isVersionOrHelp h.helpWords h.helpFlags2 h.helpFlagsLast tokens with
  | true => rfl
  | false =>
    rw [unknown_asks w rec h n tokens cwd rem hne hm hw hs hh hv] at ha
    cases ha

/-! ### input Dippy cannot parse or does not recognise -/

theorem parse_error_asks (fuel : Nat) (s cwd msg : String) (rem : Bool)
    (hs : (stripCmd s).isEmpty = false) (hp : w.parse (stripCmd s) = .error msg) :
    analyzeStr w h (fuel + 1) s cwd rem = ⟨.ask, "parse error: " ++ msg⟩ := by
  simp [analyzeStr, hs, hp]

theorem empty_asks (fuel : Nat) (s cwd : String) (rem : Bool) (hs : (stripCmd s).isEmpty = true) :
    analyzeStr w h (fuel + 1) s cwd rem = ⟨.ask, "empty command"⟩ := by
  simp [analyzeStr, hs]

theorem no_nodes_asks (fuel : Nat) (s cwd : String) (rem : Bool)
    (hs : (stripCmd s).isEmpty = false) (hp : w.parse (stripCmd s) = .ok []) :
    analyzeStr w h (fuel + 1) s cwd rem = ⟨.ask, "empty command"⟩ := by
  simp [analyzeStr, hs, hp]

/-- a node kind the walk does not know -/
theorem unknown_kind_asks (k cwd : String) (rem : Bool) :
    aNode w rec h (.other k) cwd rem = ⟨.ask, "unrecognized construct: " ++ k⟩ := by
  simp [aNode]

/-- … anywhere in a tree makes the whole verdict at least ask -/
theorem unknown_kind_in_pipeline (k : String) (a b : List Node) (cwd : String) (rem : Bool) :
    Action.ask ≤ (aNode w rec h (.pipeline (a ++ .other k :: b)) cwd rem).action := by
  simp only [aNode]
  rw [rejoin_action, aNodes_eq_map]
  apply le_supList
  simp [acts, aNode]

/-! ### odd spellings of a program name stay unknown -/

/-- `_strip_quotes` returns the raw word, or the inside of one pair of surrounding quotes:
    if the stripped text is `n` the raw word is `n`, `"n"` or `'n'` – and for a plain `n`
    (no quote, backslash, `$`, `/` …) bash runs exactly `n` for each of the three -/
theorem name_spelling (raw : String) :
    stripQuotes raw = raw
    ∨ raw.toList = '"' :: (stripQuotes raw).toList ++ ['"']
    ∨ raw.toList = '\'' :: (stripQuotes raw).toList ++ ['\''] := by
  unfold stripQuotes
  cases hl : raw.toList with
  | nil => left; rfl
  | cons c rest =>
    simp only
    cases hr : rest.reverse with
    | nil => left; rfl
    | cons l midRev =>
      simp only
      have hrest : rest = midRev.reverse ++ [l] := by
        have := congrArg List.reverse hr
        simpa using this
      split
      · next hq =>
        rcases hq with ⟨h1, h2⟩ | ⟨h1, h2⟩
        · right; left; subst h1; subst h2; simp [hrest]
        · right; right; subst h1; subst h2; simp [hrest]
      · left; rfl

/-- a plain table name: letters, digits and `_ . + -` only -/
def plainName (s : String) : Bool :=
  !s.isEmpty && s.toList.all fun c => c.isAlphanum || c == '_' || c == '.' || c == '+' || c == '-'

/-- T0 obligation: every name on the three shipped tables is plain, so no quoted, escaped,
    path-qualified or expansion-derived spelling can *be* a table entry -/
theorem tables_plain :
    (Generated.simpleSafe ++ Generated.wrapperCommands ++ Generated.handlerCommands).all plainName = true := by
  decide +kernel

/-- program names that execute their arguments (or arbitrary code) -/
def launchers : List String :=
  ["eval", "exec", "source", ".", "sh", "bash", "zsh", "dash", "ksh", "csh", "tcsh", "fish", "xargs", "env",
   "sudo", "doas", "su", "watch", "parallel", "script", "chroot", "nsenter", "unshare", "setsid", "nohup",
   "timeout", "nice", "time", "strace", "ltrace", "builtin", "ionice", "taskset", "stdbuf", "flock", "trap",
   "rm", "mv", "cp", "dd", "tee", "sed", "awk", "perl", "python", "python3", "ruby", "node", "php", "ssh",
   "scp", "rsync", "curl", "wget", "make", "git", "docker", "kubectl", "find", "fd"]

/-- T0 obligation: none of them is on the always-safe list -/
theorem no_launcher_in_simple_safe : launchers.all (fun l => !Generated.simpleSafe.contains l) = true := by
  decide +kernel

/-- T0 obligation: the help/version tuples are exactly the documented ones -/
theorem help_tuples :
    Generated.helpWords = ["help", "version"] ∧ Generated.helpFlags2 = ["--version", "--help", "-h"]
      ∧ Generated.helpFlagsLast = ["--help", "-h"] := by decide

/-- T0 obligation: the translator found every table where it expected it -/
theorem no_missing_tables : Generated.missingTables = [] := by decide

/-- T0 + model: the command text loses only blanks, tabs and newlines at its ends – a leading form feed, NBSP or NEL is
    part of the program name for bash (`$'\\fls'`: command not found) and stays in the text that is parsed -/
theorem strip_is_bash_blank : Generated.Quoting.analyzeStripChars = " \t\n" := by decide

example : stripCmd "\x0cls" = "\x0cls" ∧ stripCmd " ls \n" = "ls" ∧ stripCmd "\t\u00a0ls" = "\u00a0ls" := by decide +kernel

/-- the predicate `strip` uses is membership in exactly these three characters -/
theorem strip_pred (c : Char) :
    (Generated.Quoting.analyzeStripChars.toList.contains c = true) ↔ (c = ' ' ∨ c = '\t' ∨ c = '\n') := by
  rw [strip_is_bash_blank]
  simp [List.contains_eq_mem]

/-- for every command text: the text that is parsed is the command without a prefix and a suffix that consist of blanks,
    tabs and newlines only – nothing inside the command is removed and no other character is ever dropped -/
theorem strip_removes_only_blanks (s : String) :
    ∃ pre suf, s.toList = pre ++ (stripCmd s).toList ++ suf ∧
      ∀ c ∈ pre ++ suf, c = ' ' ∨ c = '\t' ∨ c = '\n' := by
  obtain ⟨pre, suf, h1, h2, h3⟩ :=
    Py.stripL_split (fun c => Generated.Quoting.analyzeStripChars.toList.contains c) s.toList
  refine ⟨pre, suf, ?_, ?_⟩
  · simpa [stripCmd, Py.stripChars] using h1
  · intro c hc
    rcases List.mem_append.mp hc with hc | hc
    · exact (strip_pred c).mp (h2 c hc)
    · exact (strip_pred c).mp (h3 c hc)

/-- … and what is parsed neither begins nor ends with one of them (the parser never sees outer blanks) -/
theorem strip_ends_clean (s : String) (c : Char)
    (hc : (stripCmd s).toList.head? = some c ∨ (stripCmd s).toList.getLast? = some c) :
    c ≠ ' ' ∧ c ≠ '\t' ∧ c ≠ '\n' := by
  have hp : Generated.Quoting.analyzeStripChars.toList.contains c = false := by
    simp only [stripCmd, Py.stripChars, String.toList_ofList] at hc
    rcases hc with hc | hc
    · exact Py.stripL_head _ s.toList c hc
    · exact Py.stripL_last _ s.toList c hc
  refine ⟨fun h => ?_, fun h => ?_, fun h => ?_⟩ <;>
    (have := (strip_pred c).mpr (by simp [h]); rw [hp] at this; cases this)

/-- stripping is idempotent: a nested `analyze` of an already stripped text (`bash -c`, wrappers) parses the same text -/
theorem strip_idem (s : String) : stripCmd (stripCmd s) = stripCmd s := by
  simp only [stripCmd, Py.stripChars, String.toList_ofList]
  rw [Py.stripL_idem]

/-- for every command, every world and every fuel: blanks, tabs and newlines put before and after the command text do not
    change the verdict or its reason – the analysis sees the command only through its stripped text -/
theorem analyze_padding_invariant (fuel : Nat) (s cwd : String) (rem : Bool) (pre suf : List Char)
    (h1 : ∀ c ∈ pre, c = ' ' ∨ c = '\t' ∨ c = '\n') (h2 : ∀ c ∈ suf, c = ' ' ∨ c = '\t' ∨ c = '\n') :
    analyzeStr w h fuel (String.ofList (pre ++ s.toList ++ suf)) cwd rem = analyzeStr w h fuel s cwd rem := by
  have hs : stripCmd (String.ofList (pre ++ s.toList ++ suf)) = stripCmd s := by
    simp only [stripCmd, Py.stripChars, String.toList_ofList]
    rw [Py.stripL_pad _ pre s.toList suf (fun c hc => (strip_pred c).mpr (h1 c hc)) (fun c hc => (strip_pred c).mpr (h2 c hc))]
  cases fuel with
  | zero => rfl
  | succ n =>
    unfold analyzeStr
    rw [hs]

example : ∃ pre suf, " \tls -l\n".toList = pre ++ (stripCmd " \tls -l\n").toList ++ suf ∧ pre = [' ', '\t'] ∧ suf = ['\n'] :=
  ⟨[' ', '\t'], ['\n'], by decide +kernel, rfl, rfl⟩

end Dippy.C05
