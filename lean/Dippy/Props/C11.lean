/-
C11 — Config text: line-local, never fatal, round-trips.

The model's `parseConfig` is a total function (an exception escaping `parse_config` would be a
correspondence divergence, T1).  The theorems below say what that function computes:
every line is interpreted on its own, a line that is not a well-formed directive is the
identity, parsing a concatenation is parsing the second text on top of the first (= `_merge_configs`
on everything but the dead `default` field), the quoted-message syntax round-trips for
*every* message and every pattern without trailing whitespace, and every well-formed rule line
(any directive, pattern tokens, `|` anchor, message) is read back as the rule that was written
(`roundtrip_*`, writer and well-formedness in Lemmas/RoundTrip.lean).
-/
import Dippy.Lemmas.Parse
import Dippy.Lemmas.Escape
import Dippy.Lemmas.RoundTrip
import Dippy.Lemmas.Strip

set_option linter.unusedSimpArgs false

namespace Dippy.C11
open Dippy

variable (e : ParseEnv)

/-- each line is interpreted independently of its neighbours: the result is a fold of per-line
    results, and a line's result is a function of that line (and the parse environment) alone -/
theorem line_local (lines : List String) (c : Config) :
    parseLines e lines c = applyAll c (lines.map (parseLine e)) := parseLines_eq e lines c

/-- a malformed / blank / comment line is skipped with everything else kept -/
theorem bad_line_identity (a b : List String) (l : String) (c : Config) (h : parseLine e l = .skip) :
    parseLines e (a ++ l :: b) c = parseLines e (a ++ b) c := skip_line_identity e a b l c h

/-- what a line contributes does not depend on where it stands -/
theorem line_independent (a b a' b' : List String) (l : String) :
    (parseLines e (a ++ l :: b)).rules.length + (parseLines e (a' ++ b')).rules.length
      = (parseLines e (a' ++ l :: b')).rules.length + (parseLines e (a ++ b)).rules.length := by
  simp only [parseLines_eq, applyAll_rules, List.map_append, List.map_cons, List.filterMap_append,
    List.filterMap_cons, List.length_append]
  cases (parseLine e l).ruleOf <;> simp <;> omega

/-- parsing a concatenation = parsing the second text starting from the first's result -/
theorem parse_concat (a b : List String) (c : Config) :
    parseLines e (a ++ b) c = parseLines e b (parseLines e a c) := parseLines_append e a b c

/-- … which agrees with `_merge_configs` on every rule list, the log path and log-full -/
theorem parse_merge_hom (a b : List String) :
    let ab := parseLines e (a ++ b)
    let m := mergeConfigs (parseLines e a) (parseLines e b)
    ab.rules = m.rules ∧ ab.redirectRules = m.redirectRules ∧ ab.afterRules = m.afterRules
      ∧ ab.mcpRules = m.mcpRules ∧ ab.afterMcpRules = m.afterMcpRules
      ∧ ab.log = m.log ∧ ab.logFull = m.logFull := by
  simp only [parseLines_eq, mergeConfigs, applyAll_rules, applyAll_redirectRules, applyAll_afterRules,
    applyAll_mcpRules, applyAll_afterMcpRules, applyAll_log, applyAll_logFull, List.map_append,
    List.filterMap_append, List.any_append]
  refine ⟨by simp, by simp, by simp, by simp, by simp, ?_, ?_⟩
  · rw [lastLog_append, lastLog_none]
    cases lastLog none (List.map (parseLine e) b) <;> rfl
  · cases h1 : (List.map (parseLine e) a).any LineResult.isLogFull <;>
      cases h2 : (List.map (parseLine e) b).any LineResult.isLogFull <;> simp [h1, h2]

/-- `default` is the one field for which `_merge_configs` is *not* the concatenation (it is dead
    code: nothing reads `Config.default`; T0 checks that) -/
theorem default_not_hom :
    let e : ParseEnv := ⟨"/h", fun _ => none⟩
    (parseLines e (["set default allow"] ++ ["set default ask"])).default
      ≠ (mergeConfigs (parseLines e ["set default allow"]) (parseLines e ["set default ask"])).default := by
  decide

/-! ### the quoted message round-trips -/

/-- unescape ∘ escape = id, for every message -/
theorem unescape_escape (m : List Char) : unescapeL (escapeL m) = m := Dippy.unescape_escape m

/-- `_extract_message` reads back what a writer writes: every message over all characters
    (quotes, backslashes, `#`, `|`, non-ASCII …) and every non-empty pattern without trailing whitespace -/
theorem extract_render (p m : List Char) (hp : p ≠ []) (hps : Py.rstripL Py.isSpace p = p) :
    extractMessage (String.ofList (p ++ [' ', '"'] ++ escapeL m ++ ['"']))
      = .ok (String.ofList p) (some (String.ofList m)) := Dippy.extract_render p m hp hps

/-- non-vacuity: a message full of quotes and backslashes -/
example : extractMessage "rm -rf * \"say \\\"no\\\" \\\\ ok\"" = .ok "rm -rf *" (some "say \"no\" \\ ok") := by
  decide

/-- a whole rule line, parsed back (instances; the general statement is `extract_render` plus the
    directive split, which T1 checks on generated rules) -/
example :
    parseLine ⟨"/h", fun _ => none⟩ "deny rm -rf * | \"use \\\"trash\\\"\""
      = .rule { decision := .deny, pattern := "rm -rf *", message := some "use \"trash\"", exact := true } := by
  decide

example : parseLine ⟨"/h", fun _ => none⟩ "allow-redirect ~/out/**" = .redirect { decision := .allow, pattern := "/h/out/**" } := by
  decide

/-! ### whole rules round-trip

`RT.renderLine d tokens exact message` is the line a writer produces (the repo has no writer; this
is the documented syntax): the directive, the pattern tokens joined by single blanks, ` |` when the
rule is exact, and the message in double quotes with `\` and `"` escaped.  `RT.WfPat` is
well-formedness of the pattern: at least one token, tokens non-empty and free of whitespace; a
non-exact pattern does not itself end in `|`; with neither anchor nor message it does not end in `"`.
The message is arbitrary (any characters, including quotes, backslashes, `#`, `|`, non-ASCII). -/

open RT in
/-- the writer's line is parsed back into the directive word and the body -/
theorem line_splits (d : String) (hd : Tok d.toList)
    (ts : List (List Char)) (ex : Bool) (m : Option (List Char)) (h : WfPat ts ex m) :
    Py.strip (renderLine d ts ex m) = renderLine d ts ex m
      ∧ Py.split1 (renderLine d ts ex m) = [d, String.ofList (joinL ts ++ anchorPart ex ++ msgPart m)] := by
  have hs := lineShape d.toList hd ts ex m h
  unfold renderLine
  exact ⟨strip_line _ _ hs, by rw [split1_line _ _ hs]; simp⟩

section
open RT

/-- closes `parseLine e (renderLine "<directive>" …) = …` for a concrete directive word -/
local macro "rt_close" d:term "," ts:term "," ex:term "," m:term "," h:term : tactic => `(tactic| (
  have hs := lineShape ($d : String).toList (by refine ⟨by decide, by decide⟩) $ts $ex $m $h
  have hb := body_shape $ts $ex $m ($h).ne ($h).toks
  unfold parseLine renderLine
  simp only [strip_line _ _ hs, split1_line _ _ hs, strip_body _ hb.1 hb.2]
  have hlow : String.ofList (List.map Char.toLower (String.ofList ($d : String).toList).toList) = $d := by decide
  have hne : (String.ofList (($d : String).toList ++ ' ' :: (joinL $ts ++ anchorPart $ex ++ msgPart $m))).isEmpty = false := by
    simp
  have hhash : Py.startsWith (String.ofList (($d : String).toList ++ ' ' :: (joinL $ts ++ anchorPart $ex ++ msgPart $m))) "#" = false := by
    simp [Py.startsWith, List.isPrefixOf]
  simp only [hlow, hne, hhash, body_nonempty $ts $ex $m $h, extract_body $ts $ex $m $h, anchor_body $ts $ex $m $h,
    tildes_join _ $ts ($h).toks]
  simp))

/-- **`ask` / `deny` rules round-trip**: every well-formed pattern, exact or not, with or without a
    message, is read back as the rule that was written (tilde tokens expanded, as at parse time) -/
theorem roundtrip_ask (ts : List (List Char)) (ex : Bool) (m : Option (List Char)) (h : WfPat ts ex m) :
    parseLine e (renderLine "ask" ts ex m)
      = .rule { decision := .ask, pattern := Py.joinSpace ((ts.map String.ofList).map (expandHomeOnly e.pathEnv)),
                message := m.map String.ofList, exact := ex } := by
  rt_close "ask", ts, ex, m, h

theorem roundtrip_deny (ts : List (List Char)) (ex : Bool) (m : Option (List Char)) (h : WfPat ts ex m) :
    parseLine e (renderLine "deny" ts ex m)
      = .rule { decision := .deny, pattern := Py.joinSpace ((ts.map String.ofList).map (expandHomeOnly e.pathEnv)),
                message := m.map String.ofList, exact := ex } := by
  rt_close "deny", ts, ex, m, h

/-- `allow` rules (no message) -/
theorem roundtrip_allow (ts : List (List Char)) (ex : Bool) (h : WfPat ts ex none) :
    parseLine e (renderLine "allow" ts ex none)
      = .rule { decision := .allow, pattern := Py.joinSpace ((ts.map String.ofList).map (expandHomeOnly e.pathEnv)),
                exact := ex } := by
  have ha := anchor_body_none ts ex h
  have hs := lineShape "allow".toList (by refine ⟨by decide, by decide⟩) ts ex none h
  have hb := body_shape ts ex none h.ne h.toks
  unfold parseLine renderLine
  simp only [strip_line _ _ hs, split1_line _ _ hs, strip_body _ hb.1 hb.2]
  have hlow : String.ofList (List.map Char.toLower (String.ofList "allow".toList).toList) = "allow" := by decide
  have hne : (String.ofList ("allow".toList ++ ' ' :: (joinL ts ++ anchorPart ex ++ msgPart none))).isEmpty = false := by
    simp
  have hhash : Py.startsWith (String.ofList ("allow".toList ++ ' ' :: (joinL ts ++ anchorPart ex ++ msgPart none))) "#" = false := by
    simp [Py.startsWith, List.isPrefixOf]
  simp only [hlow, hne, hhash, body_nonempty ts ex none h, ha, tildes_join _ ts h.toks]
  simp

/-- redirect rules: the pattern is the whole text before the message (no anchor syntax) -/
theorem roundtrip_allow_redirect (ts : List (List Char)) (h : WfPat ts false none) :
    parseLine e (renderLine "allow-redirect" ts false none)
      = .redirect { decision := .allow, pattern := Py.joinSpace ((ts.map String.ofList).map (expandHomeOnly e.pathEnv)) } := by
  have hj : joinL ts ++ anchorPart false ++ msgPart none = joinL ts := by simp [anchorPart, msgPart]
  have hs := lineShape "allow-redirect".toList (by refine ⟨by decide, by decide⟩) ts false none h
  have hb := body_shape ts false none h.ne h.toks
  unfold parseLine renderLine
  simp only [strip_line _ _ hs, split1_line _ _ hs, strip_body _ hb.1 hb.2]
  have hlow : String.ofList (List.map Char.toLower (String.ofList "allow-redirect".toList).toList) = "allow-redirect" := by decide
  have hne : (String.ofList ("allow-redirect".toList ++ ' ' :: (joinL ts ++ anchorPart false ++ msgPart none))).isEmpty = false := by
    simp
  have hhash : Py.startsWith (String.ofList ("allow-redirect".toList ++ ' ' :: (joinL ts ++ anchorPart false ++ msgPart none))) "#" = false := by
    simp [Py.startsWith, List.isPrefixOf]
  simp only [hlow, hne, hhash, body_nonempty ts false none h]
  simp only [hj, tildes_join _ ts h.toks]
  simp

theorem roundtrip_ask_redirect (ts : List (List Char)) (m : Option (List Char)) (h : WfPat ts false m) :
    parseLine e (renderLine "ask-redirect" ts false m)
      = .redirect { decision := .ask, pattern := Py.joinSpace ((ts.map String.ofList).map (expandHomeOnly e.pathEnv)),
                    message := m.map String.ofList } := by
  have hx := extract_body ts false m h
  simp only [anchorPart, Bool.false_eq_true, ↓reduceIte, List.append_nil] at hx
  rt_close "ask-redirect", ts, false, m, h
  simp [anchorPart, hx, tildes_join _ ts h.toks]

theorem roundtrip_deny_redirect (ts : List (List Char)) (m : Option (List Char)) (h : WfPat ts false m) :
    parseLine e (renderLine "deny-redirect" ts false m)
      = .redirect { decision := .deny, pattern := Py.joinSpace ((ts.map String.ofList).map (expandHomeOnly e.pathEnv)),
                    message := m.map String.ofList } := by
  have hx := extract_body ts false m h
  simp only [anchorPart, Bool.false_eq_true, ↓reduceIte, List.append_nil] at hx
  rt_close "deny-redirect", ts, false, m, h
  simp [anchorPart, hx, tildes_join _ ts h.toks]

/-- `after` rules: the pattern text is kept as written -/
theorem roundtrip_after (ts : List (List Char)) (m : Option (List Char)) (h : WfPat ts false m) :
    parseLine e (renderLine "after" ts false m)
      = .after { pattern := String.ofList (joinL ts), message := m.map String.ofList } := by
  have hx := extract_body ts false m h
  simp only [anchorPart, Bool.false_eq_true, ↓reduceIte, List.append_nil] at hx
  rt_close "after", ts, false, m, h
  simp [anchorPart, hx]

/-- the MCP family -/
theorem roundtrip_allow_mcp (ts : List (List Char)) (h : WfPat ts false none) :
    parseLine e (renderLine "allow-mcp" ts false none)
      = .mcp { decision := .allow, pattern := String.ofList (joinL ts) } := by
  have hj : joinL ts ++ anchorPart false ++ msgPart none = joinL ts := by simp [anchorPart, msgPart]
  have hs := lineShape "allow-mcp".toList (by refine ⟨by decide, by decide⟩) ts false none h
  have hb := body_shape ts false none h.ne h.toks
  unfold parseLine renderLine
  simp only [strip_line _ _ hs, split1_line _ _ hs, strip_body _ hb.1 hb.2]
  have hlow : String.ofList (List.map Char.toLower (String.ofList "allow-mcp".toList).toList) = "allow-mcp" := by decide
  have hne : (String.ofList ("allow-mcp".toList ++ ' ' :: (joinL ts ++ anchorPart false ++ msgPart none))).isEmpty = false := by
    simp
  have hhash : Py.startsWith (String.ofList ("allow-mcp".toList ++ ' ' :: (joinL ts ++ anchorPart false ++ msgPart none))) "#" = false := by
    simp [Py.startsWith, List.isPrefixOf]
  simp only [hlow, hne, hhash, body_nonempty ts false none h]
  simp only [hj]
  simp

theorem roundtrip_ask_mcp (ts : List (List Char)) (m : Option (List Char)) (h : WfPat ts false m) :
    parseLine e (renderLine "ask-mcp" ts false m)
      = .mcp { decision := .ask, pattern := String.ofList (joinL ts), message := m.map String.ofList } := by
  have hx := extract_body ts false m h
  simp only [anchorPart, Bool.false_eq_true, ↓reduceIte, List.append_nil] at hx
  rt_close "ask-mcp", ts, false, m, h
  simp [anchorPart, hx]

theorem roundtrip_deny_mcp (ts : List (List Char)) (m : Option (List Char)) (h : WfPat ts false m) :
    parseLine e (renderLine "deny-mcp" ts false m)
      = .mcp { decision := .deny, pattern := String.ofList (joinL ts), message := m.map String.ofList } := by
  have hx := extract_body ts false m h
  simp only [anchorPart, Bool.false_eq_true, ↓reduceIte, List.append_nil] at hx
  rt_close "deny-mcp", ts, false, m, h
  simp [anchorPart, hx]

theorem roundtrip_after_mcp (ts : List (List Char)) (m : Option (List Char)) (h : WfPat ts false m) :
    parseLine e (renderLine "after-mcp" ts false m)
      = .afterMcp { pattern := String.ofList (joinL ts), message := m.map String.ofList } := by
  have hx := extract_body ts false m h
  simp only [anchorPart, Bool.false_eq_true, ↓reduceIte, List.append_nil] at hx
  rt_close "after-mcp", ts, false, m, h
  simp [anchorPart, hx]

/-- **unchanged**: when no token starts with `~` (nothing to expand), the pattern read back is
    character for character the pattern written -/
theorem pattern_unchanged (ts : List (List Char))
    (hno : ∀ t ∈ ts, Py.startsWith (String.ofList t) "~" = false) :
    Py.joinSpace ((ts.map String.ofList).map (expandHomeOnly e.pathEnv)) = String.ofList (joinL ts) := by
  rw [← joinSpace_ofList]
  congr 1
  simp only [List.map_map]
  apply List.map_congr_left
  intro t ht
  exact expandHomeOnly_id _ _ (hno t ht)

/-- so a `deny` rule without tilde tokens survives write-then-parse unchanged, whatever its message -/
theorem roundtrip_deny_unchanged (ts : List (List Char)) (ex : Bool) (m : Option (List Char)) (h : WfPat ts ex m)
    (hno : ∀ t ∈ ts, Py.startsWith (String.ofList t) "~" = false) :
    parseLine e (renderLine "deny" ts ex m)
      = .rule { decision := .deny, pattern := String.ofList (joinL ts), message := m.map String.ofList, exact := ex } := by
  rw [roundtrip_deny e ts ex m h, pattern_unchanged e ts hno]

/-- non-vacuity: a well-formed pattern with glob characters, an anchor and a message full of
    quotes, backslashes, `#` and `|` -/
example : WfPat ["rm".toList, "-rf".toList, "*".toList] true (some "say \"no\" \\ # | ok".toList) := by
  refine ⟨by decide, ?_, (fun h => by cases h), (fun h => by cases h)⟩
  intro t ht
  simp only [List.mem_cons, List.not_mem_nil, or_false] at ht
  rcases ht with rfl | rfl | rfl <;> exact ⟨by decide, by decide⟩

end

/-- malformed lines are `skip` -/
example : parseLine ⟨"/h", fun _ => none⟩ "deny \"message only\"" = .skip := by decide
example : parseLine ⟨"/h", fun _ => none⟩ "bogus directive" = .skip := by decide
example : parseLine ⟨"/h", fun _ => none⟩ "set log ~nosuchuser/x" = .skip := by decide

/-! ### indentation and trailing blanks of a line carry no meaning -/

/-- two lines with the same stripped form mean the same -/
theorem line_congr (e : ParseEnv) (a b : String) (h : Py.strip a = Py.strip b) : parseLine e a = parseLine e b := by
  delta parseLine
  rw [h]

/-- a line means what its stripped form means -/
theorem line_strip_invariant (e : ParseEnv) (raw : String) : parseLine e (Py.strip raw) = parseLine e raw :=
  line_congr e _ _ (Py.strip_idem raw)

/-- for every line, every indentation and every run of trailing white space (any characters Python's `strip()` removes):
    the padded line is read exactly as the line itself – a rule cannot be changed, disabled or created by white space
    around it -/
theorem line_padding_invariant (e : ParseEnv) (raw : String) (pre suf : List Char)
    (h1 : ∀ c ∈ pre, Py.isSpace c = true) (h2 : ∀ c ∈ suf, Py.isSpace c = true) :
    parseLine e (String.ofList (pre ++ raw.toList ++ suf)) = parseLine e raw :=
  line_congr e _ _ (Py.strip_pad pre suf raw h1 h2)

/-- … and so a whole text whose lines are padded reads as the unpadded text -/
theorem text_padding_invariant (e : ParseEnv) (lines : List String) (pad : String → List Char × List Char)
    (hp : ∀ l, (∀ c ∈ (pad l).1, Py.isSpace c = true) ∧ (∀ c ∈ (pad l).2, Py.isSpace c = true)) (c : Config) :
    parseLines e (lines.map fun l => String.ofList ((pad l).1 ++ l.toList ++ (pad l).2)) c = parseLines e lines c := by
  have hm : (lines.map fun l => String.ofList ((pad l).1 ++ l.toList ++ (pad l).2)).map (parseLine e) = lines.map (parseLine e) := by
    induction lines with
    | nil => rfl
    | cons l t ih =>
      simp only [List.map_cons]
      rw [ih, line_padding_invariant e l _ _ (hp l).1 (hp l).2]
  rw [parseLines_eq, parseLines_eq, hm]

/-- a line of white space only – whatever the characters, however many – is skipped: it is the identity on the
    configuration (with `bad_line_identity`) -/
theorem blank_line_skip (e : ParseEnv) (raw : String) (h : ∀ c ∈ raw.toList, Py.isSpace c = true) :
    parseLine e raw = .skip := by
  have hs : Py.strip raw = Py.strip "" := by
    simp only [Py.strip]
    rw [Py.stripL_all _ _ h]
    rfl
  have he : parseLine e "" = .skip := by
    delta parseLine
    rfl
  rw [line_congr e raw "" hs, he]

example : parseLine ⟨"/h", fun _ => none⟩ "  \tdeny rm -rf * \"no\"  " = parseLine ⟨"/h", fun _ => none⟩ "deny rm -rf * \"no\"" ∧
    parseLine ⟨"/h", fun _ => none⟩ "deny rm -rf * \"no\"" ≠ .skip := by decide +kernel

end Dippy.C11
