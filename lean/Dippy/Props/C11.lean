/-
C11 — Config text: line-local, never fatal, round-trips.

The model's `parseConfig` is a total function (an exception escaping `parse_config` would be a
correspondence divergence, T1).  The theorems below say what that function computes:
every line is interpreted on its own, a line that is not a well-formed directive is the
identity, parsing a concatenation is parsing the second text on top of the first (= `_merge_configs`
on everything but the dead `default` field), and the quoted-message syntax round-trips for
*every* message and every pattern without trailing whitespace.
-/
import Dippy.Lemmas.Parse
import Dippy.Lemmas.Escape

set_option linter.unusedSimpArgs false

namespace Dippy.C11
open Dippy

variable (e : ParseEnv)

/-- each line is interpreted independently of its neighbours: the result is a fold of per-line
    results, and a line's result is a function of that line (and the parse environment) alone -/
theorem line_local (lines : List String) (c : Config) :
    parseLines e lines c = applyAll c (lines.map (parseLine e)) := parseLines_eq e lines c

/-- a malformed / blank / comment line is skipped with everything else kept -/
theorem bad_line_identity (a b : List String) (l : String) (c : Config) (h : parseLine e l = .skip) :
    parseLines e (a ++ l :: b) c = parseLines e (a ++ b) c := skip_line_identity e a b l c h

/-- what a line contributes does not depend on where it stands -/
theorem line_independent (a b a' b' : List String) (l : String) :
    (parseLines e (a ++ l :: b)).rules.length + (parseLines e (a' ++ b')).rules.length
      = (parseLines e (a' ++ l :: b')).rules.length + (parseLines e (a ++ b)).rules.length := by
  simp only [parseLines_eq, applyAll_rules, List.map_append, List.map_cons, List.filterMap_append,
    List.filterMap_cons, List.length_append]
  cases (parseLine e l).ruleOf <;> simp <;> omega

/-- parsing a concatenation = parsing the second text starting from the first's result -/
theorem parse_concat (a b : List String) (c : Config) :
    parseLines e (a ++ b) c = parseLines e b (parseLines e a c) := parseLines_append e a b c

/-- … which agrees with `_merge_configs` on every rule list, the log path and log-full -/
theorem parse_merge_hom (a b : List String) :
    let ab := parseLines e (a ++ b)
    let m := mergeConfigs (parseLines e a) (parseLines e b)
    ab.rules = m.rules ∧ ab.redirectRules = m.redirectRules ∧ ab.afterRules = m.afterRules
      ∧ ab.mcpRules = m.mcpRules ∧ ab.afterMcpRules = m.afterMcpRules
      ∧ ab.log = m.log ∧ ab.logFull = m.logFull := by
  simp only [parseLines_eq, mergeConfigs, applyAll_rules, applyAll_redirectRules, applyAll_afterRules,
    applyAll_mcpRules, applyAll_afterMcpRules, applyAll_log, applyAll_logFull, List.map_append,
    List.filterMap_append, List.any_append]
  refine ⟨by simp, by simp, by simp, by simp, by simp, ?_, ?_⟩
  · rw [lastLog_append, lastLog_none]
    cases lastLog none (List.map (parseLine e) b) <;> rfl
  · cases h1 : (List.map (parseLine e) a).any LineResult.isLogFull <;>
      cases h2 : (List.map (parseLine e) b).any LineResult.isLogFull <;> simp [h1, h2]

/-- `default` is the one field for which `_merge_configs` is *not* the concatenation (it is dead
    code: nothing reads `Config.default`; T0 checks that) -/
theorem default_not_hom :
    let e : ParseEnv := ⟨"/h", fun _ => none⟩
    (parseLines e (["set default allow"] ++ ["set default ask"])).default
      ≠ (mergeConfigs (parseLines e ["set default allow"]) (parseLines e ["set default ask"])).default := by
  decide

/-! ### the quoted message round-trips -/

/-- unescape ∘ escape = id, for every message -/
theorem unescape_escape (m : List Char) : unescapeL (escapeL m) = m := Dippy.unescape_escape m

/-- `_extract_message` reads back what a writer writes: every message over all characters
    (quotes, backslashes, `#`, `|`, non-ASCII …) and every non-empty pattern without trailing whitespace -/
theorem extract_render (p m : List Char) (hp : p ≠ []) (hps : Py.rstripL Py.isSpace p = p) :
    extractMessage (String.ofList (p ++ [' ', '"'] ++ escapeL m ++ ['"']))
      = .ok (String.ofList p) (some (String.ofList m)) := Dippy.extract_render p m hp hps

/-- non-vacuity: a message full of quotes and backslashes -/
example : extractMessage "rm -rf * \"say \\\"no\\\" \\\\ ok\"" = .ok "rm -rf *" (some "say \"no\" \\ ok") := by
  decide

/-- a whole rule line, parsed back (instances; the general statement is `extract_render` plus the
    directive split, which T1 checks on generated rules) -/
example :
    parseLine ⟨"/h", fun _ => none⟩ "deny rm -rf * | \"use \\\"trash\\\"\""
      = .rule { decision := .deny, pattern := "rm -rf *", message := some "use \"trash\"", exact := true } := by
  decide

example : parseLine ⟨"/h", fun _ => none⟩ "allow-redirect ~/out/**" = .redirect { decision := .allow, pattern := "/h/out/**" } := by
  decide

/-- malformed lines are `skip` -/
example : parseLine ⟨"/h", fun _ => none⟩ "deny \"message only\"" = .skip := by decide
example : parseLine ⟨"/h", fun _ => none⟩ "bogus directive" = .skip := by decide
example : parseLine ⟨"/h", fun _ => none⟩ "set log ~nosuchuser/x" = .skip := by decide

end Dippy.C11
