/-
C03 — Verdicts compose exactly as most-restrictive-wins (deny > ask > allow).

Property theorems only.  `w : World` is arbitrary (any rule set, any handler
answers, any parser answers), `rec` is the string re-analysis (any), so every
statement holds for every configuration, cwd and fuel.
-/
import Dippy.Lemmas.Walk
import Dippy.Lemmas.Flat

namespace Dippy.C03
open Dippy

variable (w : World) (rec : Rec) (h : HelpTables)

/-- the verdict (action) of a node -/
abbrev verdict (n : Node) (cwd : String) (r : Bool) : Action := (aNode w rec h n cwd r).action

local notation "V" => verdict w rec h

/-! ### `_combine` is the join -/

theorem combine_is_join (ds : List Decision) : (combine ds).action = supList (acts ds) :=
  combine_act ds

/-- no spurious prompt: the result is never above every part -/
theorem combine_le (ds : List Decision) (c : Action) (hc : ∀ d ∈ ds, d.action ≤ c) :
    (combine ds).action ≤ c := by
  rw [combine_act]; apply supList_le; intro a ha
  simp only [acts, List.mem_map] at ha
  obtain ⟨d, hd, rfl⟩ := ha; exact hc d hd

/-- hides nothing: every part's verdict is below the result -/
theorem combine_ge (ds : List Decision) (d : Decision) (hd : d ∈ ds) :
    d.action ≤ (combine ds).action := by
  rw [combine_act]; exact le_supList (List.mem_map_of_mem hd)

/-- the result is the verdict of one of the parts (or allow when there is none) -/
theorem combine_attained (ds : List Decision) :
    (combine ds).action = .allow ∨ ∃ d ∈ ds, (combine ds).action = d.action := by
  rw [combine_act]
  rcases supList_mem (acts ds) with h | h
  · left; exact h
  · right; simp only [acts, List.mem_map] at h; obtain ⟨d, hd, he⟩ := h; exact ⟨d, hd, he.symm⟩

theorem combine_perm {xs ys : List Decision} (hp : xs.Perm ys) :
    (combine xs).action = (combine ys).action := by
  rw [combine_act, combine_act]; exact supList_perm (hp.map _)

theorem combine_dup (xs : List Decision) : (combine (xs ++ xs)).action = (combine xs).action := by
  simp [combine_act]

/-! ### every composition operator -/

/-- `a | b | c` -/
theorem pipeline_eq (cmds : List Node) (cwd : String) (r : Bool) :
    V (.pipeline cmds) cwd r = supList (cmds.map fun c => V c cwd r) := by
  simp only [verdict, aNode]
  rw [rejoin_action, aNodes_eq_map]
  simp [acts, List.map_map, Function.comp_def]

/-- the verdicts of the parts of a list, operators skipped: the first part in the cwd the list is entered in (a leading
    `cd` still runs there), the later ones in the effective cwd (where a leading literal `cd` leads) -/
def listPartVerdicts (parts : List Node) (cwd : String) (r : Bool) : List Action :=
  match parts.filter (fun n => !isOperator n) with
  | [] => []
  | p :: ps => V p cwd r :: ps.map (fun q => V q (effectiveCwd w parts cwd r) r)

/-- `a ; b && c || d & e ⏎ f` -/
theorem list_eq (parts : List Node) (cwd : String) (r : Bool) :
    V (.list parts) cwd r = supList (listPartVerdicts w rec h parts cwd r) := by
  simp only [verdict, aNode, listPartVerdicts]
  rw [rejoin_action, aListPartsCd_eq]
  cases parts.filter (fun n => !isOperator n) with
  | nil => simp [acts]
  | cons p ps => simp [acts, verdict, List.map_map, Function.comp_def]

/-- under a fixed cwd (the list does not start with a literal `cd`) -/
theorem list_eq_fixed_cwd (parts : List Node) (cwd : String) (r : Bool)
    (hcd : effectiveCwd w parts cwd r = cwd) :
    V (.list parts) cwd r = supList ((parts.filter fun n => !isOperator n).map fun p => V p cwd r) := by
  rw [list_eq]
  simp only [listPartVerdicts, hcd]
  cases parts.filter (fun n => !isOperator n) with
  | nil => rfl
  | cons p ps => rfl

theorem if_eq (c t : Node) (e : Option Node) (rs : List Redir) (cwd : String) (r : Bool) :
    V (.ifN c t e rs) cwd r
      = supList ([V c cwd r, V t cwd r] ++ (e.map fun n => V n cwd r).toList
          ++ acts (aRedirects w rec h rs cwd r)) := by
  simp only [verdict, aNode, combine_act, acts_append, aOptNode_acts]
  simp [Action.sup_assoc]

theorem while_eq (u : Bool) (c b : Node) (rs : List Redir) (cwd : String) (r : Bool) :
    V (.whileN u c b rs) cwd r
      = supList ([V c cwd r, V b cwd r] ++ acts (aRedirects w rec h rs cwd r)) := by
  simp only [verdict, aNode, combine_act, acts_append]
  simp [Action.sup_assoc]

theorem for_eq (v : String) (ws : List Word) (b : Node) (rs : List Redir) (cwd : String) (r : Bool) :
    V (.forN v ws b rs) cwd r
      = supList ([V b cwd r] ++ acts (aWords w rec h ws cwd r) ++ acts (aRedirects w rec h rs cwd r)) := by
  simp only [verdict, aNode, combine_act, acts_append]
  simp [Action.sup_assoc]

theorem select_eq (v : String) (ws : List Word) (b : Node) (rs : List Redir) (cwd : String) (r : Bool) :
    V (.selectN v ws b rs) cwd r
      = supList ([V b cwd r] ++ acts (aWords w rec h ws cwd r) ++ acts (aRedirects w rec h rs cwd r)) := by
  simp only [verdict, aNode, combine_act, acts_append]
  simp [Action.sup_assoc]

theorem casePats_acts (pats : List CasePat) (cwd : String) (r : Bool) :
    acts (aCasePats w rec h pats cwd r)
      = pats.flatMap fun p => match p with
          | .mk pat body => acts (scanArg rec true (some pat) cwd r) ++ (body.map fun n => V n cwd r).toList := by
  induction pats with
  | nil => simp [aCasePats]
  | cons p ps ih =>
    cases p with
    | mk pat body => simp [aCasePats, ih, aOptNode_acts]

/-- a `case` is the join of its word's substitutions, its patterns' substitutions, its arms' bodies
    and its redirects -/
theorem case_eq (wd : Option Word) (pats : List CasePat) (rs : List Redir) (cwd : String) (r : Bool) :
    V (.caseN wd pats rs) cwd r
      = supList (acts (aOptWord w rec h wd cwd r)
          ++ (pats.flatMap fun p => match p with
                | .mk pat body => acts (scanArg rec true (some pat) cwd r) ++ (body.map fun n => V n cwd r).toList)
          ++ acts (aRedirects w rec h rs cwd r)) := by
  simp only [verdict, aNode]
  rw [combine_or_allow, acts_append, acts_append, casePats_acts]

theorem subshell_eq (b : Node) (rs : List Redir) (cwd : String) (r : Bool) :
    V (.subshell b rs) cwd r = Action.sup (V b cwd r) (supList (acts (aRedirects w rec h rs cwd r))) := by
  simp only [verdict, aNode, combine_act, acts_append]
  simp

theorem brace_eq (b : Node) (rs : List Redir) (cwd : String) (r : Bool) :
    V (.braceGroup b rs) cwd r = Action.sup (V b cwd r) (supList (acts (aRedirects w rec h rs cwd r))) := by
  simp only [verdict, aNode, combine_act, acts_append]
  simp

theorem function_eq (name : String) (b : Node) (cwd : String) (r : Bool) :
    V (.function name b) cwd r = V b cwd r := by simp only [verdict, aNode]
theorem time_eq (p : Node) (cwd : String) (r : Bool) : V (.time p) cwd r = V p cwd r := by
  simp only [verdict, aNode]
theorem negation_eq (p : Node) (cwd : String) (r : Bool) : V (.negation p) cwd r = V p cwd r := by
  simp only [verdict, aNode]
theorem coproc_eq (p : Node) (cwd : String) (r : Bool) : V (.coproc p) cwd r = V p cwd r := by
  simp only [verdict, aNode]

/-! ### inside one simple command -/

/-- the verdict of the command proper (step 3 of `_analyze_command`): the words after the
    assignment prefix, judged as a simple command – as spelled and as bash reads them after quote removal,
    the stricter of the two -/
def proper (ws : List Word) (cwd : String) (r : Bool) : Action :=
  let ctx := mkCmdCtx w ws
  if ctx.words.isEmpty then .allow
  else if ctx.base == "[" || ctx.base == "test" then .allow
  else if ctx.baseIdx ≥ ctx.words.length then .allow
  else Action.sup (simpleCmd w rec h (ctx.words.length + 1) (ctx.words.drop ctx.baseIdx) cwd r).action
    (simpleCmd w rec h (ctx.unquoted.length + 1) (ctx.unquoted.drop ctx.baseIdx) cwd r).action

/-- a simple command's verdict is the join of its substitutions (with the injection-risk
    prompt that belongs to a pure `$(…)` argument), its redirections and the command proper -/
theorem command_eq (ws : List Word) (rs : List Redir) (cwd : String) (r : Bool) :
    V (.command ws rs) cwd r
      = Action.sup (supList (acts (aCmdWords w rec h (mkCmdCtx w ws) ws 0 cwd r)))
          (Action.sup (supList (acts (aRedirects w rec h rs cwd r))) (proper w rec h ws cwd r)) := by
  simp only [verdict, aNode, proper]
  split
  · next he =>
    rw [combine_or_allow]; simp
  · split
    · simp [combine_act]
    · split
      · simp [combine_act]
      · have := S_cmdDecisions w rec h (mkCmdCtx w ws).words (mkCmdCtx w ws).unquoted (mkCmdCtx w ws).baseIdx cwd r
        unfold S at this
        simp [combine_act, this]

/-! ### order, repetition, nesting depth -/

theorem pipeline_perm {xs ys : List Node} (hp : xs.Perm ys) (cwd : String) (r : Bool) :
    V (.pipeline xs) cwd r = V (.pipeline ys) cwd r := by
  rw [pipeline_eq, pipeline_eq]; exact supList_perm (hp.map _)

theorem pipeline_dup (xs : List Node) (cwd : String) (r : Bool) :
    V (.pipeline (xs ++ xs)) cwd r = V (.pipeline xs) cwd r := by
  rw [pipeline_eq, pipeline_eq]; simp

theorem list_perm {xs ys : List Node} (hp : xs.Perm ys) (cwd : String) (r : Bool)
    (hx : effectiveCwd w xs cwd r = cwd) (hy : effectiveCwd w ys cwd r = cwd) :
    V (.list xs) cwd r = V (.list ys) cwd r := by
  rw [list_eq_fixed_cwd _ _ _ _ _ _ hx, list_eq_fixed_cwd _ _ _ _ _ _ hy]
  exact supList_perm ((hp.filter _).map _)

/-- transparent wrappers, applied to any depth -/
inductive Wrap where
  | subshell | brace | time | negation | function (name : String) | coproc

def Wrap.apply : Wrap → Node → Node
  | .subshell, n => .subshell n []
  | .brace, n => .braceGroup n []
  | .time, n => .time n
  | .negation, n => .negation n
  | .function name, n => .function name n
  | .coproc, n => .coproc n

theorem wrap_eq (k : Wrap) (n : Node) (cwd : String) (r : Bool) : V (k.apply n) cwd r = V n cwd r := by
  cases k <;> simp [verdict, Wrap.apply, aNode, aRedirects, combine_act]

/-- nesting depth is irrelevant -/
theorem depth_free (ks : List Wrap) (n : Node) (cwd : String) (r : Bool) :
    V (ks.foldr Wrap.apply n) cwd r = V n cwd r := by
  induction ks with
  | nil => rfl
  | cons k ks ih => simp only [List.foldr_cons]; rw [wrap_eq]; exact ih

/-! ### "submitted alone" -/

/-- analysing a text whose parse is the single node `n` gives `n`'s verdict -/
theorem alone (fuel : Nat) (s : String) (n : Node) (cwd : String) (r : Bool)
    (hs : (stripCmd s).isEmpty = false) (hp : w.parse (stripCmd s) = .ok [n]) :
    (analyzeStr w h (fuel + 1) s cwd r).action = (aNode w (analyzeStr w h fuel) h n cwd r).action := by
  simp [analyzeStr, hs, hp, aNodes, combine_act]

/-- and a text with several top-level nodes is the join of them -/
theorem toplevel (fuel : Nat) (s : String) (ns : List Node) (cwd : String) (r : Bool)
    (hs : (stripCmd s).isEmpty = false) (hne : ns.isEmpty = false) (hp : w.parse (stripCmd s) = .ok ns) :
    (analyzeStr w h (fuel + 1) s cwd r).action
      = supList (ns.map fun n => (aNode w (analyzeStr w h fuel) h n cwd r).action) := by
  simp [analyzeStr, hs, hp, hne, combine_act, aNodes_eq_map, acts, List.map_map, Function.comp_def]

end Dippy.C03
