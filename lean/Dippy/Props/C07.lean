/-
C07 — User rules decide: last match wins, non-matching rules are inert.

Property theorems only.  `env` is any path environment (any file system), `cfg` any
configuration, `w` any world whose rule lookup is the configuration's engine.
-/
import Dippy.Lemmas.LastMatch
import Dippy.Lemmas.GlobLit
import Dippy.Lemmas.Walk
import Dippy.Props.C03

set_option linter.unusedSimpArgs false

namespace Dippy.C07
open Dippy

variable (env : PathEnv)

/-- does command rule `r` match the command `ws` (under `cfg`'s aliases)? -/
def ruleHits (cfg : Config) (ws : List String) (cwd : String) (rem : Bool) (r : Rule) : Bool :=
  patternMatches env r.pattern r.exact (normalizedCmd env cfg ws cwd rem) cwd rem

/-- R3: the rule engine returns the last matching rule, for every rule list and command -/
theorem last_match_wins (cfg : Config) (ws : List String) (cwd : String) (rem : Bool) :
    matchCommand env cfg ws cwd rem
      = ((cfg.rules.filter (ruleHits env cfg ws cwd rem)).getLast?).map Rule.toMatch := by
  simp only [matchCommand, matchWords, lastMatch_eq]
  rfl

/-- no rule matches ⇔ no match -/
theorem no_match_iff (cfg : Config) (ws : List String) (cwd : String) (rem : Bool) :
    matchCommand env cfg ws cwd rem = none ↔ ∀ r ∈ cfg.rules, ruleHits env cfg ws cwd rem r = false := by
  unfold matchCommand matchWords
  simp only [Option.map_eq_none_iff]
  exact lastMatch_none

/-- a non-matching rule is inert wherever it is inserted -/
theorem inert (cfg : Config) (a b : List Rule) (r : Rule) (ws : List String) (cwd : String) (rem : Bool)
    (hr : ruleHits env { cfg with rules := a ++ r :: b } ws cwd rem r = false) :
    matchCommand env { cfg with rules := a ++ r :: b } ws cwd rem
      = matchCommand env { cfg with rules := a ++ b } ws cwd rem := by
  unfold matchCommand matchWords
  have hn : normalizedCmd env { cfg with rules := a ++ r :: b } ws cwd rem
      = normalizedCmd env { cfg with rules := a ++ b } ws cwd rem := rfl
  simp only [hn]
  rw [lastMatch_inert]
  unfold ruleHits at hr
  rw [hn] at hr
  exact hr

/-- a later matching rule overrides every earlier one, in either direction -/
theorem later_overrides (cfg : Config) (r : Rule) (ws : List String) (cwd : String) (rem : Bool)
    (hr : ruleHits env cfg ws cwd rem r = true) :
    matchCommand env { cfg with rules := cfg.rules ++ [r] } ws cwd rem = some r.toMatch := by
  unfold matchCommand matchWords
  have hn : normalizedCmd env { cfg with rules := cfg.rules ++ [r] } ws cwd rem
      = normalizedCmd env cfg ws cwd rem := rfl
  simp only [hn]
  rw [lastMatch_snoc]
  unfold ruleHits at hr
  simp [hr]

/-! ### literal patterns: whole-word prefix, exact with the `|` anchor -/

/-- a literal (glob-free after normalisation), non-anchored pattern matches the command
    itself and every extension by further words, and nothing else -/
theorem literal_prefix (pattern cmd cwd : String) (rem : Bool)
    (hlit : Glob.hasGlobChars (if rem then pattern else normalizePattern env pattern cwd) = false) :
    patternMatches env pattern false cmd cwd rem
      = let np := if rem then pattern else normalizePattern env pattern cwd
        ((np.toList ++ [' ']).isPrefixOf cmd.toList || cmd == np) := by
  unfold patternMatches
  simp only [hlit, Bool.not_false, Bool.and_self, ↓reduceIte]
  rw [Glob.fnmatch_literal_prefix _ _ (Glob.literal_of_hasGlobChars hlit)]

/-- with the `|` anchor a literal pattern matches exactly the command -/
theorem literal_exact (pattern cmd cwd : String) (rem : Bool)
    (hlit : Glob.hasGlobChars (if rem then pattern else normalizePattern env pattern cwd) = false)
    (hne : Py.endsWith (if rem then pattern else normalizePattern env pattern cwd) " *" = false) :
    patternMatches env pattern true cmd cwd rem
      = (cmd.toList == (if rem then pattern else normalizePattern env pattern cwd).toList) := by
  unfold patternMatches
  simp only [Bool.not_true, Bool.false_and, Bool.false_eq_true, ↓reduceIte, hne, Bool.or_false]
  rw [Glob.fnmatch_literal_exact _ _ (Glob.literal_of_hasGlobChars hlit)]

/-- `rm` does not match `rmdir x`: the prefix needs the separating space -/
example : patternMatches ⟨"/h", lexResolve⟩ "rm" false "rmdir x" "/w" false = false := by decide
example : patternMatches ⟨"/h", lexResolve⟩ "rm" false "rm -rf x" "/w" false = true := by decide
example : patternMatches ⟨"/h", lexResolve⟩ "rm" true "rm -rf x" "/w" false = false := by decide

/-! ### the rule decides the simple command -/

variable (w : World) (rec : Rec) (h : HelpTables)

/-- `_analyze_simple_command` unfolded once (its words start at the program name) -/
theorem simpleCmd_unfold (n : Nat) (tokens : List String) (cwd : String) (rem : Bool)
    (hne : tokens.isEmpty = false) :
    simpleCmd w rec h (n + 1) tokens cwd rem
      = match w.matchCommand tokens cwd rem with
        | some m =>
          match m.decision with
          | .allow => ⟨.allow, tokens.headD "" ++ " (" ++ m.pattern ++ ")"⟩
          | .deny => ⟨.deny, tokens.headD "" ++ ": " ++ matchMsg m⟩
          | .ask => ⟨.ask, tokens.headD "" ++ ": " ++ matchMsg m⟩
        | none =>
          let base := tokens.headD ""
          if w.wrapper base && tokens.length > 1 then
            if base == "command" && (tokens.getD 1 "" == "-v" || tokens.getD 1 "" == "-V") then
              ⟨.allow, "command -v"⟩
            else
              match skipWrapperArgs (w.wrapperArgFlags (tokens.headD "")) (tokens.drop 1) with
              | [] => ⟨.ask, base⟩
              | inner => simpleCmd w rec h n inner cwd rem
          else builtinVerdict w rec h.helpWords h.helpFlags2 h.helpFlagsLast tokens cwd rem := by
  rw [simpleCmd]
  simp only [hne, Bool.false_eq_true, ↓reduceIte]
  rfl

/-- a matching rule decides the verdict, whatever the built-in tables and handlers say -/
theorem rule_decides (n : Nat) (tokens : List String) (cwd : String) (rem : Bool) (m : Match)
    (hne : tokens.isEmpty = false)
    (hm : w.matchCommand tokens cwd rem = some m) :
    (simpleCmd w rec h (n + 1) tokens cwd rem).action = m.decision := by
  rw [simpleCmd_unfold _ _ _ _ _ _ _ hne, hm]
  cases hd : m.decision <;> simp [hd]

/-- … and a deny (or ask) carries the rule's message, or its pattern when it has none -/
theorem deny_message (n : Nat) (tokens : List String) (cwd : String) (rem : Bool) (m : Match)
    (hne : tokens.isEmpty = false)
    (hm : w.matchCommand tokens cwd rem = some m) (hd : m.decision ≠ .allow) :
    (simpleCmd w rec h (n + 1) tokens cwd rem).reason
      = tokens.headD "" ++ ": " ++ Py.orElse m.message m.pattern := by
  rw [simpleCmd_unfold _ _ _ _ _ _ _ hne, hm]
  cases hdd : m.decision <;> simp_all [matchMsg]

/-- when no rule matches, the verdict is the built-in one (it does not mention the rules) -/
theorem no_rule_builtin (n : Nat) (tokens : List String) (cwd : String) (rem : Bool)
    (hne : tokens.isEmpty = false)
    (hm : w.matchCommand tokens cwd rem = none)
    (hw : w.wrapper (tokens.headD "") = false) :
    simpleCmd w rec h (n + 1) tokens cwd rem
      = builtinVerdict w rec h.helpWords h.helpFlags2 h.helpFlagsLast tokens cwd rem := by
  rw [simpleCmd_unfold _ _ _ _ _ _ _ hne, hm]
  simp only [hw, Bool.false_and, Bool.false_eq_true, ↓reduceIte]

/-- an environment-assignment prefix hides nothing: the rules (and everything else) see exactly the
    words after the prefix – the command proper of `A=1 B=2 cmd …` is the simple command `cmd …`, judged as spelled and
    as bash reads it after quote removal (the stricter verdict) -/
theorem env_prefix_transparent (ws : List Word) (cwd : String) (rem : Bool)
    (hlt : (mkCmdCtx w ws).baseIdx < (mkCmdCtx w ws).words.length)
    (hb : ((mkCmdCtx w ws).base == "[" || (mkCmdCtx w ws).base == "test") = false) :
    C03.proper w rec h ws cwd rem
      = Action.sup (simpleCmd w rec h ((mkCmdCtx w ws).words.length + 1)
          ((mkCmdCtx w ws).words.drop (mkCmdCtx w ws).baseIdx) cwd rem).action
          (simpleCmd w rec h ((mkCmdCtx w ws).unquoted.length + 1)
          ((mkCmdCtx w ws).unquoted.drop (mkCmdCtx w ws).baseIdx) cwd rem).action := by
  unfold C03.proper
  have hne : (mkCmdCtx w ws).words.isEmpty = false := by
    cases hw : (mkCmdCtx w ws).words with
    | nil => rw [hw] at hlt; simp at hlt
    | cons _ _ => rfl
  simp only [hne, Bool.false_eq_true, ↓reduceIte, hb, ge_iff_le, Nat.not_le.mpr hlt]

/-- hence a rule matching the words after the prefix bounds the prefixed command from below (a deny rule denies it) … -/
theorem rule_bounds_env_prefix (ws : List Word) (cwd : String) (rem : Bool) (m : Match)
    (hlt : (mkCmdCtx w ws).baseIdx < (mkCmdCtx w ws).words.length)
    (hb : ((mkCmdCtx w ws).base == "[" || (mkCmdCtx w ws).base == "test") = false)
    (hm : w.matchCommand ((mkCmdCtx w ws).words.drop (mkCmdCtx w ws).baseIdx) cwd rem = some m) :
    m.decision ≤ C03.proper w rec h ws cwd rem := by
  rw [env_prefix_transparent w rec h ws cwd rem hlt hb]
  have hd : ((mkCmdCtx w ws).words.drop (mkCmdCtx w ws).baseIdx).isEmpty = false := by
    have : ((mkCmdCtx w ws).words.drop (mkCmdCtx w ws).baseIdx).length > 0 := by
      rw [List.length_drop]; omega
    cases hd : (mkCmdCtx w ws).words.drop (mkCmdCtx w ws).baseIdx with
    | nil => rw [hd] at this; simp at this
    | cons _ _ => rfl
  rw [rule_decides w rec h _ _ cwd rem m hd hm]
  exact Action.le_sup_left _ _

/-- … and a rule matching the words as bash reads them (after quote removal) bounds it as well: `r\m -rf x` does not
    slip past `deny rm -rf *` -/
theorem rule_on_unquoted_bounds (ws : List Word) (cwd : String) (rem : Bool) (m : Match)
    (hlt : (mkCmdCtx w ws).baseIdx < (mkCmdCtx w ws).words.length)
    (hb : ((mkCmdCtx w ws).base == "[" || (mkCmdCtx w ws).base == "test") = false)
    (hm : w.matchCommand ((mkCmdCtx w ws).unquoted.drop (mkCmdCtx w ws).baseIdx) cwd rem = some m) :
    m.decision ≤ C03.proper w rec h ws cwd rem := by
  rw [env_prefix_transparent w rec h ws cwd rem hlt hb]
  have hlen : (mkCmdCtx w ws).unquoted.length = (mkCmdCtx w ws).words.length := by
    simp [mkCmdCtx, mkCmdCtxS]
  have hd : ((mkCmdCtx w ws).unquoted.drop (mkCmdCtx w ws).baseIdx).isEmpty = false := by
    have : ((mkCmdCtx w ws).unquoted.drop (mkCmdCtx w ws).baseIdx).length > 0 := by
      rw [List.length_drop]; omega
    cases hd : (mkCmdCtx w ws).unquoted.drop (mkCmdCtx w ws).baseIdx with
    | nil => rw [hd] at this; simp at this
    | cons _ _ => rfl
  rw [rule_decides w rec h _ _ cwd rem m hd hm]
  exact Action.le_sup_right _ _

/-- when quote removal changes no word, the matching rule decides the prefixed command -/
theorem rule_through_env_prefix (ws : List Word) (cwd : String) (rem : Bool) (m : Match)
    (hlt : (mkCmdCtx w ws).baseIdx < (mkCmdCtx w ws).words.length)
    (hb : ((mkCmdCtx w ws).base == "[" || (mkCmdCtx w ws).base == "test") = false)
    (hq : (mkCmdCtx w ws).unquoted = (mkCmdCtx w ws).words)
    (hm : w.matchCommand ((mkCmdCtx w ws).words.drop (mkCmdCtx w ws).baseIdx) cwd rem = some m) :
    C03.proper w rec h ws cwd rem = m.decision := by
  rw [env_prefix_transparent w rec h ws cwd rem hlt hb, hq, Action.sup_idem]
  apply rule_decides w rec h _ _ cwd rem m _ hm
  have : ((mkCmdCtx w ws).words.drop (mkCmdCtx w ws).baseIdx).length > 0 := by
    rw [List.length_drop]; omega
  cases hd : (mkCmdCtx w ws).words.drop (mkCmdCtx w ws).baseIdx with
  | nil => rw [hd] at this; simp at this
  | cons _ _ => rfl

/-- a transparent wrapper hides nothing: unless a rule matches the wrapped form itself,
    the verdict is that of the inner command (so the rules see the inner command) -/
theorem wrapper_transparent (n : Nat) (W : String) (rest inner : List String) (cwd : String) (rem : Bool)
    (hwr : w.wrapper W = true) (hr : rest.isEmpty = false)
    (hcv : (W == "command" && (rest.headD "" == "-v" || rest.headD "" == "-V")) = false)
    (hskip : skipWrapperArgs (w.wrapperArgFlags W) rest = inner) (hi : inner.isEmpty = false)
    (hm : w.matchCommand (W :: rest) cwd rem = none) :
    simpleCmd w rec h (n + 1 + 1) (W :: rest) cwd rem = simpleCmd w rec h (n + 1) inner cwd rem := by
  rw [simpleCmd_unfold _ _ _ _ _ _ _ (by rfl), hm]
  have hlen : (W :: rest).length > 1 := by
    cases rest with
    | nil => simp at hr
    | cons _ _ => simp
  have hg : (W :: rest).getD 1 "" = rest.headD "" := by cases rest <;> rfl
  simp only [List.headD_cons, hwr, hlen, decide_true, Bool.and_self, ↓reduceIte, hg, hcv,
    Bool.false_eq_true, List.drop_succ_cons, List.drop_zero, hskip]
  cases inner with
  | nil => simp at hi
  | cons a as => rfl

/-- corollary: a rule on the inner command decides the wrapped command -/
theorem rule_through_wrapper (n : Nat) (W : String) (rest inner : List String) (cwd : String) (rem : Bool)
    (m : Match)
    (hwr : w.wrapper W = true) (hr : rest.isEmpty = false)
    (hcv : (W == "command" && (rest.headD "" == "-v" || rest.headD "" == "-V")) = false)
    (hskip : skipWrapperArgs (w.wrapperArgFlags W) rest = inner) (hi : inner.isEmpty = false)
    (hm : w.matchCommand (W :: rest) cwd rem = none)
    (hmi : w.matchCommand inner cwd rem = some m) :
    (simpleCmd w rec h (n + 1 + 1) (W :: rest) cwd rem).action = m.decision := by
  rw [wrapper_transparent w rec h n W rest inner cwd rem hwr hr hcv hskip hi hm]
  exact rule_decides w rec h n inner cwd rem m hi hmi

/-! ### quote removal: the words bash reads -/

/-- T0 facts: `_analyze_command` has the second pass, and `_remove_quotes` has the shape the model implements (which
    words are left alone, what a backslash escapes inside double quotes, the numeric escapes of `$'…'`) -/
theorem quote_removal_shape :
    Generated.Quoting.secondPassPresent = true
      ∧ Generated.Quoting.ownContextMarkers = ["ch == '`' or value[i:i + 2] in ('$(', '${', '<(', '>(')", "value[i] == '`' or value[i:i + 2] in ('$(', '${')"]
      ∧ Generated.Quoting.doubleQuoteEscapable = "$`\"\\\n"
      ∧ Generated.Quoting.ansiCNumericPattern = "([0-7]{1,3})|(?:x([0-9a-fA-F]{1,2})|u([0-9a-fA-F]{1,4})|U([0-9a-fA-F]{1,8}))" := by
  decide

/-- spellings that used to reach rules and handlers unread -/
theorem quote_removal_examples :
    removeQuotes "-\"exec\"" = "-exec" ∧ removeQuotes "\\-delete" = "-delete" ∧ removeQuotes "r\\m" = "rm"
      ∧ removeQuotes "$'\\x2ddel\\145te'" = "-delete" ∧ removeQuotes "'r'\"m\"" = "rm" ∧ removeQuotes "$'\\u002dexec'" = "-exec"
      ∧ removeQuotes "\"$(x)\"" = "$(x)" ∧ removeQuotes "it\\'s" = "it's"
      ∧ removeQuotes "\"echo \\`rm x\\`\"" = "echo `rm x`" ∧ removeQuotes "'a`b'\\$(" = "a`b$(" := by
  decide +kernel

/-- a word without quote characters, backslashes, `$`, backticks or `<` `>` is read as written -/
theorem rqLoop_plain (esc : List (Char × Char)) (cs acc : List Char) (f : Nat) (hf : cs.length < f)
    (hc : ∀ c ∈ cs, c ≠ '\\' ∧ c ≠ '\'' ∧ c ≠ '"' ∧ c ≠ '$' ∧ c ≠ '`' ∧ c ≠ '<' ∧ c ≠ '>') :
    rqLoop esc f .plain cs acc = some (acc.reverse ++ cs) := by
  induction cs generalizing acc f with
  | nil =>
    cases f with
    | zero => simp at hf
    | succ f => simp [rqLoop]
  | cons c rest ih =>
    cases f with
    | zero => simp at hf
    | succ f =>
      obtain ⟨h1, h2, h3, h4, h5, h6, h7⟩ := hc c (by simp)
      simp only [rqLoop, h1, h2, h3, h4, h5, h6, h7, false_or, false_and, or_self, ↓reduceIte]
      rw [ih (c :: acc) f (by simp at hf; omega) (fun x hx => hc x (by simp [hx]))]
      simp

end Dippy.C07
