/-
C04 — wrappers and launchers never launder a command.

Property theorems only.  What is proved, for every token list / argument string:
  (a) re-quoting is faithful: bash reads `bash_join ts` back as exactly `ts`, and its first
      word is never an assignment prefix;
  (b) a handler's `delegate` answer is the whole verdict – the help/version shortcut, the
      description tables and everything else are out of the way – so the launcher is judged
      exactly as the inner command text (plus the launcher's own write targets);
  (c) the pure wrappers (`time`, `timeout N`, `nice [-n N]`, `nohup`, `command [--]`) give exactly
      the wrapped command's verdict;
  (d) which words each modelled handler hands on: always a suffix of the command line
      (nothing dropped, reordered or invented), every `-exec` clause of `find`, the verbatim
      `-c` string of a shell.
Whether the *skipped* prefix is what the real tool treats as options is not a theorem: it is
validated against the real env/xargs/find/timeout/nice/nohup/sh by T2 (harness/props/c04.py).
-/
import Dippy.Lemmas.Quote
import Dippy.Model.Wrappers
import Dippy.Lemmas.Shell
import Dippy.Props.C07
import Dippy.Generated.Tables

namespace Dippy.C04

open Dippy Dippy.W

set_option linter.unusedSimpArgs false

/-! ### (a) quoting -/

/-- bash reads the re-joined text back as the original argument vector – for every vector -/
theorem quote_roundtrip {alnum : Char → Bool} (hs : SoundAlnum alnum) (ts : List (List Char)) :
    shellWords (bashJoinL alnum ts) = some ts := by
  unfold shellWords
  cases ts with
  | nil => rfl
  | cons t ts =>
    unfold bashJoinL
    apply lex_join (quoteFirstL alnum t :: ts.map (bashQuoteL alnum)) (t :: ts) (by simp)
    intro i hi rest x
    cases i with
    | zero => simpa using lex_out_quoteFirst hs t rest x
    | succ k =>
      simp only [List.length_cons, List.length_map] at hi
      simpa using lex_out_quote hs (ts[k]'(by omega)) rest x

/-- Python's `str.isalnum` (T0's Unicode table) accepts no blank, quote or metacharacter -/
theorem pyAlnum_sound : SoundAlnum Py.isAlnum := by
  intro c hc
  cases hsp : shellSpecial c with
  | false => rfl
  | true =>
    exfalso
    have hmem : c ∈ [' ', '\t', '\n', '\'', '"'] ++ shellMeta := by
      unfold shellSpecial isBlank isMetaChar at hsp
      simp only [Bool.or_eq_true, decide_eq_true_eq, List.contains_eq_mem] at hsp
      simp only [List.mem_append, List.mem_cons, List.not_mem_nil, or_false]
      rcases hsp with ((((h | h) | h) | h) | h) | h
      · exact Or.inl (Or.inl h)
      · exact Or.inl (Or.inr (Or.inl h))
      · exact Or.inl (Or.inr (Or.inr (Or.inl h)))
      · exact Or.inl (Or.inr (Or.inr (Or.inr (Or.inl h))))
      · exact Or.inl (Or.inr (Or.inr (Or.inr (Or.inr h))))
      · exact Or.inr h
    have hall : ([' ', '\t', '\n', '\'', '"'] ++ shellMeta).all (fun c => !Py.isAlnum c) = true := by
      decide +kernel
    have := List.all_eq_true.mp hall c hmem
    simp [hc] at this

/-- the shipped `bash_join`: for every list of strings -/
theorem quote_roundtrip_py (ts : List String) :
    shellWords (bashJoin ts).toList = some (ts.map String.toList) := by
  unfold bashJoin
  simpa using quote_roundtrip pyAlnum_sound (ts.map String.toList)

/-- word role: the first word of the re-joined text is never read as an assignment prefix -/
theorem first_word_is_command {alnum : Char → Bool} (hs : SoundAlnum alnum) (t : List Char) :
    isAssignWord (String.ofList (quoteFirstL alnum t)) = false := by
  have hq : ∀ l : List Char, isAssignWord (String.ofList ('\'' :: l)) = false := by
    intro l
    unfold isAssignWord
    simp [isNameStart]
  unfold quoteFirstL
  by_cases h : bashQuoteL alnum t = t ∧ isAssignWord (String.ofList t) = true
  · simp only [h, and_self, ↓reduceIte]
    exact hq _
  · simp only [h, ↓reduceIte]
    by_cases h1 : bashQuoteL alnum t = t
    · rw [h1]
      cases ha : isAssignWord (String.ofList t) with
      | false => rfl
      | true => exact absurd ⟨h1, ha⟩ h
    · -- quoted: starts with a single quote
      unfold bashQuoteL at h1 ⊢
      cases t with
      | nil => simpa using hq ['\'']
      | cons a s =>
        simp only [List.isEmpty_cons, Bool.false_eq_true, ↓reduceIte] at h1 ⊢
        by_cases hall : (a :: s).all (isSafeChar alnum) = true
        · simp [hall] at h1
        · rw [if_neg hall]
          exact hq _

example : bashJoin ["FOO=1", "ls", "a b", "it's", ""] = "'FOO=1' ls 'a b' 'it'\"'\"'s' ''" := by decide +kernel
example : shellWords "'FOO=1' ls 'a b' 'it'\"'\"'s' ''".toList
    = some ["FOO=1".toList, "ls".toList, "a b".toList, "it's".toList, []] := by decide +kernel

/-! ### (b) a delegate answer is the verdict -/

variable (w : World) (rec : Rec) (h : HelpTables)

/-- when the handler delegates, the verdict is that of the inner command text – whatever help- or
    version-looking tokens surround it – unless one of the launcher's own write targets objects -/
theorem delegate_verdict (tokens : List String) (cwd : String) (rem : Bool) (inner : String)
    (hs : w.simpleSafe (tokens.headD "") = false)
    (hh : w.hasHandler (tokens.headD "") = true)
    (ha : (w.classify tokens).action = "delegate")
    (hi : Py.truthy (w.classify tokens).innerCommand = some inner)
    (ht : (w.classify tokens).redirectTargets = []) :
    builtinVerdict w rec h.helpWords h.helpFlags2 h.helpFlagsLast tokens cwd rem
      = rec inner cwd (w.classify tokens).remote := by
  have e : tokens.headD "" = tokens.head?.getD "" := by simp
  rw [e] at hs hh
  unfold builtinVerdict runsInner
  simp [hs, hh, ha, hi, ht]

/-- in particular the generic help shortcut never answers for a launcher that runs something:
    its verdict does not depend on the help/version tables at all -/
theorem no_help_shortcut_for_launchers (tokens : List String) (cwd : String) (rem : Bool)
    (hr : runsInner w tokens = true) :
    builtinVerdict w rec h.helpWords h.helpFlags2 h.helpFlagsLast tokens cwd rem
      = builtinVerdict w rec [] [] [] tokens cwd rem := by
  unfold builtinVerdict
  simp [hr, isVersionOrHelp]

/-! ### (c) pure wrappers -/

theorem clusterTakesNext_of_not_dash (flags : List String) (c : String) (h : Py.startsWith c "-" = false) :
    clusterTakesNext flags c = false := by simp [clusterTakesNext, h]

theorem clusterTakesNext_double_dash (flags : List String) : clusterTakesNext flags "--" = false := by
  have : Py.startsWith "--" "--" = true := by decide +kernel
  simp [clusterTakesNext, this]

/-- the plain forms: nothing but the wrapper's own duration and flags is skipped -/
theorem skip_plain (fwa : WrapOpts) (c : String) (cs : List String)
    (hdur : (fwa.duration && (Py.isDigitStr c || Py.isDigitStr (Py.removeChar c '.') || isDuration c)) = false)
    (hfwa : c ∉ fwa.flags)
    (hflag : Py.startsWith c "-" = false) :
    skipWrapperArgs fwa (c :: cs) = c :: cs := by
  have hne : (c == "--") = false := by
    cases hc : c == "--" with
    | false => rfl
    | true =>
      have : c = "--" := by simpa using hc
      subst this
      revert hflag; decide
  simp [skipWrapperArgs, skipWrapperAux, hflag, hne, hfwa, hdur, clusterTakesNext_of_not_dash _ _ hflag]

/-- a wrapper that takes no duration (nice, nohup, command, strace …) skips no number: `command 30 x` names the program `30` -/
theorem skip_no_number (fwa : WrapOpts) (n : String) (cs : List String) (hd : fwa.duration = false)
    (hfwa : n ∉ fwa.flags) (hflag : Py.startsWith n "-" = false) :
    skipWrapperArgs fwa (n :: cs) = n :: cs :=
  skip_plain fwa n cs (by simp [hd]) hfwa hflag

theorem skipAux_double_dash (fwa : WrapOpts) (dur : Bool) (cs : List String) (hfwa : "--" ∉ fwa.flags) :
    skipWrapperAux fwa false dur ("--" :: cs) = cs := by
  have h1 : Py.isDigitStr "--" = false := by decide +kernel
  have h2 : Py.isDigitStr (Py.removeChar "--" '.') = false := by decide +kernel
  have h3 : isDuration "--" = false := by decide +kernel
  simp [skipWrapperAux, h1, h2, h3, hfwa, clusterTakesNext_double_dash]

theorem skip_double_dash (fwa : WrapOpts) (cs : List String) (hfwa : "--" ∉ fwa.flags) :
    skipWrapperArgs fwa ("--" :: cs) = cs := skipAux_double_dash fwa _ cs hfwa

/-- `timeout 30s cmd`, `timeout 1.5m cmd`, `timeout 5 cmd`: the duration – one word – is skipped … -/
theorem skip_duration (fwa : WrapOpts) (d : String) (cs : List String) (hd : fwa.duration = true)
    (hdur : (Py.isDigitStr d || Py.isDigitStr (Py.removeChar d '.') || isDuration d) = true) :
    skipWrapperArgs fwa (d :: cs) = skipWrapperAux fwa false false cs := by
  simp [skipWrapperArgs, skipWrapperAux, hd, hdur]

/-- … and the word after it is the command, whatever it looks like (`timeout 5 10 x` runs `10`) -/
theorem skip_after_duration (fwa : WrapOpts) (c : String) (cs : List String)
    (hfwa : c ∉ fwa.flags) (hflag : Py.startsWith c "-" = false) :
    skipWrapperAux fwa false false (c :: cs) = c :: cs := by
  have hne : (c == "--") = false := by
    cases hc : c == "--" with
    | false => rfl
    | true =>
      have : c = "--" := by simpa using hc
      subst this
      revert hflag; decide
  simp [skipWrapperAux, hflag, hne, hfwa, clusterTakesNext_of_not_dash _ _ hflag]

/-- `-n 5`, `-s KILL`: an option of the table takes the next word with it -/
theorem skip_flag_with_arg (fwa : WrapOpts) (f a : String) (cs : List String) (hf : f ∈ fwa.flags)
    (hdur : (fwa.duration && (Py.isDigitStr f || Py.isDigitStr (Py.removeChar f '.') || isDuration f)) = false) :
    skipWrapperArgs fwa (f :: a :: cs) = skipWrapperAux fwa false fwa.duration cs := by
  simp [skipWrapperArgs, skipWrapperAux, hf, hdur]

/-- `-vk 3`, `-vs KILL`: so does a cluster of short options whose first value-taking letter is its last -/
theorem skip_cluster_with_arg (fwa : WrapOpts) (f a : String) (cs : List String) (hf : clusterTakesNext fwa.flags f = true)
    (hdur : (fwa.duration && (Py.isDigitStr f || Py.isDigitStr (Py.removeChar f '.') || isDuration f)) = false) :
    skipWrapperArgs fwa (f :: a :: cs) = skipWrapperAux fwa false fwa.duration cs := by
  simp [skipWrapperArgs, skipWrapperAux, hf, hdur]

example : clusterTakesNext ["-s", "--signal", "-k", "--kill-after"] "-vk" = true
    ∧ clusterTakesNext ["-s", "--signal", "-k", "--kill-after"] "-vk3" = false
    ∧ clusterTakesNext ["-s", "--signal", "-k", "--kill-after"] "-vsKILL" = false
    ∧ clusterTakesNext ["-s", "--signal", "-k", "--kill-after"] "-k" = false
    ∧ clusterTakesNext ["-s", "--signal", "-k", "--kill-after"] "-v" = false := by decide +kernel

theorem skip_flag (fwa : WrapOpts) (f : String) (cs : List String) (hf : Py.startsWith f "-" = true) (hd : f ≠ "--")
    (hfwa : f ∉ fwa.flags) (hcl : clusterTakesNext fwa.flags f = false)
    (hdur : (fwa.duration && (Py.isDigitStr f || Py.isDigitStr (Py.removeChar f '.') || isDuration f)) = false) :
    skipWrapperArgs fwa (f :: cs) = skipWrapperAux fwa false fwa.duration cs := by
  simp [skipWrapperArgs, skipWrapperAux, hf, hd, hfwa, hdur, hcl]

/-- T0: the wrapper loop's DURATION test in the source is the one the model implements: for `timeout` only, the
    pattern `isDuration` transcribes, and at most once -/
theorem wrapper_duration_facts :
    Generated.wrapperDurationCommands = ["timeout"]
      ∧ Generated.wrapperDurationPattern = "(\\d+\\.?\\d*|\\.\\d+)[smhd]?"
      ∧ Generated.wrapperDurationOnce = true := by decide

example : isDuration "30s" = true ∧ isDuration "1.5m" = true ∧ isDuration ".5" = true ∧ isDuration "2h" = true
    ∧ isDuration "5x" = false ∧ isDuration "7z" = false ∧ isDuration "s" = false ∧ isDuration "1.2.3" = false
    ∧ isDuration "" = false ∧ isDuration "." = false := by decide +kernel

/-- `W args… c` has exactly the verdict of `c` when no rule is written for the wrapped form -/
theorem pure_wrapper_exact (n : Nat) (W : String) (rest inner : List String) (cwd : String) (rem : Bool)
    (hw : w.wrapper W = true)
    (hrest : rest.isEmpty = false)
    (hcv : (W == "command" && (rest.headD "" == "-v" || rest.headD "" == "-V")) = false)
    (hm : w.matchCommand (W :: rest) cwd rem = none)
    (hskip : skipWrapperArgs (w.wrapperArgFlags W) rest = inner) (hinner : inner.isEmpty = false) :
    simpleCmd w rec h (n + 2) (W :: rest) cwd rem = simpleCmd w rec h (n + 1) inner cwd rem :=
  C07.wrapper_transparent w rec h n W rest inner cwd rem hw hrest hcv hskip hinner hm

/-! ### (d) what the handlers hand on -/

theorem xargsSkip_suffix (b : Bool) (l : List String) : xargsSkip b l <:+ l := by
  induction l generalizing b with
  | nil => cases b <;> simp [xargsSkip]
  | cons t rest ih =>
    have h1 := List.IsSuffix.trans (ih true) (List.suffix_cons t rest)
    have h0 := List.IsSuffix.trans (ih false) (List.suffix_cons t rest)
    cases b with
    | true =>
      simp only [xargsSkip]
      exact h0
    | false =>
      simp only [xargsSkip]
      repeat' split
      all_goals first
        | exact List.suffix_cons t rest
        | exact List.suffix_refl _
        | exact h1
        | exact h0

/-- xargs: the delegated text is the re-quoting of a non-empty suffix of the command line -/
theorem xargsUnsafe_asks (l : List String) (c : Classification) (h : xargsUnsafe l = some c) : c.action = "ask" := by
  induction l with
  | nil => simp [xargsUnsafe] at h
  | cons t rest ih =>
    unfold xargsUnsafe at h
    split at h
    · simp at h
    · split at h
      · split at h
        · split at h <;> (simp at h; subst h; rfl)
        · simp at h; subst h; rfl
      · split at h
        · simp at h; subst h; rfl
        · split at h
          · simp at h; subst h; rfl
          · split at h
            · simp at h; subst h; rfl
            · exact ih h

theorem xargs_inner_suffix (tokens : List String) (c : Classification)
    (hc : xargsClassify tokens = c) (hd : c.action = "delegate") :
    ∃ inner, inner ≠ [] ∧ inner <:+ tokens.drop 1 ∧ c.innerCommand = some (bashJoin inner) := by
  unfold xargsClassify at hc
  split at hc
  · subst hc; simp [ask] at hd
  · simp only at hc
    split at hc
    · rename_i c' hu
      subst hc
      have := xargsUnsafe_asks _ _ hu
      rw [this] at hd
      simp at hd
    · split at hc
      · subst hc; simp [ask] at hd
      · rename_i inner hne
        subst hc
        refine ⟨xargsSkip false (tokens.drop 1), ?_, xargsSkip_suffix _ _, rfl⟩
        intro he
        exact hne he

theorem archSkip_suffix (b : Bool) (l : List String) : archSkip b l <:+ l := by
  induction l generalizing b with
  | nil => cases b <;> simp [archSkip]
  | cons t rest ih =>
    cases b with
    | true => simp only [archSkip]; exact List.IsSuffix.trans (ih false) (List.suffix_cons t rest)
    | false =>
      simp only [archSkip]
      split
      · exact List.IsSuffix.trans (ih false) (List.suffix_cons t rest)
      · split
        · exact List.IsSuffix.trans (ih true) (List.suffix_cons t rest)
        · split
          · exact List.IsSuffix.trans (ih false) (List.suffix_cons t rest)
          · exact List.suffix_refl _

theorem caffSkip_suffix (b : Bool) (l : List String) : caffSkip b l <:+ l := by
  induction l generalizing b with
  | nil => cases b <;> simp [caffSkip]
  | cons t rest ih =>
    cases b with
    | true => simp only [caffSkip]; exact List.IsSuffix.trans (ih false) (List.suffix_cons t rest)
    | false =>
      simp only [caffSkip]
      split
      · exact List.IsSuffix.trans (ih true) (List.suffix_cons t rest)
      · split
        · exact List.IsSuffix.trans (ih false) (List.suffix_cons t rest)
        · split
          · exact List.IsSuffix.trans (ih false) (List.suffix_cons t rest)
          · exact List.suffix_refl _

theorem dockerExecInner_suffix (b : Bool) (l inner : List String) (hi : dockerExecInner b l = some inner) :
    inner ≠ [] ∧ inner <:+ l := by
  induction l generalizing b with
  | nil => cases b <;> simp [dockerExecInner] at hi
  | cons t rest ih =>
    cases b with
    | true =>
      simp only [dockerExecInner] at hi
      have := ih false hi
      exact ⟨this.1, List.IsSuffix.trans this.2 (List.suffix_cons t rest)⟩
    | false =>
      simp only [dockerExecInner] at hi
      split at hi
      · split at hi
        · simp at hi
        · rename_i hne
          simp only [Option.some.injEq] at hi
          subst hi
          refine ⟨by intro he; rw [he] at hne; simp at hne, ?_⟩
          exact List.IsSuffix.trans (List.drop_suffix 1 rest) (List.suffix_cons t rest)
      · split at hi
        · have := ih true hi
          exact ⟨this.1, List.IsSuffix.trans this.2 (List.suffix_cons t rest)⟩
        · split at hi
          · have := ih false hi
            exact ⟨this.1, List.IsSuffix.trans this.2 (List.suffix_cons t rest)⟩
          · split at hi
            · simp at hi
            · rename_i hne
              simp only [Option.some.injEq] at hi
              subst hi
              exact ⟨by intro he; rw [he] at hne; simp at hne, List.suffix_cons t rest⟩

theorem clusterFind_mem (fwa : List String) (cs : List Char) (c : Char) (att : List Char)
    (h : clusterFind fwa cs = some (c, att)) : c ∈ cs := by
  induction cs with
  | nil => simp [clusterFind] at h
  | cons x r ih =>
    unfold clusterFind at h
    split at h
    · simp only [Option.some.injEq, Prod.mk.injEq] at h
      simp [h.1]
    · exact List.mem_cons_of_mem _ (ih h)

/-- env hands on a non-empty suffix of its words, re-quoted – unless a split-string option is present (then the
    string is handed on verbatim, `shell_c_verbatim`-style): `--split-string[=…]` or a short-option word containing `S` -/
theorem envLoop_suffix (b : Bool) (l : List String) (c : Classification) (hc : envLoop b l = c) (hd : c.action = "delegate") :
    (∃ inner, inner ≠ [] ∧ inner <:+ l ∧ c.innerCommand = some (bashJoin inner))
      ∨ (∃ t, t ∈ l ∧ (t = "--split-string" ∨ Py.startsWith t "--split-string=" = true
          ∨ (isShort t = true ∧ 'S' ∈ t.toList))) := by
  induction l generalizing b with
  | nil => cases b <;> (simp [envLoop] at hc; subst hc; simp [allow] at hd)
  | cons t rest ih =>
    have lift : ∀ b', envLoop b' rest = c →
        (∃ inner, inner ≠ [] ∧ inner <:+ t :: rest ∧ c.innerCommand = some (bashJoin inner))
          ∨ (∃ x, x ∈ t :: rest ∧ (x = "--split-string" ∨ Py.startsWith x "--split-string=" = true
              ∨ (isShort x = true ∧ 'S' ∈ x.toList))) := by
      intro b' h
      rcases ih b' h with ⟨inner, h1, h2, h3⟩ | ⟨x, hx, hx'⟩
      · exact Or.inl ⟨inner, h1, List.IsSuffix.trans h2 (List.suffix_cons t rest), h3⟩
      · exact Or.inr ⟨x, by simp [hx], hx'⟩
    cases b with
    | true =>
      simp only [envLoop] at hc
      exact lift false hc
    | false =>
      simp only [envLoop] at hc
      split at hc
      · -- "--": the rest
        unfold envInner at hc
        split at hc
        · subst hc; simp [allow] at hd
        · rename_i hne
          subst hc
          exact Or.inl ⟨rest, by intro he; simp [he] at hne, List.suffix_cons t rest, rfl⟩
      · split at hc
        · rename_i hS
          exact Or.inr ⟨t, by simp, Or.inl (by simpa using hS)⟩
        · split at hc
          · rename_i hS; exact Or.inr ⟨t, by simp, Or.inr (Or.inl hS)⟩
          · split at hc
            · -- a cluster with a value-taking option
              rename_i ch attached hfind
              by_cases hshort : isShort t = true
              · simp only [hshort, ↓reduceIte] at hfind
                have hmem := clusterFind_mem _ _ _ _ hfind
                split at hc
                · rename_i hS
                  have : ch = 'S' := by simpa using hS
                  subst this
                  exact Or.inr ⟨t, by simp, Or.inr (Or.inr ⟨hshort, List.mem_of_mem_drop hmem⟩)⟩
                · split at hc
                  · exact lift true hc
                  · exact lift false hc
              · simp [hshort] at hfind
            · split at hc
              · exact lift true hc
              · split at hc
                · exact lift false hc
                · split at hc
                  · exact lift false hc
                  · unfold envInner at hc
                    simp only [List.isEmpty_cons, Bool.false_eq_true, ↓reduceIte] at hc
                    subst hc
                    exact Or.inl ⟨t :: rest, by simp, List.suffix_refl _, rfl⟩

section Fd
open Dippy.Generated.H

theorem fdClause_rest_le (l : List String) : (fdClause l).2.length ≤ l.length := by
  induction l with
  | nil => simp [fdClause]
  | cons t r ih =>
    simp only [fdClause]
    split
    · simp
    · simp only [List.length_cons]; omega

/-- the fuel the caller passes (the number of words) is enough: more fuel changes nothing -/
theorem fdLoop_fuel (f : Nat) (l clauses : List String) (desc : Option String) (h : l.length ≤ f) :
    fdLoop (f + 1) l clauses desc = fdLoop f l clauses desc := by
  induction f generalizing l clauses desc with
  | zero =>
    cases l with
    | nil => simp [fdLoop]
    | cons _ _ => simp at h
  | succ f ih =>
    cases l with
    | nil => simp [fdLoop]
    | cons t rest =>
      have hr : rest.length ≤ f := by simpa using h
      have hc : (fdClause rest).2.length ≤ f := Nat.le_trans (fdClause_rest_le rest) hr
      rw [fdLoop, fdLoop]
      simp only
      split
      · split
        · rfl
        · exact ih _ _ _ hc
      · exact ih _ _ _ hr

/-- fd: the clauses gathered so far are never dropped – a delegation carries all of them, in order, joined by `;` -/
theorem fdLoop_keeps (f : Nat) (l clauses : List String) (desc : Option String)
    (hd : (fdLoop f l clauses desc).action = "delegate") :
    ∃ extra, (fdLoop f l clauses desc).innerCommand = some (" ; ".intercalate (clauses ++ extra)) := by
  induction f generalizing l clauses desc with
  | zero =>
    simp only [fdLoop, fdFinish] at hd ⊢
    split at hd
    · simp [allow] at hd
    · rename_i hne
      exact ⟨[], by simp [hne, delegate]⟩
  | succ f ih =>
    cases l with
    | nil =>
      simp only [fdLoop, fdFinish] at hd ⊢
      split at hd
      · simp [allow] at hd
      · rename_i hne
        exact ⟨[], by simp [hne, delegate]⟩
    | cons t rest =>
      rw [fdLoop] at hd ⊢
      split at hd
      · split at hd
        · simp [ask] at hd
        · rename_i flag head _ first more hin
          obtain ⟨extra, he⟩ := ih _ _ _ hd
          refine ⟨bashJoin (first :: more) :: extra, ?_⟩
          rw [he]; simp
      · exact ih _ _ _ hd

/-- fd: an exact `-x`/`-X`/`--exec`/`--exec-batch` adds its clause – the words up to `;` – and the scan goes on after it -/
theorem fd_exec_step (f : Nat) (t : String) (rest clauses : List String) (desc : Option String)
    (ht : t ∈ fd_EXEC_FLAGS) (first : String) (more : List String) (hc : (fdClause rest).1 = first :: more) :
    ∃ d, fdLoop (f + 1) (t :: rest) clauses desc = fdLoop f (fdClause rest).2 (clauses ++ [bashJoin (first :: more)]) d := by
  have hm : fd_EXEC_FLAGS.contains t = true := by simpa using ht
  rw [fdLoop]
  simp only [hm, ↓reduceIte, List.nil_append, hc]
  exact ⟨_, rfl⟩

/-- fd: a combined or attached short form (`-Hx cmd`, `-xcmd`) is an exec flag too: the attached text starts the command -/
theorem fd_cluster_step (f : Nat) (t : String) (rest clauses : List String) (desc : Option String)
    (hx : t ∉ fd_EXEC_FLAGS) (he : fdEqForm t = none) (flag : String) (head : List String) (hc : fdCluster t = some (flag, head))
    (first : String) (more : List String) (hcl : head ++ (fdClause rest).1 = first :: more) :
    ∃ d, fdLoop (f + 1) (t :: rest) clauses desc = fdLoop f (fdClause rest).2 (clauses ++ [bashJoin (first :: more)]) d := by
  rw [fdLoop]
  simp only [hx, he, hc, hcl, List.contains_eq_mem, decide_false, Bool.false_eq_true, ↓reduceIte]
  exact ⟨_, rfl⟩

/-- fd: a delegation carries every clause found, nothing else -/
theorem fd_inner_clauses (tokens : List String) (hd : (fdClassify tokens).action = "delegate") :
    ∃ cs, (fdClassify tokens).innerCommand = some (" ; ".intercalate cs) := by
  unfold fdClassify at hd ⊢
  split at hd
  · simp [allow] at hd
  · rename_i hlen
    simp only [hlen, ↓reduceIte]
    obtain ⟨extra, he⟩ := fdLoop_keeps _ _ [] none hd
    exact ⟨extra, by simpa using he⟩

example : (fdClassify ["fd", "-x", "echo", ";", "-x", "rm"]).innerCommand = some "echo ; rm" := by decide +kernel
example : (fdClassify ["fd", "--exec=rm", "-rf"]).innerCommand = some "rm -rf" := by decide +kernel
example : (fdClassify ["fd", "-Hx", "rm"]).innerCommand = some "rm" := by decide +kernel
example : (fdClassify ["fd", "-xrm", "-h"]).innerCommand = some "rm -h" := by decide +kernel
example : (fdClassify ["fd", "-e", "py", "pat"]).action = "allow" := by decide +kernel
example : (fdClassify ["fd", "pat", "-X", "grep", "-x", "foo"]).innerCommand = some "grep -x foo" := by decide +kernel

end Fd

theorem uvRunSkip_suffix (b : Bool) (l : List String) : uvRunSkip b l <:+ l := by
  induction l generalizing b with
  | nil => cases b <;> simp [uvRunSkip]
  | cons t rest ih =>
    cases b with
    | true => simp only [uvRunSkip]; exact List.IsSuffix.trans (ih false) (List.suffix_cons t rest)
    | false =>
      simp only [uvRunSkip]
      split
      · split
        · exact List.IsSuffix.trans (ih true) (List.suffix_cons t rest)
        · exact List.IsSuffix.trans (ih false) (List.suffix_cons t rest)
      · exact List.suffix_refl _

/-- uv run: the delegated text is the re-quoting of a non-empty suffix of the words after `uv run` -/
theorem uv_run_inner_suffix (tokens : List String) (hd : (uvRunClassify tokens).action = "delegate") :
    ∃ inner, inner ≠ [] ∧ inner <:+ tokens.drop 2 ∧ (uvRunClassify tokens).innerCommand = some (bashJoin inner) := by
  unfold uvRunClassify at hd ⊢
  cases hs : uvRunSkip false (tokens.drop 2) with
  | nil => simp [hs, ask] at hd
  | cons first more =>
    refine ⟨first :: more, by simp, ?_, by simp [delegate]⟩
    rw [← hs]; exact uvRunSkip_suffix _ _

/-- tar: an option that makes tar run a program of the caller's choosing is never approved, whatever else is on the line -/
theorem tar_program_option_asks (tokens : List String) (other : String) (h : tarRunsOther (tokens.drop 1) = some other) :
    (tarClassify tokens).action = "ask" := by
  unfold tarClassify
  simp only [h]
  rfl

/-- tar: when extracting, every `--to-command` is part of the delegated text -/
theorem tar_all_to_commands (tokens : List String) (hno : tarRunsOther (tokens.drop 1) = none)
    (hx : tarDetect tokens = some "extract")
    (hne : ((tarToCommands (tokens.drop 1)).filter (fun c => !c.isEmpty)).isEmpty = false) :
    (tarClassify tokens).action = "delegate" ∧
      (tarClassify tokens).innerCommand = some ("\n".intercalate ((tarToCommands (tokens.drop 1)).filter (fun c => !c.isEmpty))) := by
  unfold tarClassify
  simp only [hno, hne, hx, Bool.not_false, beq_self_eq_true, Bool.and_self, ↓reduceIte]
  exact ⟨rfl, rfl⟩

/-- tar: `--to-command` stands in for tar's own verdict only when tar extracts (creating, appending, updating and
    deleting write files of their own whatever the option says) -/
theorem tar_delegates_only_extract (tokens : List String) (hd : (tarClassify tokens).action = "delegate") :
    tarDetect tokens = some "extract" := by
  unfold tarClassify at hd
  split at hd
  · simp [ask] at hd
  · simp only at hd
    split at hd
    · rename_i h
      simp only [Bool.and_eq_true, beq_iff_eq] at h
      exact h.2
    · split at hd <;> simp [ask, allow] at hd

/-- tar: approval without delegation is the listing mode only -/
theorem tar_allow_is_list (tokens : List String) (ha : (tarClassify tokens).action = "allow") :
    tarDetect tokens = some "list" := by
  unfold tarClassify at ha
  split at ha
  · simp [ask] at ha
  · simp only at ha
    split at ha
    · simp [delegate] at ha
    · split at ha
      · assumption
      · simp [ask] at ha
      · simp [ask] at ha

example : (tarClassify ["tar", "-cf", "/tmp/x.tar", "--to-command=cat", "/etc"]).action = "ask" := by decide +kernel
example : (tarClassify ["tar", "-xf", "a.tar", "--to-command=cat"]).action = "delegate" := by decide +kernel

/-- kubectl exec: exactly the words after the first `--` -/
theorem kubectlExecInner_spec (l inner : List String) (hi : kubectlExecInner l = some inner) :
    inner ≠ [] ∧ ∃ pre, l = pre ++ "--" :: inner ∧ "--" ∉ pre := by
  induction l with
  | nil => simp [kubectlExecInner] at hi
  | cons t rest ih =>
    simp only [kubectlExecInner] at hi
    split at hi
    · rename_i ht
      have ht' : t = "--" := by simpa using ht
      split at hi
      · simp at hi
      · rename_i hne
        simp only [Option.some.injEq] at hi
        subst hi
        exact ⟨by intro he; rw [he] at hne; simp at hne, [], by simp [ht'], by simp⟩
    · rename_i ht
      obtain ⟨hne, pre, hl, hp⟩ := ih hi
      refine ⟨hne, t :: pre, by simp [hl], ?_⟩
      simp only [List.mem_cons, not_or]
      exact ⟨fun he => ht (by simp [he]), hp⟩

/-- a shell's `-c`: the inner command is one of the command line's words, verbatim (no re-quoting,
    no truncation), namely the one right after the first short-option cluster containing `c` among the shell's options -/
theorem shell_c_verbatim (tokens : List String) (c : Classification)
    (hc : shellClassify tokens = c) (hd : c.action = "delegate") :
    ∃ inner rest, afterCFlag false (tokens.drop 1) = some (inner :: rest) ∧ inner ≠ "" ∧ c.innerCommand = some inner := by
  unfold shellClassify at hc
  split at hc
  · subst hc; simp [ask] at hd
  · split at hc
    · subst hc; simp [ask] at hd
    · subst hc; simp [ask] at hd
    · rename_i inner rest hcf
      split at hc
      · subst hc; simp [ask] at hd
      · rename_i hne
        subst hc
        exact ⟨inner, rest, hcf, by intro he; subst he; simp at hne, rfl⟩

/-- the words before the `-c` cluster are options of the shell (or values of its value-taking options): `skip` says
    whether the first word is such a value -/
def ShellOptions : Bool → List String → Prop
  | _, [] => True
  | true, _ :: rest => ShellOptions false rest
  | false, t :: rest => (sw t "-" = true ∨ sw t "+" = true) ∧ t ≠ "--" ∧ isCFlag t = false ∧ ShellOptions (shellTakesValue t) rest

/-- where the `-c` cluster is found: only option words of the shell precede it – never a script operand or `--` -/
theorem afterCFlag_position (b : Bool) (l rest : List String) (h : afterCFlag b l = some rest) :
    ∃ pre t, l = pre ++ t :: rest ∧ ShellOptions b pre ∧ (pre = [] → b = false) ∧ isCFlag t = true := by
  induction l generalizing b with
  | nil => simp [afterCFlag] at h
  | cons t l ih =>
    cases b with
    | true =>
      simp only [afterCFlag] at h
      obtain ⟨pre, c, hl, hp, _, hcf⟩ := ih false h
      exact ⟨t :: pre, c, by simp [hl], by simpa [ShellOptions] using hp, by simp, hcf⟩
    | false =>
      simp only [afterCFlag] at h
      split at h
      · rename_i hcf
        simp only [Option.some.injEq] at h
        subst h
        exact ⟨[], t, rfl, trivial, fun _ => rfl, hcf⟩
      · rename_i hncf
        have hncf' : isCFlag t = false := by simpa using hncf
        split at h
        · rename_i htv
          obtain ⟨pre, c, hl, hp, _, hcf⟩ := ih true h
          refine ⟨t :: pre, c, by simp [hl], ?_, by simp, hcf⟩
          have hdash := takesValue_option t htv
          exact ⟨hdash.1, hdash.2, hncf', by simpa [htv] using hp⟩
        · rename_i hntv
          have hntv' : shellTakesValue t = false := by simpa using hntv
          split at h
          · cases h
          · rename_i hstop
            simp only [Bool.or_eq_true, beq_iff_eq, Bool.not_eq_true', not_or, Bool.not_eq_false] at hstop
            obtain ⟨pre, c, hl, hp, _, hcf⟩ := ih false h
            refine ⟨t :: pre, c, by simp [hl], ?_, by simp, hcf⟩
            have hsw : sw t "-" = true ∨ sw t "+" = true := by
              have := hstop.2
              simpa [Bool.or_eq_true] using this
            exact ⟨hsw, hstop.1, hncf', by simpa [hntv'] using hp⟩

/-- `bash x.sh -c ls` runs x.sh: a first word that is not an option ends the scan, nothing is delegated -/
theorem shell_script_operand_asks (prog w : String) (rest : List String)
    (hw : sw w "-" = false ∧ sw w "+" = false) : (shellClassify (prog :: w :: rest)).action = "ask" := by
  have hcf : isCFlag w = false := by simp [isCFlag, hw.1]
  have htv : shellTakesValue w = false := not_option_no_value w hw
  simp [shellClassify, afterCFlag, hcf, htv, hw.1, hw.2, ask]

/-- specification of what `find` executes: one clause per `-exec`/`-execdir`, up to `;` or `+` -/
def execClauses : List String → List (List String)
  | [] => []
  | t :: rest =>
    if t == "-exec" || t == "-execdir" then rest.takeWhile (fun x => !isClauseEnd x) :: execClauses rest
    else execClauses rest

/-- the loop with accumulators, in terms of the specification -/
theorem findLoop_spec (base : String) (l : List String) (clauses : List String) (desc : Option String)
    (hno : ∀ t ∈ l, t ≠ "-ok" ∧ t ≠ "-okdir" ∧ t ≠ "-delete")
    (hne : ∀ cl ∈ execClauses l, cl ≠ []) :
    ∃ d, findLoop base l clauses desc =
      (if (clauses ++ (execClauses l).map bashJoin).isEmpty then allow (some base)
       else delegate (" ; ".intercalate (clauses ++ (execClauses l).map bashJoin)) d) := by
  induction l generalizing clauses desc with
  | nil => exact ⟨desc, by simp [findLoop, execClauses]⟩
  | cons t rest ih =>
    have ht := hno t (by simp)
    have hno' : ∀ x ∈ rest, x ≠ "-ok" ∧ x ≠ "-okdir" ∧ x ≠ "-delete" := fun x hx => hno x (by simp [hx])
    have h1 : (t == "-ok" || t == "-okdir") = false := by simp [ht.1, ht.2.1]
    have h2 : (t == "-delete") = false := by simp [ht.2.2]
    unfold findLoop
    simp only [h1, h2, Bool.false_eq_true, ↓reduceIte]
    by_cases he : (t = "-exec" ∨ t = "-execdir")
    · have h3 : (t == "-exec" || t == "-execdir") = true := by simpa using he
      have hcl : execClauses (t :: rest) = rest.takeWhile (fun x => !isClauseEnd x) :: execClauses rest := by
        simp [execClauses, he]
      rw [hcl] at hne ⊢
      have hne1 := hne (rest.takeWhile (fun x => !isClauseEnd x)) (by simp)
      have hne' : ∀ cl ∈ execClauses rest, cl ≠ [] := fun cl h => hne cl (by simp [h])
      simp only [h3, ↓reduceIte]
      cases hin : rest.takeWhile (fun x => !isClauseEnd x) with
      | nil => exact absurd hin hne1
      | cons first more =>
        simp only
        obtain ⟨d, hd⟩ := ih (clauses ++ [bashJoin (first :: more)]) _ hno' hne'
        refine ⟨d, ?_⟩
        rw [hd]
        simp [List.append_assoc]
    · have h3 : (t == "-exec" || t == "-execdir") = false := by
        simp only [not_or] at he
        simp [he.1, he.2]
      have hcl : execClauses (t :: rest) = execClauses rest := by
        simp only [not_or] at he
        simp [execClauses, he.1, he.2]
      rw [hcl] at hne ⊢
      simp only [h3, Bool.false_eq_true, ↓reduceIte]
      exact ih clauses desc hno' hne

/-- find: every `-exec`/`-execdir` clause is part of the delegated text, in order, joined by `;` -/
theorem find_all_clauses (tokens : List String)
    (hno : ∀ t ∈ tokens, t ≠ "-ok" ∧ t ≠ "-okdir" ∧ t ≠ "-delete")
    (hne : ∀ cl ∈ execClauses tokens, cl ≠ [])
    (hsome : execClauses tokens ≠ []) :
    (findClassify tokens).action = "delegate" ∧
    (findClassify tokens).innerCommand = some (" ; ".intercalate ((execClauses tokens).map bashJoin)) := by
  unfold findClassify
  obtain ⟨d, hd⟩ := findLoop_spec (tokens.headD "find") tokens [] none hno hne
  rw [hd]
  have : ((execClauses tokens).map bashJoin).isEmpty = false := by
    cases hx : execClauses tokens with
    | nil => exact absurd hx hsome
    | cons _ _ => simp
  simp [this, delegate]

example : execClauses ["find", ".", "-exec", "ls", "{}", ";", "-execdir", "rm", "{}", "+"]
    = [["ls", "{}"], ["rm", "{}"]] := by decide +kernel

/-! ### script and the shells: options the launcher itself reads -/

/-- script: what remains after the option loop is a suffix of the words -/
theorem scriptSkip_suffix (b : Bool) (l seen seen' rem : List String) (h : scriptSkip b l seen = some (seen', rem)) :
    rem <:+ l := by
  induction l generalizing b seen with
  | nil => cases b <;> simp [scriptSkip] at h <;> simp [h.2.symm]
  | cons t rest ih =>
    cases b with
    | true =>
      simp only [scriptSkip] at h
      exact List.IsSuffix.trans (ih _ _ h) (List.suffix_cons t rest)
    | false =>
      simp only [scriptSkip] at h
      split at h
      · simp only [Option.some.injEq, Prod.mk.injEq] at h
        rw [← h.2]; exact List.suffix_cons t rest
      · split at h
        · split at h
          · cases h
          · exact List.IsSuffix.trans (ih _ _ h) (List.suffix_cons t rest)
        · simp only [Option.some.injEq, Prod.mk.injEq] at h
          rw [← h.2]; exact List.suffix_refl _

/-- script: the delegated text is the re-quoting of the words after the file operand, a non-empty proper suffix of the
    command line reached through option words the handler knows -/
theorem script_inner_suffix (tokens : List String) (hd : (scriptClassify tokens).action = "delegate") :
    ∃ seen file command, scriptSkip false (tokens.drop 1) [] = some (seen, file :: command) ∧ command ≠ [] ∧
      (file :: command) <:+ tokens.drop 1 ∧ (scriptClassify tokens).innerCommand = some (bashJoin command) := by
  unfold scriptClassify at hd ⊢
  split at hd
  · simp [ask] at hd
  · rename_i hlen
    cases hs : scriptSkip false (tokens.drop 1) [] with
    | none => rw [hs] at hd; simp [ask] at hd
    | some p =>
      obtain ⟨seen, remaining⟩ := p
      rw [hs] at hd
      cases remaining with
      | nil => simp [ask] at hd
      | cons file command =>
        cases command with
        | nil =>
          simp only [List.isEmpty_nil, ↓reduceIte] at hd
          split at hd <;> simp [ask, allow] at hd
        | cons c cs =>
          refine ⟨seen, file, c :: cs, rfl, by simp, scriptSkip_suffix _ _ _ _ _ hs, ?_⟩
          simp [hlen, delegate]

/-- script: an option word outside the handler's flag tables (util-linux's `-c COMMAND`, any long option) is never
    stepped over – the command asks whatever follows -/
theorem script_unknown_option_asks (prog t : String) (rest : List String)
    (ht : sw t "-" = true) (hdd : t ≠ "--") (hu : scriptOption t = none) :
    (scriptClassify (prog :: t :: rest)).action = "ask" := by
  simp only [scriptClassify, List.drop_succ_cons, List.drop_zero, scriptSkip, ht, hdd, hu, ask, beq_iff_eq, ↓reduceIte]
  split <;> rfl

example : scriptOption "-c" = none := by decide +kernel
example : (scriptClassify ["script", "-c", "rm x", "ls"]).action = "ask" := by decide +kernel
example : (scriptClassify ["script", "-qt", "5", "f", "ls"]).innerCommand = some "ls" := by decide +kernel
example : (scriptClassify ["script", "-q", "/dev/null", "ls", "-la"]).innerCommand = some "ls -la" := by decide +kernel
example : (shellClassify ["bash", "x.sh", "-c", "ls"]).action = "ask" := by decide +kernel
example : (shellClassify ["bash", "-eo", "pipefail", "-c", "ls"]).innerCommand = some "ls" := by decide +kernel
example : (shellClassify ["bash", "--rcfile", "-c", "-c", "ls"]).innerCommand = some "ls" := by decide +kernel
example : (shellClassify ["bash", "--", "-c", "ls"]).action = "ask" := by decide +kernel

/-! ### T0 obligation: the launchers are the ones this property covers -/

/-- the handler modules that can answer `delegate` (found by T0 in the source) are exactly the thirteen launchers the
    property lists and the check exercises; a new launcher breaks this until it is modelled or covered -/
theorem launchers_covered :
    Generated.delegatingModules = ["arch", "caffeinate", "docker", "env", "fd", "find", "fzf", "kubectl", "script", "shell", "tar", "uv", "xargs"]
      ∧ Generated.remoteModules = ["docker", "kubectl"] := by decide

end Dippy.C04
