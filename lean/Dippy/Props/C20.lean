/-
C20 — the statusline never crashes; its cache entry stays inside the cache directory and is
never served torn.

Property theorems only:
  * `cache_confined`: for every session id the entry's file name has no `/`, is not `.`/`..`, ends
    in `e` (so it is neither the MCP list `mcp.list` nor anybody's temporary `….tmp.<pid>`);
    truthy non-strings never reach the file system (`nonstring_id_no_cache`);
  * `main_nonempty`, `main_single_line`: for ANY state of the cache directory and any subset of
    failing data sources the output is non-empty, and one line whenever the fragments are;
    file-sourced fragments are collapsed (`collapse_single_line`);
  * `untorn`: under every interleaving of any number of invocations sharing a session, with a
    kill allowed between any two system calls, the entry is always what it was or the complete
    output of one invocation – given distinct temporary names (distinct PIDs); the hypothesis is
    necessary (`shared_tmp_tears`).
-/
import Dippy.Model.Statusline
import Dippy.Generated.Statusline

namespace Dippy.C20

open Dippy Dippy.SL

set_option linter.unusedSimpArgs false

/-! ### confinement -/

theorem safeId_no_slash (s : List Char) : '/' ∉ safeId s := by
  unfold safeId
  split
  · decide
  · intro h
    rcases List.mem_map.mp h with ⟨c, _, hc⟩
    by_cases hs : c = '/'
    · simp [hs] at hc
    · simp [hs] at hc

theorem safeId_nonempty (s : List Char) : safeId s ≠ [] := by
  unfold safeId
  split
  · decide
  · rename_i h
    intro he
    have := congrArg List.length he
    simp at this
    simp [this] at h

/-- the cache entry's name, for every session id string -/
theorem cache_confined (s : List Char) :
    '/' ∉ cacheName s ∧ cacheName s ≠ ".".toList ∧ cacheName s ≠ "..".toList
      ∧ (cacheName s).getLast? = some 'e' ∧ cacheName s ≠ mcpName := by
  have hlen : 7 ≤ (cacheName s).length := by
    unfold cacheName
    have : 1 ≤ (safeId s).length := by
      cases h : safeId s with
      | nil => exact absurd h (safeId_nonempty s)
      | cons _ _ => simp
    simp only [List.length_append]
    have h6 : ".cache".toList.length = 6 := by decide
    omega
  have hlast : (cacheName s).getLast? = some 'e' := by
    unfold cacheName
    rw [List.getLast?_append]
    simp
  refine ⟨?_, ?_, ?_, hlast, ?_⟩
  · unfold cacheName
    intro h
    rcases List.mem_append.mp h with h | h
    · exact safeId_no_slash s h
    · revert h; decide
  · intro h; rw [h] at hlen; revert hlen; decide
  · intro h; rw [h] at hlen; revert hlen; decide
  · intro h; rw [h] at hlast; revert hlast; decide

/-- a temporary name `<anything>.tmp.<pid>` ends in a digit, a cache entry in `e`: they never coincide -/
theorem entry_is_not_a_tmp (s base : List Char) (d : Char) (hd : d.isDigit = true) :
    cacheName s ≠ base ++ [d] := by
  intro h
  have := (cache_confined s).2.2.2.1
  rw [h, List.getLast?_append] at this
  simp at this
  subst this
  revert hd; decide

/-- every session id shape: a string or falsy value names an entry inside the directory, a truthy
    non-string names none (the AttributeError is caught: nothing is read or written) -/
theorem cachePath_cases (sid : Sid) :
    (∃ s, cachePath sid = some (cacheName s)) ∨ cachePath sid = none := by
  cases sid with
  | str s => exact Or.inl ⟨s, rfl⟩
  | falsyOther => exact Or.inl ⟨[], rfl⟩
  | truthyOther => exact Or.inr rfl

theorem nonstring_id_no_cache (e : Env) : main e .truthyOther = build e := rfl

/-! ### output -/

theorem joinBar_nonempty (x : List Char) (xs : List (List Char)) (hx : x ≠ []) : joinBar (x :: xs) ≠ [] := by
  cases xs with
  | nil => simpa [joinBar] using hx
  | cons y ys =>
    simp only [joinBar]
    intro h
    have := congrArg List.length h
    simp at this

theorem build_nonempty (e : Env) (hm : e.model ≠ []) : build e ≠ [] := joinBar_nonempty _ _ hm

/-- whatever is in the cache directory and whichever sources fail: something is printed -/
theorem main_nonempty (e : Env) (sid : Sid) (hm : e.model ≠ []) : main e sid ≠ [] := by
  unfold main
  split
  · exact build_nonempty e hm
  · split
    · split
      · rename_i c _ hc
        simp only [Bool.and_eq_true, Bool.not_eq_true', List.isEmpty_eq_false_iff] at hc
        exact hc.1
      · exact build_nonempty e hm
    · exact build_nonempty e hm

theorem singleLine_append (a b : List Char) : singleLine (a ++ b) = (singleLine a && singleLine b) := by
  simp [singleLine, List.any_append, Bool.not_or]

theorem joinBar_single (xs : List (List Char)) (h : ∀ x ∈ xs, singleLine x = true) : singleLine (joinBar xs) = true := by
  induction xs with
  | nil => rfl
  | cons x xs ih =>
    cases xs with
    | nil => simpa [joinBar] using h x (by simp)
    | cons y ys =>
      simp only [joinBar, singleLine_append, Bool.and_eq_true]
      refine ⟨⟨h x (by simp), by decide⟩, ?_⟩
      exact ih (fun z hz => h z (by simp [hz]))

theorem build_single (e : Env) (hm : singleLine e.model = true)
    (hf : ∀ f ∈ e.fragments, ∀ t, f = some t → singleLine t = true) : singleLine (build e) = true := by
  unfold build
  apply joinBar_single
  intro x hx
  rcases List.mem_cons.mp hx with h | h
  · rw [h]; exact hm
  · have h1 := (List.mem_filter.mp h).1
    rcases List.mem_filterMap.mp h1 with ⟨f, hfm, hfe⟩
    exact hf f hfm x (by simpa using hfe)

/-- one line whenever the fragments are – for ANY content of the cache directory -/
theorem main_single_line (e : Env) (sid : Sid) (hm : singleLine e.model = true)
    (hf : ∀ f ∈ e.fragments, ∀ t, f = some t → singleLine t = true) : singleLine (main e sid) = true := by
  unfold main
  split
  · exact build_single e hm hf
  · split
    · split
      · rename_i c _ hc
        simp only [Bool.and_eq_true] at hc
        exact hc.2
      · exact build_single e hm hf
    · exact build_single e hm hf

theorem break_is_space (c : Char) (h : isBreak c = true) : Py.isSpace c = true := by
  unfold isBreak at h
  simp only [Bool.or_eq_true, decide_eq_true_eq] at h
  rcases h with h | h <;> subst h <;> decide +kernel

theorem splitWs_no_space (s cur : List Char) (hc : ∀ c ∈ cur, Py.isSpace c = false) :
    ∀ w ∈ splitWs s cur, ∀ c ∈ w, Py.isSpace c = false := by
  induction s generalizing cur with
  | nil =>
    intro w hw c hcw
    unfold splitWs at hw
    split at hw
    · cases hw
    · simp only [List.mem_singleton] at hw
      subst hw
      exact hc c (List.mem_reverse.mp hcw)
  | cons a t ih =>
    intro w hw
    unfold splitWs at hw
    split at hw
    · split at hw
      · exact ih [] (by intro c h; cases h) w hw
      · rcases List.mem_cons.mp hw with h | h
        · subst h
          intro c hcw
          exact hc c (List.mem_reverse.mp hcw)
        · exact ih [] (by intro c h; cases h) w h
    · rename_i hsp
      apply ih (a :: cur) _ w hw
      intro c hcm
      rcases List.mem_cons.mp hcm with h | h
      · subst h; simpa using hsp
      · exact hc c h

theorem joinSpaceL_single (ws : List (List Char)) (h : ∀ w ∈ ws, singleLine w = true) : singleLine (joinSpaceL ws) = true := by
  induction ws with
  | nil => rfl
  | cons x xs ih =>
    cases xs with
    | nil => simpa [joinSpaceL] using h x (by simp)
    | cons y ys =>
      simp only [joinSpaceL]
      rw [singleLine_append]
      simp only [Bool.and_eq_true]
      refine ⟨h x (by simp), ?_⟩
      have : singleLine (' ' :: joinSpaceL (y :: ys)) = singleLine (joinSpaceL (y :: ys)) := by
        simp [singleLine, isBreak]
      rw [this]
      exact ih (fun z hz => h z (by simp [hz]))

/-- text taken from a file (MCP list, server names) is put on one line whatever the file holds -/
theorem collapse_single_line (s : List Char) : singleLine (collapse s) = true := by
  unfold collapse
  apply joinSpaceL_single
  intro w hw
  have := splitWs_no_space s [] (by intro c h; cases h) w hw
  unfold singleLine
  simp only [Bool.not_eq_true', List.any_eq_false]
  intro c hc hb
  have := this c hc
  rw [break_is_space c hb] at this
  cases this

/-! ### the entry is never torn -/

theorem flatLen_eq (l : List (List Char)) : flatLen l = l.flatten.length := by
  induction l with
  | nil => rfl
  | cons x xs ih => simp [flatLen, List.length_flatten] 

theorem writeAt_end (c chunk : List Char) : writeAt c c.length chunk = c ++ chunk := by
  unfold writeAt
  simp

theorem take_succ_flatten (l : List (List Char)) (k : Nat) (h : k < l.length) :
    (l.take (k + 1)).flatten = (l.take k).flatten ++ l[k] := by
  induction l generalizing k with
  | nil => simp at h
  | cons x xs ih =>
    cases k with
    | zero => simp
    | succ k =>
      have h' : k < xs.length := by simpa using h
      simp only [List.take_succ_cons, List.flatten_cons, List.getElem_cons_succ, List.append_assoc]
      rw [ih k h']

variable (chunks : Nat → List (List Char)) (tmpName : Nat → Nat)

/-- the complete output of invocation `i` -/
def output (i : Nat) : List Char := (chunks i).flatten

/-- the protocol invariant -/
def Inv (init : Option (List Char)) (w : World) : Prop :=
  (∀ i k, w.stage i = .writing k → k ≤ (chunks i).length ∧ w.tmp (tmpName i) = some ((chunks i).take k).flatten)
  ∧ (w.final = init ∨ ∃ i, w.final = some (output chunks i))

theorem inv_init (init : Option (List Char)) : Inv chunks tmpName init (initWorld init) := by
  refine ⟨?_, Or.inl rfl⟩
  intro i k h
  simp [initWorld] at h

theorem inv_open (hinj : ∀ i j, tmpName i = tmpName j → i = j) (init : Option (List Char)) (w : World) (i : Nat)
    (hw : Inv chunks tmpName init w) : Inv chunks tmpName init (stepOpen tmpName w i) := by
  obtain ⟨hst, hfin⟩ := hw
  unfold stepOpen
  split
  · refine ⟨?_, hfin⟩
    intro j k hj
    by_cases hji : j = i
    · subst hji
      simp only [↓reduceIte, Stage.writing.injEq] at hj
      subst hj
      simp
    · simp only [hji, ↓reduceIte] at hj
      have hne : tmpName j ≠ tmpName i := fun h => hji (hinj j i h)
      simp only [hne, ↓reduceIte]
      exact hst j k hj
  · exact ⟨hst, hfin⟩

theorem inv_write (hinj : ∀ i j, tmpName i = tmpName j → i = j) (init : Option (List Char)) (w : World) (i : Nat)
    (hw : Inv chunks tmpName init w) : Inv chunks tmpName init (stepWrite chunks tmpName w i) := by
  obtain ⟨hst, hfin⟩ := hw
  unfold stepWrite
  split
  · rename_i k hs
    split
    · rename_i hk
      obtain ⟨_, htmp⟩ := hst i k hs
      simp only [htmp]
      refine ⟨?_, hfin⟩
      intro j k' hj
      by_cases hji : j = i
      · subst hji
        simp only [↓reduceIte, Stage.writing.injEq] at hj
        subst hj
        refine ⟨hk, ?_⟩
        simp only [↓reduceIte]
        rw [flatLen_eq, writeAt_end, take_succ_flatten _ _ hk]
      · simp only [hji, ↓reduceIte] at hj
        have hne : tmpName j ≠ tmpName i := fun h => hji (hinj j i h)
        simp only [hne, ↓reduceIte]
        exact hst j k' hj
    · exact ⟨hst, hfin⟩
  · exact ⟨hst, hfin⟩

theorem inv_rename (hinj : ∀ i j, tmpName i = tmpName j → i = j) (init : Option (List Char)) (w : World) (i : Nat)
    (hw : Inv chunks tmpName init w) : Inv chunks tmpName init (stepRename chunks tmpName w i) := by
  obtain ⟨hst, hfin⟩ := hw
  unfold stepRename
  split
  · rename_i k hs
    split
    · rename_i hk
      obtain ⟨_, htmp⟩ := hst i k hs
      simp only [htmp]
      refine ⟨?_, Or.inr ⟨i, ?_⟩⟩
      · intro j k' hj
        by_cases hji : j = i
        · subst hji; simp at hj
        · simp only [hji, ↓reduceIte] at hj
          have hne : tmpName j ≠ tmpName i := fun h => hji (hinj j i h)
          simp only [hne, ↓reduceIte]
          exact hst j k' hj
      · subst hk
        simp [output]
    · exact ⟨hst, hfin⟩
  · exact ⟨hst, hfin⟩

theorem inv_kill (init : Option (List Char)) (w : World) (i : Nat)
    (hw : Inv chunks tmpName init w) : Inv chunks tmpName init (stepKill w i) := by
  obtain ⟨hst, hfin⟩ := hw
  unfold stepKill
  refine ⟨?_, hfin⟩
  intro j k hj
  by_cases hji : j = i
  · subst hji; simp at hj
  · simp only [hji, ↓reduceIte] at hj
    exact hst j k hj

theorem inv_step (hinj : ∀ i j, tmpName i = tmpName j → i = j) (init : Option (List Char)) (w : World) (ev : Ev)
    (hw : Inv chunks tmpName init w) : Inv chunks tmpName init (stepEv chunks tmpName w ev) := by
  cases ev with
  | «open» i => exact inv_open chunks tmpName hinj init w i hw
  | write i => exact inv_write chunks tmpName hinj init w i hw
  | rename i => exact inv_rename chunks tmpName hinj init w i hw
  | kill i => exact inv_kill chunks tmpName init w i hw

/-- under every schedule – any interleaving of any invocations' system calls, kills anywhere – the cache
    entry is what it was before, or the complete output of one invocation: never partial, never mixed.
    (Every prefix of a schedule is a schedule, so this holds at every moment a reader may look.) -/
theorem untorn (hinj : ∀ i j, tmpName i = tmpName j → i = j) (init : Option (List Char)) (evs : List Ev) :
    (runEvs chunks tmpName (initWorld init) evs).final = init
      ∨ ∃ i, (runEvs chunks tmpName (initWorld init) evs).final = some (output chunks i) := by
  suffices h : ∀ w, Inv chunks tmpName init w → Inv chunks tmpName init (runEvs chunks tmpName w evs) from
    (h _ (inv_init chunks tmpName init)).2
  induction evs with
  | nil => intro w hw; exact hw
  | cons ev evs ih => intro w hw; exact ih _ (inv_step chunks tmpName hinj init w ev hw)

/-- the hypothesis is needed: with one temporary name per session (not per process) a short writer that
    opened first and writes after a longer one was published leaves a mixed entry -/
theorem shared_tmp_tears :
    let chunks : Nat → List (List Char) := fun i => if i = 0 then ["LONG-LINE".toList] else ["ab".toList]
    let w := runEvs chunks (fun _ => 0) (initWorld none) [.open 1, .open 0, .write 0, .rename 0, .write 1]
    w.final = some "abNG-LINE".toList ∧ w.final ≠ some (output chunks 0) ∧ w.final ≠ some (output chunks 1) := by
  decide

/-- non-vacuity: two invocations, distinct temporaries, one killed mid-write -/
example :
    let chunks : Nat → List (List Char) := fun i => if i = 0 then ["model ".toList, "| dir".toList] else ["other".toList]
    (runEvs chunks id (initWorld none) [.open 0, .write 0, .open 1, .write 1, .kill 0, .rename 1, .write 0]).final
      = some "other".toList := by decide

/-! ### T0 obligations: the source has the shape the model assumes -/

/-- names: `<id with / -> _>.cache`, `default`, `mcp.list`; protocol: a temporary named with the PID is opened,
    renamed onto the entry, and the entry itself is never opened for writing -/
theorem t0_statusline :
    Generated.SL.cacheSuffix.toList = ".cache".toList ∧ Generated.SL.defaultId.toList = safeId [] ∧ Generated.SL.slashReplace = "/->_"
      ∧ Generated.SL.mcpFile.toList = mcpName
      ∧ Generated.SL.tmpHasPid = true ∧ Generated.SL.opensTmp = true ∧ Generated.SL.renamesTmpToPath = true
      ∧ Generated.SL.writesFinalDirectly = false := by decide

end Dippy.C20
