/-
C10 — Config layers: user, nearest project file, then $DIPPY_CONFIG, in that order.

`FS` is an arbitrary file system oracle (any directory layout, any symlink structure: `resolve`,
`isFile` and `readText` are unconstrained functions), so the statements hold for every tree.
-/
import Dippy.Model.Load
import Dippy.Lemmas.Parse

set_option linter.unusedSimpArgs false

namespace Dippy.C10
open Dippy

/-! ### the project file is the nearest `.dippy` that is a regular file -/

theorem find_nearest (fs : FS) (ds : List String) (p : String)
    (h : findProjectIn fs ds = some (some p)) :
    ∃ a d b, ds = a ++ d :: b ∧ p = dippyIn d ∧ fs.isFile p = .yes
      ∧ ∀ x ∈ a, fs.isFile (dippyIn x) = .no := by
  induction ds with
  | nil => simp [findProjectIn] at h
  | cons d ds ih =>
    unfold findProjectIn at h
    cases hf : fs.isFile (dippyIn d) with
    | yes =>
      simp only [hf] at h
      have hp : p = dippyIn d := by injection h with h; injection h with h; exact h.symm
      exact ⟨[], d, ds, rfl, hp, by rw [hp]; exact hf, by simp⟩
    | no =>
      simp only [hf] at h
      obtain ⟨a, d', b, hds, hp, hy, hno⟩ := ih h
      refine ⟨d :: a, d', b, by rw [hds]; rfl, hp, hy, ?_⟩
      intro x hx
      cases hx with
      | head => exact hf
      | tail _ hx => exact hno x hx
    | permission => simp [hf] at h
    | raised => simp [hf] at h

/-- directories, symlinks to directories, dangling links named `.dippy` are walked past; with no
    regular `.dippy` on the way to the root there is no project layer -/
theorem find_none (fs : FS) (ds : List String) (h : ∀ d ∈ ds, fs.isFile (dippyIn d) = .no) :
    findProjectIn fs ds = some none := by
  induction ds with
  | nil => rfl
  | cons d ds ih =>
    unfold findProjectIn
    rw [h d (List.mem_cons_self ..)]
    exact ih fun x hx => h x (List.mem_cons_of_mem _ hx)

/-- the walk starts at the *resolved* cwd (a symlinked cwd behaves as its target) and visits
    the directory itself first, then each parent up to the root -/
example : ancestors "/a/b/c" = ["/a/b/c", "/a/b", "/a", "/"] := by decide
example : dippyIn "/" = "/.dippy" ∧ dippyIn "/a" = "/a/.dippy" := by decide

/-! ### three layers = one concatenated text -/

/-- everything any verdict, message or log line can depend on, except aliases (tied by T1) and the
    dead `default` field -/
def ObsEq (a b : Config) : Prop :=
  a.rules = b.rules ∧ a.redirectRules = b.redirectRules ∧ a.afterRules = b.afterRules
    ∧ a.mcpRules = b.mcpRules ∧ a.afterMcpRules = b.afterMcpRules ∧ a.log = b.log ∧ a.logFull = b.logFull

theorem ObsEq.rfl' (a : Config) : ObsEq a a := ⟨rfl, rfl, rfl, rfl, rfl, rfl, rfl⟩

theorem ObsEq.trans {a b c : Config} (h1 : ObsEq a b) (h2 : ObsEq b c) : ObsEq a c := by
  obtain ⟨a1, a2, a3, a4, a5, a6, a7⟩ := h1
  obtain ⟨b1, b2, b3, b4, b5, b6, b7⟩ := h2
  exact ⟨a1.trans b1, a2.trans b2, a3.trans b3, a4.trans b4, a5.trans b5, a6.trans b6, a7.trans b7⟩

theorem ObsEq.symm {a b : Config} (h : ObsEq a b) : ObsEq b a := by
  obtain ⟨a1, a2, a3, a4, a5, a6, a7⟩ := h
  exact ⟨a1.symm, a2.symm, a3.symm, a4.symm, a5.symm, a6.symm, a7.symm⟩

theorem merge_congr {a a' : Config} (v : Config) (h : ObsEq a a') : ObsEq (mergeConfigs a v) (mergeConfigs a' v) := by
  obtain ⟨a1, a2, a3, a4, a5, a6, a7⟩ := h
  simp only [ObsEq, mergeConfigs, a1, a2, a3, a4, a5, a6, a7, and_self]

theorem merge_empty_left (u : Config) : ObsEq (mergeConfigs {} u) u := by
  simp only [ObsEq, mergeConfigs, List.nil_append, true_and]
  constructor
  · cases u.log <;> rfl
  · cases u.logFull <;> rfl

theorem merge_empty_right (c : Config) : ObsEq (mergeConfigs c {}) c := by
  simp [ObsEq, mergeConfigs]

theorem hom (e : ParseEnv) (a b : List String) :
    ObsEq (parseLines e (a ++ b)) (mergeConfigs (parseLines e a) (parseLines e b)) := by
  simp only [ObsEq, parseLines_eq, mergeConfigs, applyAll_rules, applyAll_redirectRules, applyAll_afterRules,
    applyAll_mcpRules, applyAll_afterMcpRules, applyAll_log, applyAll_logFull, List.map_append,
    List.filterMap_append, List.any_append]
  refine ⟨by simp, by simp, by simp, by simp, by simp, ?_, ?_⟩
  · rw [lastLog_append, lastLog_none]
    cases lastLog none (List.map (parseLine e) b) <;> rfl
  · cases h1 : (List.map (parseLine e) a).any LineResult.isLogFull <;>
      cases h2 : (List.map (parseLine e) b).any LineResult.isLogFull <;> simp [h1, h2]

theorem splitLinesAux_append (a b cur : List Char) :
    splitLinesAux (a ++ '\n' :: b) cur = splitLinesAux a cur ++ splitLinesAux b [] := by
  induction a generalizing cur with
  | nil => simp [splitLinesAux]
  | cons c t ih =>
    by_cases hc : c = '\n'
    · subst hc; simp [splitLinesAux, ih]
    · simp [splitLinesAux, hc, ih]

/-- the lines of `a ⏎ b` are the lines of `a` followed by the lines of `b` -/
theorem splitLines_join (a b : String) : splitLines (a ++ "\n" ++ b) = splitLines a ++ splitLines b := by
  unfold splitLines
  have : (a ++ "\n" ++ b).toList = a.toList ++ '\n' :: b.toList := by simp
  rw [this, splitLinesAux_append, List.map_append]

/-- the text of a layer, `""` when it is absent -/
def layerText (t : Option String) : String := t.getD ""

theorem parse_empty (e : ParseEnv) : parseConfig e "" = {} := by
  unfold parseConfig
  have : splitLines "" = [""] := by decide
  rw [this]
  have h2 : parseLine e "" = .skip := by
    unfold parseLine
    have : Py.strip "" = "" := by decide
    simp [this]
  simp [parseLines, h2, Config.apply]

/-- what `load_config` computes when every present layer is readable -/
def merged (e : ParseEnv) (u p v : Option String) : Config :=
  let c0 : Config := {}
  let c1 := match u with | some t => mergeConfigs c0 (parseConfig e t) | none => c0
  let c2 := match p with | some t => mergeConfigs c1 (parseConfig e t) | none => c1
  match v with | some t => mergeConfigs c2 (parseConfig e t) | none => c2

/-- **layers = concatenation**: user, then project, then env, absent layers contributing nothing,
    is observably the single text `user ⏎ project ⏎ env` -/
theorem layers_concat (e : ParseEnv) (u p v : Option String) :
    ObsEq (merged e u p v)
      (parseConfig e (layerText u ++ "\n" ++ layerText p ++ "\n" ++ layerText v)) := by
  have hcat : parseConfig e (layerText u ++ "\n" ++ layerText p ++ "\n" ++ layerText v)
      = parseLines e ((splitLines (layerText u) ++ splitLines (layerText p)) ++ splitLines (layerText v)) := by
    unfold parseConfig
    rw [splitLines_join, splitLines_join]
  rw [hcat]
  clear hcat
  unfold merged
  refine ObsEq.symm (ObsEq.trans (hom e _ _) ?_)
  have hlayer : ∀ (c : Config) (t : Option String),
      ObsEq (mergeConfigs c (parseLines e (splitLines (layerText t))))
        (match t with | some x => mergeConfigs c (parseConfig e x) | none => c) := by
    intro c t
    cases t with
    | some x => exact ObsEq.rfl' _
    | none =>
      have : parseLines e (splitLines (layerText none)) = {} := parse_empty e
      rw [this]
      exact merge_empty_right c
  refine ObsEq.trans (merge_congr _ (hom e _ _)) ?_
  -- now: merge (merge U P) V  with U,P,V = parse of layer texts
  have hU : ObsEq (parseLines e (splitLines (layerText u)))
      (match u with | some t => mergeConfigs ({} : Config) (parseConfig e t) | none => ({} : Config)) := by
    cases u with
    | some t => exact ObsEq.symm (merge_empty_left _)
    | none => rw [show parseLines e (splitLines (layerText none)) = {} from parse_empty e]; exact ObsEq.rfl' _
  refine ObsEq.trans (merge_congr _ (merge_congr _ hU)) ?_
  refine ObsEq.trans (merge_congr _ (hlayer _ p)) ?_
  exact hlayer _ v

/-- and `load_config` returns exactly `merged` on a readable layout -/
theorem load_is_merged (e : ParseEnv) (fs : FS) (userConfig cwd : String) (envPath : Option String)
    (u p v : Option String) (proj : Option String)
    (hu : match u with
      | some t => fs.isFile userConfig = .yes ∧ fs.readText userConfig = .ok t
      | none => fs.isFile userConfig = .no)
    (hp : findProject fs cwd = some proj)
    (hp' : match p with
      | some t => ∃ path, proj = some path ∧ fs.readText path = .ok t
      | none => proj = none)
    (hv : match v with
      | some t => ∃ path, envPath = some path ∧ fs.isFile path = .yes ∧ fs.readText path = .ok t
      | none => envPath = none ∨ ∃ path, envPath = some path ∧ fs.isFile path = .no) :
    loadConfig e fs userConfig cwd (envPath.map some) = .ok (merged e u p v) := by
  unfold loadConfig merged addLayer loadFile
  cases u with
  | some ut =>
    obtain ⟨hu1, hu2⟩ := hu
    simp only [hu1, hu2, hp]
    cases p with
    | some pt =>
      obtain ⟨path, hpr, hrd⟩ := hp'
      subst hpr
      simp only [hrd]
      cases v with
      | some vt =>
        obtain ⟨vp, he, hvf, hvr⟩ := hv
        subst he
        simp [hvf, hvr]
      | none =>
        rcases hv with he | ⟨vp, he, hvf⟩
        · subst he; simp
        · subst he; simp [hvf]
    | none =>
      subst hp'
      cases v with
      | some vt =>
        obtain ⟨vp, he, hvf, hvr⟩ := hv
        subst he
        simp [hvf, hvr]
      | none =>
        rcases hv with he | ⟨vp, he, hvf⟩
        · subst he; simp
        · subst he; simp [hvf]
  | none =>
    simp only [hu, hp]
    cases p with
    | some pt =>
      obtain ⟨path, hpr, hrd⟩ := hp'
      subst hpr
      simp only [hrd]
      cases v with
      | some vt =>
        obtain ⟨vp, he, hvf, hvr⟩ := hv
        subst he
        simp [hvf, hvr]
      | none =>
        rcases hv with he | ⟨vp, he, hvf⟩
        · subst he; simp
        · subst he; simp [hvf]
    | none =>
      subst hp'
      cases v with
      | some vt =>
        obtain ⟨vp, he, hvf, hvr⟩ := hv
        subst he
        simp [hvf, hvr]
      | none =>
        rcases hv with he | ⟨vp, he, hvf⟩
        · subst he; simp
        · subst he; simp [hvf]

end Dippy.C10
