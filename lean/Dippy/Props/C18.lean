/-
C18 — verdicts are a pure function of command, configuration, cwd and referenced files:
no dependence on what the process analysed before.

Property theorems only.  For every loader `load` (deterministic per module name:
`importlib.import_module` through `sys.modules`), cache capacity, explicit-mode setting and
every history of invocations:
  * `lru_transparent`: a cache whose entries are loader values answers every lookup with the
    loader's value, keeps that invariant, and never exceeds its capacity;
  * `analysis_cache_free`: an analysis (any adaptive lookup program) computes, against any such
    cache, exactly what it computes against the loader;
  * `history_free`: the stdout of an invocation – and whether it logs – after any history equals
    that of the same invocation in a fresh process;
  * `inventory_covered`: the state the model accounts for is exactly the inventory T0 extracts
    from the source (a new module-level cache or `global` breaks this obligation).
-/
import Dippy.Model.ProcState

namespace Dippy.C18

open Dippy Dippy.PS

universe u v

/-- every cached value is the loader's value for its key -/
def Inv {K : Type u} {V : Type v} (f : K → V) (c : List (K × V)) : Prop := ∀ kv ∈ c, kv.2 = f kv.1

theorem inv_nil {K : Type u} {V : Type v} (f : K → V) : Inv f ([] : List (K × V)) := by
  intro kv h; cases h

/-- the cache is transparent: value, invariant and bound -/
theorem lru_transparent {K : Type u} {V : Type v} [BEq K] [LawfulBEq K] (cap : Nat) (f : K → V) (c : List (K × V)) (k : K)
    (hinv : Inv f c) :
    (lruGet cap f c k).2 = f k ∧ Inv f (lruGet cap f c k).1
      ∧ (c.length ≤ cap → 0 < cap → (lruGet cap f c k).1.length ≤ cap) := by
  unfold lruGet
  cases hf : c.find? (fun kv => kv.1 == k) with
  | none =>
    refine ⟨rfl, ?_, ?_⟩
    · intro kv hkv
      have := List.mem_of_mem_take hkv
      rcases List.mem_cons.mp this with h | h
      · subst h; rfl
      · exact hinv kv h
    · intro _ _
      simp only [List.length_take, List.length_cons]
      omega
  | some kv =>
    have hmem := List.mem_of_find?_eq_some hf
    have hk : kv.1 = k := by
      have := List.find?_some hf
      simpa using this
    refine ⟨?_, ?_, ?_⟩
    · simp only
      rw [hinv kv hmem, hk]
    · intro e he
      rcases List.mem_cons.mp he with h | h
      · subst h
        simp only
        rw [hinv kv hmem, hk]
      · exact hinv e (List.mem_filter.mp h).1
    · intro hlen hcap
      simp only [List.length_cons]
      -- the hit entry itself is filtered out
      have : (c.filter (fun e => !(e.1 == k))).length < c.length := by
        have hlt : (c.filter (fun e => !(e.1 == k))).length ≤ c.length := List.length_filter_le _ _
        rcases Nat.lt_or_ge (c.filter (fun e => !(e.1 == k))).length c.length with h | h
        · exact h
        · exfalso
          have heq : (c.filter (fun e => !(e.1 == k))).length = c.length := Nat.le_antisymm hlt h
          have hall := List.length_filter_eq_length_iff.mp heq
          have := hall kv hmem
          simp [hk] at this
      omega

/-- an analysis computes the same against the cache as against the loader, from any sound cache -/
theorem analysis_cache_free {H A : Type} (cap : Nat) (load : String → H) (p : Prog H A) (c : List (String × H))
    (hinv : Inv load c) :
    (p.run cap load c).2 = p.pure load ∧ Inv load (p.run cap load c).1 := by
  induction p generalizing c with
  | done a => exact ⟨rfl, hinv⟩
  | look n k ih =>
    obtain ⟨hv, hi, _⟩ := lru_transparent cap load c n hinv
    simp only [Prog.run, Prog.pure]
    rw [hv]
    exact ih (load n) _ hi

/-- … and the cache stays within its capacity -/
theorem analysis_cache_bounded {H A : Type} (cap : Nat) (hcap : 0 < cap) (load : String → H) (p : Prog H A) (c : List (String × H))
    (hinv : Inv load c) (hlen : c.length ≤ cap) :
    (p.run cap load c).1.length ≤ cap := by
  induction p generalizing c with
  | done a => exact hlen
  | look n k ih =>
    obtain ⟨_, hi, hb⟩ := lru_transparent cap load c n hinv
    simp only [Prog.run]
    exact ih _ _ hi (hb hlen hcap)

/-- the invariant of a whole process -/
def Good {H : Type} (load : String → H) (explicit : Option Mode) (s : State H) : Prop :=
  Inv load s.cache ∧ (∀ m, explicit = some m → s.mode = m)

theorem good_init {H : Type} (load : String → H) (explicit : Option Mode) : Good load explicit (init explicit : State H) := by
  refine ⟨inv_nil load, ?_⟩
  intro m hm
  simp [init, hm]

theorem good_step {H Out : Type} (cap : Nat) (load : String → H) (explicit : Option Mode) (s : State H) (q : Invocation H Out)
    (hg : Good load explicit s) : Good load explicit (step cap load explicit s q).1 := by
  unfold step
  cases hm : effMode explicit q with
  | none => simpa using hg
  | some m =>
    simp only
    refine ⟨(analysis_cache_free cap load q.analysis s.cache hg.1).2, ?_⟩
    intro m' hm'
    subst hm'
    simp only [effMode] at hm
    cases hm
    rfl

theorem good_history {H Out : Type} (cap : Nat) (load : String → H) (explicit : Option Mode) (s : State H)
    (hist : List (Invocation H Out)) (hg : Good load explicit s) : Good load explicit (runHistory cap load explicit s hist) := by
  induction hist generalizing s with
  | nil => exact hg
  | cons q qs ih => exact ih _ (good_step cap load explicit s q hg)

/-- what an invocation prints and whether it logs, as a function of the invocation alone -/
def fresh {H Out : Type} (load : String → H) (explicit : Option Mode) (q : Invocation H Out) : Out × Bool :=
  match effMode explicit q with
  | none => (q.deferOut, false)
  | some m => (q.analysis.pure load m, (logDecision (configure q.logPath q.mkdirOk) q.writeOk).2)

/-- from any good state, an invocation answers as `fresh` says: the state is not read -/
theorem step_answer {H Out : Type} (cap : Nat) (load : String → H) (explicit : Option Mode) (s : State H) (q : Invocation H Out)
    (hg : Good load explicit s) : (step cap load explicit s q).2 = fresh load explicit q := by
  unfold step fresh
  cases hm : effMode explicit q with
  | none => rfl
  | some m =>
    simp only
    rw [(analysis_cache_free cap load q.analysis s.cache hg.1).1]

/-- history independence: after any sequence of earlier invocations (any commands, configurations,
    hosts, working or failing log sinks, more distinct handlers than the cache holds) the answer – stdout
    and the logging effect – is the one a fresh process gives -/
theorem history_free {H Out : Type} (cap : Nat) (load : String → H) (explicit : Option Mode)
    (hist : List (Invocation H Out)) (q : Invocation H Out) :
    (step cap load explicit (runHistory cap load explicit (init explicit) hist) q).2
      = (step cap load explicit (init explicit) q).2 := by
  rw [step_answer cap load explicit _ q (good_history cap load explicit _ hist (good_init load explicit)),
    step_answer cap load explicit _ q (good_init load explicit)]

/-- re-analysing the same input gives the same answer -/
theorem repeat_same {H Out : Type} (cap : Nat) (load : String → H) (explicit : Option Mode)
    (hist : List (Invocation H Out)) (q : Invocation H Out) :
    (step cap load explicit (runHistory cap load explicit (init explicit) (hist ++ [q])) q).2
      = (step cap load explicit (runHistory cap load explicit (init explicit) hist) q).2 := by
  rw [history_free, history_free]

/-- a failed log write in an earlier invocation does not silence or alter a later one: logging is
    re-armed by `configure_logging` before it is consulted -/
theorem log_rearmed (logPath : Option String) (mkdirOk : Bool) : (configure logPath mkdirOk).disabled = true → (configure logPath mkdirOk).configured = none := by
  unfold configure
  cases logPath with
  | none => simp
  | some p => cases mkdirOk <;> simp

/-- the cache never grows beyond the configured size along a history -/
theorem cache_bounded {H Out : Type} (cap : Nat) (hcap : 0 < cap) (load : String → H) (explicit : Option Mode)
    (hist : List (Invocation H Out)) :
    (runHistory cap load explicit (init explicit : State H) hist).cache.length ≤ cap := by
  suffices h : ∀ s : State H, Good load explicit s → s.cache.length ≤ cap →
      (runHistory cap load explicit s hist).cache.length ≤ cap by
    exact h _ (good_init load explicit) (by simp [init])
  induction hist with
  | nil => intro s _ hl; exact hl
  | cons q qs ih =>
    intro s hg hl
    apply ih _ (good_step cap load explicit s q hg)
    unfold step
    cases hm : effMode explicit q with
    | none => simpa using hl
    | some m =>
      simp only
      exact analysis_cache_bounded cap hcap load q.analysis s.cache hg.1 hl

/-! ### T0 obligations -/

/-- the state the model accounts for: the handler cache, MODE, and the two logging globals – and
    nothing else is found in the source -/
theorem inventory_covered :
    Generated.mutableState =
      [("cli/__init__.py", "cache", "_load_handler"), ("core/config.py", "global", "_log_config"),
       ("core/config.py", "global", "_log_disabled"), ("dippy.py", "global", "MODE")] := by decide

/-- the shape facts the step function relies on: MODE is assigned before it is read, nowhere else;
    `_log_disabled` is reset first; every path of configure_logging assigns `_log_config` -/
theorem shape_facts :
    Generated.mainAssignsModeFirst = true ∧ Generated.modeStores = 2 ∧ Generated.configureResetsDisabledFirst = true
      ∧ Generated.configureAssignsLogConfig = 3 ∧ 0 < Generated.handlerCacheSize := by decide

/-! ### non-vacuity -/

/-- a history touching more modules than a capacity-2 cache holds; the evicted module is re-loaded with the same value -/
example :
    let load : String → Nat := fun n => n.length
    let look3 : Prog Nat (Mode → Nat) := .look "git" fun a => .look "docker" fun b => .look "kubectl" fun c => .done fun _ => a + b + c
    let q : Invocation Nat Nat := ⟨some .claude, none, true, true, look3, 0⟩
    (step 2 load none (runHistory 2 load none (init none) [q, q]) q).2 = (16, false)
      ∧ (runHistory 2 load none (init none : State Nat) [q, q]).cache.map (·.1) = ["kubectl", "docker"] := by decide

end Dippy.C18
