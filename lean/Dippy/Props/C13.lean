/-
C13 — remote delegation (docker/podman/kubectl exec) relaxes only local-path checks, and only
for the delegated inner command.

Property theorems only:
  (1) the `remote` flag is constant through the walk of a tree: a local analysis (`remote =
      false`, the only way the hook calls `analyze`) judges every command, every raw text and
      every redirection of the outer command line locally – siblings, substitutions and outer
      redirections included; the flag changes only where a handler delegates (C04.delegate_verdict:
      `rec inner cwd classification.remote`);
  (2) what remote mode drops is exactly the file-redirection atoms (and handler write targets,
      and the `cd` tracking, which only feeds those path checks): no other atom disappears;
  (3) rule lookups in remote mode do not read the local file system or cwd at all, but they do
      read every rule: a matching deny/ask rule decides the inner command as it does locally;
  (4) a simple command whose rule lookups agree in both modes and whose handler reports no
      write targets gets exactly the local verdict and reason;
  (5) what is delegated: for kubectl exec exactly the words after the first `--`, for docker
      exec a suffix after the container name (C04.kubectlExecInner_spec / dockerExecInner_suffix).
-/
import Dippy.Lemmas.Remote
import Dippy.Lemmas.Flat
import Dippy.Props.C04
import Dippy.Props.C08

namespace Dippy.C13

open Dippy

set_option linter.unusedSimpArgs false

variable (w : World) (rec : Rec) (h : HelpTables)

/-! ### (1) the flag is constant through the walk -/

/-- every atom of a walk carries the walk's flag; redirection atoms exist only in local walks -/
theorem walk_flag_constant (n : Node) (cwd : String) (r : Bool) :
    ∀ a ∈ flat w.syn n cwd r, a.flagOk r = true := by
  have := node_flag w.syn n cwd r
  unfold flagAll at this
  exact fun a ha => List.all_eq_true.mp this a ha

/-- a local analysis judges every command of the outer line locally … -/
theorem outer_commands_local (n : Node) (cwd : String) (words : List String) (b : Nat) (c : String) (r : Bool)
    (ha : Atom.proper words b c r ∈ flat w.syn n cwd false) : r = false := by
  have := walk_flag_constant w n cwd false _ ha
  simpa [Atom.flagOk] using this

/-- … and every raw text (here-documents, `${…}` arguments, `$((…))`, case patterns …) -/
theorem outer_texts_local (n : Node) (cwd : String) (ps : Bool) (s : Option String) (c : String) (r : Bool)
    (ha : Atom.text ps s c r ∈ flat w.syn n cwd false) : r = false := by
  have := walk_flag_constant w n cwd false _ ha
  simpa [Atom.flagOk] using this

/-- the verdict of a local analysis is the join of locally judged atoms (R1 + the above) -/
theorem local_verdict_local_atoms (n : Node) (cwd : String) :
    (aNode w rec h n cwd false).action = supList (((flat w.syn n cwd false).flatMap (atomDecisions w rec h)).map (·.action))
      ∧ ∀ a ∈ flat w.syn n cwd false, a.flagOk false = true :=
  ⟨verdict_eq_leaves w rec h n cwd false, walk_flag_constant w n cwd false⟩

/-! ### (2) what remote mode drops -/

/-- in a remote walk no file-redirection atom is consulted … -/
theorem remote_has_no_redirect_atoms (n : Node) (cwd : String) (op t c : String) :
    Atom.redir op t c ∉ flat w.syn n cwd true := by
  intro ha
  have := walk_flag_constant w n cwd true _ ha
  simp [Atom.flagOk] at this

/-- … while the redirection *targets* are still searched for substitutions, and here-document
    bodies are still scanned -/
theorem remote_redirect_still_walked (op : String) (t : Word) (rs : List Redir) (cwd : String) :
    flatRedirects w.syn (.redirect op (some t) :: rs) cwd true
      = flatWord w.syn t cwd true ++ flatRedirects w.syn rs cwd true := by
  simp [flatRedirects]

theorem remote_heredoc_still_scanned (content : String) (rs : List Redir) (cwd : String) :
    flatRedirects w.syn (.heredoc false content :: rs) cwd true
      = .text false (some content) cwd true :: flatRedirects w.syn rs cwd true := by
  simp [flatRedirects]

/-! ### (3) rules in remote mode -/

/-- rule lookups in remote mode read neither the path environment (home, symlinks) nor the cwd -/
theorem remote_rules_env_free (env env' : PathEnv) (cfg : Config) (ws : List String) (cwd cwd' : String) :
    matchCommand env cfg ws cwd true = matchCommand env' cfg ws cwd' true := by
  simp [matchCommand, matchWords, normalizedCmd, patternMatches]

/-- … and not the aliases either: the words are matched as written -/
theorem remote_rules_alias_free (env : PathEnv) (cfg : Config) (al : List (String × String)) (ws : List String) (cwd : String) :
    matchCommand env { cfg with aliases := al } ws cwd true = matchCommand env cfg ws cwd true := by
  simp [matchCommand, matchWords, normalizedCmd, patternMatches]

/-- a rule that matches the inner command decides it in remote mode exactly as rules do locally -/
theorem remote_rule_decides (n : Nat) (tokens : List String) (cwd : String) (m : Match)
    (hne : tokens.isEmpty = false)
    (hm : w.matchCommand tokens cwd true = some m) :
    (simpleCmd w rec h (n + 1) tokens cwd true).action = m.decision :=
  C07.rule_decides w rec h n tokens cwd true m hne hm

/-- a literal deny rule bites the delegated command: `deny rm` matches `rm -rf /` in remote mode -/
theorem remote_literal_deny (env : PathEnv) (cfg : Config) (r : Rule) (ws : List String) (cwd : String) (n : Nat)
    (hne : ws.isEmpty = false)
    (hlast : (lastMatch (fun r : Rule => patternMatches env r.pattern r.exact (Py.joinSpace ws) cwd true) cfg.rules) = some r)
    (hd : r.decision = .deny) :
    (simpleCmd (w.withConfig env cfg) rec h (n + 1) ws cwd true).action = .deny := by
  have hm : (w.withConfig env cfg).matchCommand ws cwd true = some r.toMatch := by
    simp [World.withConfig, matchCommand, matchWords, normalizedCmd, hlast]
  rw [C07.rule_decides (w.withConfig env cfg) rec h n ws cwd true r.toMatch hne hm]
  simpa [Rule.toMatch] using hd

/-! ### (4) otherwise exactly the local verdict -/

theorem builtin_remote_eq_local (tokens : List String) (cwd : String)
    (ht : (w.classify tokens).redirectTargets = []) :
    builtinVerdict w rec h.helpWords h.helpFlags2 h.helpFlagsLast tokens cwd true
      = builtinVerdict w rec h.helpWords h.helpFlags2 h.helpFlagsLast tokens cwd false := by
  unfold builtinVerdict
  simp [ht]

/-- a command whose rule lookups do not depend on the mode and whose handler reports no write
    targets: same verdict, same reason -/
theorem remote_eq_local_simple (n : Nat) (words : List String) (cwd : String)
    (hm : ∀ k, w.matchCommand (words.drop k) cwd true = w.matchCommand (words.drop k) cwd false)
    (ht : ∀ k, (w.classify (words.drop k)).redirectTargets = []) :
    simpleCmd w rec h n words cwd true = simpleCmd w rec h n words cwd false := by
  induction n generalizing words with
  | zero => rfl
  | succ n ih =>
    unfold simpleCmd
    dsimp only
    split
    · rfl
    · have hm0 := hm 0
      simp only [List.drop_zero] at hm0
      rw [hm0]
      cases hmc : w.matchCommand words cwd false with
      | some m => rfl
      | none =>
        simp only
        split
        · split
          · rfl
          · obtain ⟨j, hj⟩ := C08.skipWrapperArgs_suffix (w.wrapperArgFlags (words.headD "")) (words.drop 1)
            cases hs : skipWrapperArgs (w.wrapperArgFlags (words.headD "")) (words.drop 1) with
            | nil => rfl
            | cons a as =>
              simp only
              rw [← hs, hj]
              apply ih
              · intro k
                have := hm (1 + j + k)
                simpa [List.drop_drop, Nat.add_comm, Nat.add_left_comm, Nat.add_assoc] using this
              · intro k
                have := ht (1 + j + k)
                simpa [List.drop_drop, Nat.add_comm, Nat.add_left_comm, Nat.add_assoc] using this
        · have := ht 0
          simp only [List.drop_zero] at this
          exact builtin_remote_eq_local w rec h words cwd this

/-- the hypotheses are met by a path-free world: rules that never look at paths -/
example (w : World) (hw : ∀ ws cwd r, w.matchCommand ws cwd r = none) (ws : List String) (cwd : String) :
    ∀ k, w.matchCommand (ws.drop k) cwd true = w.matchCommand (ws.drop k) cwd false := by
  intro k; rw [hw, hw]

/-! ### (5) what is delegated -/

theorem kubectl_exec_inner (l inner : List String) (hi : W.kubectlExecInner l = some inner) :
    inner ≠ [] ∧ ∃ pre, l = pre ++ "--" :: inner ∧ "--" ∉ pre :=
  C04.kubectlExecInner_spec l inner hi

theorem docker_exec_inner (l inner : List String) (hi : W.dockerExecInner false l = some inner) :
    inner ≠ [] ∧ inner <:+ l :=
  C04.dockerExecInner_suffix false l inner hi

example : W.dockerExecInner false ["-it", "-e", "A=1", "web", "sh", "-c", "ls"] = some ["sh", "-c", "ls"] := by decide +kernel
example : W.dockerExecInner false ["--", "ls", "rm", "-rf", "/"] = some ["rm", "-rf", "/"] := by decide +kernel
example : W.kubectlExecInner ["-it", "pod", "-c", "main", "--", "rm", "x"] = some ["rm", "x"] := by decide +kernel

/-! ### which kubectl command lines are an exec -/

open W Generated.H in
/-- T0 fact: `exec` has no entry in kubectl's action and subcommand tables, so `classify` reaches the exec branch -/
theorem exec_not_tabled : "exec" ∉ kubectl_SAFE_ACTIONS ∧ "exec" ∉ kubectl_SUBCOMMAND_ACTIONS := by decide +kernel

open W Generated.H in
/-- the words before the first operand are flags and flag values only -/
def KubectlFlags : Bool → List String → Prop
  | _, [] => True
  | true, _ :: rest => KubectlFlags false rest
  | false, t :: rest => sw t "-" = true ∧ KubectlFlags (kubectl_FLAGS_WITH_ARG.contains t) rest

open W Generated.H in
theorem kubectlOperands_spec (b : Bool) (l : List String) (t : String) (rest : List String)
    (h : kubectlOperands b l = t :: rest) :
    ∃ pre, l = pre ++ t :: rest ∧ KubectlFlags b pre ∧ sw t "-" = false ∧ (pre = [] → b = false) := by
  induction l generalizing b with
  | nil => cases b <;> simp [kubectlOperands] at h
  | cons x l ih =>
    cases b with
    | true =>
      simp only [kubectlOperands] at h
      obtain ⟨pre, hl, hp, ht, _⟩ := ih false h
      exact ⟨x :: pre, by simp [hl], by simpa [KubectlFlags] using hp, ht, by simp⟩
    | false =>
      simp only [kubectlOperands] at h
      split at h
      · rename_i hx
        obtain ⟨pre, hl, hp, ht, _⟩ := ih _ h
        exact ⟨x :: pre, by simp [hl], ⟨hx, hp⟩, ht, by simp⟩
      · rename_i hx
        simp only [List.cons.injEq] at h
        obtain ⟨rfl, rfl⟩ := h
        exact ⟨[], rfl, trivial, by simpa using hx, fun _ => rfl⟩

open W Generated.H in
/-- kubectl delegates only for the action `exec` – the first word that is neither a flag nor the value of a global
    flag – and then to exactly the words after the first `--` that follows it.  `kubectl --user get exec p -- rm x`
    (user name `get`) is an exec: `get` is stepped over as the value of `--user`. -/
theorem kubectl_delegates_exec_only (tokens inner : List String) (h : kubectlDelegates tokens = some inner) :
    ∃ pre rest, tokens.drop 1 = pre ++ "exec" :: rest ∧ KubectlFlags false pre ∧ kubectlExecInner rest = some inner := by
  unfold kubectlDelegates at h
  split at h
  · rename_i action rest hop
    split at h
    · rename_i ha
      have ha' : action = "exec" := by simpa using ha
      subst ha'
      obtain ⟨pre, hl, hp, _, _⟩ := kubectlOperands_spec false _ _ _ hop
      exact ⟨pre, rest, hl, hp, h⟩
    · cases h
  · cases h

open W Generated.H in
example : kubectlDelegates ["kubectl", "--user", "get", "exec", "p", "--", "rm", "-rf", "/"] = some ["rm", "-rf", "/"] := by decide +kernel
open W Generated.H in
example : kubectlDelegates ["kubectl", "get", "exec", "p", "--", "rm"] = none := by decide +kernel
open W Generated.H in
example : "--user" ∈ kubectl_FLAGS_WITH_ARG ∧ "--kubeconfig" ∈ kubectl_FLAGS_WITH_ARG ∧ "-s" ∈ kubectl_FLAGS_WITH_ARG := by decide +kernel

end Dippy.C13
