/-
C02 — No unapproved file writes: approved commands modify only granted files.

Model side: every redirection of every node in every evaluated position is an atom
(`reach_atoms`); an approved tree has only allow decisions (`allow_covers_atoms`); so each write
redirection is granted by the last matching redirect rule, evaluated on the file the target denotes
(C09).  Which operators write and which targets are non-file sinks is an independent table here,
checked against the tables generated from the source.  Which directory bash is in when it opens the
file, and what the tools really write, is T2 (real bash + real coreutils in a jail).
-/
import Dippy.Props.C01
import Dippy.Lemmas.LastMatch

set_option linter.unusedSimpArgs false
set_option linter.unusedVariables false

namespace Dippy.C02
open Dippy

variable (w : World) (rec : Rec) (h : HelpTables)

/-- **redirections**: in an approved tree, every reachable redirection whose operator writes and whose
    target is neither a non-file sink nor (spelled with a bare `&`) a descriptor is granted by a redirect rule
    whose decision is allow – and its spelling carries no quote or backslash that bash would still remove
    (`/tmp/out/".."/x` is never matched as spelled) -/
theorem write_redirect_granted (n : Node) (cwd cwd' : String) (op : String) (t : Word)
    (ha : (aNode w rec h n cwd false).action = .allow)
    (hr : Reach w.resolveCd w.arithWalked false (.node n, cwd) (.redir (.redirect op (some t)), cwd'))
    (hop : w.redirectOp (stripFd op) = true)
    (hsink : (w.safeTarget (wordValue t) && wordValue t != "-") = false)
    (hamp : Py.startsWith t.value "&" = false) :
    hasInnerQuoting (wordValue t) = false
      ∧ ∃ m, w.matchRedirect (wordValue t) cwd' = some m ∧ m.decision = .allow := by
  have hx := reach_atoms w false _ _ hr (.redir op (wordValue t) cwd') (by
    simp only [Piece.atoms]
    rw [flatRedirects_single]
    simp [hamp])
  have hall := C01.allow_covers_atoms w rec h n cwd false ha _ hx
  simp only [atomDecisions, redirectDecision, hsink, Bool.false_eq_true, ↓reduceIte, hop] at hall
  cases hq : hasInnerQuoting (wordValue t) with
  | true => simp [hq] at hall
  | false =>
    refine ⟨rfl, ?_⟩
    simp only [hq, Bool.false_eq_true, ↓reduceIte] at hall
    cases hm : w.matchRedirect (wordValue t) cwd' with
    | none => simp [hm] at hall
    | some m =>
      refine ⟨m, rfl, ?_⟩
      simp only [hm] at hall
      cases hd : m.decision <;> simp [hd] at hall
      rfl

/-- with a configuration as the rule engine: the *last* redirect rule matching the denoted file allows -/
theorem write_granted_by_last_rule (env : PathEnv) (cfg : Config) (target cwd : String) (m : Match)
    (hm : matchRedirect env cfg target cwd = some m) :
    ∃ r, (cfg.redirectRules.filter fun r => redirectRuleMatches env r target cwd).getLast? = some r ∧ m = r.toMatch := by
  unfold matchRedirect at hm
  rw [lastMatch_eq] at hm
  simp only [Option.map_eq_some_iff] at hm
  obtain ⟨r, hr, hrm⟩ := hm
  exact ⟨r, hr, hrm.symm⟩

/-- a later ask/deny-redirect rule overrides an earlier grant -/
theorem later_rule_overrides (env : PathEnv) (cfg : Config) (r : Rule) (target cwd : String)
    (hr : redirectRuleMatches env r target cwd = true) :
    matchRedirect env { cfg with redirectRules := cfg.redirectRules ++ [r] } target cwd = some r.toMatch := by
  unfold matchRedirect
  rw [lastMatch_snoc]
  simp [hr]

/-- **tool-reported write targets**: a handler CLI is allowed only if every reported target that is not
    a non-file sink is granted -/
theorem tool_targets_granted (tokens : List String) (cwd : String) (t : String)
    (hs : w.simpleSafe (tokens.headD "") = false)
    (hv : isVersionOrHelp h.helpWords h.helpFlags2 h.helpFlagsLast tokens = false)
    (hh : w.hasHandler (tokens.headD "") = true)
    (hact : (w.classify tokens).action = "allow")
    (ht : t ∈ (w.classify tokens).redirectTargets) (hsink : w.safeTarget t = false)
    (ha : (builtinVerdict w rec h.helpWords h.helpFlags2 h.helpFlagsLast tokens cwd false).action = .allow) :
    ∃ m, w.matchRedirect t cwd = some m ∧ m.decision = .allow := by
  unfold builtinVerdict at ha
  simp only [hs, Bool.false_eq_true, ↓reduceIte, hv, hh] at ha
  have hne : (w.classify tokens).redirectTargets.isEmpty = false := by
    cases hl : (w.classify tokens).redirectTargets with
    | nil => rw [hl] at ht; cases ht
    | cons _ _ => rfl
  simp only [hne, Bool.not_false, Bool.and_self, ↓reduceIte] at ha
  -- the target loop returned no decision, otherwise the verdict would not be allow
  have key : ∀ (ts : List String) (desc : String), t ∈ ts →
      (match checkTargets w cwd desc ts with
       | some d => d.action ≠ .allow
       | none => ∃ m, w.matchRedirect t cwd = some m ∧ m.decision = .allow) := by
    intro ts desc
    induction ts with
    | nil => intro hc; cases hc
    | cons a as ih =>
      intro hmem
      unfold checkTargets
      by_cases hsa : w.safeTarget a = true
      · simp only [hsa, ↓reduceIte]
        cases hmem with
        | head => simp [hsa] at hsink
        | tail _ h' => exact ih h'
      · simp only [hsa, Bool.false_eq_true, ↓reduceIte]
        by_cases hq : hasInnerQuoting a = true
        · simp [hq]
        simp only [hq, Bool.false_eq_true, ↓reduceIte]
        cases hm : w.matchRedirect a cwd with
        | none => simp
        | some m =>
          simp only
          cases hd : m.decision with
          | deny => simp
          | ask => simp
          | allow =>
            simp only
            cases hmem with
            | head =>
              cases hc : checkTargets w cwd desc as with
              | some d =>
                simp only
                -- a later target stopped the loop: still not allow
                have := fun hx => ih hx
                by_cases hin : t ∈ as
                · have := ih hin; simp only [hc] at this; exact this
                · -- decision from another target
                  clear this
                  have hgen : ∀ (l : List String) (d : Decision), checkTargets w cwd desc l = some d → d.action ≠ .allow := by
                    intro l
                    induction l with
                    | nil => intro d hd; simp [checkTargets] at hd
                    | cons b bs ihb =>
                      intro d hd
                      unfold checkTargets at hd
                      split at hd
                      · exact ihb d hd
                      · split at hd
                        · simp at hd; rw [← hd]; simp
                        · split at hd
                          · split at hd
                            · simp at hd; rw [← hd]; simp
                            · simp at hd; rw [← hd]; simp
                            · exact ihb d hd
                          · simp at hd; rw [← hd]; simp
                  exact hgen as d hc
              | none => simp only; exact ⟨m, hm, hd⟩
            | tail _ h' => exact ih h'
  have hk := key _ (Py.orElse (w.classify tokens).description (w.description tokens)) ht
  cases hc : checkTargets w cwd (Py.orElse (w.classify tokens).description (w.description tokens))
      (w.classify tokens).redirectTargets with
  | some d => simp only [hc] at hk ha; exact absurd ha hk
  | none => simp only [hc] at hk; exact hk

/-! ### the operator and sink tables, stated independently of the code -/

/-- operators that open their target for writing (bash manual, REDIRECTION) -/
def specWriteOps : List String := [">", ">>", ">|", "&>", "&>>", "<>", ">&"]

/-- **every write operator is in the table the analyzer uses** (T0: `_WRITE_REDIRECT_OPS`) -/
theorem op_table_complete : specWriteOps.all (fun op => Generated.redirectOps.contains op) = true := by decide

/-- … and the table contains nothing that only reads -/
theorem op_table_sound : Generated.redirectOps.all (fun op => specWriteOps.contains op) = true := by decide

/-- any fd prefix is transparent: `N>`, `{var}>>` are the bare operator -/
example : stripFd "2>" = ">" ∧ stripFd "10>>" = ">>" ∧ stripFd "{fd}>" = ">" ∧ stripFd "{out_1}>|" = ">|"
    ∧ stripFd "3<>" = "<>" ∧ stripFd ">&" = ">&" ∧ stripFd "&>>" = "&>>" := by decide

theorem fd_prefix_regex : Generated.fdPrefixRe = "^(\\d+|\\{[A-Za-z_][A-Za-z0-9_]*\\})" := by decide

/-- the only targets exempt from the rules are non-file sinks -/
theorem sink_table : Generated.safeRedirectTargets.all
    (fun t => ["-", "/dev/null", "/dev/stdin", "/dev/stdout"].contains t) = true := by decide

end Dippy.C02
