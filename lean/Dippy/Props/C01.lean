/-
C01 — No hidden execution: approval covers every command bash would run.

`Child` / `Reach` (Spec/Reach.lean) list the positions bash evaluates; `w : World` is arbitrary
(any rule set, any handler answers, any parser answers) and `rec` is the re-analysis of strings.
-/
import Dippy.Lemmas.Reach
import Dippy.Generated.Parable
import Dippy.Generated.Tables

set_option linter.unusedSimpArgs false
set_option linter.unusedVariables false

namespace Dippy.C01
open Dippy

variable (w : World) (rec : Rec) (h : HelpTables)

theorem S_eq_allow {ds : List Decision} : S ds = .allow ↔ ∀ d ∈ ds, d.action = .allow := by
  unfold S
  rw [supList_eq_allow]
  simp [acts]

/-- an approved tree: every atom's every decision is allow -/
theorem allow_covers_atoms (n : Node) (cwd : String) (r : Bool)
    (ha : (aNode w rec h n cwd r).action = .allow) :
    ∀ x ∈ flat w.syn n cwd r, ∀ d ∈ atomDecisions w rec h x, d.action = .allow := by
  rw [verdict_eq_leaves, S_eq_allow] at ha
  intro x hx d hd
  apply ha
  unfold leaves
  exact List.mem_flatMap.mpr ⟨x, hx, hd⟩

/-- **no hidden execution (one level)**: if a tree is auto-approved, every command reachable in it
    through any chain of evaluated positions – lists, pipelines, control structures, function bodies,
    command/process substitutions, array elements, redirect targets, `[[ ]]` operands … – is itself
    auto-approved when analysed on its own (under the cwd in effect at that point) -/
theorem no_hidden_execution (n c : Node) (cwd cwd' : String) (r : Bool)
    (ha : (aNode w rec h n cwd r).action = .allow)
    (hr : Reach w.resolveCd w.arithWalked r (.node n, cwd) (.node c, cwd')) :
    (aNode w rec h c cwd' r).action = .allow := by
  rw [verdict_eq_leaves, S_eq_allow]
  intro d hd
  unfold leaves at hd
  obtain ⟨x, hx, hdx⟩ := List.mem_flatMap.mp hd
  have hx' := reach_atoms w r _ _ hr x hx
  exact allow_covers_atoms w rec h n cwd r ha x hx' d hdx

/-- what an approved raw text guarantees: the scanner vouches for every substitution it hands on,
    and each one is itself approved -/
theorem scan_item_allowed (cwd : String) (r : Bool) (it : ScanItem)
    (ha : (scanItemDecision rec cwd r it).action = .allow) :
    ∃ inner, it = .sub inner true ∧ (rec inner cwd r).action = .allow := by
  cases it with
  | unanalyzable t => simp [scanItemDecision] at ha
  | sub inner rel =>
    simp only [scanItemDecision] at ha
    by_cases h0 : (rec inner cwd r).action = .allow
    · cases rel with
      | true => exact ⟨inner, rfl, h0⟩
      | false => simp [h0] at ha
    · exfalso
      simp only [h0, and_false, ↓reduceIte] at ha
      split at ha
      · exact absurd ha (by simpa using h0)
      · exact h0 ha

/-- **raw texts**: if a tree is auto-approved, then in every reachable raw text (parameter names with
    subscripts and arguments, here-document bodies, arithmetic text, case patterns, `[[ ]]` operands)
    every substitution the scanner finds is reliably delimited and approved -/
theorem text_substitutions_allowed (n : Node) (ps : Bool) (t : String) (cwd cwd' : String) (r : Bool)
    (ha : (aNode w rec h n cwd r).action = .allow)
    (hr : Reach w.resolveCd w.arithWalked r (.node n, cwd) (.text ps t, cwd'))
    (it : ScanItem) (hit : it ∈ scanItems ps t) :
    ∃ inner, it = .sub inner true ∧ (rec inner cwd' r).action = .allow := by
  have hx := reach_atoms w r _ _ hr (.text ps (some t) cwd' r) (by simp [Piece.atoms])
  have hall := allow_covers_atoms w rec h n cwd r ha _ hx
  simp only [atomDecisions, scanArg, Py.truthy] at hall
  by_cases hte : t.isEmpty = true
  · have : t = "" := by simpa using hte
    subst this
    simp [scanItems, scanAux] at hit
  · simp only [hte, Bool.false_eq_true, ↓reduceIte, scanDecisions, List.mem_map, forall_exists_index,
      and_imp, forall_apply_eq_imp_iff₂] at hall
    exact scan_item_allowed rec cwd' r it (hall it hit)

/-- an approved string parses, and each of its top-level nodes is approved -/
theorem string_level (fuel : Nat) (s cwd : String) (r : Bool)
    (ha : (analyzeStr w h (fuel + 1) s cwd r).action = .allow) :
    ∃ nodes, w.parse (stripCmd s) = .ok nodes ∧
      ∀ n ∈ nodes, (aNode w (analyzeStr w h fuel) h n cwd r).action = .allow := by
  simp only [analyzeStr] at ha
  split at ha
  · cases ha
  · split at ha
    · cases ha
    · rename_i nodes hp
      split at ha
      · cases ha
      · refine ⟨nodes, hp, ?_⟩
        rw [combine_act, supList_eq_allow] at ha
        intro n hn
        apply ha
        rw [aNodes_eq_map]
        simp only [acts, List.map_map, List.mem_map, Function.comp]
        exact ⟨n, hn, rfl⟩

theorem out_of_fuel_never_allows (s cwd : String) (r : Bool) :
    (analyzeStr w h 0 s cwd r).action ≠ .allow := by
  simp [analyzeStr]

/-- the commands bash runs for a *string*, to any depth of re-parsed raw text: a command node
    reachable in the parse of the string, or in the parse of a substitution found in a reachable
    raw text, and so on -/
inductive Runs : String → String → Bool → Node → String → Prop where
  | here {s cwd r nodes n c cwd'} :
      w.parse (stripCmd s) = .ok nodes → n ∈ nodes →
      Reach w.resolveCd w.arithWalked r (.node n, cwd) (.node c, cwd') → Runs s cwd r c cwd'
  | inText {s cwd r nodes n ps t cwd' inner rel c cwd''} :
      w.parse (stripCmd s) = .ok nodes → n ∈ nodes →
      Reach w.resolveCd w.arithWalked r (.node n, cwd) (.text ps t, cwd') →
      ScanItem.sub inner rel ∈ scanItems ps t →
      Runs inner cwd' r c cwd'' → Runs s cwd r c cwd''

/-- **no hidden execution**: if Dippy auto-approves a command string then every command bash runs
    for it, in any nested position and to any depth of nesting, is a command Dippy auto-approves on
    its own -/
theorem no_hidden_execution_deep (fuel : Nat) (s cwd : String) (r : Bool) (c : Node) (cwd' : String)
    (ha : (analyzeStr w h fuel s cwd r).action = .allow)
    (hrun : Runs w s cwd r c cwd') :
    ∃ f, (aNode w (analyzeStr w h f) h c cwd' r).action = .allow := by
  induction hrun generalizing fuel with
  | here hp hn hr =>
    cases fuel with
    | zero => exact absurd ha (out_of_fuel_never_allows w h _ _ _)
    | succ f =>
      obtain ⟨nodes', hp', hall⟩ := string_level w h f _ _ _ ha
      rw [hp] at hp'
      cases hp'
      exact ⟨f, no_hidden_execution w _ h _ _ _ _ _ (hall _ hn) hr⟩
  | inText hp hn hr hit _ ih =>
    cases fuel with
    | zero => exact absurd ha (out_of_fuel_never_allows w h _ _ _)
    | succ f =>
      obtain ⟨nodes', hp', hall⟩ := string_level w h f _ _ _ ha
      rw [hp] at hp'
      cases hp'
      obtain ⟨inner', he, hallow⟩ := text_substitutions_allowed w _ h _ _ _ _ _ _ (hall _ hn) hr _ hit
      cases he
      exact ih f hallow

/-! ### raw text whose quoting the scan cannot know -/

/-- when the body of a substitution found in raw text contains a single quote, the body is scanned as raw text too:
    whatever it seems to quote is among the items that are re-analysed (`${x:+a '$(A='$(cmd)' b)'}` runs `cmd`) -/
theorem scan_rescans_quoted_body (ps : Bool) (n : Nat) (t inner rest : List Char) (rel : Bool)
    (hf : findEnd (t.length + 1) t 1 true none [] = .found inner rest rel) (hq : inner.contains '\'' = true)
    (it : ScanItem) (hit : it ∈ scanAux ps n inner) :
    it ∈ scanAux ps (n + 1) ('$' :: '(' :: t) := by
  simp only [scanAux, hf, hq, decide_true, Bool.true_or, ↓reduceIte, List.mem_cons, List.mem_append]
  exact Or.inl hit

example : ScanItem.sub "nope" true ∈ scanItems true "a '$(A='$(nope)' 2ok -l 'a;b')' b" := by decide +kernel

/-- the subscript of an array assignment is taken up to the *last* `]=` of the word: brackets inside it do not cut it -/
example : assignSubscript "a['$(while b[$(wc -l)]=v; do rm x; done)']=1" = some "'$(while b[$(wc -l)]=v; do rm x; done)'" := by
  decide +kernel
example : assignSubscript "a[1]='$(x)'" = some "1" := by decide +kernel
example : ScanItem.sub "while b[$(wc -l)]=v; do rm x; done" true ∈ scanItems false "'$(while b[$(wc -l)]=v; do rm x; done)'" := by
  decide +kernel

/-! ### table obligations (re-derived from the source on every run) -/

/-- kinds that are not commands: sub-syntax the walk handles inside words, redirections, tests … -/
def subSyntaxKinds : List String :=
  ["word", "redirect", "heredoc", "pattern", "param", "param-len", "param-indirect", "cmdsub", "arith",
   "number", "var", "binary-op", "unary-op", "pre-incr", "post-incr", "pre-decr", "post-decr", "assign",
   "ternary", "comma", "subscript", "escape", "arith-deprecated", "arith-concat", "ansi-c", "locale",
   "procsub", "unary-test", "binary-test", "cond-and", "cond-or", "cond-not", "cond-paren", "array"]

/-- command-level kinds that are answered ask -/
def askedKinds : List String := ["operator", "pipe-both"]

/-- every node kind Parable can produce is dispatched by the walk, is sub-syntax, or is asked about:
    a new kind in the vendored parser breaks this obligation -/
theorem kinds_accounted :
    Generated.parableKinds.all (fun k =>
      Generated.dispatchedKinds.contains k || subSyntaxKinds.contains k || askedKinds.contains k) = true := by
  decide

/-- the walk dispatches on exactly the kinds the model has constructors for -/
theorem dispatched_kinds :
    Generated.dispatchedKinds = ["command", "pipeline", "list", "if", "while", "until", "for", "for-arith",
      "select", "case", "function", "subshell", "brace-group", "time", "negation", "coproc", "cond-expr",
      "arith-cmd", "comment", "empty"] := by decide

end Dippy.C01
