/-
C12 — Same verdict for Claude Code, Gemini CLI and Cursor; envelopes conform.

In the model the verdict (`Result`) is computed by functions that do not take the mode as an
argument at all (`shellPath`, `mcpPath`); the mode only selects the route to the command text and the
envelope (`render`).  The theorems make that explicit.
-/
import Dippy.Lemmas.Hook
import Dippy.Generated.Hook

set_option linter.unusedSimpArgs false

namespace Dippy.C12
open Dippy

/-- mode selection: an explicit flag or variable first, the shape of the input otherwise -/
theorem mode_precedence (env : HookEnv) (j : PJson) :
    hookMode env j = match env.explicitMode with
      | some m => some m
      | none => detectMode env j := rfl

/-- explicit selection prefers claude, then gemini, then cursor – flags and variables alike -/
theorem explicit_order (argv : List String) (environ : String → Option String) :
    explicitFromFlags argv environ =
      if argv.contains "--claude" || envFlag (environ "DIPPY_CLAUDE") then some .claude
      else if argv.contains "--gemini" || envFlag (environ "DIPPY_GEMINI") then some .gemini
      else if argv.contains "--cursor" || envFlag (environ "DIPPY_CURSOR") then some .cursor
      else none := rfl

example : explicitFromFlags ["--cursor", "--claude"] (fun _ => none) = some .claude := by decide
example : explicitFromFlags ["--cursor"] (fun k => if k == "DIPPY_GEMINI" then some "TRUE" else none) = some .gemini := by decide
example : explicitFromFlags [] (fun k => if k == "DIPPY_CURSOR" then some "0" else none) = none := by decide

/-- **the verdict never depends on the mode**: the decision and the reason text a host reads out of
    its envelope are those of the mode-free result -/
theorem verdict_mode_free (m₁ m₂ : Mode) (r : Result) :
    decisionOfOut (render m₁ r) = decisionOfOut (render m₂ r)
      ∧ reasonOfOut (render m₁ r) = reasonOfOut (render m₂ r) := by
  rw [decisionOf_render, decisionOf_render, reasonOf_render, reasonOf_render]
  exact ⟨rfl, rfl⟩

/-- a shell command reaches the same verdict through Cursor's input shape and through the
    Claude/Gemini shape: same command text, same permission mode, same event ⇒ same result -/
theorem shell_route_mode_free (env : HookEnv) (jc jt : PJson) (cfg : Config) (cwd : String) (p : Bool)
    (c : PJson) (tool : String) (ti : PJson) (m : Mode) (hm : m ≠ .cursor)
    (hc : jc.get "command" (.str "") = some c)
    (ht : jt.get "tool_name" (.str "") = some (.str tool)) (hti : jt.get "tool_input" (.obj []) = some ti)
    (hcmd : ti.get "command" (.str "") = some c)
    (hshell : env.shellToolNames.contains tool = true) (hnm : Py.startsWith tool "mcp__" = false)
    (hb : bypassOf env jc p = bypassOf env jt p) :
    route env .cursor jc cfg cwd p = route env m jt cfg cwd p := by
  have hrc : route env .cursor jc cfg cwd p = shellPath env jc cfg cwd p c := by
    simp [route, hc]
  have hmem : tool ∈ env.shellToolNames := by simpa using hshell
  have hrt : route env m jt cfg cwd p = shellPath env jt cfg cwd p c := by
    cases m with
    | cursor => exact absurd rfl hm
    | claude => simp [route, ht, hti, hnm, hmem, hcmd]
    | gemini => simp [route, ht, hti, hnm, hmem, hcmd]
  rw [hrc, hrt]
  unfold shellPath
  rw [hb]

/-- every Gemini tool-name alias is routed like `Bash` (T0 obligation on the two tables) -/
theorem gemini_aliases_are_shell_tools :
    Generated.geminiNames.all (fun n => Generated.shellToolNames.contains n) = true
      ∧ Generated.shellToolNames.contains "Bash" = true := by decide

/-! ### envelopes: exactly the fields and vocabulary each host expects -/

theorem envelope_claude (a : Action) (r : String) :
    envelope .claude a r = .obj [("hookSpecificOutput", .obj [("hookEventName", .str "PreToolUse"),
      ("permissionDecision", .str a.toString), ("permissionDecisionReason", .str ("🐤 " ++ r))])] := rfl

theorem envelope_gemini (a : Action) (r : String) :
    envelope .gemini a r = .obj [("decision", .str a.toString), ("reason", .str ("🐤 " ++ r))] := rfl

theorem envelope_cursor (a : Action) (r : String) :
    envelope .cursor a r = .obj [("permission", .str a.toString), ("user_message", .str ("🐤 " ++ r)),
      ("agent_message", .str ("🐤 " ++ r)), ("userMessage", .str ("🐤 " ++ r)), ("agentMessage", .str ("🐤 " ++ r))] := rfl

theorem vocabulary (a : Action) : a.toString = "allow" ∨ a.toString = "ask" ∨ a.toString = "deny" := by
  cases a <;> simp [Action.toString]

/-- every line the hook ever prints is `{}`, one of the three envelopes, or a feedback line -/
theorem output_is_envelope (m : Mode) (r : Result) :
    render m r = [.json (.obj [])] ∨ (∃ a s, render m r = [.json (envelope m a s)])
      ∨ render m r = [] ∨ ∃ t, render m r = [.text t] := by
  cases r with
  | defer => left; rfl
  | configError msg => right; left; exact ⟨_, _, rfl⟩
  | bypass pm => right; left; exact ⟨_, _, rfl⟩
  | mcp mt => right; left; exact ⟨_, _, rfl⟩
  | analysis d c cf cw => right; left; exact ⟨_, _, rfl⟩
  | feedback msg =>
    simp only [render]
    cases Py.truthy msg with
    | none => right; right; left; rfl
    | some t => right; right; right; exact ⟨_, rfl⟩
  | silent => right; right; left; rfl

/-- an explicit Claude/Gemini mode given a Cursor-shaped input (no tool_name) never allows: `{}` -/
theorem mismatched_shape_defers (env : HookEnv) (j : PJson) (cfg : Config) (cwd : String) (p : Bool) (m : Mode)
    (hm : m ≠ .cursor) (ti : PJson)
    (ht : j.get "tool_name" (.str "") = some (.str "")) (hti : j.get "tool_input" (.obj []) = some ti)
    (hs : env.shellToolNames.contains "" = false) :
    route env m j cfg cwd p = some .defer := by
  have hs' : ¬ "" ∈ env.shellToolNames := by simpa using hs
  have hn : Py.startsWith "" "mcp__" = false := by decide
  cases m with
  | cursor => exact absurd rfl hm
  | claude => simp [route, ht, hti, hn, hs']
  | gemini => simp [route, ht, hti, hn, hs']

end Dippy.C12
