-- GENERATED. Tables the translator could not find where it expected them.
namespace Dippy.Generated

def missingTables : List String := []

end Dippy.Generated
