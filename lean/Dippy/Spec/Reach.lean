/-
Specification side of C01: the positions of a program that bash evaluates.

`Child` is a plain list of edges "evaluating `a` (under cwd) evaluates `b` (under cwd')", one
constructor per syntactic position, written without reference to the analyzer.  `Reach` is its
reflexive-transitive closure.  Raw texts (`Piece.text`) are the places where Parable keeps source
text instead of a tree: parameter names with subscripts and arguments, here-document bodies,
arithmetic text, case patterns, `[[ ]]` operands without parts.
-/
import Dippy.Model.Analyzer

namespace Dippy

/-- a piece of syntax bash may evaluate -/
inductive Piece where
  | node (n : Node)
  | word (wd : Word)
  /-- a part together with the word it stands in (the word's source carries the arithmetic text) -/
  | part (wd : Word) (p : Part)
  | redir (rd : Redir)
  | cond (c : Cond)
  | arith (a : Arith)
  /-- `ps`: bash performs process substitution in this kind of text (parameter-expansion arguments, case patterns,
      `[[ ]]` operands) – not in arithmetic, not in here-documents -/
  | text (ps : Bool) (t : String)

/-- one evaluation step; `r` = remote context (a leading literal `cd` is not tracked there) -/
inductive Child (resolveCd : String → String → String) (walked : List String) (r : Bool) :
    Piece × String → Piece × String → Prop where
  -- simple command: every word (assignments included) and every redirection
  | cmdWord {ws rs cwd wd} : wd ∈ ws → Child resolveCd walked r (.node (.command ws rs), cwd) (.word wd, cwd)
  /-- `NAME[subscript]=value` (also as an argument of declare/local/export): bash evaluates the subscript as
      arithmetic, whatever its quoting -/
  | cmdSubscript {ws rs cwd wd t} : wd ∈ ws → assignSubscript wd.value = some t →
      Child resolveCd walked r (.node (.command ws rs), cwd) (.text false t, cwd)
  | cmdRedir {ws rs cwd rd} : rd ∈ rs → Child resolveCd walked r (.node (.command ws rs), cwd) (.redir rd, cwd)
  -- compound commands
  | pipeline {cmds cwd n} : n ∈ cmds → Child resolveCd walked r (.node (.pipeline cmds), cwd) (.node n, cwd)
  /-- the first part of a list runs in the directory the list is entered in (a leading `cd` has not happened yet) … -/
  | listFirst {parts cwd n} : firstNonOp parts = some n →
      Child resolveCd walked r (.node (.list parts), cwd) (.node n, cwd)
  /-- … the later ones where a leading literal `cd` leads -/
  | list {parts cwd n} : n ∈ restAfterFirstNonOp parts → isOperator n = false →
      Child resolveCd walked r (.node (.list parts), cwd) (.node n, effectiveCwdS resolveCd parts cwd r)
  | ifCond {c t e rs cwd} : Child resolveCd walked r (.node (.ifN c t e rs), cwd) (.node c, cwd)
  | ifThen {c t e rs cwd} : Child resolveCd walked r (.node (.ifN c t e rs), cwd) (.node t, cwd)
  | ifElse {c t e rs cwd} : Child resolveCd walked r (.node (.ifN c t (some e) rs), cwd) (.node e, cwd)
  | ifRedir {c t e rs cwd rd} : rd ∈ rs → Child resolveCd walked r (.node (.ifN c t e rs), cwd) (.redir rd, cwd)
  | whileCond {u c b rs cwd} : Child resolveCd walked r (.node (.whileN u c b rs), cwd) (.node c, cwd)
  | whileBody {u c b rs cwd} : Child resolveCd walked r (.node (.whileN u c b rs), cwd) (.node b, cwd)
  | whileRedir {u c b rs cwd rd} : rd ∈ rs → Child resolveCd walked r (.node (.whileN u c b rs), cwd) (.redir rd, cwd)
  | forWord {v ws b rs cwd wd} : wd ∈ ws → Child resolveCd walked r (.node (.forN v ws b rs), cwd) (.word wd, cwd)
  | forBody {v ws b rs cwd} : Child resolveCd walked r (.node (.forN v ws b rs), cwd) (.node b, cwd)
  | forRedir {v ws b rs cwd rd} : rd ∈ rs → Child resolveCd walked r (.node (.forN v ws b rs), cwd) (.redir rd, cwd)
  | forArithInit {i c s b rs cwd} : Child resolveCd walked r (.node (.forArith i c s b rs), cwd) (.text false i, cwd)
  | forArithCond {i c s b rs cwd} : Child resolveCd walked r (.node (.forArith i c s b rs), cwd) (.text false c, cwd)
  | forArithIncr {i c s b rs cwd} : Child resolveCd walked r (.node (.forArith i c s b rs), cwd) (.text false s, cwd)
  | forArithBody {i c s b rs cwd} : Child resolveCd walked r (.node (.forArith i c s b rs), cwd) (.node b, cwd)
  | forArithRedir {i c s b rs cwd rd} : rd ∈ rs →
      Child resolveCd walked r (.node (.forArith i c s b rs), cwd) (.redir rd, cwd)
  | selectWord {v ws b rs cwd wd} : wd ∈ ws → Child resolveCd walked r (.node (.selectN v ws b rs), cwd) (.word wd, cwd)
  | selectBody {v ws b rs cwd} : Child resolveCd walked r (.node (.selectN v ws b rs), cwd) (.node b, cwd)
  | selectRedir {v ws b rs cwd rd} : rd ∈ rs → Child resolveCd walked r (.node (.selectN v ws b rs), cwd) (.redir rd, cwd)
  | caseWord {wd pats rs cwd} : Child resolveCd walked r (.node (.caseN (some wd) pats rs), cwd) (.word wd, cwd)
  | casePattern {wd pats rs cwd pat body} : CasePat.mk pat body ∈ pats →
      Child resolveCd walked r (.node (.caseN wd pats rs), cwd) (.text true pat, cwd)
  | caseBody {wd pats rs cwd pat body} : CasePat.mk pat (some body) ∈ pats →
      Child resolveCd walked r (.node (.caseN wd pats rs), cwd) (.node body, cwd)
  | caseRedir {wd pats rs cwd rd} : rd ∈ rs → Child resolveCd walked r (.node (.caseN wd pats rs), cwd) (.redir rd, cwd)
  -- a function definition: its body runs when the function is called
  | functionBody {name b cwd} : Child resolveCd walked r (.node (.function name b), cwd) (.node b, cwd)
  | subshellBody {b rs cwd} : Child resolveCd walked r (.node (.subshell b rs), cwd) (.node b, cwd)
  | subshellRedir {b rs cwd rd} : rd ∈ rs → Child resolveCd walked r (.node (.subshell b rs), cwd) (.redir rd, cwd)
  | braceBody {b rs cwd} : Child resolveCd walked r (.node (.braceGroup b rs), cwd) (.node b, cwd)
  | braceRedir {b rs cwd rd} : rd ∈ rs → Child resolveCd walked r (.node (.braceGroup b rs), cwd) (.redir rd, cwd)
  | timeBody {p cwd} : Child resolveCd walked r (.node (.time p), cwd) (.node p, cwd)
  | negationBody {p cwd} : Child resolveCd walked r (.node (.negation p), cwd) (.node p, cwd)
  | coprocBody {p cwd} : Child resolveCd walked r (.node (.coproc p), cwd) (.node p, cwd)
  | condBody {c rs cwd} : Child resolveCd walked r (.node (.condExpr (some c) rs), cwd) (.cond c, cwd)
  | condRedir {c rs cwd rd} : rd ∈ rs → Child resolveCd walked r (.node (.condExpr c rs), cwd) (.redir rd, cwd)
  | arithCmdText {e t rs cwd} : Child resolveCd walked r (.node (.arithCmd e (some t) rs), cwd) (.text false t, cwd)
  | arithCmdTree {e rs cwd} : Child resolveCd walked r (.node (.arithCmd (some e) none rs), cwd) (.arith e, cwd)
  | arithCmdRedir {e t rs cwd rd} : rd ∈ rs → Child resolveCd walked r (.node (.arithCmd e t rs), cwd) (.redir rd, cwd)
  -- words and their parts
  | wordPart {v ps cwd p} : p ∈ ps → Child resolveCd walked r (.word (.mk v ps), cwd) (.part (.mk v ps) p, cwd)
  | cmdsub {wd n cwd} : Child resolveCd walked r (.part wd (.cmdsub n), cwd) (.node n, cwd)
  | procsub {wd d n cwd} : Child resolveCd walked r (.part wd (.procsub d n), cwd) (.node n, cwd)
  | paramName {wd name op arg cwd} : Child resolveCd walked r (.part wd (.param name op arg), cwd) (.text true name, cwd)
  | paramArg {wd name op arg cwd} : Child resolveCd walked r (.part wd (.param name op (some arg)), cwd) (.text true arg, cwd)
  | paramLenName {wd name cwd} : Child resolveCd walked r (.part wd (.paramLen name), cwd) (.text true name, cwd)
  | paramIndName {wd name op arg cwd} :
      Child resolveCd walked r (.part wd (.paramIndirect name op arg), cwd) (.text true name, cwd)
  | paramIndArg {wd name op arg cwd} :
      Child resolveCd walked r (.part wd (.paramIndirect name op (some arg)), cwd) (.text true arg, cwd)
  | arithText {wd e t cwd} : t ∈ arithTexts wd.value → Child resolveCd walked r (.part wd (.arith e), cwd) (.text false t, cwd)
  | arithOldText {wd e cwd} : Child resolveCd walked r (.part wd (.arithDeprecated e), cwd) (.text false e, cwd)
  | arrayElem {wd elems cwd el} : el ∈ elems → Child resolveCd walked r (.part wd (.array elems), cwd) (.word el, cwd)
  -- redirections: the target word; an unquoted here-document body
  | redirTarget {op t cwd} : Child resolveCd walked r (.redir (.redirect op (some t)), cwd) (.word t, cwd)
  | heredocBody {content cwd} : Child resolveCd walked r (.redir (.heredoc false content), cwd) (.text false content, cwd)
  -- [[ ]]
  | unaryOperand {op v ps cwd} : Child resolveCd walked r (.cond (.unary op (.mk v ps)), cwd) (.word (.mk v ps), cwd)
  | unaryText {op v ps cwd} : (ps = [] ∨ Py.hasChar v '\'' = true) →
      Child resolveCd walked r (.cond (.unary op (.mk v ps)), cwd) (.text true v, cwd)
  | binaryLeft {op v ps rt cwd} : Child resolveCd walked r (.cond (.binary op (.mk v ps) rt), cwd) (.word (.mk v ps), cwd)
  | binaryLeftText {op v ps rt cwd} : (ps = [] ∨ Py.hasChar v '\'' = true) →
      Child resolveCd walked r (.cond (.binary op (.mk v ps) rt), cwd) (.text true v, cwd)
  | binaryRight {op v ps l cwd} : Child resolveCd walked r (.cond (.binary op l (.mk v ps)), cwd) (.word (.mk v ps), cwd)
  | binaryRightText {op v ps l cwd} : (ps = [] ∨ Py.hasChar v '\'' = true ∨ op = "=~") →
      Child resolveCd walked r (.cond (.binary op l (.mk v ps)), cwd) (.text true v, cwd)
  | andLeft {l rt cwd} : Child resolveCd walked r (.cond (.and l rt), cwd) (.cond l, cwd)
  | andRight {l rt cwd} : Child resolveCd walked r (.cond (.and l rt), cwd) (.cond rt, cwd)
  | orLeft {l rt cwd} : Child resolveCd walked r (.cond (.or l rt), cwd) (.cond l, cwd)
  | orRight {l rt cwd} : Child resolveCd walked r (.cond (.or l rt), cwd) (.cond rt, cwd)
  | notOperand {o cwd} : Child resolveCd walked r (.cond (.not o), cwd) (.cond o, cwd)
  | parenInner {i cwd} : Child resolveCd walked r (.cond (.paren i), cwd) (.cond i, cwd)
  -- arithmetic trees (only used when Parable gives no raw text)
  | arithCmdsub {n cwd} : Child resolveCd walked r (.arith (.cmdsub n), cwd) (.node n, cwd)
  | arithAttr {k attrs a x cwd} : a ∈ walked → attrs.find? (fun kv => kv.1 == a) = some (a, .one x) →
      Child resolveCd walked r (.arith (.node k attrs), cwd) (.arith x, cwd)

/-- reflexive-transitive closure -/
inductive Reach (resolveCd : String → String → String) (walked : List String) (r : Bool) :
    Piece × String → Piece × String → Prop where
  | refl {a} : Reach resolveCd walked r a a
  | step {a b c} : Child resolveCd walked r a b → Reach resolveCd walked r b c → Reach resolveCd walked r a c

end Dippy
