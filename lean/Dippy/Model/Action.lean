/-
Model of `Decision` and `_combine` (src/dippy/core/analyzer.py).
Core Lean only, no imports.
-/
namespace Dippy

/-- The three verdicts, ordered allow < ask < deny. -/
inductive Action where
  | allow | ask | deny
  deriving DecidableEq, Repr, Inhabited

namespace Action

def rank : Action → Nat
  | allow => 0
  | ask => 1
  | deny => 2

def toString : Action → String
  | allow => "allow"
  | ask => "ask"
  | deny => "deny"

/-- join in the chain allow < ask < deny -/
def sup : Action → Action → Action
  | deny, _ => deny
  | _, deny => deny
  | ask, _ => ask
  | _, ask => ask
  | allow, allow => allow

instance : LE Action := ⟨fun a b => a.rank ≤ b.rank⟩
instance (a b : Action) : Decidable (a ≤ b) := inferInstanceAs (Decidable (a.rank ≤ b.rank))

end Action

/-- `Decision(action, reason)`; the `children` field is tracing only and never read. -/
structure Decision where
  action : Action
  reason : String
  deriving DecidableEq, Repr, Inhabited

/-- `", ".join(xs)` -/
def joinComma (xs : List String) : String := ", ".intercalate xs

def reasonsOf (a : Action) (ds : List Decision) : List String :=
  (ds.filter (fun d => d.action = a)).map (·.reason)

/-- `_combine`: most restrictive wins, all reasons at that level, in order. -/
def combine (ds : List Decision) : Decision :=
  if ds.isEmpty then ⟨.allow, "empty"⟩
  else if (ds.any (fun d => d.action = .deny)) then ⟨.deny, joinComma (reasonsOf .deny ds)⟩
  else if (ds.any (fun d => d.action = .ask)) then ⟨.ask, joinComma (reasonsOf .ask ds)⟩
  else ⟨.allow, joinComma (reasonsOf .allow ds)⟩

/-- The join of a list of actions (`allow` for the empty list). -/
def supList (as : List Action) : Action := as.foldl Action.sup .allow

end Dippy
