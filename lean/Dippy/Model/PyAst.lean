/-
Model of `SafetyAnalyzer` (src/dippy/cli/python.py): the AST visitor that decides whether a Python
script may be auto-approved (C17).

The Python AST is kept generic – a node is its class name, its line and its `_fields` in order –
exactly what `ast.NodeVisitor.generic_visit` sees.  `visit` is the visitor: the class-specific check
of the node (`visit_Import`, `visit_Call`, …) followed by `generic_visit` over every field, with the
two methods that do not recurse (`visit_ImportFrom` without a module, `visit_Global`) modelled as such.
Core Lean only.
-/
import Dippy.Model.PyStr

namespace Dippy.PyAst

mutual
/-- an `ast.AST` instance: class name, `lineno` (0 when the class has none), `_fields` in order -/
inductive PNode where
  | mk (kind : String) (line : Nat) (fields : List (String × PVal))
/-- the value of one field -/
inductive PVal where
  | node (n : PNode)
  | list (items : List PItem)
  | str (s : String)
  /-- `None` -/
  | none
  /-- numbers, bytes, booleans, `...` -/
  | other
/-- a member of a list-valued field (`Global.names` holds strings, `Dict.keys` may hold `None`) -/
inductive PItem where
  | node (n : PNode)
  | str (s : String)
  | other
end

def PNode.kind : PNode → String | .mk k _ _ => k
def PNode.line : PNode → Nat | .mk _ l _ => l
def PNode.fields : PNode → List (String × PVal) | .mk _ _ f => f

def PNode.field (n : PNode) (name : String) : Option PVal :=
  (n.fields.find? fun kv => kv.1 == name).map (·.2)

/-- a string-valued field (`Name.id`, `Attribute.attr`, `alias.name`, `ImportFrom.module`) -/
def PNode.strField (n : PNode) (name : String) : Option String :=
  match n.field name with
  | some (.str s) => some s
  | _ => none

def PNode.nodeField (n : PNode) (name : String) : Option PNode :=
  match n.field name with
  | some (.node c) => some c
  | _ => none

/-- the AST members of a list-valued field -/
def PNode.listField (n : PNode) (name : String) : List PNode :=
  match n.field name with
  | some (.list items) => items.filterMap fun | .node c => some c | _ => none
  | _ => []

/-- `isinstance(node.ctx, ast.Load)` -/
def PNode.isLoad (n : PNode) : Bool :=
  match n.nodeField "ctx" with
  | some c => c.kind == "Load"
  | none => false

/-- the tables of python.py the visitor consults (instantiated from the source by T0) -/
structure Tables where
  safeModules : List String
  dangerousModules : List String
  dangerousBuiltins : List String
  dangerousAttrs : List String
  reflectionAttrs : List String
  moduleAliasAttrs : List String

/-- a `Violation` without its column: (line, kind, detail) -/
structure Violation where
  line : Nat
  kind : String
  detail : String
  deriving DecidableEq, Repr

/-- `module.split(".")[0]` -/
def rootOf (m : String) : String := String.ofList (m.toList.takeWhile (· != '.'))

/-- `name.lstrip("_")` -/
def lstripUnderscore (s : String) : String := String.ofList (Py.lstripL (· == '_') s.toList)

variable (T : Tables)

/-- the verdict of `visit_Import` / `visit_ImportFrom` on one module name -/
def moduleViolation (line : Nat) (m : String) : List Violation :=
  let root := rootOf m
  if T.dangerousModules.contains m || T.dangerousModules.contains root then
    [⟨line, "import", "dangerous module: " ++ m⟩]
  else if !T.safeModules.contains m && !T.safeModules.contains root then
    [⟨line, "import", "unknown module: " ++ m⟩]
  else []

/-- the per-alias check of `from <safe module> import name` -/
def fromNameViolation (line : Nat) (name : String) : List Violation :=
  if T.dangerousAttrs.contains name || name == "*" then [⟨line, "import", "dangerous name: " ++ name⟩]
  else if T.dangerousModules.contains (lstripUnderscore name) || T.moduleAliasAttrs.contains name then
    [⟨line, "import", "dangerous module via import: " ++ name⟩]
  else []

/-- is the builtin `name` refused (print is allowed when `allowPrint`) -/
def builtinRefused (allowPrint : Bool) (name : String) : Bool :=
  T.dangerousBuiltins.contains name && !(name == "print" && allowPrint)

/-- the class-specific part of `visit_<Class>`: what the node itself contributes, before
    `generic_visit` descends.  Classes without a `visit_` method contribute nothing. -/
def localViolations (allowPrint : Bool) (n : PNode) : List Violation :=
  let line := n.line
  match n.kind with
  | "Import" =>
    (n.listField "names").flatMap fun a =>
      match a.strField "name" with
      | some m => moduleViolation T line m
      | none => []
  | "ImportFrom" =>
    match n.strField "module" with
    | none => [⟨line, "import", "relative import without module"⟩]
    | some m =>
      match moduleViolation T line m with
      | [] => (n.listField "names").flatMap fun a =>
          match a.strField "name" with
          | some nm => fromNameViolation T line nm
          | none => []
      | vs => vs
  | "Call" =>
    match n.nodeField "func" with
    | some f =>
      if f.kind == "Name" then
        match f.strField "id" with
        | some name => if builtinRefused T allowPrint name then [⟨line, "builtin", "dangerous builtin: " ++ name⟩] else []
        | none => []
      else if f.kind == "Attribute" then
        match f.strField "attr" with
        | some attr => if T.dangerousAttrs.contains attr then [⟨line, "method", "dangerous method: " ++ attr⟩] else []
        | none => []
      else []
    | none => []
  | "Attribute" =>
    match n.strField "attr" with
    | some attr =>
      if T.reflectionAttrs.contains attr then [⟨line, "reflection", "dangerous attribute: " ++ attr⟩]
      else if T.dangerousModules.contains (lstripUnderscore attr) || T.moduleAliasAttrs.contains attr then
        [⟨line, "import", "dangerous module via attribute: " ++ attr⟩]
      else if n.isLoad && T.dangerousAttrs.contains attr then [⟨line, "method", "dangerous method: " ++ attr⟩]
      else []
    | none => []
  | "Name" =>
    match n.strField "id" with
    | some name =>
      if name == "__builtins__" || name == "__loader__" || name == "__spec__" then
        [⟨line, "reflection", "dangerous name: " ++ name⟩]
      else if n.isLoad && builtinRefused T allowPrint name then [⟨line, "builtin", "dangerous builtin: " ++ name⟩]
      else []
    | none => []
  | "AsyncFunctionDef" => [⟨line, "async", "async functions require asyncio"⟩]
  | "Await" => [⟨line, "async", "await requires asyncio"⟩]
  | "With" =>
    (n.listField "items").flatMap fun item =>
      match item.nodeField "context_expr" with
      | some ce =>
        if ce.kind == "Call" then
          match ce.nodeField "func" with
          | some f => if f.kind == "Name" && f.strField "id" == some "open" then [⟨line, "io", "file open in with statement"⟩] else []
          | none => []
        else []
      | none => []
  | _ => []

/-- does `visit_<Class>` end in `generic_visit`?  `visit_Global` is `pass`; `visit_ImportFrom`
    returns early when the module is `None` -/
def descends (n : PNode) : Bool :=
  if n.kind == "Global" then false
  else if n.kind == "ImportFrom" && (n.strField "module").isNone then false
  else true

mutual
/-- `SafetyAnalyzer.visit(node)`: the violations in the order they are appended -/
def visit (allowPrint : Bool) : PNode → List Violation
  | .mk kind line fields =>
    localViolations T allowPrint (.mk kind line fields)
      ++ (if descends (.mk kind line fields) then visitFields allowPrint fields else [])
/-- `generic_visit`: every field in `_fields` order -/
def visitFields (allowPrint : Bool) : List (String × PVal) → List Violation
  | [] => []
  | (_, v) :: rest => visitVal allowPrint v ++ visitFields allowPrint rest
def visitVal (allowPrint : Bool) : PVal → List Violation
  | .node n => visit allowPrint n
  | .list items => visitItems allowPrint items
  | _ => []
def visitItems (allowPrint : Bool) : List PItem → List Violation
  | [] => []
  | .node n :: rest => visit allowPrint n ++ visitItems allowPrint rest
  | _ :: rest => visitItems allowPrint rest
end

/-- `analyze_python_source` on a parsed module: `none` = no violation, else the first one, rendered
    as `analyze_python_file` renders it -/
def firstReason (allowPrint : Bool) (tree : PNode) : Option String :=
  match visit T allowPrint tree with
  | [] => none
  | v :: _ => some (v.kind ++ ": " ++ v.detail ++ " (line " ++ toString v.line ++ ")")

/-! ### the import names the shadowing check looks at (`ast.walk`) -/

mutual
/-- every node of the tree, the root included (`ast.walk`, as a pre-order list) -/
def allNodes : PNode → List PNode
  | .mk kind line fields => .mk kind line fields :: allNodesFields fields
def allNodesFields : List (String × PVal) → List PNode
  | [] => []
  | (_, v) :: rest => allNodesVal v ++ allNodesFields rest
def allNodesVal : PVal → List PNode
  | .node n => allNodes n
  | .list items => allNodesItems items
  | _ => []
def allNodesItems : List PItem → List PNode
  | [] => []
  | .node n :: rest => allNodes n ++ allNodesItems rest
  | _ :: rest => allNodesItems rest
end

/-- the roots `analyze_python_file` looks for next to the script (`<root>.py`, `<root>/`) -/
def importRoots (tree : PNode) : List String :=
  (allNodes tree).flatMap fun n =>
    if n.kind == "Import" then
      (n.listField "names").filterMap fun a => (a.strField "name").map rootOf
    else if n.kind == "ImportFrom" then
      match n.strField "module" with
      | some m => if m.isEmpty then [] else [rootOf m]
      | none => []
    else []

end Dippy.PyAst
