/-
Model of `analyze_python_file` (src/dippy/cli/python.py): the gates in front of the AST checker and the
shadowing check behind it.  The file system, UTF-8 decoding and `ast.parse` are oracles: what they
answered for one path is a `FileFacts` record (the harness records it from the real run).
Core Lean only.
-/
import Dippy.Model.PyAst
import Dippy.Model.Path

namespace Dippy.PyFile
open Dippy Dippy.PyAst

/-- what the operating system, the decoder and `ast.parse` say about one path -/
structure FileFacts where
  /-- `path.exists()` -/
  pathExists : Bool
  /-- `path.is_file()` -/
  isFile : Bool
  /-- `path.suffix` -/
  suffix : String
  /-- `path.stat().st_size`; `none` = OSError -/
  size : Option Nat
  /-- `path.read_text(encoding="utf-8")`; `none` = OSError / UnicodeDecodeError -/
  source : Option String
  /-- `ast.parse(source)`; `none` = SyntaxError -/
  tree : Option PNode
  /-- `(path.parent / f"{root}.py").exists() or (path.parent / root).is_dir()` (an OSError counts as shadowed) -/
  shadowed : String → Bool

/-- `_CODING_COOKIE.match(line)`: `^[ \t\f]*#.*?coding[:=][ \t]*([-\w.]+)` – the captured encoding name.
    The lazy `.*?` finds the *first* `coding:`/`coding=` after the `#` that is followed (after blanks and tabs)
    by at least one name character; `isName` is `[-\w.]` (the harness checks the model against the real
    regular expression, `\w` being a parameter here). -/
def cookieAfterHash (isName : Char → Bool) : List Char → Option (List Char)
  | [] => none
  | c :: rest =>
    let here : Option (List Char) :=
      if "coding".toList.isPrefixOf (c :: rest) then
        match (c :: rest).drop 6 with
        | s :: after =>
          if s == ':' || s == '=' then
            let v := after.dropWhile (fun x => x == ' ' || x == '\t')
            let name := v.takeWhile isName
            if name.isEmpty then none else some name
          else none
        | [] => none
      else none
    match here with
    | some n => some n
    | none => if c == '\n' then none else cookieAfterHash isName rest

/-- `[-\w.]` for str patterns: `\w` is `c.isalnum() or c == "_"` -/
def cookieNameChar (c : Char) : Bool := c == '-' || c == '.' || c == '_' || Py.isAlnum c

def codingCookie (isName : Char → Bool) (line : String) : Option String :=
  let l := line.toList.dropWhile (fun c => c == ' ' || c == '\t' || c == '\x0c')
  match l with
  | '#' :: rest => (cookieAfterHash isName rest).map String.ofList
  | _ => none

/-- the encodings under which analysing the text as UTF-8 is right -/
def utf8Names : List String := ["utf-8", "utf8", "ascii", "us-ascii"]

/-- `m.group(1).lower().replace("_", "-")` for ASCII names (a non-ASCII name is never in `utf8Names`) -/
def normEncoding (s : String) : String :=
  String.ofList (s.toList.map fun c => if c == '_' then '-' else c.toLower)

/-- the first two lines (`source.split("\n")[:2]`) -/
def firstTwoLines (source : String) : List String :=
  ((Py.splitOnChar '\n' source.toList []).take 2).map String.ofList

/-- a cookie in the first two lines naming another encoding: `some name` -/
def foreignCookie (isName : Char → Bool) (source : String) : Option String :=
  (firstTwoLines source).findSome? fun line =>
    match codingCookie isName line with
    | some name => if utf8Names.contains (normEncoding name) then none else some name
    | none => none

inductive Verdict where
  | safe
  | refused (reason : String)
  deriving DecidableEq, Repr

def Verdict.isSafe : Verdict → Bool
  | .safe => true
  | .refused _ => false

/-- `analyze_python_file(path)`; reasons that embed an exception text are abbreviated to their fixed prefix -/
def analyzeFile (T : Tables) (suffixes : List String) (sizeLimit : Nat) (isName : Char → Bool) (ff : FileFacts) : Verdict :=
  if !ff.pathExists then .refused "file not found"
  else if !ff.isFile then .refused "not a file"
  else if !suffixes.contains ff.suffix then .refused ("not a Python file: " ++ ff.suffix)
  else match ff.size with
    | none => .refused "cannot stat file"
    | some sz =>
      if sz > sizeLimit then .refused "file too large to analyze"
      else match ff.source with
        | none => .refused "cannot read file"
        | some src =>
          match foreignCookie isName src with
          | some name => .refused ("source encoding " ++ name ++ " (analysed as UTF-8)")
          | none =>
            match ff.tree with
            | none => .refused "syntax"
            | some tree =>
              match firstReason T true tree with
              | some r => .refused r
              | none =>
                match (importRoots tree).find? ff.shadowed with
                | some root => .refused ("local module shadows import: " ++ root)
                | none => .safe

end Dippy.PyFile
