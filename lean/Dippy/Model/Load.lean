/-
Model of `_find_project_config`, `_load_config_file`, `load_config` (config.py).
The file system is an oracle: which paths are regular files, what reading them yields,
how a path resolves.
-/
import Dippy.Model.Config

namespace Dippy

inductive ReadResult where
  | ok (text : String)
  | permission                 -- PermissionError
  | oserror (msg : String)     -- any other OSError (str(e))
  | raised                     -- anything else (UnicodeDecodeError, ValueError …): propagates
  deriving DecidableEq, Repr

/-- `Path.is_file()` can itself raise PermissionError -/
inductive FileTest where
  | yes | no | permission | raised
  deriving DecidableEq, Repr

structure FS where
  isFile : String → FileTest
  readText : String → ReadResult
  resolve : String → String

inductive LoadResult where
  | ok (cfg : Config)
  | configError (msg : String)
  | raised
  deriving DecidableEq, Repr

/-- `p, p.parent, …, /` for an absolute, normalised path: every prefix of the segment list, longest first -/
def ancestorsAux (segs : List (List Char)) : List (List (List Char)) :=
  (List.range (segs.length + 1)).reverse.map fun k => segs.take k

def ancestors (p : String) : List String :=
  let segs := (Py.splitOnChar '/' p.toList []).filter (fun s => !s.isEmpty)
  (ancestorsAux segs).map fun ss => "/" ++ String.ofList (['/'].intercalate ss)

/-- `current / ".dippy"` -/
def dippyIn (dir : String) : String := if dir == "/" then "/.dippy" else dir ++ "/.dippy"

/-- `_find_project_config`: the first ancestor-or-self of `resolve(cwd)` holding a regular file `.dippy`;
    `none` inside `Except` = an exception from `is_file()` -/
def findProjectIn (fs : FS) : List String → Option (Option String)
  | [] => some none
  | d :: ds =>
    match fs.isFile (dippyIn d) with
    | .yes => some (some (dippyIn d))
    | .no => findProjectIn fs ds
    | _ => none

def findProject (fs : FS) (cwd : String) : Option (Option String) :=
  findProjectIn fs (ancestors (fs.resolve cwd))

/-- `_load_config_file` -/
def loadFile (e : ParseEnv) (fs : FS) (path : String) : LoadResult :=
  match fs.readText path with
  | .ok text => .ok (parseConfig e text)
  | .permission => .configError ("permission denied reading config: " ++ path)
  | .oserror msg => .configError ("cannot read config " ++ path ++ ": " ++ msg)
  | .raised => .raised

/-- merge one optional layer -/
def addLayer (acc : LoadResult) (layer : Config → LoadResult) : LoadResult :=
  match acc with
  | .ok c => layer c
  | r => r

/-- `load_config(cwd)`; `userConfig = str(USER_CONFIG)`, `envPath = Path(os.environ[DIPPY_CONFIG]).expanduser()`
    (`none` = unset or empty; `some none` = expanduser raised) -/
def loadConfig (e : ParseEnv) (fs : FS) (userConfig : String) (cwd : String) (envPath : Option (Option String)) :
    LoadResult :=
  let user : Config → LoadResult := fun c =>
    match fs.isFile userConfig with
    | .yes => (match loadFile e fs userConfig with
        | .ok u => .ok (mergeConfigs c u)
        | r => r)
    | .no => .ok c
    | .permission => .configError ("permission denied accessing " ++ userConfig)
    | .raised => .raised
  let project : Config → LoadResult := fun c =>
    match findProject fs cwd with
    | none => .raised
    | some none => .ok c
    | some (some p) => (match loadFile e fs p with
        | .ok u => .ok (mergeConfigs c u)
        | r => r)
  let env : Config → LoadResult := fun c =>
    match envPath with
    | none => .ok c
    | some none => .raised
    | some (some p) =>
      match fs.isFile p with
      | .yes => (match loadFile e fs p with
          | .ok u => .ok (mergeConfigs c u)
          | r => r)
      | .no => .ok c
      | .permission => .configError ("permission denied accessing " ++ p)
      | .raised => .raised
  addLayer (addLayer (user {}) project) env

end Dippy
