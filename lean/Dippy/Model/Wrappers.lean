/-
Models of the launcher handlers' `classify` (src/dippy/cli/{shell,env,xargs,find,fd,arch,
caffeinate,script}.py) and of the `exec` inner-command extraction of docker.py / kubectl.py:
which words of the command line are handed on as the inner command.

Flag tables come from T0 (`Generated.H`).  Index arithmetic of the Python loops (`i += 2`)
becomes a `skip` flag: "the next token is the argument of the previous one".
-/
import Dippy.Model.Quote
import Dippy.Generated.Handlers

namespace Dippy.W

open Dippy Generated.H

def ask (desc : String) : Classification := { action := "ask", description := some desc }
def allow (desc : Option String) : Classification := { action := "allow", description := desc }
def delegate (inner : String) (desc : Option String := none) (remote : Bool := false) : Classification :=
  { action := "delegate", innerCommand := some inner, description := desc, remote := remote }

def sw (s p : String) : Bool := Py.startsWith s p
def dropS (n : Nat) (s : String) : String := String.ofList (s.toList.drop n)
def lookup (tbl : List (String × String)) (k : String) : Option String := (tbl.find? (·.1 == k)).map (·.2)

/-! ### sh / bash / zsh … `-c` -/

/-- `tok.startswith("-") and not tok.startswith("--") and "c" in tok` -/
def isCFlag (tok : String) : Bool := sw tok "-" && !sw tok "--" && Py.hasChar tok 'c'

/-- an option of the shell whose value is the next word: `--rcfile`/`--init-file`, or a `-…o`/`+…O` cluster
    (`tok in _OPTIONS_WITH_VALUE or (len(tok) > 1 and tok[0] in "-+" and tok[1] != "-" and tok[-1] in "oO")`) -/
def shellTakesValue (tok : String) : Bool :=
  shell__OPTIONS_WITH_VALUE.contains tok ||
    (match tok.toList with
      | c0 :: c1 :: rest => (c0 == '-' || c0 == '+') && c1 != '-' && ((c1 :: rest).getLast? == some 'o' || (c1 :: rest).getLast? == some 'O')
      | _ => false)

/-- the scan for the `-…c…` cluster among the shell's own options (the words after the program name): it stops at
    `--` and at the first word that is not an option; `skip` = the word is the value of the option before it.
    Result: what follows the cluster. -/
def afterCFlag : Bool → List String → Option (List String)
  | _, [] => none
  | true, _ :: rest => afterCFlag false rest
  | false, t :: rest =>
    if isCFlag t then some rest
    else if shellTakesValue t then afterCFlag true rest
    else if t == "--" || !(sw t "-" || sw t "+") then none
    else afterCFlag false rest

def shellClassify (tokens : List String) : Classification :=
  let base := tokens.headD "shell"
  if tokens.length < 2 then ask (base ++ " interactive")
  else match afterCFlag false (tokens.drop 1) with
    | none => ask (base ++ " interactive")
    | some [] => ask (base ++ " -c (no command)")
    | some (inner :: _) =>
      if inner.isEmpty then ask (base ++ " -c (no command)") else delegate inner

/-- a cluster of short options (`-vu`, `-rn1`): the first letter that takes a value (`"-" + letter` is in the
    handler's table) and what is attached to it in the same word -/
def clusterFind (fwa : List String) : List Char → Option (Char × List Char)
  | [] => none
  | c :: r => if fwa.contains ("-" ++ String.singleton c) then some (c, r) else clusterFind fwa r

/-- is the word a single-dash option word (`-x…`, also `-` alone) -/
def isShort (t : String) : Bool := sw t "-" && !sw t "--"

/-! ### env -/

def envInner (rest : List String) : Classification :=
  if rest.isEmpty then allow none else delegate (bashJoin rest)

def envSplit (splitString : String) (rest : List String) : Classification :=
  let inner := " ".intercalate (splitString :: (if rest.isEmpty then [] else [bashJoin rest]))
  if (Py.strip inner).isEmpty then ask "env -S (no command)" else delegate inner

def envLoop : Bool → List String → Classification
  | _, [] => allow none
  | true, _ :: rest => envLoop false rest
  | false, t :: rest =>
    if t == "--" then envInner rest
    else if t == "--split-string" then envSplit (rest.headD "") (rest.drop 1)
    else if sw t "--split-string=" then envSplit (dropS 15 t) rest
    else match (if isShort t then clusterFind env_FLAGS_WITH_ARG (t.toList.drop 1) else none) with
    | some (c, attached) =>
      -- combined short options: the first value-taking one ends the cluster
      if c == 'S' then
        (if attached.isEmpty then envSplit (rest.headD "") (rest.drop 1) else envSplit (String.ofList attached) rest)
      else if attached.isEmpty then envLoop true rest else envLoop false rest
    | none =>
    if env_FLAGS_WITH_ARG.contains t then envLoop true rest
    else if sw t "-" then envLoop false rest
    else if Py.hasChar t '=' then envLoop false rest
    else envInner (t :: rest)

def envClassify (tokens : List String) : Classification :=
  if tokens.length < 2 then allow none else envLoop false (tokens.drop 1)

/-! ### xargs -/

/-- `_skip_flags(..., stop_at_double_dash=True)`: the tokens from the first non-flag on -/
def xargsSkip : Bool → List String → List String
  | _, [] => []
  | true, _ :: rest => xargsSkip false rest
  | false, t :: rest =>
    if t == "--" then rest
    else if !sw t "-" then t :: rest
    else if xargs_FLAGS_WITH_ARG.contains t then xargsSkip true rest
    else if t.length > 2 && isShort t then
      -- combined short options (-rn 1, -rn1): the value of the first value-taking one is the rest of the word or the next word
      match clusterFind xargs_FLAGS_WITH_ARG (t.toList.drop 1) with
      | some (_, attached) => if attached.isEmpty then xargsSkip true rest else xargsSkip false rest
      | none => xargsSkip false rest
    else xargsSkip false rest

/-- an interactive flag inside a cluster, before any value-taking option (`-rp`, `-to`) -/
def clusterUnsafe : List Char → Option Char
  | [] => none
  | c :: r =>
    if xargs_FLAGS_WITH_ARG.contains ("-" ++ String.singleton c) then none
    else if xargs_UNSAFE_FLAGS.contains ("-" ++ String.singleton c) then some c
    else clusterUnsafe r

/-- the scan for interactive flags, up to `--` -/
def xargsUnsafe : List String → Option Classification
  | [] => none
  | t :: rest =>
    if t == "--" then none
    else if xargs_UNSAFE_FLAGS.contains t then
      match lookup xargs_FLAG_CONTEXT t with
      | some ctx => if ctx.isEmpty then some (ask ("xargs " ++ t)) else some (ask ("xargs " ++ t ++ " (" ++ ctx ++ ")"))
      | none => some (ask ("xargs " ++ t))
    else if (t.length > 2 && isShort t) && (clusterUnsafe (t.toList.drop 1)).isSome then
      some (ask ("xargs -" ++ String.singleton ((clusterUnsafe (t.toList.drop 1)).getD ' ')))
    else if sw t "--interactive" then some (ask "xargs --interactive")
    else if sw t "--open-tty" then some (ask "xargs --open-tty")
    else xargsUnsafe rest

def xargsClassify (tokens : List String) : Classification :=
  if tokens.length < 2 then ask "xargs (no command)"
  else
    let args := tokens.drop 1
    let inner := xargsSkip false args
    -- only xargs's own options (the skipped prefix) are searched for interactive flags
    match xargsUnsafe (args.take (args.length - inner.length)) with
    | some c => c
    | none =>
      match inner with
      | [] => ask "xargs (no command)"
      | inner => delegate (bashJoin inner)

/-! ### find -/

def isClauseEnd (t : String) : Bool := t == ";" || t == "+"

/-- the loop of `classify`: `clauses` and `desc` are its accumulators -/
def findLoop (base : String) : List String → List String → Option String → Classification
  | [], clauses, desc =>
    if clauses.isEmpty then allow (some base) else delegate (" ; ".intercalate clauses) desc
  | t :: rest, clauses, desc =>
    if t == "-ok" || t == "-okdir" then
      ask (base ++ " " ++ t ++ " (" ++ (lookup find_FLAG_CONTEXT t).getD "None" ++ ")")
    else if t == "-delete" then ask (base ++ " -delete")
    else if t == "-exec" || t == "-execdir" then
      let inner := rest.takeWhile (fun x => !isClauseEnd x)
      match inner with
      | [] => ask (base ++ " " ++ t)
      | first :: _ =>
        findLoop base rest (clauses ++ [bashJoin inner])
          (match desc with | some d => some d | none => some (base ++ " " ++ t ++ " " ++ first))
    else findLoop base rest clauses desc

def findClassify (tokens : List String) : Classification :=
  findLoop (tokens.headD "find") tokens [] none

/-! ### fd -/

/-- one `-x`/`-X` clause: the words up to `;`, and what follows it -/
def fdClause : List String → List String × List String
  | [] => ([], [])
  | t :: r => if t == ";" then ([], r) else (t :: (fdClause r).1, (fdClause r).2)

/-- what follows the first `x`/`X` of a cluster's letters: (the letter, the attached text) -/
def fdClusterSplit : List Char → Option (Char × List Char)
  | [] => none
  | c :: r => if c == 'x' || c == 'X' then some (c, r) else fdClusterSplit r

/-- a combined or attached short form (`-Hx`, `-xrm`): more than one letter, `x` or `X` among them; the result is the
    flag and the words the attached text contributes to the command -/
def fdCluster (t : String) : Option (String × List String) :=
  if sw t "-" && !sw t "--" && decide (t.length > 2) then
    match fdClusterSplit (t.toList.drop 1) with
    | some (c, att) => some ("-" ++ String.singleton c, if att.isEmpty then [] else [String.ofList att])
    | none => none
  else none

/-- the `=`-joined long forms: (flag, value) -/
def fdEqForm (t : String) : Option (String × String) :=
  if sw t "--exec=" then some ("--exec", dropS 7 t)
  else if sw t "--exec-batch=" then some ("--exec-batch", dropS 13 t)
  else none

def fdFinish (clauses : List String) (desc : Option String) : Classification :=
  if clauses.isEmpty then allow (some "fd") else delegate (" ; ".intercalate clauses) desc

/-- the clause loop of `classify` (`fuel` bounds the number of clauses; the caller passes the number of words) -/
def fdLoop : Nat → List String → List String → Option String → Classification
  | 0, _, clauses, desc => fdFinish clauses desc
  | _, [], clauses, desc => fdFinish clauses desc
  | f + 1, t :: rest, clauses, desc =>
    let flagHead : Option (String × List String) :=
      if fd_EXEC_FLAGS.contains t then some (t, [])
      else match fdEqForm t with
        | some (fl, v) => some (fl, [v])
        | none => fdCluster t
    match flagHead with
    | some (flag, head) =>
      let flagDesc := (lookup fd_FLAG_DISPLAY flag).getD flag
      match head ++ (fdClause rest).1 with
      | [] => ask ("fd " ++ flagDesc ++ " (no command)")
      | first :: more =>
        fdLoop f (fdClause rest).2 (clauses ++ [bashJoin (first :: more)])
          (match desc with | some d => some d | none => some ("fd " ++ flagDesc ++ " " ++ first))
    | none => fdLoop f rest clauses desc

def fdClassify (tokens : List String) : Classification :=
  if tokens.length < 2 then allow (some "fd")
  else fdLoop tokens.length (tokens.drop 1) [] none

/-! ### arch, caffeinate -/

def archSkip : Bool → List String → List String
  | _, [] => []
  | true, _ :: rest => archSkip false rest
  | false, t :: rest =>
    if arch_FLAGS_NO_ARG.contains t || arch_ARCH_FLAGS.contains t then archSkip false rest
    else if arch_FLAGS_WITH_ARG.contains t then archSkip true rest
    else if sw t "-" then archSkip false rest
    else t :: rest

def archClassify (tokens : List String) : Classification :=
  if tokens.length == 1 then allow (some "arch")
  else match archSkip false (tokens.drop 1) with
    | [] => allow (some "arch")
    | inner => delegate (bashJoin inner)

/-- `token.startswith("-") and all(c in "dismu" for c in token[1:])` -/
def caffCombined (t : String) : Bool :=
  sw t "-" && (t.toList.drop 1).all (fun c => ['d', 'i', 's', 'm', 'u'].contains c)

def caffSkip : Bool → List String → List String
  | _, [] => []
  | true, _ :: rest => caffSkip false rest
  | false, t :: rest =>
    if caffeinate_FLAGS_WITH_ARG.contains t then caffSkip true rest
    else if caffeinate_FLAGS_NO_ARG.contains t then caffSkip false rest
    else if caffCombined t then caffSkip false rest
    else t :: rest

def caffeinateClassify (tokens : List String) : Classification :=
  if tokens.length == 1 then allow (some "caffeinate")
  else match caffSkip false (tokens.drop 1) with
    | [] => allow (some "caffeinate")
    | inner => delegate (bashJoin inner)

/-! ### script -/

/-- one option word: a cluster of the tabled one-letter flags.  `none`: a letter outside the tables (or `--…`, or `-`
    alone); `some true`: the cluster ends in a flag that takes a value (the next word); `some false` otherwise
    (a value flag earlier in the cluster has its value attached) -/
def scriptCluster : List Char → Option Bool
  | [] => some false
  | c :: rest =>
    if script_FLAGS_WITH_ARG.contains ("-" ++ String.singleton c) then some rest.isEmpty
    else if script_FLAGS_NO_ARG.contains ("-" ++ String.singleton c) then scriptCluster rest
    else none

def scriptOption (t : String) : Option Bool :=
  if sw t "--" || t.length < 2 then none else scriptCluster (t.toList.drop 1)

/-- the option loop: `none` = an option the handler does not know; otherwise (options seen, what remains from the
    first operand on) -/
def scriptSkip : Bool → List String → List String → Option (List String × List String)
  | _, [], seen => some (seen, [])
  | true, t :: rest, seen => scriptSkip false rest (seen ++ [t])
  | false, t :: rest, seen =>
    if t == "--" then some (seen ++ [t], rest)
    else if sw t "-" then
      match scriptOption t with
      | none => none
      | some takes => scriptSkip takes rest (seen ++ [t])
    else some (seen, t :: rest)

def scriptPlayback (t : String) : Bool := t == "-p" || (sw t "-" && Py.hasChar t 'p' && !sw t "--")

def scriptClassify (tokens : List String) : Classification :=
  if tokens.length < 2 then ask "script interactive"
  else
    match scriptSkip false (tokens.drop 1) [] with
    | none => ask "script (unrecognized option)"
    | some (seen, remaining) =>
      match remaining with
      | [] => ask "script interactive"
      | _file :: command =>
        if command.isEmpty then
          if seen.any scriptPlayback then allow (some "script -p (playback)") else ask "script interactive"
        else delegate (bashJoin command)

/-! ### uv run -/

/-- `_classify_uv_run`'s option loop over the words after `uv run` -/
def uvRunSkip : Bool → List String → List String
  | _, [] => []
  | true, _ :: rest => uvRunSkip false rest
  | false, t :: rest =>
    if sw t "-" then
      (if uv_RUN_FLAGS_WITH_ARG.contains t && !rest.isEmpty then uvRunSkip true rest else uvRunSkip false rest)
    else t :: rest

def uvRunClassify (tokens : List String) : Classification :=
  match uvRunSkip false (tokens.drop 2) with
  | [] => ask "uv run"
  | first :: more => delegate (bashJoin (first :: more)) (some ("uv run " ++ first))

/-! ### tar -/

/-- `t.split("=", 1)[0]` -/
def beforeEq (t : String) : String := String.ofList (t.toList.takeWhile (· != '='))

/-- the word spells the long option `opt`, possibly abbreviated (`--use-compress-prog=x`): its name – the text before
    `=` – starts with `--`, is longer than that, is not `--checkpoint` itself, and is a prefix of `opt` -/
def tarOptionIs (t opt : String) : Bool :=
  sw (beforeEq t) "--" && decide ((beforeEq t).length > 2) && beforeEq t != "--checkpoint" && sw opt (beforeEq t)

/-- `_runs_other_program`: the first word that makes tar run a program of the caller's choosing -/
def tarRunsOther : List String → Option String
  | [] => none
  | t :: rest =>
    match tar_RUNS_PROGRAM_OPTIONS.find? (tarOptionIs t) with
    | some opt => some opt
    | none =>
      if sw t "-" && !sw t "--" && (Py.hasChar t 'I' || Py.hasChar t 'F') then some t
      else tarRunsOther rest

/-- `_extract_to_commands` -/
def tarToCommands : List String → List String
  | [] => []
  | t :: rest =>
    if sw t "--to-command=" then dropS 13 t :: tarToCommands rest
    else if t == "--to-command" then
      (match rest with
       | a :: _ => a :: tarToCommands rest
       | [] => [])
    else tarToCommands rest

def tarShortOp (t : String) : Option String :=
  (tar_OPERATIONS.find? (fun kv => Py.hasChar t (kv.1.toList.headD ' '))).map (·.2)

/-- the loop of `_detect_operation` over `tokens[1:]` -/
def tarDetectLoop : List String → Option String
  | [] => none
  | t :: rest =>
    if t == "--create" then some "create"
    else if t == "--extract" || t == "--get" then some "extract"
    else if t == "--append" then some "append"
    else if t == "--update" then some "update"
    else if t == "--list" then some "list"
    else if t == "--delete" then some "delete"
    else if sw t "-" && !sw t "--" then
      (match tarShortOp t with
       | some op => some op
       | none => tarDetectLoop rest)
    else tarDetectLoop rest

def tarDetect (tokens : List String) : Option String :=
  match tarDetectLoop (tokens.drop 1) with
  | some op => some op
  | none =>
    match tokens.drop 1 with
    | first :: _ => if !sw first "-" then tarShortOp first else none
    | [] => none

def tarClassify (tokens : List String) : Classification :=
  let base := tokens.headD "tar"
  match tarRunsOther (tokens.drop 1) with
  | some other => ask (base ++ " " ++ other)
  | none =>
    let cmds := (tarToCommands (tokens.drop 1)).filter (fun c => !c.isEmpty)
    if !cmds.isEmpty && tarDetect tokens == some "extract" then delegate ("\n".intercalate cmds) (some (base ++ " --to-command"))
    else match tarDetect tokens with
      | some "list" => allow (some (base ++ " list"))
      | some op => ask (base ++ " " ++ op)
      | none => ask base

/-! ### docker exec / kubectl exec: the words after the container -/

/-- `_cluster_takes_next`: a short cluster whose first argument-taking flag is its last character -/
def clusterTakesNext (t : String) : Bool :=
  sw t "-" && !sw t "--" &&
    (match (t.toList.drop 1).dropWhile (fun c => !docker_EXEC_SHORT_FLAGS_WITH_ARG.toList.contains c) with
     | [_] => true
     | _ => false)

/-- docker.py `_extract_exec_inner_command` (`none` = Python `None`) -/
def dockerExecInner : Bool → List String → Option (List String)
  | _, [] => none
  | true, _ :: rest => dockerExecInner false rest
  | false, t :: rest =>
    if t == "--" then (if (rest.drop 1).isEmpty then none else some (rest.drop 1))   -- container, then the command
    else if docker_EXEC_FLAGS_WITH_ARG.contains t || clusterTakesNext t then dockerExecInner true rest
    else if sw t "-" then dockerExecInner false rest
    else (if rest.isEmpty then none else some rest)   -- `t` is the container name

/-- kubectl.py `_extract_exec_inner_command`: everything after the first `--` -/
def kubectlExecInner : List String → Option (List String)
  | [] => none
  | t :: rest => if t == "--" then (if rest.isEmpty then none else some rest) else kubectlExecInner rest

/-- kubectl.py `_first_operand`: the words from the first one that is neither a flag nor (`skip`) the value of a
    flag in `FLAGS_WITH_ARG` -/
def kubectlOperands : Bool → List String → List String
  | _, [] => []
  | true, _ :: rest => kubectlOperands false rest
  | false, t :: rest => if sw t "-" then kubectlOperands (kubectl_FLAGS_WITH_ARG.contains t) rest else t :: rest

/-- the delegation `classify` of kubectl.py makes: the action (first operand) is `exec` – which is in none of the
    action/subcommand tables (`Props.C13.exec_not_tabled`) – and words follow the first `--` after it -/
def kubectlDelegates (tokens : List String) : Option (List String) :=
  match kubectlOperands false (tokens.drop 1) with
  | action :: rest => if action == "exec" then kubectlExecInner rest else none
  | [] => none

end Dippy.W
