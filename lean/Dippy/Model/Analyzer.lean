/-
Model of src/dippy/core/analyzer.py, function by function.

Everything external to the analyzer is a field of `World`:
  * `parse`          – `dippy.vendor.parable.parse` (on the stripped text),
  * `matchCommand`   – `config.match_command(SimpleCommand(words), config, cwd, remote)`,
  * `matchRedirect`  – `config.match_redirect(target, config, cwd)`,
  * `hasHandler`, `classify`, `description` – the CLI handler registry,
  * `simpleSafe`, `wrapper` – the allowlist tables,
  * `resolveCd`      – `_resolve_cd_target` (pathlib / file system).
`Model/Config.lean` instantiates the two match functions from a `Config`;
`World.std` instantiates the tables from `Generated`.

Re-analysis of *strings* (`analyze(inner)` from the raw-text scanner and from
handler delegation) goes through the parameter `rec`; `analyzeStr` ties the
knot by recursion on fuel.  Every theorem is stated for all fuel.
-/
import Dippy.Model.Action
import Dippy.Model.Syntax
import Dippy.Model.Scan
import Dippy.Model.PyStr
import Dippy.Generated.Quoting

namespace Dippy

/-- `config.Match` as far as the analyzer reads it. -/
structure Match where
  decision : Action
  pattern : String
  message : Option String
  deriving DecidableEq, Repr, Inhabited

/-- `cli.Classification` -/
structure Classification where
  action : String
  innerCommand : Option String := none
  description : Option String := none
  redirectTargets : List String := []
  remote : Bool := false
  deriving DecidableEq, Repr, Inhabited

/-- what the wrapper loop knows about one wrapper command -/
structure WrapOpts where
  /-- options whose argument is a separate word (`_WRAPPER_FLAGS_WITH_ARG[base]`) -/
  flags : List String := []
  /-- the wrapper's first positional word is a DURATION (`timeout`) -/
  duration : Bool := false
  deriving DecidableEq, Repr, Inhabited

structure World where
  parse : String → ParseResult
  matchCommand : List String → String → Bool → Option Match
  matchRedirect : String → String → Option Match
  hasHandler : String → Bool
  classify : List String → Classification
  /-- the handler module sets `RUNS_SCRIPTS` (an interpreter: `bash x.sh`, `python x.py`) -/
  runsScripts : String → Bool
  description : List String → String
  simpleSafe : String → Bool
  wrapper : String → Bool
  /-- `_WRAPPER_FLAGS_WITH_ARG.get(base, ())` -/
  wrapperArgFlags : String → WrapOpts
  resolveCd : String → String → String
  safeTarget : String → Bool
  redirectOp : String → Bool
  arithWalked : List String

/-- `analyze(command, config, cwd, remote=…)` as seen from inside the walk. -/
abbrev Rec := String → String → Bool → Decision

/-- `_strip_quotes` -/
def stripQuotes (v : String) : String :=
  match v.toList with
  | c :: rest =>
    match rest.reverse with
    | l :: midRev =>
      if (c = '"' ∧ l = '"') ∨ (c = '\'' ∧ l = '\'') then String.ofList midRev.reverse else v
    | [] => v
  | [] => v

/-- `_get_word_value` -/
def wordValue (w : Word) : String := stripQuotes w.value

/-! ### bash quote removal (`_remove_quotes`) -/

inductive QMode where
  | plain | single | double | ansi
  deriving DecidableEq, Repr

def isOctDigit (c : Char) : Bool := '0' ≤ c && c ≤ '7'
def hexDigitVal (c : Char) : Option Nat :=
  if '0' ≤ c && c ≤ '9' then some (c.toNat - '0'.toNat)
  else if 'a' ≤ c && c ≤ 'f' then some (c.toNat - 'a'.toNat + 10)
  else if 'A' ≤ c && c ≤ 'F' then some (c.toNat - 'A'.toNat + 10)
  else none
def isHexDigit (c : Char) : Bool := (hexDigitVal c).isSome

/-- at most `k` leading characters satisfying `p`, and what follows them (`{1,k}` of a regex, greedy) -/
def takeUpTo (p : Char → Bool) : Nat → List Char → List Char × List Char
  | 0, l => ([], l)
  | _, [] => ([], [])
  | k + 1, c :: r => if p c then (c :: (takeUpTo p k r).1, (takeUpTo p k r).2) else ([], c :: r)

def digitsVal (base : Nat) (ds : List Char) : Nat := ds.foldl (fun acc c => acc * base + (hexDigitVal c).getD 0) 0

/-- `chr(code) if 0 < code < 0x110000 else ""` (surrogate code points are outside the model: Lean's `Char` has none) -/
def codeChars (code : Nat) : List Char := if 0 < code ∧ code < 0x110000 then [Char.ofNat code] else []

/-- the scanning loop of `_remove_quotes`; `none`: an unclosed quote (the caller falls back to `_strip_quotes`).
    `acc` is the output so far, reversed. -/
def rqLoop (esc : List (Char × Char)) : Nat → QMode → List Char → List Char → Option (List Char)
  | 0, _, _, _ => none
  | _ + 1, .plain, [], acc => some acc.reverse
  | _ + 1, _, [], _ => none
  | f + 1, .plain, c :: rest, acc =>
    -- an active expansion with a quoting context of its own: the word is left to `_strip_quotes`
    if c = '`' ∨ ((c = '$' ∨ c = '<' ∨ c = '>') ∧ rest.head? = some '(') ∨ (c = '$' ∧ rest.head? = some '{') then none
    else if c = '\\' then
      match rest with
      | [] => rqLoop esc f .plain [] (c :: acc)
      | d :: r => rqLoop esc f .plain r (if d = '\n' then acc else d :: acc)
    else if c = '\'' then rqLoop esc f .single rest acc
    else if c = '"' then rqLoop esc f .double rest acc
    else if c = '$' then
      match rest with
      | '"' :: r => rqLoop esc f .double r acc
      | '\'' :: r => rqLoop esc f .ansi r acc
      | _ => rqLoop esc f .plain rest (c :: acc)
    else rqLoop esc f .plain rest (c :: acc)
  | f + 1, .single, c :: rest, acc =>
    if c = '\'' then rqLoop esc f .plain rest acc else rqLoop esc f .single rest (c :: acc)
  | f + 1, .double, c :: rest, acc =>
    if c = '"' then rqLoop esc f .plain rest acc
    else if c = '`' ∨ (c = '$' ∧ (rest.head? = some '(' ∨ rest.head? = some '{')) then none
    else if c = '\\' then
      match rest with
      | d :: r =>
        if d = '$' ∨ d = '`' ∨ d = '"' ∨ d = '\\' ∨ d = '\n' then rqLoop esc f .double r (if d = '\n' then acc else d :: acc)
        else rqLoop esc f .double rest (c :: acc)
      | [] => rqLoop esc f .double rest (c :: acc)
    else rqLoop esc f .double rest (c :: acc)
  | f + 1, .ansi, c :: rest, acc =>
    if c = '\'' then rqLoop esc f .plain rest acc
    else if c = '\\' then
      match rest with
      | [] => rqLoop esc f .ansi rest (c :: acc)
      | e :: r =>
        match (esc.find? (·.1 == e)).map (·.2) with
        | some ch => rqLoop esc f .ansi r (ch :: acc)
        | none =>
          if isOctDigit e then
            rqLoop esc f .ansi (takeUpTo isOctDigit 3 rest).2 ((codeChars (digitsVal 8 (takeUpTo isOctDigit 3 rest).1)).reverse ++ acc)
          else if e = 'x' ∧ (r.head?.map isHexDigit).getD false then
            rqLoop esc f .ansi (takeUpTo isHexDigit 2 r).2 ((codeChars (digitsVal 16 (takeUpTo isHexDigit 2 r).1)).reverse ++ acc)
          else if e = 'u' ∧ (r.head?.map isHexDigit).getD false then
            rqLoop esc f .ansi (takeUpTo isHexDigit 4 r).2 ((codeChars (digitsVal 16 (takeUpTo isHexDigit 4 r).1)).reverse ++ acc)
          else if e = 'U' ∧ (r.head?.map isHexDigit).getD false then
            rqLoop esc f .ansi (takeUpTo isHexDigit 8 r).2 ((codeChars (digitsVal 16 (takeUpTo isHexDigit 8 r).1)).reverse ++ acc)
          else if e = 'c' then
            match r with
            | x :: r2 => rqLoop esc f .ansi r2 (Char.ofNat (x.toNat &&& 0x1F) :: acc)
            | [] => rqLoop esc f .ansi rest (c :: acc)
          else rqLoop esc f .ansi rest (c :: acc)
    else rqLoop esc f .ansi rest (c :: acc)

/-- `_remove_quotes`: the word a program receives for this source text (`esc` = `_ANSI_C_ESCAPES`, from T0) -/
def removeQuotesWith (esc : List (Char × Char)) (v : String) : String :=
  match rqLoop esc (v.length + 2) .plain v.toList [] with
  | some out => String.ofList out
  | none => stripQuotes v

/-- `_remove_quotes` with the source's escape table -/
def removeQuotes (v : String) : String := removeQuotesWith Generated.Quoting.ansiCEscapes v

/-- `[A-Za-z_]` -/
def isNameStart (c : Char) : Bool := c.isAlpha || c == '_'
/-- `[A-Za-z0-9_]` -/
def isNameChar (c : Char) : Bool := c.isAlphanum || c == '_'

/-- after the name: optional `[…]`, optional `+`, then `=` -/
def assignTail : List Char → Bool
  | '[' :: t =>
    match (t.dropWhile (· != ']')) with
    | ']' :: r =>
      (match r with
       | '+' :: '=' :: _ => true
       | '=' :: _ => true
       | _ => false)
    | _ => false
  | '+' :: '=' :: _ => true
  | '=' :: _ => true
  | _ => false

/-- the text before the *last* `]=` / `]+=` (`word[: max(rfind("]="), rfind("]+="))]`) -/
def uptoLastCloseEq : List Char → Option (List Char)
  | [] => none
  | c :: r =>
    match uptoLastCloseEq r with
    | some p => some (c :: p)
    | none =>
      if c = ']' ∧ (r.head? = some '=' ∨ (r.head? = some '+' ∧ r.tail.head? = some '=')) then some [] else none

/-- the subscript text `_analyze_command` scans for `NAME[subscript]=…` / `NAME[subscript]+=…`: `_ASSIGNMENT_RE` must
    match (its group 1 ends at the first `]`), the text taken runs from the first `[` to the last `]=`/`]+=` of the word
    (a subscript may hold brackets of its own) -/
def assignSubscript (raw : String) : Option String :=
  match raw.toList with
  | c :: rest =>
    if isNameStart c then
      match rest.dropWhile isNameChar with
      | '[' :: t =>
        (match t.dropWhile (· != ']') with
         | ']' :: '+' :: '=' :: _ => (uptoLastCloseEq t).map String.ofList
         | ']' :: '=' :: _ => (uptoLastCloseEq t).map String.ofList
         | _ => none)
      | _ => none
    else none
  | [] => none

/-- `_ASSIGNMENT_RE.match(raw)`: `[A-Za-z_][A-Za-z0-9_]*(\[[^\]]*\])?\+?=` at the start of the raw word -/
def isAssignWord (raw : String) : Bool :=
  match raw.toList with
  | c :: t => isNameStart c && assignTail (t.dropWhile isNameChar)
  | [] => false

/-- number of leading words bash takes as assignments (decided on the raw, unstripped text) -/
def skipAssign : List String → Nat
  | [] => 0
  | w :: ws => if isAssignWord w then skipAssign ws + 1 else 0

/-- `_is_version_or_help` -/
def isVersionOrHelp (helpWords helpFlags2 helpFlagsLast : List String) (tokens : List String) : Bool :=
  if tokens.length < 2 then false
  else if tokens.length = 2 ∧ helpWords.contains (tokens.getD 1 "") then true
  else if tokens.length = 2 ∧ helpFlags2.contains (tokens.getD 1 "") then true
  else if helpFlagsLast.contains (tokens.getLastD "") ∧ tokens.length ≤ 4 then true
  else false

/-- `_TIMEOUT_DURATION.fullmatch(token)`: `(\d+\.?\d*|\.\d+)[smhd]?` – digits, optionally a point and more
    digits, or a point and digits; then optionally one unit letter (which is neither a digit nor a point, so
    the split is forced) -/
def isDuration (t : String) : Bool :=
  let cs := t.toList
  let body := match cs.getLast? with
    | some c => if c == 's' || c == 'm' || c == 'h' || c == 'd' then cs.dropLast else cs
    | none => cs
  let lead := body.takeWhile Py.isDecimal
  let rest := body.dropWhile Py.isDecimal
  if !lead.isEmpty then
    match rest with
    | [] => true
    | '.' :: frac => frac.all Py.isDecimal
    | _ => false
  else
    match rest with
    | '.' :: frac => !frac.isEmpty && frac.all Py.isDecimal
    | _ => false

/-- `_cluster_takes_next`, on the letters after the dash: the first value-taking letter is the last one -/
def clusterLastTakes (flags : List String) : List Char → Bool
  | [] => false
  | c :: r => if flags.contains ("-" ++ String.singleton c) then r.isEmpty else clusterLastTakes flags r

/-- `_cluster_takes_next`: a cluster of short options (`-vk`) whose first value-taking letter is its last -/
def clusterTakesNext (flags : List String) (t : String) : Bool :=
  Py.startsWith t "-" && !Py.startsWith t "--" && decide (t.length ≥ 3) && clusterLastTakes flags (t.toList.drop 1)

/-- the wrapper argument-skipping loop: what remains is the inner command.  `fwa.flags` are the options of
    this wrapper whose argument is a separate word (`_WRAPPER_FLAGS_WITH_ARG[base]`), `fwa.duration` says
    the wrapper takes a DURATION (`timeout`): one number, with or without a unit, is then skipped (`seen_duration`);
    the first flag says "the next token is such an argument" (`j += 2`), the second "the duration is still to come" -/
def skipWrapperAux (fwa : WrapOpts) : Bool → Bool → List String → List String
  | _, _, [] => []
  | true, dur, _ :: ts => skipWrapperAux fwa false dur ts
  | false, dur, t :: ts =>
    if dur && (Py.isDigitStr t || Py.isDigitStr (Py.removeChar t '.') || isDuration t) then skipWrapperAux fwa false false ts
    else if fwa.flags.contains t || clusterTakesNext fwa.flags t then skipWrapperAux fwa true dur ts
    else if Py.startsWith t "-" && t != "--" then skipWrapperAux fwa false dur ts
    else if t == "--" then ts
    else t :: ts

def skipWrapperArgs (fwa : WrapOpts) (l : List String) : List String := skipWrapperAux fwa false fwa.duration l

def matchMsg (m : Match) : String := Py.orElse m.message m.pattern

/-- `_has_inner_quoting`: quote characters or backslashes left after the outer pair was stripped -/
def hasInnerQuoting (s : String) : Bool := s.toList.any fun c => c == '\'' || c == '"' || c == '\\'

/-- the loop over handler-reported write targets; `none` = every target granted -/
def checkTargets (w : World) (cwd desc : String) : List String → Option Decision
  | [] => none
  | t :: ts =>
    if w.safeTarget t then checkTargets w cwd desc ts
    else if hasInnerQuoting t then some ⟨.ask, desc⟩
    else match w.matchRedirect t cwd with
      | some m =>
        match m.decision with
        | .deny => some ⟨.deny, desc ++ ": " ++ matchMsg m⟩
        | .ask => some ⟨.ask, desc ++ ": " ++ matchMsg m⟩
        | .allow => checkTargets w cwd desc ts
      | none => some ⟨.ask, desc⟩

/-- `runs_inner`: the handler hands the arguments on to another program (a `delegate`), or is an
    interpreter given a script – then a trailing `-h` is not a request for this tool's help -/
def runsInner (w : World) (tokens : List String) : Bool :=
  let base := tokens.headD ""
  w.hasHandler base &&
    ((w.classify tokens).action == "delegate" || (decide (tokens.length > 2) && w.runsScripts base))

/-- steps 3–6 of `_analyze_simple_command` (no rule matched, not a wrapper form) -/
def builtinVerdict (w : World) (rec : Rec) (helpW helpF2 helpFL : List String)
    (tokens : List String) (cwd : String) (remote : Bool) : Decision :=
  let base := tokens.headD ""
  if w.simpleSafe base then ⟨.allow, base⟩
  else if isVersionOrHelp helpW helpF2 helpFL tokens && !runsInner w tokens then ⟨.allow, base ++ " --help"⟩
  else if w.hasHandler base then
    let result := w.classify tokens
    let desc := Py.orElse result.description (w.description tokens)
    let tdec := if !result.redirectTargets.isEmpty && !remote
                then checkTargets w cwd desc result.redirectTargets else none
    match tdec with
    | some d => d
    | none =>
      if result.action == "allow" then ⟨.allow, desc⟩
      else if result.action == "delegate" then
        match Py.truthy result.innerCommand with
        | some inner => rec inner cwd result.remote
        | none => ⟨.ask, desc⟩
      else ⟨.ask, desc⟩
  else ⟨.ask, w.description tokens⟩

structure HelpTables where
  helpWords : List String
  helpFlags2 : List String
  helpFlagsLast : List String

/-- `_analyze_simple_command` (the words start at the program name: the assignment prefix was
    stripped by `_analyze_command`); `n` bounds the wrapper-unwrapping recursion
    (each step drops at least one token, so `words.length + 1` always suffices). -/
def simpleCmd (w : World) (rec : Rec) (h : HelpTables) :
    Nat → List String → String → Bool → Decision
  | 0, _, _, _ => ⟨.ask, "<out-of-fuel>"⟩
  | n + 1, words, cwd, remote =>
    if words.isEmpty then ⟨.allow, "empty"⟩
    else
        let tokens := words
        let base := tokens.headD ""
        match w.matchCommand tokens cwd remote with
        | some m =>
          match m.decision with
          | .allow => ⟨.allow, base ++ " (" ++ m.pattern ++ ")"⟩
          | .deny => ⟨.deny, base ++ ": " ++ matchMsg m⟩
          | .ask => ⟨.ask, base ++ ": " ++ matchMsg m⟩
        | none =>
          if w.wrapper base && tokens.length > 1 then
            if base == "command" && (tokens.getD 1 "" == "-v" || tokens.getD 1 "" == "-V") then
              ⟨.allow, "command -v"⟩
            else
              match skipWrapperArgs (w.wrapperArgFlags base) (tokens.drop 1) with
              | [] => ⟨.ask, base⟩
              | inner => simpleCmd w rec h n inner cwd remote
          else builtinVerdict w rec h.helpWords h.helpFlags2 h.helpFlagsLast tokens cwd remote

/-- the decision for one scanner item -/
def scanItemDecision (rec : Rec) (cwd : String) (remote : Bool) : ScanItem → Decision
  | .sub inner reliable =>
    let d0 := rec inner cwd remote
    -- text the scanner could not delimit like bash does: an allow is not trusted
    let d := if !reliable && d0.action = .allow then ⟨.ask, "unanalyzable text: " ++ inner⟩ else d0
    if d.action ≠ .allow then ⟨d.action, "cmdsub: " ++ d.reason⟩ else d
  | .unanalyzable text => ⟨.ask, "cmdsub: unanalyzable text: " ++ text⟩

/-- `_analyze_string_cmdsubs`: each found text is analysed and wrapped `cmdsub: …` -/
def scanDecisions (rec : Rec) (ps : Bool) (s : String) (cwd : String) (remote : Bool) : List Decision :=
  (scanItems ps s).map (scanItemDecision rec cwd remote)

/-- non-allow decisions get a prefix, allow ones pass unchanged -/
def wrapNonAllow (pfx : String) (d : Decision) : Decision :=
  if d.action ≠ .allow then ⟨d.action, pfx ++ d.reason⟩ else d

/-- `arg and isinstance(arg, str)` then scan it -/
def scanArg (rec : Rec) (ps : Bool) (arg : Option String) (cwd : String) (remote : Bool) : List Decision :=
  match Py.truthy arg with
  | some a => scanDecisions rec ps a cwd remote
  | none => []

/-- `_analyze_expansion_part` for the kinds that only carry raw text: `${name[sub] op arg}`,
    `${#name[sub]}`, `${!name[sub]…}`, `$(( … ))` (texts taken from the word's source), `$[ … ]` -/
def expansionTexts (rec : Rec) (wd : Word) (p : Part) (cwd : String) (remote : Bool) : List Decision :=
  match p with
  | .param name _ arg => scanArg rec true (some name) cwd remote ++ scanArg rec true arg cwd remote
  | .paramLen name => scanArg rec true (some name) cwd remote
  | .paramIndirect name _ arg => scanArg rec true (some name) cwd remote ++ scanArg rec true arg cwd remote
  | .arith _ => (arithTexts wd.value).flatMap fun t => scanDecisions rec false t cwd remote
  | .arithDeprecated expr => scanArg rec false (some expr) cwd remote
  | _ => []

def isOperator : Node → Bool
  | .operator _ => true
  | _ => false

/-- `_extract_cd_target` -/
def extractCdTarget : Node → Option String
  | .command [w0, w1] _ =>
    if wordValue w0 == "cd" then
      if w1.parts.any (fun p => match p with
          | .cmdsub _ => true | .param .. => true | .procsub .. => true | _ => false)
      then none else some (wordValue w1)
    else none
  | _ => none

/-- first element of `parts` that is not an operator -/
def firstNonOp : List Node → Option Node
  | [] => none
  | p :: ps => if isOperator p then firstNonOp ps else some p

/-- the parts after the first one that is not an operator -/
def restAfterFirstNonOp : List Node → List Node
  | [] => []
  | p :: ps => if isOperator p then restAfterFirstNonOp ps else ps

/-- the cwd used for the parts of a list -/
def effectiveCwdS (resolveCd : String → String → String) (parts : List Node) (cwd : String) (remote : Bool) : String :=
  if remote then cwd else
  match firstNonOp parts with
  | some p =>
    match extractCdTarget p with
    | some t => if t.isEmpty then cwd else resolveCd t cwd
    | none => cwd
  | none => cwd

abbrev effectiveCwd (w : World) (parts : List Node) (cwd : String) (remote : Bool) : String :=
  effectiveCwdS w.resolveCd parts cwd remote

/-- `_FD_PREFIX_RE.sub("", op)`: drop a leading `N` or `{name}` -/
def stripFd (op : String) : String :=
  match op.toList with
  | '{' :: c :: t =>
    if isNameStart c then
      (match (t.dropWhile isNameChar) with
       | '}' :: r => String.ofList r
       | _ => op)
    else op
  | l =>
    let ds := l.takeWhile Char.isDigit
    if ds.isEmpty then op else String.ofList (l.dropWhile Char.isDigit)

/-- decision for one file redirect once the target text is known (a target whose *raw* spelling starts with `&`
    duplicates a descriptor and never gets here) -/
def redirectDecision (w : World) (op target cwd : String) : List Decision :=
  if w.safeTarget target && target != "-" then []
  else if w.redirectOp (stripFd op) then
    if hasInnerQuoting target then [⟨.ask, "redirect to " ++ target⟩] else
    match w.matchRedirect target cwd with
    | some m =>
      match m.decision with
      | .allow => [⟨.allow, "redirect to " ++ target⟩]
      | .deny => [⟨.deny, "redirect to " ++ target ++ ": " ++ matchMsg m⟩]
      | .ask => [⟨.ask, "redirect to " ++ target ++ ": " ++ matchMsg m⟩]
    | none => [⟨.ask, "redirect to " ++ target⟩]
  else []

def isPureCmdsub (wd : Word) : Bool :=
  match wd.parts with
  | [.cmdsub _] => Py.startsWith wd.value "$(" && Py.endsWith wd.value ")"
  | _ => false

/-- what `_analyze_command` computes before its loops -/
structure CmdCtx where
  words : List String
  /-- the words after bash's quote removal (`unquoted` in `_analyze_command`) -/
  unquoted : List String
  baseIdx : Nat
  base : String
  hasHandler : Bool
  isSimpleSafe : Bool

def mkCmdCtxS (hasHandler simpleSafe : String → Bool) (ws : List Word) : CmdCtx :=
  let words := ws.map wordValue
  let baseIdx := skipAssign (ws.map Word.value)
  let base := words.getD baseIdx ""
  { words, unquoted := ws.map (fun wd => removeQuotes wd.value), baseIdx, base, hasHandler := hasHandler base, isSimpleSafe := simpleSafe base }

abbrev mkCmdCtx (w : World) (ws : List Word) : CmdCtx := mkCmdCtxS w.hasHandler w.simpleSafe ws

/-- the injection-risk prompt attached to a pure `$(…)` argument of a handler CLI -/
def injectionRisk (w : World) (ctx : CmdCtx) (wd : Word) (position : Nat) : List Decision :=
  if isPureCmdsub wd && ctx.hasHandler && !ctx.isSimpleSafe && position > ctx.baseIdx then
    if (w.classify (ctx.words.drop ctx.baseIdx)).action != "allow" then
      [⟨.ask, "cmdsub injection risk: " ++ Py.stripChars (wordValue wd) ['$', '(', ')']⟩]
    else []
  else []

/-- when `_analyze_cond_operand` re-reads the operand's text: no parts, a single quote in it, or the right of `=~` -/
def condRescan (v : String) (ps : List Part) (regex : Bool) : Bool :=
  ps.isEmpty || regex || Py.hasChar v '\''

/-- the end of `_analyze_command`: the command as spelled, and – when quote removal changes a word and the verdict
    gets stricter – the command as bash reads it -/
def cmdDecisions (w : World) (rec : Rec) (h : HelpTables) (words unquoted : List String) (baseIdx : Nat)
    (cwd : String) (remote : Bool) : List Decision :=
  let d := simpleCmd w rec h (words.length + 1) (words.drop baseIdx) cwd remote
  let d2 := simpleCmd w rec h (unquoted.length + 1) (unquoted.drop baseIdx) cwd remote
  if unquoted != words && d.action.rank < d2.action.rank then [d, d2] else [d]

section Walk
variable (w : World) (rec : Rec) (h : HelpTables)

mutual

/-- `_analyze_node` -/
def aNode : Node → String → Bool → Decision
  | .command ws rs, cwd, remote =>
    let ctx := mkCmdCtx w ws
    let ds := aCmdWords ctx ws 0 cwd remote ++ aRedirects rs cwd remote
    if ctx.words.isEmpty then
      if ds.isEmpty then ⟨.allow, "empty command"⟩ else combine ds
    else if ctx.base == "[" || ctx.base == "test" then
      combine (ds ++ [⟨.allow, "conditional test"⟩])
    else if ctx.baseIdx ≥ ctx.words.length then
      combine (ds ++ [⟨.allow, "env assignment"⟩])
    else
      combine (ds ++ cmdDecisions w rec h ctx.words ctx.unquoted ctx.baseIdx cwd remote)
  | .pipeline cmds, cwd, remote =>
    let ds := aNodes cmds cwd remote
    let r := combine ds
    if r.action = .allow then ⟨.allow, joinComma (ds.map (·.reason))⟩ else r
  | .list parts, cwd, remote =>
    let ds := aListPartsCd parts cwd (effectiveCwd w parts cwd remote) remote
    let r := combine ds
    if r.action = .allow then ⟨.allow, joinComma (ds.map (·.reason))⟩ else r
  | .ifN c t e rs, cwd, remote =>
    combine ([aNode c cwd remote, aNode t cwd remote] ++ aOptNode e cwd remote
      ++ aRedirects rs cwd remote)
  | .whileN _ c b rs, cwd, remote =>
    combine ([aNode c cwd remote, aNode b cwd remote] ++ aRedirects rs cwd remote)
  | .forN _ ws b rs, cwd, remote =>
    combine ([aNode b cwd remote] ++ aWords ws cwd remote ++ aRedirects rs cwd remote)
  | .forArith i c s b rs, cwd, remote =>
    combine ([aNode b cwd remote] ++ scanArg rec false (some i) cwd remote
      ++ scanArg rec false (some c) cwd remote ++ scanArg rec false (some s) cwd remote
      ++ aRedirects rs cwd remote)
  | .selectN _ ws b rs, cwd, remote =>
    combine ([aNode b cwd remote] ++ aWords ws cwd remote ++ aRedirects rs cwd remote)
  | .caseN wd pats rs, cwd, remote =>
    let ds := aOptWord wd cwd remote ++ aCasePats pats cwd remote ++ aRedirects rs cwd remote
    if ds.isEmpty then ⟨.allow, "empty case"⟩ else combine ds
  | .function _ b, cwd, remote => aNode b cwd remote
  | .subshell b rs, cwd, remote => combine ([aNode b cwd remote] ++ aRedirects rs cwd remote)
  | .braceGroup b rs, cwd, remote => combine ([aNode b cwd remote] ++ aRedirects rs cwd remote)
  | .time p, cwd, remote => aNode p cwd remote
  | .negation p, cwd, remote => aNode p cwd remote
  | .coproc c, cwd, remote => aNode c cwd remote
  | .condExpr b rs, cwd, remote =>
    let ds := aOptCond b cwd remote ++ aRedirects rs cwd remote
    if ds.isEmpty then ⟨.allow, "conditional"⟩ else combine ds
  | .arithCmd e raw rs, cwd, remote =>
    let ds := (match raw with
      | some t => scanDecisions rec false t cwd remote
      | none => aOptArith e cwd remote) ++ aRedirects rs cwd remote
    if ds.isEmpty then ⟨.allow, "arithmetic"⟩ else combine ds
  | .comment, _, _ => ⟨.allow, "comment"⟩
  | .empty, _, _ => ⟨.allow, "empty"⟩
  | .operator _, _, _ => ⟨.ask, "unrecognized construct: operator"⟩
  | .other k, _, _ => ⟨.ask, "unrecognized construct: " ++ k⟩

def aNodes : List Node → String → Bool → List Decision
  | [], _, _ => []
  | n :: ns, cwd, remote => aNode n cwd remote :: aNodes ns cwd remote

/-- the parts of a list, operators skipped -/
def aListParts : List Node → String → Bool → List Decision
  | [], _, _ => []
  | n :: ns, cwd, remote =>
    if isOperator n then aListParts ns cwd remote
    else aNode n cwd remote :: aListParts ns cwd remote

/-- the parts of a list as `_analyze_node` judges them: the first part in `cwd0` – a leading `cd` still runs in the old
    directory – and the later ones in `cwd`, the directory the `cd` leads to -/
def aListPartsCd : List Node → String → String → Bool → List Decision
  | [], _, _, _ => []
  | n :: ns, cwd0, cwd, remote =>
    if isOperator n then aListPartsCd ns cwd0 cwd remote
    else aNode n cwd0 remote :: aListParts ns cwd remote

def aOptNode : Option Node → String → Bool → List Decision
  | none, _, _ => []
  | some n, cwd, remote => [aNode n cwd remote]

/-- the per-word loop of `_analyze_command` (position counted from 0) -/
def aCmdWords (ctx : CmdCtx) : List Word → Nat → String → Bool → List Decision
  | [], _, _, _ => []
  | wd :: ws, pos, cwd, remote =>
    (match wd with
     | .mk v ps =>
       -- the subscript of NAME[subscript]=value is arithmetic for bash, quoted or not: its text is scanned
       (match assignSubscript v with
        | some t => scanDecisions rec false t cwd remote
        | none => [])
       ++ aCmdParts ctx wd pos ps cwd remote)
    ++ aCmdWords ctx ws (pos + 1) cwd remote

/-- the per-part loop of `_analyze_command` -/
def aCmdParts (ctx : CmdCtx) (wd : Word) (pos : Nat) : List Part → String → Bool → List Decision
  | [], _, _ => []
  | p :: ps, cwd, remote =>
    (match p with
     | .procsub dir cmd =>
       [wrapNonAllow ("process substitution " ++ dir ++ "(...): ") (aNode cmd cwd remote)]
     | .cmdsub cmd =>
       let d := aNode cmd cwd remote
       if d.action ≠ .allow then [⟨d.action, "command substitution: " ++ d.reason⟩]
       else d :: injectionRisk w ctx wd pos
     | .array elems => aWords elems cwd remote
     | other => expansionTexts rec wd other cwd remote)
    ++ aCmdParts ctx wd pos ps cwd remote

/-- `_analyze_word_parts` -/
def aWordParts (wd : Word) : List Part → String → Bool → List Decision
  | [], _, _ => []
  | p :: ps, cwd, remote =>
    (match p with
     | .cmdsub cmd => [wrapNonAllow "cmdsub: " (aNode cmd cwd remote)]
     | .procsub dir cmd => [wrapNonAllow ("procsub " ++ dir ++ "(...): ") (aNode cmd cwd remote)]
     | .array elems => aWords elems cwd remote
     | other => expansionTexts rec wd other cwd remote)
    ++ aWordParts wd ps cwd remote

def aWord : Word → String → Bool → List Decision
  | .mk v ps, cwd, remote => aWordParts (.mk v ps) ps cwd remote

/-- `_analyze_cond_operand`: the parts and, where they are not the whole story, the raw text -/
def aCondOperand (regex : Bool) : Word → String → Bool → List Decision
  | .mk v ps, cwd, remote =>
    aWordParts (.mk v ps) ps cwd remote ++
      (if condRescan v ps regex then scanArg rec true (some v) cwd remote else [])

def aWords : List Word → String → Bool → List Decision
  | [], _, _ => []
  | wd :: ws, cwd, remote => aWord wd cwd remote ++ aWords ws cwd remote

def aOptWord : Option Word → String → Bool → List Decision
  | none, _, _ => []
  | some wd, cwd, remote => aWord wd cwd remote

/-- `_analyze_redirects` -/
def aRedirects : List Redir → String → Bool → List Decision
  | [], _, _ => []
  | r :: rs, cwd, remote =>
    (match r with
     | .heredoc quoted content =>
       if !quoted then scanArg rec false (some content) cwd remote else []
     | .redirect op tgt =>
       match tgt with
       | some t =>
         aWord t cwd remote ++
           (if remote || Py.startsWith t.value "&" then [] else redirectDecision w op (wordValue t) cwd)
       | none => if remote then [] else redirectDecision w op "" cwd
     | .other _ => [])
    ++ aRedirects rs cwd remote

def aCasePats : List CasePat → String → Bool → List Decision
  | [], _, _ => []
  | .mk pat body :: ps, cwd, remote =>
    scanArg rec true (some pat) cwd remote ++ aOptNode body cwd remote ++ aCasePats ps cwd remote

/-- `_analyze_cond_node` -/
def aCond : Cond → String → Bool → List Decision
  | .unary _ o, cwd, remote => aCondOperand false o cwd remote
  | .binary op l r, cwd, remote => aCondOperand false l cwd remote ++ aCondOperand (op == "=~") r cwd remote
  | .and l r, cwd, remote => aCond l cwd remote ++ aCond r cwd remote
  | .or l r, cwd, remote => aCond l cwd remote ++ aCond r cwd remote
  | .not o, cwd, remote => aCond o cwd remote
  | .paren i, cwd, remote => aCond i cwd remote
  | .other _, _, _ => []

def aOptCond : Option Cond → String → Bool → List Decision
  | none, _, _ => []
  | some c, cwd, remote => aCond c cwd remote

/-- `_find_cmdsubs_in_arith` fused with the analysis of what it finds -/
def aArith : Arith → String → Bool → List Decision
  | .cmdsub cmd, cwd, remote => [wrapNonAllow "arithmetic cmdsub: " (aNode cmd cwd remote)]
  | .node _ attrs, cwd, remote =>
    -- for attr in WALKED (in tuple order): child = getattr(node, attr, None)
    let rs := aArithAttrs attrs cwd remote
    w.arithWalked.flatMap fun a => ((rs.find? (fun kv => kv.1 == a)).map (·.2)).getD []

/-- what walking each attribute value contributes (node-valued attributes only) -/
def aArithAttrs : List (String × AVal) → String → Bool → List (String × List Decision)
  | [], _, _ => []
  | (k, v) :: rest, cwd, remote =>
    (k, match v with
        | .one x => aArith x cwd remote
        | .many _ => []
        | .str _ => []) :: aArithAttrs rest cwd remote

def aOptArith : Option Arith → String → Bool → List Decision
  | none, _, _ => []
  | some e, cwd, remote => aArith e cwd remote

end

end Walk

/-- `command.strip(" \t\n")` at the head of `analyze`: only what bash itself skips – a form feed, NBSP or NEL stays part
    of the word (the character set comes from T0) -/
def stripCmd (command : String) : String := Py.stripChars command Generated.Quoting.analyzeStripChars.toList

/-- `analyze(command, config, cwd, remote=…)`, by recursion on fuel. -/
def analyzeStr (w : World) (h : HelpTables) : Nat → Rec
  | 0, _, _, _ => ⟨.ask, "<out-of-fuel>"⟩
  | n + 1, command, cwd, remote =>
    let command := stripCmd command
    if command.isEmpty then ⟨.ask, "empty command"⟩
    else match w.parse command with
      | .error msg => ⟨.ask, "parse error: " ++ msg⟩
      | .ok nodes =>
        if nodes.isEmpty then ⟨.ask, "empty command"⟩
        else combine (aNodes w (analyzeStr w h n) h nodes cwd remote)

end Dippy
