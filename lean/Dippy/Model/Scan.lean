/-
Model of the raw-string scanner (`_find_cmdsub_end`, `_analyze_string_cmdsubs` in analyzer.py):
which substrings of a raw text are handed to `analyze` again, and which of them the scanner
does not vouch for.
-/
namespace Dippy

/-- result of looking for the `)` that closes a `$(` -/
inductive EndResult where
  /-- body, rest after the closing paren, reliable -/
  | found (inner rest : List Char) (reliable : Bool)
  | none (reliable : Bool)
  deriving Repr, DecidableEq

/-- skip to the closing `"`: returns (consumed chars incl. the quote, rest, saw-substitution) -/
def skipDq : List Char → List Char → Bool → Option (List Char × List Char × Bool)
  | [], _, _ => none
  | '"' :: t, acc, sub => some (('"' :: acc).reverse, t, sub)
  | '\\' :: c :: t, acc, sub => skipDq t (c :: '\\' :: acc) sub
  | ['\\'], _, _ => none
  | '`' :: t, acc, _ => skipDq t ('`' :: acc) true
  | '$' :: '(' :: t, acc, _ => skipDq ('(' :: t) ('$' :: acc) true
  | c :: t, acc, sub => skipDq t (c :: acc) sub

/-- characters after which a `#` starts a comment -/
def commentStart (prev : Option Char) : Bool :=
  match prev with
  | none => true
  | some c => c == ' ' || c == '\t' || c == '\n' || c == ';' || c == '(' || c == '&' || c == '|'

/-- `_find_cmdsub_end`: `acc` is the body consumed so far (reversed), `prev` the previous raw character -/
def findEnd : Nat → List Char → Nat → Bool → Option Char → List Char → EndResult
  | 0, _, _, rel, _, _ => .none rel
  | _, [], _, rel, _, _ => .none rel
  | n + 1, '\\' :: c :: t, d, rel, _, acc => findEnd n t d rel (some c) (c :: '\\' :: acc)
  | _, ['\\'], _, rel, _, _ => .none rel
  | n + 1, '\'' :: t, d, rel, _, acc =>
    let body := t.takeWhile (· != '\'')
    match t.dropWhile (· != '\'') with
    | '\'' :: r => findEnd n r d rel (some '\'') ('\'' :: body.reverse ++ '\'' :: acc)
    | _ => .none false
  | n + 1, '"' :: t, d, rel, _, acc =>
    match skipDq t [] false with
    | some (consumed, r, sub) => findEnd n r d (rel && !sub) (some '"') (consumed.reverse ++ '"' :: acc)
    | none => .none false
  | n + 1, '#' :: t, d, rel, prev, acc =>
    findEnd n t d (if commentStart prev then false else rel) (some '#') ('#' :: acc)
  | n + 1, '(' :: t, d, rel, _, acc => findEnd n t (d + 1) rel (some '(') ('(' :: acc)
  | n + 1, ')' :: t, d, rel, _, acc =>
    if d ≤ 1 then .found acc.reverse t rel else findEnd n t (d - 1) rel (some ')') (')' :: acc)
  | n + 1, c :: t, d, rel, _, acc => findEnd n t d rel (some c) (c :: acc)

/-- After a backtick: the text up to the next backtick, and the rest after it. -/
def findTick : List Char → List Char → Option (List Char × List Char)
  | [], _ => none
  | '`' :: t, acc => some (acc.reverse, t)
  | c :: t, acc => findTick t (c :: acc)

/-- what the scanner hands on -/
inductive ScanItem where
  /-- a substitution body to analyse; `reliable = false`: an allow verdict for it is not trusted -/
  | sub (inner : String) (reliable : Bool)
  /-- a `$(` that could not be closed and contains what the scanner cannot delimit -/
  | unanalyzable (text : String)
  deriving Repr, DecidableEq

/-- the scanner loop; `fuel` bounds the number of iterations (each consumes ≥ 1 char).  With `ps` the openers
    `<(` and `>(` count like `$(`: bash performs process substitution in that kind of text -/
def scanAux (ps : Bool) : Nat → List Char → List ScanItem
  | 0, _ => []
  | _, [] => []
  | n + 1, c :: '(' :: t =>
      if c = '$' || (ps && (c = '<' || c = '>')) then
        match findEnd (t.length + 1) t 1 true none [] with
        | .found inner rest rel =>
          -- whether a `'` quotes depends on context the scan does not have: what it seems to quote is scanned too
          (if inner.contains '\'' then scanAux ps n inner else []) ++ (.sub (String.ofList inner) rel :: scanAux ps n rest)
        | .none rel =>
          (if rel then [] else [ScanItem.unanalyzable (String.ofList (c :: '(' :: t))]) ++ scanAux ps n ('(' :: t)
      else if c = '`' then
        match findTick ('(' :: t) [] with
        | some (inner, rest) => .sub (String.ofList inner) (!inner.contains '\\') :: scanAux ps n rest
        | none => scanAux ps n ('(' :: t)
      else scanAux ps n ('(' :: t)
  | n + 1, '`' :: t =>
      match findTick t [] with
      | some (inner, rest) => .sub (String.ofList inner) (!inner.contains '\\') :: scanAux ps n rest
      | none => scanAux ps n t
  | n + 1, _ :: t => scanAux ps n t

/-- what `_analyze_string_cmdsubs s` re-analyses, in order (`ps` = its `procsub` argument) -/
def scanItems (ps : Bool) (s : String) : List ScanItem := scanAux ps (s.toList.length + 1) s.toList

/-- what follows the first `$((` of a word's source, if there is one -/
def afterArithOpen : List Char → Option (List Char)
  | [] => none
  | '$' :: '(' :: '(' :: t => some t
  | _ :: t => afterArithOpen t

/-- `str.replace("$((", "((")` -/
def dropArithDollars : List Char → List Char
  | [] => []
  | '$' :: '(' :: '(' :: t => '(' :: '(' :: dropArithDollars t
  | c :: t => c :: dropArithDollars t

/-- `_arith_expansion_texts`: the rest of the word after its first `$((`, inner `$((` openers
    reduced to `((` – the end of an arithmetic expansion is deliberately not delimited -/
def arithTexts (value : String) : List String :=
  match afterArithOpen value.toList with
  | some t => [String.ofList (dropArithDollars t)]
  | none => []

end Dippy
