/-
Model of the raw-string scanner `_analyze_string_cmdsubs` (analyzer.py): which
substrings of a raw text are handed to `analyze` again.  Character for
character: the `$(`-depth counter ignores quoting, escapes and comments; a
backtick pairs with the next backtick.
-/
namespace Dippy

/-- After `$(` at depth `d`: find the matching `)`.  Returns (inner text, rest after `)`). -/
def findClose : List Char → Nat → List Char → Option (List Char × List Char)
  | [], _, _ => none
  | '$' :: '(' :: t, d, acc => findClose t (d + 1) ('(' :: '$' :: acc)
  | ')' :: t, d, acc =>
      if d ≤ 1 then some (acc.reverse, t) else findClose t (d - 1) (')' :: acc)
  | c :: t, d, acc => findClose t d (c :: acc)

/-- After a backtick: the text up to the next backtick, and the rest after it. -/
def findTick : List Char → List Char → Option (List Char × List Char)
  | [], _ => none
  | '`' :: t, acc => some (acc.reverse, t)
  | c :: t, acc => findTick t (c :: acc)

/-- The scanner loop; `fuel` bounds the number of iterations (each consumes ≥ 1 char). -/
def scanAux : Nat → List Char → List (List Char)
  | 0, _ => []
  | _, [] => []
  | n + 1, '$' :: '(' :: t =>
      match findClose t 1 [] with
      | some (inner, rest) => inner :: scanAux n rest
      | none => scanAux n ('(' :: t)
  | n + 1, '`' :: t =>
      match findTick t [] with
      | some (inner, rest) => inner :: scanAux n rest
      | none => scanAux n t
  | n + 1, _ :: t => scanAux n t

/-- The inner command texts `_analyze_string_cmdsubs s` re-analyses, in order. -/
def scan (s : String) : List String :=
  (scanAux (s.toList.length + 1) s.toList).map String.ofList

end Dippy
