/-
Model of the path handling in src/dippy/core/config.py:
`_classify_token`, `_expand_token`, `_expand_home_only`, `_expand_pattern_tildes`,
`_normalize_token/_words/_pattern/_path`, `_normalize_redirect_pattern`.

The file system enters through `PathEnv.resolve p = str(Path(p).resolve())`, applied to the
pure join `pathJoin cwd token = str(cwd / token)`, and `PathEnv.home = str(Path.home())`; `lexResolve` is the symlink-free instance
(lexical normalisation), used by the C09 theorems and validated against pathlib.
-/
import Dippy.Model.PyStr

namespace Dippy

structure PathEnv where
  home : String
  /-- `str(p.resolve())` for the already joined path `p = cwd / token` -/
  resolve : String → String

namespace Py

/-- `sub in s` -/
def containsSub (s sub : String) : Bool :=
  let l := s.toList
  let p := sub.toList
  (List.range (l.length + 1)).any fun i => p.isPrefixOf (l.drop i)

def splitWsAux : List Char → List Char → List (List Char)
  | [], cur => if cur.isEmpty then [] else [cur.reverse]
  | c :: t, cur =>
    if isSpace c then (if cur.isEmpty then splitWsAux t [] else cur.reverse :: splitWsAux t [])
    else splitWsAux t (c :: cur)

/-- `s.split()` -/
def splitWs (s : String) : List String := (splitWsAux s.toList []).map String.ofList

/-- `s.split(None, 1)` : (first word, rest after the separating whitespace run, unstripped at the right) -/
def split1 (s : String) : List String :=
  let l := lstripL isSpace s.toList
  if l.isEmpty then []
  else
    let first := l.takeWhile (fun c => !isSpace c)
    let rest := lstripL isSpace (l.dropWhile (fun c => !isSpace c))
    if rest.isEmpty then [String.ofList first] else [String.ofList first, String.ofList rest]

def splitOnChar (c : Char) : List Char → List Char → List (List Char)
  | [], cur => [cur.reverse]
  | x :: t, cur => if x == c then cur.reverse :: splitOnChar c t [] else splitOnChar c t (x :: cur)

end Py

/-- `str(PurePosixPath(s))`: collapse slashes, drop `.` segments and the trailing slash -/
def purePath (s : String) : String :=
  let l := s.toList
  if l.isEmpty then "." else
  let lead := l.takeWhile (· == '/')
  let root := if lead.length = 2 then "//" else if lead.length ≥ 1 then "/" else ""
  let segs := (Py.splitOnChar '/' l []).filter fun seg => !(seg.isEmpty || seg == ['.'])
  let body := String.ofList (['/'].intercalate segs)
  if root.isEmpty && body.isEmpty then "." else root ++ body

/-- `str(Path(cwd) / token)` -/
def pathJoin (cwd token : String) : String :=
  -- os.path.join, then PurePosixPath normalisation
  if Py.startsWith token "/" then purePath token
  else if cwd.isEmpty || Py.endsWith cwd "/" then purePath (cwd ++ token)
  else purePath (cwd ++ "/" ++ token)

inductive TokKind where
  | url | variable | absolute | home | userHome | relative | bare
  deriving DecidableEq, Repr

/-- `_classify_token` -/
def classifyToken (t : String) (isPath : Bool := false) : TokKind :=
  if Py.containsSub t "://" && !isPath then .url
  else if Py.startsWith t "$" then .variable
  else if Py.startsWith t "/" then .absolute
  else if t == "~" || Py.startsWith t "~/" then .home
  else if Py.startsWith t "~" then .userHome
  else if t == "." || t == ".." || Py.startsWith t "./" || Py.startsWith t "../" || Py.hasChar t '/' then .relative
  else .bare

/-- `str(home) + token[1:] if len(token) > 1 else str(home)` -/
def expandHome (env : PathEnv) (t : String) : String :=
  env.home ++ String.ofList (t.toList.drop 1)

/-- `str(Path(p).resolve())` -/
def resolveAbs (env : PathEnv) (p : String) : String := env.resolve (purePath p)

/-- `_expand_token` -/
def expandToken (env : PathEnv) (token cwd : String) (forcePath : Bool) : String :=
  match classifyToken token forcePath with
  | .url => token
  | .variable => token
  | .absolute => resolveAbs env token
  | .home => resolveAbs env (expandHome env token)
  | .userHome => token
  | .relative => env.resolve (pathJoin cwd token)
  | .bare => if forcePath then env.resolve (pathJoin cwd token) else token

/-- `_expand_home_only` -/
def expandHomeOnly (env : PathEnv) (t : String) : String :=
  if classifyToken t = .home then expandHome env t else t

/-- `_expand_pattern_tildes` -/
def expandPatternTildes (env : PathEnv) (pattern : String) : String :=
  Py.joinSpace ((Py.splitWs pattern).map (expandHomeOnly env))

/-- `_normalize_words` -/
def normalizeWords (env : PathEnv) (words : List String) (cwd : String) : String :=
  Py.joinSpace (words.map fun w => expandToken env w cwd false)

/-- `_normalize_pattern` -/
def normalizePattern (env : PathEnv) (pattern cwd : String) : String :=
  Py.joinSpace ((Py.splitWs pattern).map fun t => expandToken env t cwd false)

/-- `_normalize_path` -/
def normalizePath (env : PathEnv) (path cwd : String) : String :=
  expandToken env (Py.rstripChars path ['/']) cwd true

/-- the text before the first `**`, and the text from it on -/
def splitAtStarStar : List Char → List Char → Option (List Char × List Char)
  | [], _ => none
  | '*' :: '*' :: t, acc => some (acc.reverse, '*' :: '*' :: t)
  | c :: t, acc => splitAtStarStar t (c :: acc)

/-- `_normalize_redirect_pattern` -/
def normalizeRedirectPattern (env : PathEnv) (pattern cwd : String) : String :=
  match splitAtStarStar pattern.toList [] with
  | none => normalizePath env pattern cwd
  | some (pre, suf) =>
    let pfx := Py.rstripChars (String.ofList pre) ['/']
    if pfx.isEmpty then pattern
    else normalizePath env pfx cwd ++ "/" ++ String.ofList suf

/-! ### the symlink-free file system: lexical resolution -/

/-- fold `.`/`..`/empty segments (as `realpath` does when nothing is a symlink) -/
def lexSegments : List (List Char) → List (List Char) → List (List Char)
  | [], acc => acc.reverse
  | seg :: t, acc =>
    if seg.isEmpty || seg == ['.'] then lexSegments t acc
    else if seg == ['.', '.'] then lexSegments t (acc.drop 1)
    else lexSegments t (seg :: acc)

/-- `str(Path(p).resolve())` in a symlink-free tree, `p` absolute -/
def lexResolve (p : String) : String :=
  let segs := lexSegments (Py.splitOnChar '/' p.toList []) []
  "/" ++ String.ofList (['/'].intercalate segs)

end Dippy
