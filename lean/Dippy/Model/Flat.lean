/-
R1, flattened: the *syntactic* list of atoms of a tree.  `flat` depends on the world
only through `resolveCd` (the directory a leading literal `cd` switches to); which rule,
table or handler answers an atom gets is `atomDecisions`.  `Lemmas/Flat.lean` proves

    (aNode w rec h n cwd r).action = supList ((flat w.syn n cwd r).flatMap (atomDecisions w rec h)).acts

so that every statement comparing two worlds, or bounding a verdict by its parts,
becomes a statement about a list.
-/
import Dippy.Model.Analyzer

namespace Dippy

inductive Atom where
  /-- the command proper: the words of one `command` node and the length of its assignment prefix -/
  | proper (words : List String) (baseIdx : Nat) (cwd : String) (remote : Bool)
  /-- the same command as bash reads it: the words after quote removal (analysed as well; the stricter verdict counts) -/
  | unquotedCmd (words unquoted : List String) (baseIdx : Nat) (cwd : String) (remote : Bool)
  /-- the injection-risk prompt of a pure `$(…)` argument (part of that substitution) -/
  | inject (ctx : CmdCtx) (wd : Word) (pos : Nat)
  /-- one file redirection (local analysis only) -/
  | redir (op target cwd : String)
  /-- a raw text handed to the `$(`/backtick scanner; `ps`: process substitutions are looked for as well -/
  | text (ps : Bool) (s : Option String) (cwd : String) (remote : Bool)
  /-- a node kind the analyzer does not know -/
  | unknown (kind : String)

/-- step 3 of `_analyze_command` -/
def properDecisions (w : World) (rec : Rec) (h : HelpTables) (words : List String) (baseIdx : Nat)
    (cwd : String) (remote : Bool) : List Decision :=
  if words.isEmpty then []
  else
    let base := words.getD baseIdx ""
    if base == "[" || base == "test" then [⟨.allow, "conditional test"⟩]
    else if baseIdx ≥ words.length then [⟨.allow, "env assignment"⟩]
    else [simpleCmd w rec h (words.length + 1) (words.drop baseIdx) cwd remote]

/-- the second pass of step 3: reached exactly when the first one reaches `_analyze_simple_command` -/
def unquotedDecisions (w : World) (rec : Rec) (h : HelpTables) (words unquoted : List String) (baseIdx : Nat)
    (cwd : String) (remote : Bool) : List Decision :=
  if words.isEmpty then []
  else
    let base := words.getD baseIdx ""
    if base == "[" || base == "test" then []
    else if baseIdx ≥ words.length then []
    else [simpleCmd w rec h (unquoted.length + 1) (unquoted.drop baseIdx) cwd remote]

def atomDecisions (w : World) (rec : Rec) (h : HelpTables) : Atom → List Decision
  | .proper words baseIdx cwd remote => properDecisions w rec h words baseIdx cwd remote
  | .unquotedCmd words unquoted baseIdx cwd remote => unquotedDecisions w rec h words unquoted baseIdx cwd remote
  | .inject ctx wd pos => injectionRisk w ctx wd pos
  | .redir op target cwd => redirectDecision w op target cwd
  | .text ps s cwd remote => scanArg rec ps s cwd remote
  | .unknown k => [⟨.ask, "unrecognized construct: " ++ k⟩]

/-- the raw texts of the expansion kinds that only carry text -/
def expansionAtoms (wd : Word) (p : Part) (cwd : String) (remote : Bool) : List Atom :=
  match p with
  | .param name _ arg => [.text true (some name) cwd remote, .text true arg cwd remote]
  | .paramLen name => [.text true (some name) cwd remote]
  | .paramIndirect name _ arg => [.text true (some name) cwd remote, .text true arg cwd remote]
  | .arith _ => (arithTexts wd.value).map fun t => .text false (some t) cwd remote
  | .arithDeprecated expr => [.text false (some expr) cwd remote]
  | _ => []

/-- the part of a world the *shape* of the flattening depends on -/
structure Syn where
  hasHandler : String → Bool
  simpleSafe : String → Bool
  resolveCd : String → String → String
  arithWalked : List String

def World.syn (w : World) : Syn := ⟨w.hasHandler, w.simpleSafe, w.resolveCd, w.arithWalked⟩

@[simp] theorem World.syn_hasHandler (w : World) : w.syn.hasHandler = w.hasHandler := rfl
@[simp] theorem World.syn_simpleSafe (w : World) : w.syn.simpleSafe = w.simpleSafe := rfl
@[simp] theorem World.syn_resolveCd (w : World) : w.syn.resolveCd = w.resolveCd := rfl
@[simp] theorem World.syn_arithWalked (w : World) : w.syn.arithWalked = w.arithWalked := rfl

section
variable (w : Syn)

mutual

def flat : Node → String → Bool → List Atom
  | .command ws rs, cwd, remote =>
    let ctx := mkCmdCtxS w.hasHandler w.simpleSafe ws
    flatCmdWords ctx ws 0 cwd remote ++ flatRedirects rs cwd remote
      ++ [.proper ctx.words ctx.baseIdx cwd remote, .unquotedCmd ctx.words ctx.unquoted ctx.baseIdx cwd remote]
  | .pipeline cmds, cwd, remote => flatNodes cmds cwd remote
  | .list parts, cwd, remote => flatListPartsCd parts cwd (effectiveCwdS w.resolveCd parts cwd remote) remote
  | .ifN c t e rs, cwd, remote =>
    flat c cwd remote ++ flat t cwd remote ++ flatOptNode e cwd remote ++ flatRedirects rs cwd remote
  | .whileN _ c b rs, cwd, remote => flat c cwd remote ++ flat b cwd remote ++ flatRedirects rs cwd remote
  | .forN _ ws b rs, cwd, remote => flat b cwd remote ++ flatWords ws cwd remote ++ flatRedirects rs cwd remote
  | .forArith i c s b rs, cwd, remote =>
    flat b cwd remote ++ [.text false (some i) cwd remote, .text false (some c) cwd remote, .text false (some s) cwd remote]
      ++ flatRedirects rs cwd remote
  | .selectN _ ws b rs, cwd, remote => flat b cwd remote ++ flatWords ws cwd remote ++ flatRedirects rs cwd remote
  | .caseN wd pats rs, cwd, remote =>
    flatOptWord wd cwd remote ++ flatCasePats pats cwd remote ++ flatRedirects rs cwd remote
  | .function _ b, cwd, remote => flat b cwd remote
  | .subshell b rs, cwd, remote => flat b cwd remote ++ flatRedirects rs cwd remote
  | .braceGroup b rs, cwd, remote => flat b cwd remote ++ flatRedirects rs cwd remote
  | .time p, cwd, remote => flat p cwd remote
  | .negation p, cwd, remote => flat p cwd remote
  | .coproc c, cwd, remote => flat c cwd remote
  | .condExpr b rs, cwd, remote => flatOptCond b cwd remote ++ flatRedirects rs cwd remote
  | .arithCmd e raw rs, cwd, remote =>
    (match raw with
     | some t => [.text false (some t) cwd remote]
     | none => flatOptArith e cwd remote) ++ flatRedirects rs cwd remote
  | .comment, _, _ => []
  | .empty, _, _ => []
  | .operator _, _, _ => [.unknown "operator"]
  | .other k, _, _ => [.unknown k]

def flatNodes : List Node → String → Bool → List Atom
  | [], _, _ => []
  | n :: ns, cwd, remote => flat n cwd remote ++ flatNodes ns cwd remote

def flatListPartsCd : List Node → String → String → Bool → List Atom
  | [], _, _, _ => []
  | n :: ns, cwd0, cwd, remote =>
    if isOperator n then flatListPartsCd ns cwd0 cwd remote
    else flat n cwd0 remote ++ flatListParts ns cwd remote

def flatListParts : List Node → String → Bool → List Atom
  | [], _, _ => []
  | n :: ns, cwd, remote =>
    if isOperator n then flatListParts ns cwd remote
    else flat n cwd remote ++ flatListParts ns cwd remote

def flatOptNode : Option Node → String → Bool → List Atom
  | none, _, _ => []
  | some n, cwd, remote => flat n cwd remote

def flatCmdWords (ctx : CmdCtx) : List Word → Nat → String → Bool → List Atom
  | [], _, _, _ => []
  | wd :: ws, pos, cwd, remote =>
    (match wd with
     | .mk v ps =>
       (match assignSubscript v with
        | some t => [.text false (some t) cwd remote]
        | none => [])
       ++ flatCmdParts ctx wd pos ps cwd remote)
    ++ flatCmdWords ctx ws (pos + 1) cwd remote

def flatCmdParts (ctx : CmdCtx) (wd : Word) (pos : Nat) : List Part → String → Bool → List Atom
  | [], _, _ => []
  | p :: ps, cwd, remote =>
    (match p with
     | .procsub _ cmd => flat cmd cwd remote
     | .cmdsub cmd => flat cmd cwd remote ++ [.inject ctx wd pos]
     | .array elems => flatWords elems cwd remote
     | other => expansionAtoms wd other cwd remote)
    ++ flatCmdParts ctx wd pos ps cwd remote

def flatWordParts (wd : Word) : List Part → String → Bool → List Atom
  | [], _, _ => []
  | p :: ps, cwd, remote =>
    (match p with
     | .cmdsub cmd => flat cmd cwd remote
     | .procsub _ cmd => flat cmd cwd remote
     | .array elems => flatWords elems cwd remote
     | other => expansionAtoms wd other cwd remote)
    ++ flatWordParts wd ps cwd remote

def flatWord : Word → String → Bool → List Atom
  | .mk v ps, cwd, remote => flatWordParts (.mk v ps) ps cwd remote

def flatCondOperand (regex : Bool) : Word → String → Bool → List Atom
  | .mk v ps, cwd, remote =>
    flatWordParts (.mk v ps) ps cwd remote ++ (if condRescan v ps regex then [.text true (some v) cwd remote] else [])

def flatWords : List Word → String → Bool → List Atom
  | [], _, _ => []
  | wd :: ws, cwd, remote => flatWord wd cwd remote ++ flatWords ws cwd remote

def flatOptWord : Option Word → String → Bool → List Atom
  | none, _, _ => []
  | some wd, cwd, remote => flatWord wd cwd remote

def flatRedirects : List Redir → String → Bool → List Atom
  | [], _, _ => []
  | r :: rs, cwd, remote =>
    (match r with
     | .heredoc quoted content => if !quoted then [.text false (some content) cwd remote] else []
     | .redirect op tgt =>
       match tgt with
       | some t => flatWord t cwd remote ++ (if remote || Py.startsWith t.value "&" then [] else [.redir op (wordValue t) cwd])
       | none => if remote then [] else [.redir op "" cwd]
     | .other _ => [])
    ++ flatRedirects rs cwd remote

def flatCasePats : List CasePat → String → Bool → List Atom
  | [], _, _ => []
  | .mk pat body :: ps, cwd, remote =>
    [.text true (some pat) cwd remote] ++ flatOptNode body cwd remote ++ flatCasePats ps cwd remote

def flatCond : Cond → String → Bool → List Atom
  | .unary _ o, cwd, remote => flatCondOperand false o cwd remote
  | .binary op l r, cwd, remote => flatCondOperand false l cwd remote ++ flatCondOperand (op == "=~") r cwd remote
  | .and l r, cwd, remote => flatCond l cwd remote ++ flatCond r cwd remote
  | .or l r, cwd, remote => flatCond l cwd remote ++ flatCond r cwd remote
  | .not o, cwd, remote => flatCond o cwd remote
  | .paren i, cwd, remote => flatCond i cwd remote
  | .other _, _, _ => []

def flatOptCond : Option Cond → String → Bool → List Atom
  | none, _, _ => []
  | some c, cwd, remote => flatCond c cwd remote

def flatArith : Arith → String → Bool → List Atom
  | .cmdsub cmd, cwd, remote => flat cmd cwd remote
  | .node _ attrs, cwd, remote =>
    let rs := flatArithAttrs attrs cwd remote
    w.arithWalked.flatMap fun a => ((rs.find? (fun kv => kv.1 == a)).map (·.2)).getD []

def flatArithAttrs : List (String × AVal) → String → Bool → List (String × List Atom)
  | [], _, _ => []
  | (k, v) :: rest, cwd, remote =>
    (k, match v with
        | .one x => flatArith x cwd remote
        | .many _ => []
        | .str _ => []) :: flatArithAttrs rest cwd remote

def flatOptArith : Option Arith → String → Bool → List Atom
  | none, _, _ => []
  | some e, cwd, remote => flatArith e cwd remote

end
end

/-- the flattened decisions of a node -/
def leaves (w : World) (rec : Rec) (h : HelpTables) (n : Node) (cwd : String) (remote : Bool) : List Decision :=
  (flat w.syn n cwd remote).flatMap (atomDecisions w rec h)

end Dippy
