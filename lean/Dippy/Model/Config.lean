/-
Model of src/dippy/core/config.py: the rule engine (`_match_words`, `_match_redirect`,
`match_command`, `match_after`, `match_mcp`, `match_after_mcp`, `_resolve_alias`),
the text parser (`parse_config` and helpers) and `_merge_configs`.
-/
import Dippy.Model.Analyzer
import Dippy.Model.Glob
import Dippy.Model.Path
import Dippy.Generated.Unicode

namespace Dippy

structure Rule where
  decision : Action
  pattern : String
  message : Option String := none
  exact : Bool := false
  deriving DecidableEq, Repr, Inhabited

/-- an `after` / `after-mcp` rule (`Rule("after", pattern, message)`, never exact) -/
structure AfterRule where
  pattern : String
  message : Option String := none
  deriving DecidableEq, Repr, Inhabited

structure Config where
  rules : List Rule := []
  redirectRules : List Rule := []
  afterRules : List AfterRule := []
  mcpRules : List Rule := []
  afterMcpRules : List AfterRule := []
  /-- dict in insertion order, keys unique -/
  aliases : List (String × String) := []
  default : String := "ask"
  log : Option String := none
  logFull : Bool := false
  deriving DecidableEq, Repr, Inhabited

def Rule.toMatch (r : Rule) : Match := ⟨r.decision, r.pattern, r.message⟩

/-! ### matching -/

/-- `_resolve_alias` -/
def resolveAlias (env : PathEnv) (cfg : Config) (word cwd : String) : String :=
  let nw := expandToken env word cwd false
  match cfg.aliases.find? (fun kv => expandToken env kv.1 cwd false == nw) with
  | some kv => kv.2
  | none => word

/-- the command string a rule pattern is matched against -/
def normalizedCmd (env : PathEnv) (cfg : Config) (words : List String) (cwd : String) (remote : Bool) : String :=
  if remote then Py.joinSpace words
  else match words with
    | [] => normalizeWords env [] cwd
    | w0 :: rest => normalizeWords env (resolveAlias env cfg w0 cwd :: rest) cwd

/-- does one command/after rule (pattern, exact) match the normalised command string? -/
def patternMatches (env : PathEnv) (pattern : String) (exact : Bool) (cmd cwd : String) (remote : Bool) : Bool :=
  let np := if remote then pattern else normalizePattern env pattern cwd
  if !exact && !Glob.hasGlobChars np then
    Glob.fnmatch cmd (np ++ " *") || cmd == np
  else
    Glob.fnmatch cmd np ||
      (Py.endsWith np " *" && cmd == String.ofList (np.toList.dropLast.dropLast))

/-- last element satisfying `p` -/
def lastMatch {α : Type} (p : α → Bool) (xs : List α) : Option α :=
  xs.foldl (fun acc x => if p x then some x else acc) none

/-- `_match_words` -/
def matchWords (env : PathEnv) (cfg : Config) (words : List String) (cwd : String) (remote : Bool) : Option Match :=
  let cmd := normalizedCmd env cfg words cwd remote
  (lastMatch (fun r : Rule => patternMatches env r.pattern r.exact cmd cwd remote) cfg.rules).map Rule.toMatch

/-- `_glob_match` with the unsupported case (backslash in a bracket of a `**` pattern) read as no match;
    `Config.supported` records that the case does not occur -/
def globMatchB (text pattern : String) : Bool := (Glob.globMatch text pattern).getD false

def redirectRuleMatches (env : PathEnv) (r : Rule) (target cwd : String) : Bool :=
  globMatchB (normalizePath env target cwd) (normalizeRedirectPattern env r.pattern cwd)

/-- `_match_redirect` / `match_redirect` -/
def matchRedirect (env : PathEnv) (cfg : Config) (target cwd : String) : Option Match :=
  (lastMatch (fun r : Rule => redirectRuleMatches env r target cwd) cfg.redirectRules).map Rule.toMatch

/-- `match_command(SimpleCommand(words), …)` – the analyzer never fills `redirects` -/
def matchCommand (env : PathEnv) (cfg : Config) (words : List String) (cwd : String) (remote : Bool) : Option Match :=
  matchWords env cfg words cwd remote

/-- `match_after`: message of the last matching rule (`""` when it has none) -/
def matchAfter (env : PathEnv) (cfg : Config) (words : List String) (cwd : String) : Option String :=
  let cmd := normalizedCmd env cfg words cwd false
  (lastMatch (fun r : AfterRule => patternMatches env r.pattern false cmd cwd false) cfg.afterRules).map
    fun r => r.message.getD ""

/-- `match_mcp` -/
def matchMcp (cfg : Config) (tool : String) : Option Match :=
  (lastMatch (fun r : Rule => Glob.fnmatch tool r.pattern) cfg.mcpRules).map Rule.toMatch

/-- `match_after_mcp` -/
def matchAfterMcp (cfg : Config) (tool : String) : Option String :=
  (lastMatch (fun r : AfterRule => Glob.fnmatch tool r.pattern) cfg.afterMcpRules).map
    fun r => r.message.getD ""

/-! ### parsing -/

/-- `text.split("\n")` -/
def splitLinesAux : List Char → List Char → List (List Char)
  | [], cur => [cur.reverse]
  | c :: t, cur =>
    if c == '\n' then cur.reverse :: splitLinesAux t [] else splitLinesAux t (c :: cur)

def splitLines (s : String) : List String := (splitLinesAux s.toList []).map String.ofList

/-- `_strip_exact_anchor` -/
def stripExactAnchor (p : String) : String × Bool :=
  if Py.endsWith p "|" then (Py.rstrip (String.ofList p.toList.dropLast), true) else (p, false)

/-- `_unescape` -/
def unescapeL : List Char → List Char
  | '\\' :: '"' :: t => '"' :: unescapeL t
  | '\\' :: '\\' :: t => '\\' :: unescapeL t
  | c :: t => c :: unescapeL t
  | [] => []

/-- searching backwards for an opening quote preceded by whitespace (or at index 0).
    `revBefore` is the text before the closing quote, reversed; `acc` collects the message. -/
def findOpenQuote : List Char → List Char → Option (List Char × List Char)
  | [], _ => none
  | '"' :: before, acc =>
    match before with
    | [] => some ([], acc)
    | b :: _ => if Py.isSpace b then some (before, acc) else findOpenQuote before ('"' :: acc)
  | c :: before, acc => findOpenQuote before (c :: acc)

inductive ExtractResult where
  | ok (pattern : String) (message : Option String)
  | error       -- ValueError("pattern required before message")
  deriving DecidableEq, Repr

/-- `_extract_message` -/
def extractMessage (s : String) : ExtractResult :=
  let l := Py.rstripL Py.isSpace s.toList
  match l.reverse with
  | '"' :: revBefore =>
    let nbs := (revBefore.takeWhile (· == '\\')).length
    if nbs % 2 == 1 then .ok (String.ofList l) none
    else match findOpenQuote revBefore [] with
      | some (revPat, msg) =>
        let pat := Py.rstripL Py.isSpace revPat.reverse
        if pat.isEmpty then .error else .ok (String.ofList pat) (some (String.ofList (unescapeL msg)))
      | none => .ok (String.ofList l) none
  | _ => .ok (String.ofList l) none

/-- environment of the parser: `Path.home()` and `Path(v).expanduser()` for `~user` -/
structure ParseEnv where
  home : String
  /-- home directory of a named user, `none` ⇒ `expanduser` raises RuntimeError -/
  userHome : String → Option String

def ParseEnv.pathEnv (e : ParseEnv) : PathEnv := ⟨e.home, fun p => p⟩

/-- `str(Path(value).expanduser())`; `none` = RuntimeError (unknown user) -/
def expandUser (e : ParseEnv) (value : String) : Option String :=
  let p := purePath value
  if !Py.startsWith p "~" then some p
  else
    let l := p.toList.drop 1
    let user := l.takeWhile (· != '/')
    let rest := l.dropWhile (· != '/')
    let home? := if user.isEmpty then some e.home else e.userHome (String.ofList user)
    match home? with
    | none => none
    | some h =>
      -- pathlib: home's parts + the remaining parts
      some (purePath (h ++ String.ofList rest))

inductive LineResult where
  | skip
  | rule (r : Rule)
  | redirect (r : Rule)
  | after (r : AfterRule)
  | mcp (r : Rule)
  | afterMcp (r : AfterRule)
  | alias (src tgt : String)
  | setLogFull
  | setDefault (v : String)
  | setLog (p : String)
  deriving DecidableEq, Repr

/-- `_apply_setting` -/
def applySetting (e : ParseEnv) (rest : String) : LineResult :=
  match Py.split1 rest with
  | [] => .skip
  | key :: more =>
    let keyN := String.ofList ((key.toList.map Char.toLower).map fun c => if c == '-' then '_' else c)
    let value := more.head?
    if keyN == "log_full" then (if value.isSome then .skip else .setLogFull)
    else if keyN == "default" then
      (match value with
       | some v => if v == "allow" || v == "ask" then .setDefault v else .skip
       | none => .skip)
    else if keyN == "log" then
      (match value with
       | some v => match expandUser e v with
         | some p => .setLog p
         | none => .skip
       | none => .skip)
    else .skip

/-- one stripped, non-comment line of `parse_config` -/
def parseLine (e : ParseEnv) (raw : String) : LineResult :=
  let line := Py.strip raw
  if line.isEmpty || Py.startsWith line "#" then .skip
  else
    match Py.split1 line with
    | [] => .skip
    | d :: more =>
      let directive := String.ofList (d.toList.map Char.toLower)
      let rest := match more with
        | r :: _ => Py.strip r
        | [] => ""
      let pe := e.pathEnv
      let withMsg (k : String → Option String → LineResult) : LineResult :=
        if rest.isEmpty then .skip else
        match extractMessage rest with
        | .ok p m => k p m
        | .error => .skip
      if directive == "allow" then
        if rest.isEmpty then .skip else
        let (p, ex) := stripExactAnchor rest
        .rule { decision := .allow, pattern := expandPatternTildes pe p, exact := ex }
      else if directive == "ask" then
        withMsg fun p m => let (p, ex) := stripExactAnchor p
          .rule { decision := .ask, pattern := expandPatternTildes pe p, message := m, exact := ex }
      else if directive == "deny" then
        withMsg fun p m => let (p, ex) := stripExactAnchor p
          .rule { decision := .deny, pattern := expandPatternTildes pe p, message := m, exact := ex }
      else if directive == "allow-redirect" then
        if rest.isEmpty then .skip else
        .redirect { decision := .allow, pattern := expandPatternTildes pe rest }
      else if directive == "ask-redirect" then
        withMsg fun p m => .redirect { decision := .ask, pattern := expandPatternTildes pe p, message := m }
      else if directive == "deny-redirect" then
        withMsg fun p m => .redirect { decision := .deny, pattern := expandPatternTildes pe p, message := m }
      else if directive == "after" then
        withMsg fun p m => .after { pattern := p, message := m }
      else if directive == "allow-mcp" then
        if rest.isEmpty then .skip else .mcp { decision := .allow, pattern := rest }
      else if directive == "ask-mcp" then
        withMsg fun p m => .mcp { decision := .ask, pattern := p, message := m }
      else if directive == "deny-mcp" then
        withMsg fun p m => .mcp { decision := .deny, pattern := p, message := m }
      else if directive == "after-mcp" then
        withMsg fun p m => .afterMcp { pattern := p, message := m }
      else if directive == "alias" then
        match Py.splitWs rest with
        | [s, t] => .alias (expandPatternTildes pe s) t
        | _ => .skip
      else if directive == "set" then applySetting e rest
      else .skip

/-- dict assignment `aliases[k] = v` on an insertion-ordered association list -/
def aliasInsert (as : List (String × String)) (k v : String) : List (String × String) :=
  if as.any (·.1 == k) then as.map fun kv => if kv.1 == k then (k, v) else kv
  else as ++ [(k, v)]

/-- apply one line's result to the configuration being built -/
def Config.apply (c : Config) : LineResult → Config
  | .skip => c
  | .rule r => { c with rules := c.rules ++ [r] }
  | .redirect r => { c with redirectRules := c.redirectRules ++ [r] }
  | .after r => { c with afterRules := c.afterRules ++ [r] }
  | .mcp r => { c with mcpRules := c.mcpRules ++ [r] }
  | .afterMcp r => { c with afterMcpRules := c.afterMcpRules ++ [r] }
  | .alias s t => { c with aliases := aliasInsert c.aliases s t }
  | .setLogFull => { c with logFull := true }
  | .setDefault v => { c with default := v }
  | .setLog p => { c with log := some p }

def parseLines (e : ParseEnv) (lines : List String) (c : Config := {}) : Config :=
  lines.foldl (fun acc l => acc.apply (parseLine e l)) c

/-- `parse_config` -/
def parseConfig (e : ParseEnv) (text : String) : Config := parseLines e (splitLines text)

/-- `_merge_configs` -/
def mergeConfigs (base overlay : Config) : Config :=
  { rules := base.rules ++ overlay.rules
    redirectRules := base.redirectRules ++ overlay.redirectRules
    afterRules := base.afterRules ++ overlay.afterRules
    mcpRules := base.mcpRules ++ overlay.mcpRules
    afterMcpRules := base.afterMcpRules ++ overlay.afterMcpRules
    aliases := overlay.aliases.foldl (fun acc kv => aliasInsert acc kv.1 kv.2) base.aliases
    default := if overlay.default != "ask" then overlay.default else base.default
    log := match overlay.log with
      | some p => some p
      | none => base.log
    logFull := if overlay.logFull then true else base.logFull }

/-! ### the analyzer's world, instantiated from a configuration -/

/-- replace the two rule-lookup oracles of a world by the configuration's engine -/
def World.withConfig (w : World) (env : PathEnv) (cfg : Config) : World :=
  { w with
    matchCommand := fun ws cwd rem => Dippy.matchCommand env cfg ws cwd rem
    matchRedirect := fun t cwd => Dippy.matchRedirect env cfg t cwd }

end Dippy
