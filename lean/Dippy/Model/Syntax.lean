/-
What the analyzer (and the specification of "what bash evaluates") can see of a
Parable AST.  One constructor per node kind `_analyze_node` dispatches on, plus
`other kind` for everything else.  Positions the analyzer does *not* walk
(arithmetic expansions inside words, array elements, subscripts, case-pattern
text, ...) are still present as data, so that a skipped position is visible in
the type and the specification `reach` can be stated over the same tree.
Core Lean only.
-/
namespace Dippy

mutual

inductive Node where
  | command (words : List Word) (redirects : List Redir)
  | pipeline (commands : List Node)
  /-- `parts` still contains the `operator` elements, as Parable returns them -/
  | list (parts : List Node)
  | operator (op : String)
  | ifN (cond thenB : Node) (elseB : Option Node) (redirects : List Redir)
  | whileN (isUntil : Bool) (cond body : Node) (redirects : List Redir)
  /-- `words = None` (no `in` list) is serialised as `[]` (`getattr(..) or []`) -/
  | forN (var : String) (words : List Word) (body : Node) (redirects : List Redir)
  | forArith (init cond incr : String) (body : Node) (redirects : List Redir)
  | selectN (var : String) (words : List Word) (body : Node) (redirects : List Redir)
  | caseN (word : Option Word) (patterns : List CasePat) (redirects : List Redir)
  | function (name : String) (body : Node)
  | subshell (body : Node) (redirects : List Redir)
  | braceGroup (body : Node) (redirects : List Redir)
  | time (pipeline : Node)
  | negation (pipeline : Node)
  | coproc (command : Node)
  | condExpr (body : Option Cond) (redirects : List Redir)
  /-- `raw` is Parable's `raw_content` (the text between `((` and `))`) -/
  | arithCmd (expr : Option Arith) (raw : Option String) (redirects : List Redir)
  | comment
  | empty
  | other (kind : String)

inductive Word where
  | mk (value : String) (parts : List Part)

inductive Part where
  | cmdsub (cmd : Node)
  | procsub (dir : String) (cmd : Node)
  /-- `${name op arg}`; `name` includes any `[subscript]` text -/
  | param (name : String) (op : Option String) (arg : Option String)
  | paramLen (name : String)
  | paramIndirect (name : String) (op : Option String) (arg : Option String)
  | arith (expr : Option Arith)
  | arithDeprecated (expr : String)
  | array (elems : List Word)
  | other (kind : String)

inductive Redir where
  | redirect (op : String) (target : Option Word)
  | heredoc (quoted : Bool) (content : String)
  | other (kind : String)

inductive CasePat where
  | mk (pattern : String) (body : Option Node)

inductive Cond where
  | unary (op : String) (operand : Word)
  | binary (op : String) (left right : Word)
  | and (l r : Cond)
  | or (l r : Cond)
  | not (operand : Cond)
  | paren (inner : Cond)
  | other (kind : String)

/-- Arithmetic expression trees are kept generic: a kind and its attributes. -/
inductive Arith where
  | cmdsub (cmd : Node)
  | node (kind : String) (attrs : List (String × AVal))

inductive AVal where
  | one (a : Arith)
  | many (as : List Arith)
  | str (s : String)

end

instance : Inhabited Node := ⟨.empty⟩

def Word.value : Word → String
  | .mk v _ => v

def Word.parts : Word → List Part
  | .mk _ ps => ps

inductive ParseResult where
  | error (msg : String)
  | ok (nodes : List Node)

end Dippy
