/-
Model of src/dippy/dippy_statusline.py for C20:
  * the session cache file name (`get_cache_path`) for every JSON shape of `session_id`,
  * `main` + `build_statusline` with every data source an oracle (any file state, any failure),
  * the cache replacement protocol `open(tmp.PID, "w"); write*; close; rename(tmp.PID, path)` under
    arbitrary interleaving of processes with a kill allowed between any two steps.
Core Lean only.
-/
import Dippy.Model.PyStr

namespace Dippy.SL

/-! ### cache file names -/

/-- `session_id` as it comes out of `data.get("session_id", "")` -/
inductive Sid where
  | str (s : List Char)
  /-- a falsy non-string (`0`, `null`, `false`, `[]`, `{}`): `if session_id else "default"` -/
  | falsyOther
  /-- a truthy non-string: `.replace` raises AttributeError -/
  | truthyOther

def safeId (s : List Char) : List Char :=
  if s.isEmpty then "default".toList else s.map (fun c => if c = '/' then '_' else c)

/-- `f"{safe_id}.cache"` -/
def cacheName (s : List Char) : List Char := safeId s ++ ".cache".toList

/-- `get_cache_path` relative to CACHE_DIR; `none` = it raises (caught by both callers) -/
def cachePath : Sid → Option (List Char)
  | .str s => some (cacheName s)
  | .falsyOther => some (cacheName [])
  | .truthyOther => none

/-- the MCP list's own file and the temporary names next to it -/
def mcpName : List Char := "mcp.list".toList

/-! ### output -/

def isBreak (c : Char) : Bool := c = '\n' || c = '\r'
def singleLine (s : List Char) : Bool := !s.any isBreak

def joinSpaceL : List (List Char) → List Char
  | [] => []
  | [x] => x
  | x :: xs => x ++ ' ' :: joinSpaceL xs

/-- `str.split()` on characters (same recursion as `Py.splitWsAux`) -/
def splitWs : List Char → List Char → List (List Char)
  | [], cur => if cur.isEmpty then [] else [cur.reverse]
  | c :: t, cur =>
    if Py.isSpace c then (if cur.isEmpty then splitWs t [] else cur.reverse :: splitWs t [])
    else splitWs t (c :: cur)

/-- `" ".join(text.split())` -/
def collapse (s : List Char) : List Char := joinSpaceL (splitWs s [])

structure Env where
  /-- what `open(path).read()` returns for a fresh (age ≤ TTL) cache entry of that name; `none` = missing,
      expired, unreadable, a directory, invalid UTF-8 … : any state of the cache directory -/
  cacheRead : List Char → Option (List Char)
  /-- the styled model fragment (never empty: it carries at least the colour codes) -/
  model : List Char
  /-- directory, branch, changes, context, MCP: `none` = absent / the source failed -/
  fragments : List (Option (List Char))

def joinBar : List (List Char) → List Char
  | [] => []
  | [x] => x
  | x :: xs => x ++ " | ".toList ++ joinBar xs

/-- `build_statusline`: the truthy parts joined by " | " -/
def build (e : Env) : List Char :=
  joinBar (e.model :: (e.fragments.filterMap id).filter (fun f => !f.isEmpty))

/-- `main` (stdout without the newline `print` adds) -/
def main (e : Env) (sid : Sid) : List Char :=
  match cachePath sid with
  | none => build e
  | some name =>
    match e.cacheRead name with
    | some c => if !c.isEmpty && singleLine c then c else build e
    | none => build e

/-! ### the cache replacement protocol -/

inductive Stage where
  | start
  | writing (k : Nat)     -- tmp is open, k chunks written
  | done
  | dead
  deriving DecidableEq, Repr

structure World where
  /-- temporary files by name -/
  tmp : Nat → Option (List Char)
  /-- the cache entry `<session>.cache` -/
  final : Option (List Char)
  stage : Nat → Stage

inductive Ev where
  | open (i : Nat)
  | write (i : Nat)
  | rename (i : Nat)
  | kill (i : Nat)

/-- write `chunk` at offset `off` of `content` (the writer's own file offset) -/
def writeAt (content : List Char) (off : Nat) (chunk : List Char) : List Char :=
  content.take off ++ chunk ++ content.drop (off + chunk.length)

def flatLen (l : List (List Char)) : Nat := (l.map List.length).sum

variable (chunks : Nat → List (List Char)) (tmpName : Nat → Nat)

/-- `open(tmp, "w")`: create or truncate the temporary -/
def stepOpen (w : World) (i : Nat) : World :=
  if w.stage i = .start then
    { w with tmp := fun n => if n = tmpName i then some [] else w.tmp n, stage := fun j => if j = i then .writing 0 else w.stage j }
  else w

/-- one `write(2)` of `f.write(output)`, at the writer's own offset.  The descriptor keeps its inode: if the
    name was renamed away meanwhile, the write lands in the published entry -/
def stepWrite (w : World) (i : Nat) : World :=
  match w.stage i with
  | .writing k =>
    if h : k < (chunks i).length then
      match w.tmp (tmpName i) with
      | some c => { w with tmp := fun n => if n = tmpName i then some (writeAt c (flatLen ((chunks i).take k)) ((chunks i)[k])) else w.tmp n,
                           stage := fun j => if j = i then .writing (k + 1) else w.stage j }
      | none => { w with final := w.final.map (fun c => writeAt c (flatLen ((chunks i).take k)) ((chunks i)[k])),
                         stage := fun j => if j = i then .writing (k + 1) else w.stage j }
    else w
  | _ => w

/-- `os.rename(tmp, path)` once everything is written; ENOENT is swallowed -/
def stepRename (w : World) (i : Nat) : World :=
  match w.stage i with
  | .writing k =>
    if k = (chunks i).length then
      match w.tmp (tmpName i) with
      | some c => { tmp := fun n => if n = tmpName i then none else w.tmp n, final := some c, stage := fun j => if j = i then .done else w.stage j }
      | none => { w with stage := fun j => if j = i then .done else w.stage j }
    else w
  | _ => w

def stepKill (w : World) (i : Nat) : World := { w with stage := fun j => if j = i then .dead else w.stage j }

/-- one system call of process `i`; `chunks i` is what `f.write(output)` writes, `tmpName i` its temporary name -/
def stepEv (w : World) : Ev → World
  | .open i => stepOpen tmpName w i
  | .write i => stepWrite chunks tmpName w i
  | .rename i => stepRename chunks tmpName w i
  | .kill i => stepKill w i

def runEvs (w : World) (evs : List Ev) : World :=
  evs.foldl (stepEv chunks tmpName) w

def initWorld (final : Option (List Char)) : World := { tmp := fun _ => none, final := final, stage := fun _ => .start }

end Dippy.SL
