/-
Python `str` operations used by the modelled code, over Lean `String` via `List Char`.
Core Lean only.  Unicode-sensitive predicates (`str.isspace`, `str.isdigit`,
`str.isalnum`) are taken from range tables generated from the running CPython (T0).
-/
import Dippy.Generated.Unicode

namespace Dippy.Py

def inRanges (rs : List (Nat × Nat)) (c : Char) : Bool :=
  rs.any (fun r => r.1 ≤ c.toNat && c.toNat ≤ r.2)

/-- `c.isspace()` -/
def isSpace (c : Char) : Bool := inRanges Generated.spaceRanges c
/-- `c.isdigit()` -/
def isDigit (c : Char) : Bool := inRanges Generated.digitRanges c
/-- matched by the regular expression `\d` -/
def isDecimal (c : Char) : Bool := inRanges Generated.decimalRanges c
/-- `c.isalnum()` -/
def isAlnum (c : Char) : Bool := inRanges Generated.alnumRanges c

/-- `s.startswith(p)` -/
def startsWith (s p : String) : Bool := p.toList.isPrefixOf s.toList
/-- `s.endswith(p)` -/
def endsWith (s p : String) : Bool := p.toList.isSuffixOf s.toList

def lstripL (p : Char → Bool) : List Char → List Char
  | [] => []
  | c :: t => if p c then lstripL p t else c :: t

def rstripL (p : Char → Bool) (l : List Char) : List Char := (lstripL p l.reverse).reverse

def stripL (p : Char → Bool) (l : List Char) : List Char := rstripL p (lstripL p l)

/-- `s.strip()` -/
def strip (s : String) : String := String.ofList (stripL isSpace s.toList)
/-- `s.rstrip()` -/
def rstrip (s : String) : String := String.ofList (rstripL isSpace s.toList)
/-- `s.lstrip()` -/
def lstrip (s : String) : String := String.ofList (lstripL isSpace s.toList)
/-- `s.strip(chars)` -/
def stripChars (s : String) (chars : List Char) : String :=
  String.ofList (stripL (fun c => chars.contains c) s.toList)
/-- `s.rstrip(chars)` -/
def rstripChars (s : String) (chars : List Char) : String :=
  String.ofList (rstripL (fun c => chars.contains c) s.toList)

/-- `s.isdigit()` : non-empty and every character a digit -/
def isDigitStr (s : String) : Bool := !s.toList.isEmpty && s.toList.all isDigit

/-- `s.replace(c, "")` for a single character `c` -/
def removeChar (s : String) (c : Char) : String := String.ofList (s.toList.filter (· != c))

/-- `c in s` for a single character -/
def hasChar (s : String) (c : Char) : Bool := s.toList.contains c

/-- `" ".join(xs)` -/
def joinSpace (xs : List String) : String := " ".intercalate xs

/-- Python truthiness of `Optional[str]`: `None` and `""` are falsy. -/
def truthy : Option String → Option String
  | some s => if s.isEmpty then none else some s
  | none => none

/-- `a or b` for `Optional[str]` -/
def orElse (a : Option String) (b : String) : String :=
  match truthy a with
  | some s => s
  | none => b

end Dippy.Py
