/-
Model of the glob matchers the rule engine uses:

* `fnmatch.fnmatch` (CPython 3.12, posix: `normcase` is the identity) – `fnmatch`
* `_glob_to_regex` + `re.match` for patterns containing `**` – `globStar`
* `_glob_match`, `_has_glob_chars`

`fnmatch.translate` is followed literally for bracket expressions (hyphen chunking,
removal of empty ranges, `[]`→never, `[!]`→any).  The resulting regular expression
is a sequence of single-character matchers and `.*`, whose full-match semantics is
the classical recursive matcher below (the atomic groups CPython emits are an
optimisation that does not change which strings match).
-/
namespace Dippy.Glob

/-- single-character matcher -/
inductive CharM where
  | any                                   -- `.` with DOTALL
  | lit (c : Char)
  | cls (neg : Bool) (items : List (Char × Char))  -- inclusive ranges
  | never                                 -- `(?!)`
  | notSlash                              -- `[^/]`
  | anyNoNl                               -- `.` without DOTALL
  deriving DecidableEq, Repr

inductive Tok where
  | star                                  -- any sequence of characters
  | starNoSlash                           -- `[^/]*`
  | starNoNl                              -- `.*` without DOTALL
  | optSlash                              -- `/?`
  | one (m : CharM)
  deriving DecidableEq, Repr

def inItems (items : List (Char × Char)) (c : Char) : Bool :=
  items.any fun r => r.1.toNat ≤ c.toNat && c.toNat ≤ r.2.toNat

def CharM.test : CharM → Char → Bool
  | .any, _ => true
  | .lit a, c => a == c
  | .cls neg items, c => if neg then !inItems items c else inItems items c
  | .never, _ => false
  | .notSlash, c => c != '/'
  | .anyNoNl, c => c != '\n'

/-- `f s ∨ f (tail s) ∨ …` restricted to a prefix of characters satisfying `ok` -/
def starWith (ok : Char → Bool) (f : List Char → Bool) : List Char → Bool
  | [] => f []
  | c :: t => f (c :: t) || (ok c && starWith ok f t)

/-- full match of a token sequence against a string; `endOk` decides what may remain -/
def matchToks (endOk : List Char → Bool) : List Tok → List Char → Bool
  | [], s => endOk s
  | .star :: ps, s => starWith (fun _ => true) (matchToks endOk ps) s
  | .starNoSlash :: ps, s => starWith (fun c => c != '/') (matchToks endOk ps) s
  | .starNoNl :: ps, s => starWith (fun c => c != '\n') (matchToks endOk ps) s
  | .optSlash :: ps, s =>
      matchToks endOk ps s ||
        (match s with
         | '/' :: t => matchToks endOk ps t
         | _ => false)
  | .one m :: ps, s =>
      match s with
      | c :: t => m.test c && matchToks endOk ps t
      | [] => false

/-! ### `fnmatch.translate` -/

/-- index of the closing `]` of a bracket expression starting after `[`, as both
    `fnmatch.translate` and `_glob_to_regex` compute it: skip one `!`, skip one `]`,
    then the first `]`.  Returns the content before it and the rest after it. -/
def findClassEnd (s : List Char) : Option (List Char × List Char) :=
  let (p1, r1) := match s with
    | '!' :: t => (['!'], t)
    | _ => ([], s)
  let (p2, r2) := match r1 with
    | ']' :: t => (p1 ++ [']'], t)
    | _ => (p1, r1)
  let body := r2.takeWhile (· != ']')
  let rest := r2.dropWhile (· != ']')
  match rest with
  | ']' :: after => some (p2 ++ body, after)
  | _ => none

/-- `s.find('-', k)` on a list: index ≥ k of the first hyphen -/
def findHyphen (s : List Char) (k : Nat) : Option Nat :=
  match (s.drop k).findIdx? (· == '-') with
  | some i => some (k + i)
  | none => none

/-- the chunk-splitting loop of `translate`; `fuel` bounds iterations -/
def chunkLoop (s : List Char) : Nat → Nat → Nat → List (List Char) → List (List Char) × Nat
  | 0, i, _, acc => (acc, i)
  | fuel + 1, i, k, acc =>
    match findHyphen s k with
    | none => (acc, i)
    | some k' => chunkLoop s fuel (k' + 1) (k' + 3) (acc ++ [(s.drop i).take (k' - i)])

/-- "remove empty ranges": walk from the right, merging `…x` `y…` when `x > y` -/
def mergeEmpty : List (List Char) → List (List Char)
  | [] => []
  | [c] => [c]
  | c :: rest =>
    match mergeEmpty rest with
    | [] => [c]
    | d :: ds =>
      match c.getLast?, d.head? with
      | some x, some y => if x.toNat > y.toNat then (c.dropLast ++ d.tail) :: ds else c :: d :: ds
      | _, _ => c :: d :: ds

/-- the ranges denoted by `'-'.join(chunks)`: between consecutive chunks the last and
    first characters form a range; every other character is a singleton.
    `skipFirst`: the first character of the head chunk was consumed as a range end. -/
def chunkItems (skipFirst : Bool) : List (List Char) → List (Char × Char)
  | [] => []
  | [c] => (if skipFirst then c.tail else c).map fun x => (x, x)
  | c :: d :: rest =>
    let body := if skipFirst then c.tail else c
    match body.getLast?, d.head? with
    | some x, some y =>
      (body.dropLast.map fun z => (z, z)) ++ [(x, y)] ++ chunkItems true (d :: rest)
    | _, _ => (body.map fun z => (z, z)) ++ chunkItems false (d :: rest)

/-- the matcher `translate` emits for bracket content `stuff` (`pat[i:j]`) -/
def fnClass (stuff : List Char) : CharM :=
  if !stuff.contains '-' then
    match stuff with
    | [] => .never
    | ['!'] => .any
    | '!' :: rest => .cls true (rest.map fun x => (x, x))
    | _ => .cls false (stuff.map fun x => (x, x))
  else
    let k0 := if stuff.head? == some '!' then 2 else 1
    let (chunks0, i) := chunkLoop stuff (stuff.length + 1) 0 k0 []
    let lastChunk := stuff.drop i
    let chunks1 :=
      if !lastChunk.isEmpty then chunks0 ++ [lastChunk]
      else match chunks0.getLast? with
        | some l => chunks0.dropLast ++ [l ++ ['-']]
        | none => [['-']]
    let chunks := mergeEmpty chunks1
    -- joined text decides the special cases
    let joined := ['-'].intercalate chunks
    match joined with
    | [] => .never
    | ['!'] => .any
    | '!' :: _ =>
      match chunks with
      | c0 :: rest => .cls true (chunkItems false (c0.tail :: rest))
      | [] => .never
    | _ => .cls false (chunkItems false chunks)

/-- `fnmatch.translate`, as a token list (consecutive `*` compressed) -/
def fnTokens : List Char → Nat → List Tok
  | _, 0 => []
  | [], _ => []
  | '*' :: t, n + 1 =>
    match fnTokens t n with
    | .star :: r => .star :: r
    | r => .star :: r
  | '?' :: t, n + 1 => .one .any :: fnTokens t n
  | '[' :: t, n + 1 =>
    match findClassEnd t with
    | none => .one (.lit '[') :: fnTokens t n
    | some (stuff, after) => .one (fnClass stuff) :: fnTokens after n
  | c :: t, n + 1 => .one (.lit c) :: fnTokens t n

/-- `fnmatch.fnmatch(name, pat)` -/
def fnmatch (name pat : String) : Bool :=
  matchToks (fun s => s.isEmpty) (fnTokens pat.toList (pat.toList.length + 1)) name.toList

/-! ### `_glob_to_regex` for `**` patterns -/

/-- a bracket body pasted verbatim into a regular expression: supported when it has
    no backslash; ranges `a-z`, reversed range ⇒ `re.error` -/
inductive ReClass where
  | ok (neg : Bool) (items : List (Char × Char))
  | error          -- re.compile raises (⇒ `_glob_match` returns False)
  | unsupported    -- contains a backslash: outside the model
  deriving DecidableEq, Repr

def reClassItems : List Char → Nat → Option (List (Char × Char))
  | _, 0 => some []
  | [], _ => some []
  | a :: '-' :: b :: t, n + 1 =>
    if a.toNat > b.toNat then none
    else (reClassItems t n).map fun r => (a, b) :: r
  | a :: t, n + 1 => (reClassItems t n).map fun r => (a, a) :: r

def reClass (cls : List Char) : ReClass :=
  if cls.contains '\\' then .unsupported
  else
    let (neg, body) := match cls with
      | '!' :: t => (true, t)
      | _ => (false, cls)
    -- a literal `^` first would negate in the regex too
    let (neg, body) := match neg, body with
      | false, '^' :: t => (true, t)
      | n, b => (n, b)
    match reClassItems body (body.length + 1) with
    | some items => if items.isEmpty then .error else .ok neg items
    | none => .error

inductive ReToks where
  | ok (ts : List Tok)
  | error
  | unsupported
  deriving DecidableEq, Repr

def ReToks.cons (t : Tok) : ReToks → ReToks
  | .ok ts => .ok (t :: ts)
  | e => e

def reTokens : List Char → Nat → ReToks
  | _, 0 => .ok []
  | [], _ => .ok []
  | '*' :: '*' :: '/' :: t, n + 1 => ReToks.cons .starNoNl (ReToks.cons .optSlash (reTokens t n))
  | '*' :: '*' :: t, n + 1 => ReToks.cons .starNoNl (reTokens t n)
  | '*' :: t, n + 1 => ReToks.cons .starNoSlash (reTokens t n)
  | '?' :: t, n + 1 => ReToks.cons (.one .notSlash) (reTokens t n)
  | '[' :: t, n + 1 =>
    match findClassEnd t with
    | none => ReToks.cons (.one (.lit '[')) (reTokens t n)
    | some (cls, after) =>
      match reClass cls with
      | .ok neg items => ReToks.cons (.one (.cls neg items)) (reTokens after n)
      | .error => .error
      | .unsupported => .unsupported
  | c :: t, n + 1 => ReToks.cons (.one (.lit c)) (reTokens t n)

/-- `$` without MULTILINE: at the end, or before a final newline -/
def dollarEnd (s : List Char) : Bool := s.isEmpty || s == ['\n']

/-- result of `_glob_match`: `none` = outside the model (backslash in a bracket of a `**` pattern) -/
def globMatch (text pattern : String) : Option Bool :=
  let p := pattern.toList
  -- `"**" not in pattern`
  let hasStarStar := (List.range p.length).any fun i => (p.drop i).take 2 == ['*', '*']
  if !hasStarStar then some (fnmatch text pattern)
  else if pattern == "**" then some true
  else match reTokens p (p.length + 1) with
    | .ok ts => some (matchToks dollarEnd ts text.toList)
    | .error => some false
    | .unsupported => none

/-- `_has_glob_chars` -/
def hasGlobChars (pattern : String) : Bool :=
  pattern.toList.any fun c => c == '*' || c == '?' || c == '['

end Dippy.Glob
