/-
Model of src/dippy/core/bash.py: `bash_quote`, `bash_join` – how the launcher handlers rebuild
the text of the inner command from its argument vector – and the specification it is judged
against: bash's own word splitting and quote removal (`shellWords`) on the sub-language that
`bash_quote` emits.

`alnum` is Python's `str.isalnum` on one character (`Py.isAlnum`, from T0's Unicode table);
the theorems hold for every predicate that never accepts a shell-special character.
-/
import Dippy.Model.Analyzer

namespace Dippy

/-- the extra characters `bash_quote` leaves unquoted: `"-_./=@:"` -/
def safeExtra : List Char := ['-', '_', '.', '/', '=', '@', ':']

def isSafeChar (alnum : Char → Bool) (c : Char) : Bool := alnum c || safeExtra.contains c

/-- `s.replace("'", "'\"'\"'")` -/
def escapeSq : List Char → List Char
  | [] => []
  | c :: t => if c = '\'' then '\'' :: '"' :: '\'' :: '"' :: '\'' :: escapeSq t else c :: escapeSq t

/-- `bash_quote` -/
def bashQuoteL (alnum : Char → Bool) (s : List Char) : List Char :=
  if s.isEmpty then ['\'', '\'']
  else if s.all (isSafeChar alnum) then s
  else '\'' :: (escapeSq s ++ ['\''])

/-- the first token of `bash_join`: a word that would read back as `NAME=value` is quoted -/
def quoteFirstL (alnum : Char → Bool) (t : List Char) : List Char :=
  let q := bashQuoteL alnum t
  if q = t ∧ isAssignWord (String.ofList t) = true then '\'' :: (t ++ ['\'']) else q

/-- `" ".join(...)` over character lists -/
def joinSp : List (List Char) → List Char
  | [] => []
  | [w] => w
  | w :: ws => w ++ ' ' :: joinSp ws

/-- `bash_join` -/
def bashJoinL (alnum : Char → Bool) : List (List Char) → List Char
  | [] => []
  | t :: ts => joinSp (quoteFirstL alnum t :: ts.map (bashQuoteL alnum))

def bashQuote (s : String) : String := String.ofList (bashQuoteL Py.isAlnum s.toList)

def bashJoin (ts : List String) : String := String.ofList (bashJoinL Py.isAlnum (ts.map String.toList))

/-! ### specification: what bash makes of such a text

bash's lexer on the sub-language of blanks, literal characters, `'…'` and `"…"` without
expansions: words are separated by blanks; inside `'…'` everything is literal; inside `"…"`
everything except `\`, `$`, backtick and `!` is literal; adjacent pieces concatenate.  A text
that uses anything else (an unquoted metacharacter, an expansion) is outside the sub-language:
`none`.  -/

def isBlank (c : Char) : Bool := c = ' ' || c = '\t' || c = '\n'

/-- characters that mean something to bash when unquoted -/
def shellMeta : List Char :=
  ['|', '&', ';', '(', ')', '<', '>', '$', '`', '\\', '*', '?', '[', ']', '#', '~', '{', '}', '!', '^', '%', ',', '+']

def isMetaChar (c : Char) : Bool := shellMeta.contains c

inductive LexMode where
  | out | word | sq | dq
  deriving DecidableEq, Repr

/-- the lexer: `cur` is the word being built (reversed) -/
def lexWords : LexMode → List Char → List Char → Option (List (List Char))
  | .out, _, [] => some []
  | .word, cur, [] => some [cur.reverse]
  | .sq, _, [] => none
  | .dq, _, [] => none
  | .out, _, c :: t =>
    if isBlank c then lexWords .out [] t
    else if c = '\'' then lexWords .sq [] t
    else if c = '"' then lexWords .dq [] t
    else if isMetaChar c then none
    else lexWords .word [c] t
  | .word, cur, c :: t =>
    if isBlank c then (lexWords .out [] t).map (cur.reverse :: ·)
    else if c = '\'' then lexWords .sq cur t
    else if c = '"' then lexWords .dq cur t
    else if isMetaChar c then none
    else lexWords .word (c :: cur) t
  | .sq, cur, c :: t =>
    if c = '\'' then lexWords .word cur t else lexWords .sq (c :: cur) t
  | .dq, cur, c :: t =>
    if c = '"' then lexWords .word cur t
    else if c = '\\' || c = '$' || c = '`' || c = '!' then none
    else lexWords .dq (c :: cur) t

/-- bash's reading of a text of the sub-language: its words after quote removal -/
def shellWords (s : List Char) : Option (List (List Char)) := lexWords .out [] s

/-- the characters a sound `alnum` must reject -/
def shellSpecial (c : Char) : Bool := isBlank c || c = '\'' || c = '"' || isMetaChar c

end Dippy
