/-
The state of one hook process that outlives a single analysis (T0: `Generated.mutableState`):
  * the `functools.lru_cache(maxsize=32)` around `_load_handler` (cli/__init__.py),
  * `MODE` (dippy.py), assigned by `main` when no explicit mode was given at import,
  * `_log_config` / `_log_disabled` (core/config.py).
An analysis is modelled as a *lookup program*: a computation that may ask for handler modules
by name, in any adaptive order, and is otherwise a function of its inputs.  Core Lean only.
-/
import Dippy.Generated.State

namespace Dippy.PS

universe u v

/-- `functools.lru_cache`: most recently used first -/
def lruGet {K : Type u} {V : Type v} [BEq K] (cap : Nat) (f : K → V) (c : List (K × V)) (k : K) : List (K × V) × V :=
  match c.find? (fun kv => kv.1 == k) with
  | some kv => ((k, kv.2) :: c.filter (fun e => !(e.1 == k)), kv.2)   -- hit: move to the front
  | none => (((k, f k) :: c).take cap, f k)                            -- miss: compute, insert, evict the oldest

/-- an analysis: done, or look a handler module up and continue with the answer -/
inductive Prog (H : Type) (A : Type) where
  | done : A → Prog H A
  | look : String → (H → Prog H A) → Prog H A

/-- what the analysis computes when every lookup is answered by the loader itself -/
def Prog.pure {H A : Type} (load : String → H) : Prog H A → A
  | .done a => a
  | .look n k => (k (load n)).pure load

/-- the analysis run against the cache -/
def Prog.run {H A : Type} (cap : Nat) (load : String → H) : Prog H A → List (String × H) → List (String × H) × A
  | .done a, c => (c, a)
  | .look n k, c => (k (lruGet cap load c n).2).run cap load (lruGet cap load c n).1

inductive Mode where
  | claude | gemini | cursor
  deriving DecidableEq, Repr

structure LogState where
  configured : Option String   -- `_log_config` (path)
  disabled : Bool              -- `_log_disabled`
  deriving DecidableEq, Repr

structure State (H : Type) where
  cache : List (String × H)
  mode : Mode
  log : LogState

/-- one hook invocation inside the process (`main()` called again, as the tests and an embedding do) -/
structure Invocation (H : Type) (Out : Type) where
  /-- `_detect_mode_from_input`: `none` = it raised (then `{}` is printed and MODE keeps its value) -/
  detect : Option Mode
  /-- `config.log` after `load_config` (`none`: no log configured / config error) -/
  logPath : Option String
  /-- does the sink accept the parent directory / the write? -/
  mkdirOk : Bool
  writeOk : Bool
  /-- the analysis of the command, and how its result is rendered for a host -/
  analysis : Prog H (Mode → Out)
  /-- what is printed when detection raised -/
  deferOut : Out

/-- `configure_logging` -/
def configure (logPath : Option String) (mkdirOk : Bool) : LogState :=
  match logPath with
  | none => ⟨none, false⟩
  | some p => if mkdirOk then ⟨some p, false⟩ else ⟨none, true⟩

/-- `log_decision`: the state afterwards and whether a line was written -/
def logDecision (l : LogState) (writeOk : Bool) : LogState × Bool :=
  match l.configured with
  | none => (l, false)
  | some _ => if l.disabled then (l, false) else if writeOk then (l, true) else ({ l with disabled := true }, false)

/-- the host mode of an invocation: the explicit one, else the detected one (`none`: detection raised) -/
def effMode {H Out : Type} (explicit : Option Mode) (q : Invocation H Out) : Option Mode :=
  match explicit with
  | some m => some m
  | none => q.detect

/-- `main()`: returns the new state, stdout, and whether a log line was appended -/
def step {H Out : Type} (cap : Nat) (load : String → H) (explicit : Option Mode) (s : State H) (q : Invocation H Out) :
    State H × Out × Bool :=
  match effMode explicit q with
  | none => (s, q.deferOut, false)
  | some m =>
    let l0 := configure q.logPath q.mkdirOk
    let r := q.analysis.run cap load s.cache
    let l1 := logDecision l0 q.writeOk
    ({ cache := r.1, mode := m, log := l1.1 }, r.2 m, l1.2)

/-- the process right after import: empty cache, `MODE = _EXPLICIT_MODE or "claude"`, logging off -/
def init {H : Type} (explicit : Option Mode) : State H :=
  { cache := [], mode := explicit.getD .claude, log := ⟨none, false⟩ }

def runHistory {H Out : Type} (cap : Nat) (load : String → H) (explicit : Option Mode) (s : State H) (hist : List (Invocation H Out)) : State H :=
  hist.foldl (fun s q => (step cap load explicit s q).1) s

end Dippy.PS
