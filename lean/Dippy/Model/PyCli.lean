/-
Model of the command-line half of src/dippy/cli/python.py: which words are the interpreter's own
options, which file is analysed, and when the command is approved.  `fileSafe` (the result of
`analyze_python_file` for a resolved path: exists, regular, .py/.pyw, ≤ 100 000 bytes, AST checker
passes) and `resolve` (`(cwd / token).resolve()`) are oracles.
-/
import Dippy.Generated.PyCli
import Dippy.Model.PyStr

namespace Dippy.PyCli

open Generated.PyCli

structure Env where
  /-- `str((cwd / token).resolve())` (absolute tokens ignore cwd) -/
  resolve : String → String → String
  /-- `analyze_python_file(path)[0]` -/
  fileSafe : String → Bool

/-- `_split_interpreter_options`: (option words without their values, the `-m` module, program) -/
def splitOpts : Bool → List String → List String × Option String × List String
  | _, [] => ([], none, [])
  | true, _ :: rest => splitOpts false rest        -- the value of a flag with argument
  | false, t :: rest =>
    if t == "-" then (["-"], none, rest)
    else if t == "-c" then (["-c"], none, rest.drop 1)
    else if t == "-m" then (["-m"], rest.head?, rest.drop 1)
    else if flagsWithArg.contains t then let r := splitOpts true rest; (t :: r.1, r.2.1, r.2.2)
    else if Py.startsWith t "-" then let r := splitOpts false rest; (t :: r.1, r.2.1, r.2.2)
    else ([], none, t :: rest)

/-- `_find_script_path`: the first word that is not an option (`none`: a safe flag, `-c` or `-m` comes first, or no such word) -/
def findScript : Bool → List String → Option String
  | _, [] => none
  | true, _ :: rest => findScript false rest
  | false, t :: rest =>
    if safeFlags.contains t then none
    else if t == "-c" || t == "-m" then none
    else if flagsWithArg.contains t then findScript true rest
    else if Py.startsWith t "-" then findScript false rest
    else some t

inductive Verdict where
  | interactive | safeFlag | inlineCode | moduleCalendar | moduleOther | askOption | noScript
  | analysed (path : String) (safe : Bool)
  deriving DecidableEq, Repr

def Verdict.allowed : Verdict → Bool
  | .safeFlag | .moduleCalendar => true
  | .analysed _ safe => safe
  | _ => false

/-- a short-option cluster containing `x` (skip the first source line) -/
def hasSkipLine (o : String) : Bool := Py.startsWith o "-" && !Py.startsWith o "--" && (o.toList.drop 1).contains 'x'

/-- the decision of `classify` once the scans are made: `opts` option words, `m` the `-m` module, `fs` the script word -/
def decideV (env : Env) (cwd : String) (opts : List String) (m : Option String) (fs : Option String) : Verdict :=
  if opts.any (fun o => safeFlags.contains o) then .safeFlag
  else if opts.contains "-c" then .inlineCode
  else if opts.contains "-m" then (if m == some "calendar" then .moduleCalendar else .moduleOther)
  else if opts.contains "-i" || opts.contains "-" then .askOption
  else if opts.any hasSkipLine then .askOption
  else match fs with
    | none => .noScript
    | some s => .analysed (env.resolve cwd s) (env.fileSafe (env.resolve cwd s))

/-- `classify`: `tokens` = the python command's words (program name first) -/
def classify (env : Env) (cwd : String) (tokens : List String) : Verdict :=
  if tokens.length < 2 then .interactive
  else decideV env cwd (splitOpts false (tokens.drop 1)).1 (splitOpts false (tokens.drop 1)).2.1 (findScript false (tokens.drop 1))

/-! ### specification: what CPython does with such a command line (argv grammar of `python --help`) -/

inductive Runs where
  | interactive
  | infoOnly                         -- help or version: print and exit
  | code (src : String)              -- -c
  | module (name : Option String)    -- -m (none: the module name is missing)
  | stdin                            -- `-`
  | script (word : String) (args : List String)
  deriving DecidableEq, Repr

/-- options are read left to right; `-c`, `-m`, a lone dash and the first non-option word end them.  Clusters are not
    interpreted (a cluster is treated as an opaque option): the handler asks or analyses in those cases. -/
def pythonRuns : Bool → List String → Runs
  | _, [] => .interactive
  | true, _ :: rest => pythonRuns false rest
  | false, t :: rest =>
    if safeFlags.contains t then .infoOnly
    else if t == "-" then .stdin
    else if t == "-c" then .code (rest.headD "")
    else if t == "-m" then .module rest.head?
    else if flagsWithArg.contains t then pythonRuns true rest
    else if Py.startsWith t "-" then pythonRuns false rest
    else .script t rest

end Dippy.PyCli
