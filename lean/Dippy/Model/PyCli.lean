/-
Model of the command-line half of src/dippy/cli/python.py: which words are the interpreter's own
options, which file is analysed, and when the command is approved.  `fileSafe` (the result of
`analyze_python_file` for a resolved path: exists, regular, .py/.pyw, ≤ 100 000 bytes, AST checker
passes) and `resolve` (`(cwd / token).resolve()`) are oracles.
-/
import Dippy.Generated.PyCli
import Dippy.Model.PyStr

namespace Dippy.PyCli

open Generated.PyCli

structure Env where
  /-- `str((cwd / token).resolve())` (absolute tokens ignore cwd) -/
  resolve : String → String → String
  /-- `analyze_python_file(path)[0]` -/
  fileSafe : String → Bool

inductive Cluster where
  | plain | takesNext | code | module (attached : String)
  deriving DecidableEq, Repr

/-- the loop of `_scan_cluster` over the characters after the dash; `none` for a character that settles nothing -/
def scanChars : List Char → Cluster
  | [] => .plain
  | c :: rest =>
    if c = 'W' || c = 'X' then (if rest.isEmpty then .takesNext else .plain)
    else if c = 'c' then .code
    else if c = 'm' then .module (String.ofList rest)
    else scanChars rest

/-- `_scan_cluster`: what a cluster of short options does besides setting flags -/
def scanCluster (t : String) : Cluster :=
  if !Py.startsWith t "-" || Py.startsWith t "--" || t.length < 2 then .plain
  else scanChars (t.toList.drop 1)

/-- `_split_interpreter_options`: (option words without their values, the `-m` module, program) -/
def splitOpts : Bool → List String → List String × Option String × List String
  | _, [] => ([], none, [])
  | true, _ :: rest => splitOpts false rest        -- the value of a flag with argument
  | false, t :: rest =>
    if t == "-" then (["-"], none, rest)
    else if t == "-c" then (["-c"], none, rest.drop 1)
    else if t == "-m" then (["-m"], rest.head?, rest.drop 1)
    else if flagsWithArg.contains t then let r := splitOpts true rest; (t :: r.1, r.2.1, r.2.2)
    else match scanCluster t with
      | .code => (["-c"], none, rest.drop 1)
      | .module att => if att.isEmpty then (["-m"], rest.head?, rest.drop 1) else (["-m"], some att, rest)
      | .takesNext => let r := splitOpts true rest; (t :: r.1, r.2.1, r.2.2)
      | .plain =>
        if Py.startsWith t "-" then let r := splitOpts false rest; (t :: r.1, r.2.1, r.2.2)
        else ([], none, t :: rest)

/-- `_find_script_path`: the first word that is not an option (`none`: a safe flag, `-c` or `-m` comes first, or no such word) -/
def findScript : Bool → List String → Option String
  | _, [] => none
  | true, _ :: rest => findScript false rest
  | false, t :: rest =>
    if safeFlags.contains t then none
    else if t == "-c" || t == "-m" then none
    else if flagsWithArg.contains t then findScript true rest
    else match scanCluster t with
      | .code => none
      | .module _ => none
      | .takesNext => findScript true rest
      | .plain => if Py.startsWith t "-" then findScript false rest else some t

inductive Verdict where
  | interactive | safeFlag | inlineCode | moduleCalendar | moduleOther | askOption | noScript
  | analysed (path : String) (safe : Bool)
  deriving DecidableEq, Repr

def Verdict.allowed : Verdict → Bool
  | .safeFlag | .moduleCalendar => true
  | .analysed _ safe => safe
  | _ => false

/-- a short-option cluster containing `x` (skip the first source line) -/
def hasSkipLine (o : String) : Bool := Py.startsWith o "-" && !Py.startsWith o "--" && (o.toList.drop 1).contains 'x'

/-- a script word `_find_script_path` does not resolve: it starts with a prefix the shell expands (`~`) -/
def scriptRefused (s : String) : Bool := scriptRefusedPrefixes.any (fun p => Py.startsWith s p)

/-- the decision of `classify` once the scans are made: `opts` option words, `m` the `-m` module, `fs` the script word -/
def decideV (env : Env) (cwd : String) (opts : List String) (m : Option String) (fs : Option String) : Verdict :=
  if opts.any (fun o => safeFlags.contains o) then .safeFlag
  else if opts.contains "-c" then .inlineCode
  else if opts.contains "-m" then (if m == some "calendar" then .moduleCalendar else .moduleOther)
  else if opts.contains "-i" || opts.contains "-" then .askOption
  else if opts.any hasSkipLine then .askOption
  else match fs with
    | none => .noScript
    | some s =>
      -- `_find_script_path` gives up on a word the shell would expand (`~/x.py`): which file runs is not known
      if scriptRefused s then .noScript
      else .analysed (env.resolve cwd s) (env.fileSafe (env.resolve cwd s))

/-- `classify`: `tokens` = the python command's words (program name first) -/
def classify (env : Env) (cwd : String) (tokens : List String) : Verdict :=
  if tokens.length < 2 then .interactive
  else decideV env cwd (splitOpts false (tokens.drop 1)).1 (splitOpts false (tokens.drop 1)).2.1 (findScript false (tokens.drop 1))

/-! ### specification: what CPython does with such a command line (argv grammar of `python --help`) -/

inductive Runs where
  | interactive
  | infoOnly                         -- help or version: print and exit
  | code (src : String)              -- -c
  | module (name : Option String)    -- -m (none: the module name is missing)
  | stdin                            -- `-`
  | script (word : String) (args : List String)
  deriving DecidableEq, Repr

/-- CPython's short options that take a value (`SHORT_OPTS`: `c:` `m:` `W:` `X:`): the value is the rest of the
    cluster, or the next word when the cluster ends there; `h`, `?`, `V` ask for help/version -/
structure ClusterSpec where
  info : Bool
  kind : Cluster

def clusterSpecChars : List Char → Bool → ClusterSpec
  | [], info => ⟨info, .plain⟩
  | c :: rest, info =>
    if c = 'c' then ⟨info, .code⟩
    else if c = 'm' then ⟨info, .module (String.ofList rest)⟩
    else if c = 'W' || c = 'X' then ⟨info, if rest.isEmpty then .takesNext else .plain⟩
    else clusterSpecChars rest (info || c = 'h' || c = '?' || c = 'V')

/-- options are read left to right; `-c`, `-m`, a lone dash and the first non-option word end them; help and
    version requests seen before that win.  Long options other than the tabled ones are opaque flags. -/
def pythonRuns : Bool → List String → Runs
  | _, [] => .interactive
  | true, _ :: rest => pythonRuns false rest
  | false, t :: rest =>
    if safeFlags.contains t then .infoOnly
    else if t == "-" then .stdin
    else if t == "-c" then .code (rest.headD "")
    else if t == "-m" then .module rest.head?
    else if flagsWithArg.contains t then pythonRuns true rest
    else if Py.startsWith t "-" && !Py.startsWith t "--" && t.length ≥ 2 then
      let cs := clusterSpecChars (t.toList.drop 1) false
      if cs.info then .infoOnly
      else match cs.kind with
        | .code => .code (rest.headD "")
        | .module att => if att.isEmpty then .module rest.head? else .module (some att)
        | .takesNext => pythonRuns true rest
        | .plain => pythonRuns false rest
    else if Py.startsWith t "-" then pythonRuns false rest
    else .script t rest

end Dippy.PyCli
