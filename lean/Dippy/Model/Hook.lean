/-
Model of `main()` in src/dippy/dippy.py (the hook entry point): mode detection, cwd
extraction, config loading, routing (MCP / shell / other tools, Pre/PostToolUse, bypass
modes) and the three host envelopes.

Everything external is a field of `HookEnv`; Python's dynamic failures (`.get` on a
non-dict, `in` on a number, `.startswith` on a non-str, `Path(5)` …) are `none` in the
`Option` monad: *any* exception inside `main`'s `try` prints `{}`.
-/
import Dippy.Model.Load

namespace Dippy

/-- a `json.load` value; dict keys are unique (later duplicates win in Python: the harness
    normalises) -/
inductive PJson where
  | null
  | bool (b : Bool)
  | num (isZero : Bool) (repr : String)
  | str (s : String)
  | arr (xs : List PJson)
  | obj (kvs : List (String × PJson))
  deriving Repr, Inhabited

namespace PJson

/-- Python truthiness -/
def truthy : PJson → Bool
  | null => false
  | bool b => b
  | num z _ => !z
  | str s => !s.isEmpty
  | arr xs => !xs.isEmpty
  | obj kvs => !kvs.isEmpty

def lookup (kvs : List (String × PJson)) (k : String) : Option PJson :=
  (kvs.find? (·.1 == k)).map (·.2)

/-- `x.get(key, default)` : only dicts have `.get` -/
def get (j : PJson) (k : String) (dflt : PJson) : Option PJson :=
  match j with
  | obj kvs => some ((lookup kvs k).getD dflt)
  | _ => none

/-- `== "literal"` -/
def isStr (j : PJson) (s : String) : Bool :=
  match j with
  | str t => t == s
  | _ => false

/-- `"key" in x` : dict → key test, list → element test, str → substring test, else TypeError -/
def pyIn (k : String) (j : PJson) : Option Bool :=
  match j with
  | obj kvs => some (kvs.any (·.1 == k))
  | arr xs => some (xs.any (fun x => x.isStr k))
  | str s => some (Py.containsSub s k)
  | _ => none

/-- `x.startswith(p)` : only str -/
def startsWith (j : PJson) (p : String) : Option Bool :=
  match j with
  | str s => some (Py.startsWith s p)
  | _ => none

end PJson

inductive Mode where
  | claude | gemini | cursor
  deriving DecidableEq, Repr

/-- one line on stdout -/
inductive Out where
  | json (j : PJson)
  | text (s : String)
  deriving Repr

inductive Stdin where
  | undecodable            -- bytes that are not UTF-8
  | notJson                -- json.JSONDecodeError
  | value (j : PJson)

structure HookEnv where
  explicitMode : Option Mode
  processCwd : String
  /-- `str(Path(cwd_str).resolve())`; `none` = raises -/
  resolveCwd : String → Option String
  /-- `load_config(cwd); configure_logging(config)` -/
  loadConfig : String → LoadResult
  /-- `analyze(command, config, cwd)`; `none` = raises -/
  analyze : String → Config → String → Option Decision
  /-- `tokenize(command)` (never raises) -/
  tokenize : String → List String
  pathEnv : PathEnv
  /-- `log_decision(...)`: `false` = raises something it does not swallow -/
  logOk : Bool
  geminiNames : List String
  shellToolNames : List String
  bypassModes : List String

/-- `_env_flag(name)`: `os.environ.get(name, "").lower() in ("1", "true", "yes")` -/
def envFlag (v : Option String) : Bool :=
  match v with
  | some s =>
    let l := String.ofList (s.toList.map Char.toLower)
    l == "1" || l == "true" || l == "yes"
  | none => false

/-- `_detect_mode_from_flags`: claude before gemini before cursor, flags and variables alike -/
def explicitFromFlags (argv : List String) (environ : String → Option String) : Option Mode :=
  if argv.contains "--claude" || envFlag (environ "DIPPY_CLAUDE") then some .claude
  else if argv.contains "--gemini" || envFlag (environ "DIPPY_GEMINI") then some .gemini
  else if argv.contains "--cursor" || envFlag (environ "DIPPY_CURSOR") then some .cursor
  else none

def duck (reason : String) : String := "🐤 " ++ reason

/-- `approve/ask/deny(reason)` for the current mode -/
def envelope (m : Mode) (decision : Action) (reason : String) : PJson :=
  let d := PJson.str decision.toString
  let msg := PJson.str (duck reason)
  match m with
  | .gemini => .obj [("decision", d), ("reason", msg)]
  | .cursor => .obj [("permission", d), ("user_message", msg), ("agent_message", msg),
      ("userMessage", msg), ("agentMessage", msg)]
  | .claude => .obj [("hookSpecificOutput", .obj [("hookEventName", .str "PreToolUse"),
      ("permissionDecision", d), ("permissionDecisionReason", msg)])]

/-- `_detect_mode_from_input` -/
def detectMode (env : HookEnv) (j : PJson) : Option Mode := do
  let hasCommand ← PJson.pyIn "command" j
  let hasTool ← if hasCommand then PJson.pyIn "tool_name" j else pure true
  if hasCommand && !hasTool then return .cursor
  let toolName ← j.get "tool_name" (.str "")
  if env.geminiNames.any (fun n => toolName.isStr n) then return .gemini
  -- `if tool_name and tool_name != "Bash" and not tool_name.startswith("mcp__")`: the warning
  -- itself is harmless, but `.startswith` on a truthy non-string raises
  if toolName.truthy && !toolName.isStr "Bash" then
    let _ ← toolName.startsWith "mcp__"
    return .claude
  return .claude

/-- `is-member of a tuple of strings` (`==` on any value never raises) -/
def inStrs (j : PJson) (xs : List String) : Bool := xs.any (fun x => j.isStr x)

/-- what `main` decided, with its provenance; `render` turns it into stdout lines -/
inductive Result where
  /-- `{}`: defer to the host's own flow -/
  | defer
  /-- config error on a pre-execution event: the ask envelope -/
  | configError (msg : String)
  /-- the host declared a bypass permission mode -/
  | bypass (pm : String)
  /-- an MCP rule matched -/
  | mcp (m : Match)
  /-- the analysis of a shell command completed -/
  | analysis (d : Decision) (command : String) (cfg : Config) (cwd : String)
  /-- PostToolUse feedback (message of the last matching after rule, if any) -/
  | feedback (msg : Option String)
  /-- nothing at all -/
  | silent
  deriving Repr

def mcpReason (mt : Match) : String :=
  match Py.truthy mt.message with
  | some msg => msg
  | none => "[" ++ mt.pattern ++ "]"

def render (m : Mode) : Result → List Out
  | .defer => [.json (.obj [])]
  | .configError msg => [.json (envelope m .ask ("config error: " ++ msg))]
  | .bypass pm => [.json (envelope m .allow pm)]
  | .mcp mt => [.json (envelope m mt.decision (mcpReason mt))]
  | .analysis d _ _ _ => [.json (envelope m d.action d.reason)]
  | .feedback msg =>
    (match Py.truthy msg with
     | some t => [.text (duck t)]
     | none => [])
  | .silent => []

/-- the bypass check of a pre-execution event: `some pm` when a bypass mode is declared -/
def bypassOf (env : HookEnv) (j : PJson) (isPost : Bool) : Option (Option String) :=
  if isPost then some none else
  match j.get "permission_mode" (.str "default") with
  | none => none
  | some pm =>
    if inStrs pm env.bypassModes then
      (match pm with
       | .str s => some (some s)
       | _ => none)
    else some none

/-- a shell command (Cursor's `command`, or `tool_input.command` of a shell tool) -/
def shellPath (env : HookEnv) (j : PJson) (cfg : Config) (cwd : String) (isPost : Bool) (command : PJson) :
    Option Result :=
  match bypassOf env j isPost with
  | none => none
  | some (some pm) => if env.logOk then some (.bypass pm) else none
  | some none =>
    if isPost then
      -- handle_post_tool_use: tokenize (falsy → [], truthy non-str → AttributeError)
      match command with
      | .str s => some (.feedback (matchAfter env.pathEnv cfg (env.tokenize s) cwd))
      | c => if c.truthy then none else some (.feedback (matchAfter env.pathEnv cfg [] cwd))
    else
      match command with
      | .str s =>
        (match env.analyze s cfg cwd with
         | some d => if env.logOk then some (.analysis d s cfg cwd) else none
         | none => none)
      | _ => none

/-- an MCP tool call -/
def mcpPath (env : HookEnv) (j : PJson) (cfg : Config) (isPost : Bool) (tool : String) : Option Result :=
  match bypassOf env j isPost with
  | none => none
  | some (some pm) => if env.logOk then some (.bypass pm) else none
  | some none =>
    if isPost then some (.feedback (matchAfterMcp cfg tool))
    else match matchMcp cfg tool with
      | none => some .defer
      | some mt => if env.logOk then some (.mcp mt) else none

/-- routing after the config has loaded -/
def route (env : HookEnv) (mode : Mode) (j : PJson) (cfg : Config) (cwd : String) (isPost : Bool) : Option Result :=
  match mode with
  | .cursor =>
    (match j.get "command" (.str "") with
     | some command => shellPath env j cfg cwd isPost command
     | none => none)
  | _ =>
    match j.get "tool_name" (.str ""), j.get "tool_input" (.obj []) with
    | some toolName, some toolInput =>
      (match toolName with
       | .str tool =>
         if Py.startsWith tool "mcp__" then mcpPath env j cfg isPost tool
         else if !env.shellToolNames.contains tool then some .defer
         else match toolInput.get "command" (.str "") with
           | some command => shellPath env j cfg cwd isPost command
           | none => none
       | _ => none)
    | _, _ => none

/-- the cwd the hook works in -/
def hookCwd (env : HookEnv) (j : PJson) : Option String :=
  match j.get "cwd" .null with
  | none => none
  | some cwd0 =>
    let cwdStr := if cwd0.truthy then some cwd0 else
      (match j.get "tool_input" (.obj []) with
       | some ti => ti.get "cwd" .null
       | none => none)
    match cwdStr with
    | none => none
    | some c =>
      if c.truthy then
        (match c with
         | .str s => env.resolveCwd s
         | _ => none)
      else some env.processCwd

def hookMode (env : HookEnv) (j : PJson) : Option Mode :=
  match env.explicitMode with
  | some m => some m
  | none => detectMode env j

/-- everything inside `main`'s `try`; `none` = an exception was raised -/
def hookBody (env : HookEnv) (j : PJson) : Option (Mode × Result) :=
  match hookMode env j with
  | none => none
  | some mode =>
    match hookCwd env j with
    | none => none
    | some cwd =>
      match j.get "hook_event_name" (.str "PreToolUse") with
      | none => none
      | some hookEvent =>
        let isPost := hookEvent.isStr "PostToolUse"
        match env.loadConfig cwd with
        | .raised => none
        | .configError msg => if isPost then some (mode, .silent) else some (mode, .configError msg)
        | .ok cfg => (route env mode j cfg cwd isPost).map fun r => (mode, r)

/-- `main()`: whatever goes wrong inside the `try` prints `{}` -/
def hook (env : HookEnv) (stdin : Stdin) : List Out :=
  match stdin with
  | .undecodable => [.json (.obj [])]
  | .notJson => [.json (.obj [])]
  | .value j =>
    match hookBody env j with
    | some (m, r) => render m r
    | none => [.json (.obj [])]

end Dippy
