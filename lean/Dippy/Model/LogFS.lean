/-
Model of the decision log (`configure_logging`, `log_decision` in config.py) under sink faults,
and of concurrent appends.
-/
import Dippy.Model.Config

namespace Dippy

/-- how one sink operation ends -/
inductive Outcome where
  | ok
  | osError        -- any OSError subclass: ENOENT, ENOTDIR, EISDIR, ENOSPC, EACCES, ELOOP, ENAMETOOLONG …
  | valueError     -- e.g. embedded NUL in the path, UnicodeEncodeError on write
  | other          -- anything else
  deriving DecidableEq, Repr

/-- fault schedule of the decision-log sink -/
structure SinkFaults where
  mkdir : Outcome     -- `config.log.parent.mkdir(parents=True, exist_ok=True)`
  open_ : Outcome     -- `open(path, "a")`
  write : Outcome     -- `f.write(line)` / close
  deriving DecidableEq, Repr

def SinkFaults.allOk : SinkFaults := ⟨.ok, .ok, .ok⟩

/-- what the code swallows (after the fix: OSError and ValueError) -/
def swallowed : Outcome → Bool
  | .osError => true
  | .valueError => true
  | _ => false

/-- `_log_config` / `_log_disabled` -/
structure LogState where
  path : Option String := none
  full : Bool := false
  disabled : Bool := false
  deriving DecidableEq, Repr

/-- `configure_logging(config)`; `none` = an exception escapes -/
def configureLogging (cfg : Config) (φ : SinkFaults) : Option LogState :=
  match cfg.log with
  | none => some {}
  | some p =>
    match φ.mkdir with
    | .ok => some { path := some p, full := cfg.logFull }
    | o => if swallowed o then some { path := none, disabled := true } else none

/-- the fields of one log entry, in order -/
def logEntry (st : LogState) (decision cmd : String) (rule message command : Option String) (ts : String) :
    List (String × String) :=
  [("decision", decision), ("cmd", cmd)]
    ++ (match rule with | some r => [("rule", r)] | none => [])
    ++ (match message with | some m => [("message", m)] | none => [])
    ++ (if st.full then (match command with | some c => [("command", c)] | none => []) else [])
    ++ [("ts", ts)]

/-- `log_decision(...)`: new state and the line appended (if any); `none` = an exception escapes -/
def logDecision (st : LogState) (φ : SinkFaults) (decision cmd : String) (rule message command : Option String)
    (ts : String) : Option (LogState × Option (List (String × String))) :=
  match st.path with
  | none => some (st, none)
  | some _ =>
    if st.disabled then some (st, none) else
    match φ.open_ with
    | .ok =>
      (match φ.write with
       | .ok => some (st, some (logEntry st decision cmd rule message command ts))
       | o => if swallowed o then some ({ st with disabled := true }, none) else none)
    | o => if swallowed o then some ({ st with disabled := true }, none) else none

/-- does logging (configure + one decision) complete without an escaping exception? -/
def logOkOf (cfg : Config) (φ : SinkFaults) : Bool :=
  match configureLogging cfg φ with
  | none => false
  | some st => (logDecision st φ "d" "c" none none none "t").isSome

/-! ### concurrent appends: each process performs one atomic `write` of its whole line -/

/-- a schedule is the order in which the processes' single writes reach the file -/
def fileAfter (lines : Nat → String) (schedule : List Nat) : List String := schedule.map lines

end Dippy
