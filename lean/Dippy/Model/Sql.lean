/-
Model of src/dippy/core/sql.py (`is_readonly_sql` and its helpers) and of the sqlite3 handler's
argument walk (src/dippy/cli/sqlite3.py).

Regular expressions are modelled by what CPython's backtracking matcher returns for them:
  '(?:[^']*'')*[^']*'   – greedy pairs, backtracking to the first quote of the last pair at end of text
  `[^`]*`  \[[^\]]*\]   – to the next closing character, no match when there is none
  --[^\n]*              – to the end of the line (newline not consumed)
  /\*.*?\*/             – to the first `*/` after the opener (DOTALL, non-greedy)
`\s` is `str.isspace`, `\w` is `str.isalnum` or `_` (T0's Unicode tables); `.upper()` is modelled
for what can become an ASCII keyword (`Generated.Sql.upperToAscii`).
-/
import Dippy.Model.PyStr
import Dippy.Generated.Sql

namespace Dippy.Sql

/-- after an opening quote `q`: the rest after the closing quote, `none` when the regex does not match.
    `fallback` = rest after the first quote of the last `qq` pair consumed (the backtracking alternative). -/
def closeQuote (q : Char) : List Char → Option (List Char) → Option (List Char)
  | [], fallback => fallback
  | c :: t, fallback =>
    if c = q then
      match t with
      | c2 :: t2 => if c2 = q then closeQuote q t2 (some (c2 :: t2)) else some (c2 :: t2)
      | [] => some []
    else closeQuote q t fallback

/-- rest after the next `close`, `none` if there is none -/
def closeAt (close : Char) : List Char → Option (List Char)
  | [] => none
  | c :: t => if c = close then some t else closeAt close t

/-- rest after the first `*/` -/
def closeBlock : List Char → Option (List Char)
  | [] => none
  | '*' :: '/' :: t => some t
  | _ :: t => closeBlock t

/-- `_strip_quoted`: `_QUOTED_PATTERN.sub(" ", sql)`; fuel = length bound (every step consumes ≥ 1 char) -/
def stripAux : Nat → List Char → List Char
  | 0, _ => []
  | _, [] => []
  | n + 1, c :: t =>
    let noMatch := c :: stripAux n t
    if c = '\'' then
      match closeQuote '\'' t none with
      | some r => ' ' :: stripAux n r
      | none => noMatch
    else if c = '"' then
      match closeQuote '"' t none with
      | some r => ' ' :: stripAux n r
      | none => noMatch
    else if c = '`' then
      match closeAt '`' t with
      | some r => ' ' :: stripAux n r
      | none => noMatch
    else if c = '[' then
      match closeAt ']' t with
      | some r => ' ' :: stripAux n r
      | none => noMatch
    else if c = '-' then
      match t with
      | '-' :: t2 => ' ' :: stripAux n (t2.dropWhile (· != '\n'))
      | _ => noMatch
    else if c = '/' then
      match t with
      | '*' :: t2 =>
        match closeBlock t2 with
        | some r => ' ' :: stripAux n r
        | none => noMatch
      | _ => noMatch
    else noMatch

def stripQuoted (s : List Char) : List Char := stripAux (s.length + 1) s

/-- the ambiguity loop of `_has_multiple_statements` over `after` (which strips to semicolons only) -/
def semisAmbiguous : List Char → Bool
  | [] => false
  | c :: t =>
    if Py.isSpace c then (if t.contains ';' then true else semisAmbiguous t)
    else if c != ';' then true
    else semisAmbiguous t

/-- `_has_multiple_statements` -/
def hasMultiple (sql : List Char) : Bool :=
  let stripped := stripQuoted sql
  match stripped.dropWhile (· != ';') with
  | [] => false
  | _ :: after =>
    let afterStripped := Py.stripL Py.isSpace after
    if afterStripped.isEmpty then false
    else if afterStripped.all (· == ';') then semisAmbiguous after
    else true

def isWord (c : Char) : Bool := Py.isAlnum c || c == '_'
def isKwStart (c : Char) : Bool := ('A' ≤ c && c ≤ 'Z') || ('a' ≤ c && c ≤ 'z') || c == '_'

/-- `m.group().upper()` restricted to what matters: `some` of the ASCII upper-casing when every character
    upper-cases to ASCII, `none` otherwise (then it equals no keyword) -/
def upperKw (w : List Char) : Option (List Char) :=
  w.foldr (fun c acc =>
    match acc with
    | none => none
    | some rest =>
      if c.toNat < 128 then some (c.toUpper :: rest)
      else match Generated.Sql.upperToAscii.find? (fun kv => kv.1 == c.toNat) with
        | some kv => some (kv.2.toList ++ rest)
        | none => none) (some [])

def kwIs (w : List Char) (k : String) : Bool := upperKw w == some k.toList
def kwIn (w : List Char) (ks : List String) : Bool := ks.any (kwIs w)

/-- `_KEYWORD_PATTERN.match(sql, pos)`: (word, rest) -/
def matchKw : List Char → Option (List Char × List Char)
  | [] => none
  | c :: t => if isKwStart c then some (c :: t.takeWhile isWord, t.dropWhile isWord) else none

def skipWs (s : List Char) : List Char := s.dropWhile Py.isSpace

/-- skip a balanced parenthesis group; `depth ≥ 1` on entry (after the opening paren) -/
def skipParens : List Char → Nat → List Char
  | [], _ => []
  | c :: t, d =>
    if c = '(' then skipParens t (d + 1)
    else if c = ')' then (if d ≤ 1 then t else skipParens t (d - 1))
    else skipParens t d

/-- `_skip_cte`: the text from the main statement keyword on -/
def skipCte : Nat → List Char → Bool → List Char
  | 0, s, _ => s
  | n + 1, s, expectAs =>
    match skipWs s with
    | [] => []
    | c :: t =>
      if c = '(' then skipCte n (skipParens t 1) false
      else if c = ',' then skipCte n t true
      else match matchKw (c :: t) with
        | some (w, rest) =>
          if expectAs then skipCte n rest (if kwIs w "AS" then false else true)
          else c :: t
        | none => skipCte n t expectAs

/-- `_check_select_into` -/
def selectInto : Nat → List Char → Bool
  | 0, _ => false
  | n + 1, s =>
    match skipWs s with
    | [] => false
    | c :: t =>
      match matchKw (c :: t) with
      | some (w, rest) => if kwIs w "INTO" then true else if kwIs w "FROM" then false else selectInto n rest
      | none => selectInto n t

/-- the main loop of `is_readonly_sql` over the stripped text -/
def classifyLoop (ro wr : List String) : Nat → List Char → Option Bool
  | 0, _ => none
  | n + 1, s =>
    match skipWs s with
    | [] => none
    | c :: t =>
      match matchKw (c :: t) with
      | none => none
      | some (w, rest) =>
        if kwIs w "WITH" then classifyLoop ro wr n (skipCte (rest.length + 1) rest true)
        else if kwIs w "SELECT" then (if selectInto (rest.length + 1) rest then some false else some true)
        else if kwIn w ro then some true
        else if kwIn w wr then some false
        else none

/-! ### `_VARIABLE_WITH_SUFFIX`: `(?<![:\w])[$@:#][\w$][^\s()'"`;,]*\(` -/

/-- `\w` of a str pattern -/
def isWordCh (c : Char) : Bool := Py.isAlnum c || c == '_'

/-- the characters the run after the sigil may not contain -/
def varStop (c : Char) : Bool :=
  Py.isSpace c || c == '(' || c == ')' || c == '\'' || c == '"' || c == '`' || c == ';' || c == ','

/-- the pattern matches at this position (the lookbehind is checked by the caller): a sigil, a word character or `$`,
    a run of non-stop characters, then `(` -/
def varSuffixAt : List Char → Bool
  | sig :: c1 :: rest =>
    (sig == '$' || sig == '@' || sig == ':' || sig == '#') && (isWordCh c1 || c1 == '$')
      && (match rest.dropWhile (fun c => !varStop c) with
          | '(' :: _ => true
          | _ => false)
  | _ => false

/-- `_VARIABLE_WITH_SUFFIX.search(sql) is not None`; `prev` is the character before the current position -/
def hasVarSuffixAux : Option Char → List Char → Bool
  | _, [] => false
  | prev, c :: rest =>
    ((match prev with
      | some p => !(p == ':' || isWordCh p)
      | none => true) && varSuffixAt (c :: rest))
      || hasVarSuffixAux (some c) rest

def hasVarSuffix (sql : List Char) : Bool := hasVarSuffixAux none sql

/-- `is_readonly_sql(sql, extra_readonly=xr, extra_write=xw)` -/
def isReadonly (sql : List Char) (xr xw : List String) : Option Bool :=
  if hasVarSuffix sql then none
  else if hasMultiple sql then none
  else
    let stripped := stripQuoted sql
    classifyLoop (Generated.Sql.readonlyKeywords ++ xr) (Generated.Sql.writeKeywords ++ xw) (stripped.length + 1) stripped

/-! ### sqlite3 handler -/

/-- the argument walk: the SQL texts the shell will run (`-cmd` arguments and everything after the file name) -/
def sqlArgs : Bool → Nat → List String → List String
  | _, _, [] => []
  | fileSeen, skip + 1, _ :: rest => sqlArgs fileSeen skip rest
  | fileSeen, 0, t :: rest =>
    if Generated.Sql.sqliteNoArg.contains t then sqlArgs fileSeen 0 rest
    else if Generated.Sql.sqliteOneArg.contains t then
      (if t == "-cmd" then (match rest with | a :: _ => [a] | [] => []) else []) ++ sqlArgs fileSeen 1 rest
    else if Generated.Sql.sqliteTwoArg.contains t then sqlArgs fileSeen 2 rest
    else if Py.startsWith t "-" then sqlArgs fileSeen 0 rest
    else if !fileSeen then sqlArgs true 0 rest
    else t :: sqlArgs fileSeen 0 rest

/-- `_option_words`: the words sqlite3 reads as options; the values of one-argument options (and the two of
    `-lookaside`) are stepped over -/
def optionWords : Nat → List String → List String
  | _, [] => []
  | skip + 1, _ :: rest => optionWords skip rest
  | 0, t :: rest =>
    (if Py.startsWith t "-" then [t] else []) ++
      optionWords (if Generated.Sql.sqliteOneArg.contains t then 1 else if Generated.Sql.sqliteTwoArg.contains t then 2 else 0) rest

inductive SqliteVerdict where
  | helpVersion | readonlyMode | initScript | interactive | readOnlyQuery | writeQuery | unknownQuery
  deriving DecidableEq, Repr

def SqliteVerdict.allowed : SqliteVerdict → Bool
  | .helpVersion | .readonlyMode | .readOnlyQuery => true
  | _ => false

/-- `classify` of cli/sqlite3.py -/
def sqliteClassify (tokens : List String) : SqliteVerdict :=
  if tokens.any (fun t => Generated.Sql.sqliteHelp.contains t) then .helpVersion
  else if (optionWords 0 (tokens.drop 1)).contains "-init" then .initScript
  else if (optionWords 0 (tokens.drop 1)).contains "-readonly" || (optionWords 0 (tokens.drop 1)).contains "-safe" then .readonlyMode
  else
    let parts := sqlArgs false 0 (tokens.drop 1)
    if parts.isEmpty then .interactive
    else
      let results := parts.map (fun p => isReadonly p.toList [] Generated.Sql.sqliteWrite)
      if results.all (· == some true) then .readOnlyQuery
      else if results.any (· == some false) then .writeQuery
      else .unknownQuery

end Dippy.Sql
