/-
Coverage (R2): every evaluation step of the specification `Child` stays inside the atoms of the
flattening, so the atoms of anything reachable are atoms of the whole.
-/
import Dippy.Spec.Reach
import Dippy.Lemmas.Flat

set_option linter.unusedSimpArgs false
set_option linter.unusedVariables false

namespace Dippy

/-- the atoms of a piece of syntax under a cwd -/
def Piece.atoms (s : Syn) (p : Piece) (cwd : String) (r : Bool) : List Atom :=
  match p with
  | .node n => flat s n cwd r
  | .word wd => flatWord s wd cwd r
  | .part wd pt => flatWordParts s wd [pt] cwd r
  | .redir rd => flatRedirects s [rd] cwd r
  | .cond c => flatCond s c cwd r
  | .arith a => flatArith s a cwd r
  | .text ps t => [.text ps (some t) cwd r]

variable (s : Syn)

theorem mem_flatNodes {ns : List Node} {n : Node} (hn : n ∈ ns) (cwd : String) (r : Bool) (x : Atom)
    (hx : x ∈ flat s n cwd r) : x ∈ flatNodes s ns cwd r := by
  induction ns with
  | nil => cases hn
  | cons m ms ih =>
    simp only [flatNodes, List.mem_append]
    cases hn with
    | head => left; exact hx
    | tail _ h => right; exact ih h

theorem mem_flatListParts {ns : List Node} {n : Node} (hn : n ∈ ns) (hop : isOperator n = false)
    (cwd : String) (r : Bool) (x : Atom) (hx : x ∈ flat s n cwd r) : x ∈ flatListParts s ns cwd r := by
  induction ns with
  | nil => cases hn
  | cons m ms ih =>
    simp only [flatListParts]
    cases hn with
    | head => simp [hop, hx]
    | tail _ h =>
      split
      · exact ih h
      · simp only [List.mem_append]; right; exact ih h

theorem mem_flatListPartsCd_first {ns : List Node} {n : Node} (hn : firstNonOp ns = some n)
    (cwd0 cwd : String) (r : Bool) (x : Atom) (hx : x ∈ flat s n cwd0 r) : x ∈ flatListPartsCd s ns cwd0 cwd r := by
  induction ns with
  | nil => simp [firstNonOp] at hn
  | cons m ms ih =>
    simp only [firstNonOp] at hn
    simp only [flatListPartsCd]
    split at hn
    · rename_i hop
      simp only [hop, ↓reduceIte]
      exact ih hn
    · rename_i hop
      simp only [Option.some.injEq] at hn
      subst hn
      simp only [hop, Bool.false_eq_true, ↓reduceIte, List.mem_append]
      exact Or.inl hx

theorem mem_flatListPartsCd_rest {ns : List Node} {n : Node} (hn : n ∈ restAfterFirstNonOp ns) (hop : isOperator n = false)
    (cwd0 cwd : String) (r : Bool) (x : Atom) (hx : x ∈ flat s n cwd r) : x ∈ flatListPartsCd s ns cwd0 cwd r := by
  induction ns with
  | nil => simp [restAfterFirstNonOp] at hn
  | cons m ms ih =>
    simp only [restAfterFirstNonOp] at hn
    simp only [flatListPartsCd]
    split at hn
    · rename_i hm
      simp only [hm, ↓reduceIte]
      exact ih hn
    · rename_i hm
      simp only [hm, Bool.false_eq_true, ↓reduceIte, List.mem_append]
      exact Or.inr (mem_flatListParts _ hn hop cwd r x hx)

theorem mem_flatWords {ws : List Word} {wd : Word} (hw : wd ∈ ws) (cwd : String) (r : Bool) (x : Atom)
    (hx : x ∈ flatWord s wd cwd r) : x ∈ flatWords s ws cwd r := by
  induction ws with
  | nil => cases hw
  | cons m ms ih =>
    simp only [flatWords, List.mem_append]
    cases hw with
    | head => left; exact hx
    | tail _ h => right; exact ih h

theorem flatRedirects_nil (cwd : String) (r : Bool) : flatRedirects s [] cwd r = [] := by
  unfold flatRedirects; rfl

theorem flatRedirects_cons (rd : Redir) (rs : List Redir) (cwd : String) (r : Bool) :
    flatRedirects s (rd :: rs) cwd r = flatRedirects s [rd] cwd r ++ flatRedirects s rs cwd r := by
  conv => lhs; unfold flatRedirects
  conv => rhs; lhs; unfold flatRedirects
  rw [flatRedirects_nil]
  simp

theorem flatWordParts_nil (wd : Word) (cwd : String) (r : Bool) : flatWordParts s wd [] cwd r = [] := by
  unfold flatWordParts; rfl

theorem flatWordParts_cons (wd : Word) (p : Part) (ps : List Part) (cwd : String) (r : Bool) :
    flatWordParts s wd (p :: ps) cwd r = flatWordParts s wd [p] cwd r ++ flatWordParts s wd ps cwd r := by
  conv => lhs; unfold flatWordParts
  conv => rhs; lhs; unfold flatWordParts
  rw [flatWordParts_nil]
  simp

/-- what one part contributes -/
theorem flatWordParts_single (wd : Word) (p : Part) (cwd : String) (r : Bool) :
    flatWordParts s wd [p] cwd r = (match p with
      | .cmdsub cmd => flat s cmd cwd r
      | .procsub _ cmd => flat s cmd cwd r
      | .array elems => flatWords s elems cwd r
      | other => expansionAtoms wd other cwd r) := by
  unfold flatWordParts
  rw [flatWordParts_nil]
  simp only [List.append_nil]
  cases p <;> rfl

theorem flatCmdParts_nil (ctx : CmdCtx) (wd : Word) (pos : Nat) (cwd : String) (r : Bool) :
    flatCmdParts s ctx wd pos [] cwd r = [] := by
  unfold flatCmdParts; rfl

theorem flatCmdParts_cons (ctx : CmdCtx) (wd : Word) (pos : Nat) (p : Part) (ps : List Part) (cwd : String) (r : Bool) :
    flatCmdParts s ctx wd pos (p :: ps) cwd r = (match p with
      | .procsub _ cmd => flat s cmd cwd r
      | .cmdsub cmd => flat s cmd cwd r ++ [.inject ctx wd pos]
      | .array elems => flatWords s elems cwd r
      | other => expansionAtoms wd other cwd r) ++ flatCmdParts s ctx wd pos ps cwd r := by
  conv => lhs; unfold flatCmdParts
  cases p <;> rfl

theorem flatRedirects_single (rd : Redir) (cwd : String) (r : Bool) :
    flatRedirects s [rd] cwd r = (match rd with
      | .heredoc quoted content => if !quoted then [.text false (some content) cwd r] else []
      | .redirect op tgt =>
        (match tgt with
         | some t => flatWord s t cwd r ++ (if r || Py.startsWith t.value "&" then [] else [.redir op (wordValue t) cwd])
         | none => if r then [] else [.redir op "" cwd])
      | .other _ => []) := by
  unfold flatRedirects
  rw [flatRedirects_nil]
  simp only [List.append_nil]
  cases rd with
  | heredoc q c => cases q <;> rfl
  | redirect op tgt => cases tgt <;> rfl
  | other k => rfl

theorem mem_flatRedirects {rs : List Redir} {rd : Redir} (hr : rd ∈ rs) (cwd : String) (r : Bool) (x : Atom)
    (hx : x ∈ flatRedirects s [rd] cwd r) : x ∈ flatRedirects s rs cwd r := by
  induction rs with
  | nil => cases hr
  | cons m ms ih =>
    rw [flatRedirects_cons]
    simp only [List.mem_append]
    cases hr with
    | head => left; exact hx
    | tail _ h => right; exact ih h

theorem mem_flatWordParts {wd : Word} {ps : List Part} {p : Part} (hp : p ∈ ps) (cwd : String) (r : Bool) (x : Atom)
    (hx : x ∈ flatWordParts s wd [p] cwd r) : x ∈ flatWordParts s wd ps cwd r := by
  induction ps with
  | nil => cases hp
  | cons m ms ih =>
    rw [flatWordParts_cons]
    simp only [List.mem_append]
    cases hp with
    | head => left; exact hx
    | tail _ h => right; exact ih h

/-- the word walker of a simple command sees at least what the generic word walker sees -/
theorem flatWordParts_sub_cmdParts (ctx : CmdCtx) (wd : Word) (pos : Nat) (ps : List Part) (cwd : String) (r : Bool)
    (x : Atom) (hx : x ∈ flatWordParts s wd ps cwd r) : x ∈ flatCmdParts s ctx wd pos ps cwd r := by
  induction ps with
  | nil => rw [flatWordParts_nil] at hx; cases hx
  | cons p ps ih =>
    rw [flatWordParts_cons, flatWordParts_single] at hx
    rw [flatCmdParts_cons]
    simp only [List.mem_append] at hx ⊢
    rcases hx with h | h
    · left
      cases p <;> simp_all
    · right; exact ih h

/-- the text atom of an array-element assignment's subscript -/
def subscriptAtoms (v : String) (cwd : String) (r : Bool) : List Atom :=
  match assignSubscript v with
  | some t => [.text false (some t) cwd r]
  | none => []

theorem flatCmdWords_cons (ctx : CmdCtx) (v : String) (ps : List Part) (ws : List Word) (pos : Nat) (cwd : String) (r : Bool) :
    flatCmdWords s ctx (.mk v ps :: ws) pos cwd r
      = subscriptAtoms v cwd r ++ flatCmdParts s ctx (.mk v ps) pos ps cwd r ++ flatCmdWords s ctx ws (pos + 1) cwd r := by
  conv => lhs; unfold flatCmdWords
  unfold subscriptAtoms
  cases hs : assignSubscript v <;> simp [hs]

theorem flatWord_mk (v : String) (ps : List Part) (cwd : String) (r : Bool) :
    flatWord s (.mk v ps) cwd r = flatWordParts s (.mk v ps) ps cwd r := by
  unfold flatWord; rfl

theorem mem_flatCmdWords (ctx : CmdCtx) {ws : List Word} {wd : Word} (hw : wd ∈ ws) (pos : Nat) (cwd : String) (r : Bool)
    (x : Atom) (hx : x ∈ flatWord s wd cwd r) : x ∈ flatCmdWords s ctx ws pos cwd r := by
  induction ws generalizing pos with
  | nil => cases hw
  | cons m ms ih =>
    cases m with
    | mk v ps =>
      rw [flatCmdWords_cons]
      simp only [List.mem_append]
      cases hw with
      | head =>
        left; right
        rw [flatWord_mk] at hx
        exact flatWordParts_sub_cmdParts s ctx _ pos ps cwd r x hx
      | tail _ h => right; exact ih h (pos + 1)

theorem mem_flatCmdWords_subscript (ctx : CmdCtx) {ws : List Word} {wd : Word} (hw : wd ∈ ws) (pos : Nat) (cwd : String) (r : Bool)
    (t : String) (ht : assignSubscript wd.value = some t) : Atom.text false (some t) cwd r ∈ flatCmdWords s ctx ws pos cwd r := by
  induction ws generalizing pos with
  | nil => cases hw
  | cons m ms ih =>
    cases m with
    | mk v ps =>
      rw [flatCmdWords_cons]
      simp only [List.mem_append]
      cases hw with
      | head =>
        left; left
        have : assignSubscript v = some t := ht
        simp [subscriptAtoms, this]
      | tail _ h => right; exact ih h (pos + 1)

theorem mem_flatCasePats_text {pats : List CasePat} {pat : String} {body : Option Node} (hp : CasePat.mk pat body ∈ pats)
    (cwd : String) (r : Bool) : Atom.text true (some pat) cwd r ∈ flatCasePats s pats cwd r := by
  induction pats with
  | nil => cases hp
  | cons m ms ih =>
    cases m with
    | mk p' b' =>
      simp only [flatCasePats]
      simp only [List.mem_append, List.singleton_append, List.mem_cons]
      cases hp with
      | head => left; left; rfl
      | tail _ h => right; exact ih h

theorem mem_flatCasePats_body {pats : List CasePat} {pat : String} {body : Node} (hp : CasePat.mk pat (some body) ∈ pats)
    (cwd : String) (r : Bool) (x : Atom) (hx : x ∈ flat s body cwd r) : x ∈ flatCasePats s pats cwd r := by
  induction pats with
  | nil => cases hp
  | cons m ms ih =>
    cases m with
    | mk p' b' =>
      simp only [flatCasePats]
      simp only [List.mem_append, List.singleton_append, List.mem_cons]
      cases hp with
      | head => left; right; simpa [flatOptNode] using hx
      | tail _ h => right; exact ih h

/-- **one step of evaluation stays inside the atoms** -/
theorem child_atoms (w : World) (r : Bool) (a b : Piece × String)
    (hc : Child w.resolveCd w.arithWalked r a b) :
    ∀ x ∈ b.1.atoms w.syn b.2 r, x ∈ a.1.atoms w.syn a.2 r := by
  intro x hx
  cases hc <;> simp only [Piece.atoms] at hx ⊢
  case cmdWord ws rs cwd wd hw =>
    simp only [flat]; simp only [List.mem_append]; left; left
    exact mem_flatCmdWords _ _ hw 0 cwd r x hx
  case cmdSubscript ws rs cwd wd t hw ht =>
    simp only [flat]; simp only [List.mem_append]; left; left
    have hxx : x = Atom.text false (some t) cwd r := by simpa using hx
    rw [hxx]
    exact mem_flatCmdWords_subscript _ _ hw 0 cwd r t ht
  case cmdRedir ws rs cwd rd hr =>
    simp only [flat]; simp only [List.mem_append]; left; right
    exact mem_flatRedirects _ hr cwd r x hx
  case pipeline cmds cwd n hn => simp only [flat]; exact mem_flatNodes _ hn cwd r x hx
  case listFirst parts cwd n hn =>
    simp only [flat]
    exact mem_flatListPartsCd_first _ hn cwd _ r x hx
  case list parts cwd n hn hop =>
    simp only [flat]
    exact mem_flatListPartsCd_rest _ hn hop cwd _ r x hx
  case ifCond => simp only [flat]; simp only [List.mem_append]; left; left; left; exact hx
  case ifThen => simp only [flat]; simp only [List.mem_append]; left; left; right; exact hx
  case ifElse => simp only [flat]; simp only [List.mem_append, flatOptNode]; left; right; exact hx
  case ifRedir c t e rs cwd rd hr => simp only [flat]; simp only [List.mem_append]; right; exact mem_flatRedirects _ hr cwd r x hx
  case whileCond => simp only [flat]; simp only [List.mem_append]; left; left; exact hx
  case whileBody => simp only [flat]; simp only [List.mem_append]; left; right; exact hx
  case whileRedir u c b rs cwd rd hr => simp only [flat]; simp only [List.mem_append]; right; exact mem_flatRedirects _ hr cwd r x hx
  case forWord v ws b rs cwd wd hw => simp only [flat]; simp only [List.mem_append]; left; right; exact mem_flatWords _ hw cwd r x hx
  case forBody => simp only [flat]; simp only [List.mem_append]; left; left; exact hx
  case forRedir v ws b rs cwd rd hr => simp only [flat]; simp only [List.mem_append]; right; exact mem_flatRedirects _ hr cwd r x hx
  case forArithInit => simp only [flat]; simp_all
  case forArithCond => simp only [flat]; simp_all
  case forArithIncr => simp only [flat]; simp_all
  case forArithBody => simp only [flat]; simp only [List.mem_append]; left; left; exact hx
  case forArithRedir i c s' b rs cwd rd hr => simp only [flat]; simp only [List.mem_append]; right; exact mem_flatRedirects _ hr cwd r x hx
  case selectWord v ws b rs cwd wd hw => simp only [flat]; simp only [List.mem_append]; left; right; exact mem_flatWords _ hw cwd r x hx
  case selectBody => simp only [flat]; simp only [List.mem_append]; left; left; exact hx
  case selectRedir v ws b rs cwd rd hr => simp only [flat]; simp only [List.mem_append]; right; exact mem_flatRedirects _ hr cwd r x hx
  case caseWord => simp only [flat]; simp only [List.mem_append, flatOptWord]; left; left; exact hx
  case casePattern wd pats rs cwd pat body hp =>
    simp only [flat]; simp only [List.mem_append]; left; right
    simp only [List.mem_singleton] at hx; subst hx
    exact mem_flatCasePats_text _ hp cwd r
  case caseBody wd pats rs cwd pat body hp =>
    simp only [flat]; simp only [List.mem_append]; left; right
    exact mem_flatCasePats_body _ hp cwd r x hx
  case caseRedir wd pats rs cwd rd hr => simp only [flat]; simp only [List.mem_append]; right; exact mem_flatRedirects _ hr cwd r x hx
  case functionBody => simp only [flat]; exact hx
  case subshellBody => simp only [flat]; simp only [List.mem_append]; left; exact hx
  case subshellRedir b rs cwd rd hr => simp only [flat]; simp only [List.mem_append]; right; exact mem_flatRedirects _ hr cwd r x hx
  case braceBody => simp only [flat]; simp only [List.mem_append]; left; exact hx
  case braceRedir b rs cwd rd hr => simp only [flat]; simp only [List.mem_append]; right; exact mem_flatRedirects _ hr cwd r x hx
  case timeBody => simp only [flat]; exact hx
  case negationBody => simp only [flat]; exact hx
  case coprocBody => simp only [flat]; exact hx
  case condBody => simp only [flat]; simp only [List.mem_append, flatOptCond]; left; exact hx
  case condRedir c rs cwd rd hr => simp only [flat]; simp only [List.mem_append]; right; exact mem_flatRedirects _ hr cwd r x hx
  case arithCmdText => simp only [flat]; simp_all
  case arithCmdTree => simp only [flat]; simp only [List.mem_append, flatOptArith]; left; exact hx
  case arithCmdRedir e t rs cwd rd hr => simp only [flat]; simp only [List.mem_append]; right; exact mem_flatRedirects _ hr cwd r x hx
  case wordPart v ps cwd p hp => rw [flatWord_mk]; exact mem_flatWordParts _ hp cwd r x hx
  case cmdsub => rw [flatWordParts_single]; exact hx
  case procsub => rw [flatWordParts_single]; exact hx
  case paramName => rw [flatWordParts_single]; simp_all [expansionAtoms]
  case paramArg => rw [flatWordParts_single]; simp_all [expansionAtoms]
  case paramLenName => rw [flatWordParts_single]; simp_all [expansionAtoms]
  case paramIndName => rw [flatWordParts_single]; simp_all [expansionAtoms]
  case paramIndArg => rw [flatWordParts_single]; simp_all [expansionAtoms]
  case arithText wd e t cwd ht =>
    rw [flatWordParts_single]
    simp only [List.mem_singleton] at hx; subst hx
    simp only [expansionAtoms, List.mem_map]
    exact ⟨t, ht, rfl⟩
  case arithOldText => rw [flatWordParts_single]; simp_all [expansionAtoms]
  case arrayElem wd elems cwd el he =>
    rw [flatWordParts_single]
    exact mem_flatWords _ he cwd r x hx
  case redirTarget => rw [flatRedirects_single]; simp only [List.mem_append]; left; exact hx
  case heredocBody => rw [flatRedirects_single]; simp_all
  case unaryOperand op v ps cwd =>
    simp only [flatCond, flatCondOperand, List.mem_append]; left
    rw [flatWord_mk] at hx; exact hx
  case unaryText op v ps cwd hc =>
    have : condRescan v ps false = true := by
      unfold condRescan; rcases hc with h | h <;> simp [h]
    simp only [flatCond, flatCondOperand, this]; simp_all
  case binaryLeft op v ps rt cwd =>
    simp only [flatCond]; simp only [List.mem_append]; left
    simp only [flatCondOperand, List.mem_append]; left
    rw [flatWord_mk] at hx; exact hx
  case binaryLeftText op v ps rt cwd hc =>
    have : condRescan v ps false = true := by
      unfold condRescan; rcases hc with h | h <;> simp [h]
    simp only [flatCond]; simp only [List.mem_append]; left
    simp only [flatCondOperand, this]; simp_all
  case binaryRight op v ps l cwd =>
    simp only [flatCond]; simp only [List.mem_append]; right
    simp only [flatCondOperand, List.mem_append]; left
    rw [flatWord_mk] at hx; exact hx
  case binaryRightText op v ps l cwd hc =>
    have : condRescan v ps (op == "=~") = true := by
      unfold condRescan; rcases hc with h | h | h <;> simp [h]
    simp only [flatCond]; simp only [List.mem_append]; right
    simp only [flatCondOperand, this]; simp_all
  case andLeft => simp only [flatCond]; simp only [List.mem_append]; left; exact hx
  case andRight => simp only [flatCond]; simp only [List.mem_append]; right; exact hx
  case orLeft => simp only [flatCond]; simp only [List.mem_append]; left; exact hx
  case orRight => simp only [flatCond]; simp only [List.mem_append]; right; exact hx
  case notOperand => simp only [flatCond]; exact hx
  case parenInner => simp only [flatCond]; exact hx
  case arithCmdsub => simp only [flatArith]; exact hx
  case arithAttr k attrs a x' cwd ha hf =>
    simp only [flatArith]
    simp only [World.syn_arithWalked, List.mem_flatMap]
    refine ⟨a, ha, ?_⟩
    -- the attribute found in `attrs` is found, with its atoms, in the walked table
    have key : ∀ (l : List (String × AVal)), l.find? (fun kv => kv.1 == a) = some (a, .one x') →
        (flatArithAttrs w.syn l cwd r).find? (fun kv => kv.1 == a) = some (a, flatArith w.syn x' cwd r) := by
      intro l
      induction l with
      | nil => simp
      | cons kv rest ih =>
        obtain ⟨k', v'⟩ := kv
        intro hfind
        unfold flatArithAttrs
        simp only [List.find?_cons] at hfind ⊢
        by_cases hk : (k' == a) = true
        · simp only [hk] at hfind ⊢
          simp only [Option.some.injEq, Prod.mk.injEq] at hfind
          obtain ⟨rfl, rfl⟩ := hfind
          rfl
        · simp only [hk] at hfind ⊢
          exact ih hfind
    rw [key attrs hf]
    simpa using hx

/-- the atoms of anything reachable are atoms of the whole -/
theorem reach_atoms (w : World) (r : Bool) (a b : Piece × String)
    (h : Reach w.resolveCd w.arithWalked r a b) :
    ∀ x ∈ b.1.atoms w.syn b.2 r, x ∈ a.1.atoms w.syn a.2 r := by
  induction h with
  | refl => intro x hx; exact hx
  | step hc _ ih => intro x hx; exact child_atoms w r _ _ hc x (ih x hx)

end Dippy
