/-
Case analyses over the hook model shared by C06, C12, C19 (and the hook-level halves of C11, C14, C15).
-/
import Dippy.Model.Hook

set_option linter.unusedSimpArgs false
set_option linter.unusedVariables false

namespace Dippy

/-- the decision a host reads out of one stdout line -/
def decisionOfJson : PJson → Option String
  | .obj [("hookSpecificOutput", .obj [("hookEventName", _), ("permissionDecision", .str d), ("permissionDecisionReason", _)])] => some d
  | .obj [("decision", .str d), ("reason", _)] => some d
  | .obj [("permission", .str d), ("user_message", _), ("agent_message", _), ("userMessage", _), ("agentMessage", _)] => some d
  | _ => none

def decisionOfOut : List Out → Option String
  | [.json j] => decisionOfJson j
  | _ => none

/-- the reason text a host shows -/
def reasonOfJson : PJson → Option String
  | .obj [("hookSpecificOutput", .obj [("hookEventName", _), ("permissionDecision", _), ("permissionDecisionReason", .str r)])] => some r
  | .obj [("decision", _), ("reason", .str r)] => some r
  | .obj [("permission", _), ("user_message", .str r), ("agent_message", _), ("userMessage", _), ("agentMessage", _)] => some r
  | _ => none

def reasonOfOut : List Out → Option String
  | [.json j] => reasonOfJson j
  | _ => none

theorem decisionOf_envelope (m : Mode) (a : Action) (r : String) :
    decisionOfJson (envelope m a r) = some a.toString := by
  cases m <;> rfl

theorem reasonOf_envelope (m : Mode) (a : Action) (r : String) :
    reasonOfJson (envelope m a r) = some (duck r) := by
  cases m <;> rfl

/-- the verdict a result carries, independent of the host -/
def Result.verdict : Result → Option (Action × String)
  | .defer => none
  | .configError msg => some (.ask, "config error: " ++ msg)
  | .bypass pm => some (.allow, pm)
  | .mcp mt => some (mt.decision, mcpReason mt)
  | .analysis d _ _ _ => some (d.action, d.reason)
  | .feedback _ => none
  | .silent => none

theorem decisionOf_render (m : Mode) (r : Result) :
    decisionOfOut (render m r) = r.verdict.map (fun v => v.1.toString) := by
  cases r <;> simp [render, decisionOfOut, Result.verdict, decisionOf_envelope]
  · rfl
  · rename_i msg; cases Py.truthy msg <;> rfl

theorem reasonOf_render (m : Mode) (r : Result) :
    reasonOfOut (render m r) = r.verdict.map (fun v => duck v.2) := by
  cases r <;> simp [render, reasonOfOut, Result.verdict, reasonOf_envelope]
  · rfl
  · rename_i msg; cases Py.truthy msg <;> rfl

/-- results of a pre-execution event are never feedback/silent; of a post-execution event never a verdict -/
def Result.isFeedback : Result → Bool
  | .feedback _ => true
  | .silent => true
  | _ => false

theorem bypassOf_post (env : HookEnv) (j : PJson) : bypassOf env j true = some none := rfl

theorem shellPath_pre (env : HookEnv) (j : PJson) (cfg : Config) (cwd : String) (c : PJson) (r : Result)
    (h : shellPath env j cfg cwd false c = some r) : r.isFeedback = false := by
  unfold shellPath at h
  split at h
  · cases h
  · split at h <;> simp at h; subst h; rfl
  · simp only [Bool.false_eq_true, ↓reduceIte] at h
    split at h
    · split at h
      · split at h <;> simp at h; subst h; rfl
      · cases h
    · cases h

theorem shellPath_post (env : HookEnv) (j : PJson) (cfg : Config) (cwd : String) (c : PJson) (r : Result)
    (h : shellPath env j cfg cwd true c = some r) : ∃ msg, r = .feedback msg := by
  unfold shellPath at h
  rw [bypassOf_post] at h
  simp only [↓reduceIte] at h
  split at h
  · exact ⟨_, (Option.some.inj h).symm⟩
  · split at h
    · cases h
    · exact ⟨_, (Option.some.inj h).symm⟩

theorem mcpPath_pre (env : HookEnv) (j : PJson) (cfg : Config) (tool : String) (r : Result)
    (h : mcpPath env j cfg false tool = some r) : r.isFeedback = false := by
  unfold mcpPath at h
  split at h
  · cases h
  · split at h <;> simp at h; subst h; rfl
  · simp only [Bool.false_eq_true, ↓reduceIte] at h
    split at h
    · simp at h; subst h; rfl
    · split at h <;> simp at h; subst h; rfl

theorem mcpPath_post (env : HookEnv) (j : PJson) (cfg : Config) (tool : String) (r : Result)
    (h : mcpPath env j cfg true tool = some r) : r = .feedback (matchAfterMcp cfg tool) := by
  unfold mcpPath at h
  rw [bypassOf_post] at h
  simpa using h.symm

theorem route_pre (env : HookEnv) (m : Mode) (j : PJson) (cfg : Config) (cwd : String) (r : Result)
    (h : route env m j cfg cwd false = some r) : r.isFeedback = false := by
  unfold route at h
  split at h
  · split at h
    · exact shellPath_pre env j cfg cwd _ r h
    · cases h
  · split at h
    · split at h
      · split at h
        · exact mcpPath_pre env j cfg _ r h
        · split at h
          · simp at h; subst h; rfl
          · split at h
            · exact shellPath_pre env j cfg cwd _ r h
            · cases h
      · cases h
    · cases h

theorem route_post (env : HookEnv) (m : Mode) (j : PJson) (cfg : Config) (cwd : String) (r : Result)
    (h : route env m j cfg cwd true = some r) : (∃ msg, r = .feedback msg) ∨ r = .defer := by
  unfold route at h
  split at h
  · split at h
    · left; exact shellPath_post env j cfg cwd _ r h
    · cases h
  · split at h
    · split at h
      · split at h
        · left; exact ⟨_, mcpPath_post env j cfg _ r h⟩
        · split at h
          · right; simpa using h.symm
          · split at h
            · left; exact shellPath_post env j cfg cwd _ r h
            · cases h
      · cases h
    · cases h

/-- is this stdin a PostToolUse event? -/
def isPostEvent : Stdin → Bool
  | .value j =>
    (match j.get "hook_event_name" (.str "PreToolUse") with
     | some e => e.isStr "PostToolUse"
     | none => false)
  | _ => false

theorem hookBody_pre (env : HookEnv) (j : PJson) (m : Mode) (r : Result)
    (hp : isPostEvent (.value j) = false) (h : hookBody env j = some (m, r)) : r.isFeedback = false := by
  unfold hookBody at h
  unfold isPostEvent at hp
  split at h
  · cases h
  · split at h
    · cases h
    · split at h
      · cases h
      · rename_i ev hev
        simp only [hev] at hp
        simp only [hp] at h
        split at h
        · cases h
        · simp at h; obtain ⟨_, rfl⟩ := h; rfl
        · simp only [Option.map_eq_some_iff, Prod.mk.injEq] at h
          obtain ⟨r', hr, _, rfl⟩ := h
          exact route_pre env _ j _ _ r' hr

theorem hookBody_post (env : HookEnv) (j : PJson) (m : Mode) (r : Result)
    (hp : isPostEvent (.value j) = true) (h : hookBody env j = some (m, r)) :
    (∃ msg, r = .feedback msg) ∨ r = .defer ∨ r = .silent := by
  unfold hookBody at h
  unfold isPostEvent at hp
  split at h
  · cases h
  · split at h
    · cases h
    · split at h
      · cases h
      · rename_i ev hev
        simp only [hev] at hp
        simp only [hp] at h
        split at h
        · cases h
        · simp at h; obtain ⟨_, rfl⟩ := h; right; right; rfl
        · simp only [Option.map_eq_some_iff, Prod.mk.injEq] at h
          obtain ⟨r', hr, _, rfl⟩ := h
          rcases route_post env _ j _ _ r' hr with h1 | h1
          · left; exact h1
          · right; left; exact h1

end Dippy
