/-
Lexical path resolution (`lexResolve`, the symlink-free file system): detours through
`x/..`, `.` segments, repeated slashes and a trailing slash do not change the result.
-/
import Dippy.Model.Path

set_option linter.unusedSimpArgs false

namespace Dippy

def lexStep (acc : List (List Char)) (seg : List Char) : List (List Char) :=
  if seg.isEmpty || seg == ['.'] then acc
  else if seg == ['.', '.'] then acc.drop 1
  else seg :: acc

theorem lexSegments_eq_foldl (l acc : List (List Char)) :
    lexSegments l acc = (l.foldl lexStep acc).reverse := by
  induction l generalizing acc with
  | nil => rfl
  | cons s t ih =>
    unfold lexSegments
    simp only [List.foldl_cons, lexStep]
    split
    · exact ih acc
    · split
      · exact ih _
      · exact ih _

/-- a plain directory name -/
def normalSeg (x : List Char) : Prop := x ≠ [] ∧ x ≠ ['.'] ∧ x ≠ ['.', '.']

theorem lexStep_normal (acc : List (List Char)) (x : List Char) (h : normalSeg x) : lexStep acc x = x :: acc := by
  obtain ⟨h1, h2, h3⟩ := h
  unfold lexStep
  have : x.isEmpty = false := by cases x <;> simp_all
  simp [this, h2, h3]

theorem lexStep_dotdot (acc : List (List Char)) : lexStep acc ['.', '.'] = acc.drop 1 := by
  unfold lexStep; simp

theorem lexStep_dot (acc : List (List Char)) : lexStep acc ['.'] = acc := by
  unfold lexStep; simp

theorem lexStep_empty (acc : List (List Char)) : lexStep acc [] = acc := by
  unfold lexStep; simp

/-- segment-level: `pre / x / .. / post` = `pre / post` -/
theorem segs_detour (pre post : List (List Char)) (x : List Char) (h : normalSeg x) :
    lexSegments (pre ++ x :: ['.', '.'] :: post) [] = lexSegments (pre ++ post) [] := by
  simp only [lexSegments_eq_foldl, List.foldl_append, List.foldl_cons, lexStep_normal _ x h, lexStep_dotdot,
    List.drop_succ_cons, List.drop_zero]

theorem segs_dot (pre post : List (List Char)) :
    lexSegments (pre ++ ['.'] :: post) [] = lexSegments (pre ++ post) [] := by
  simp only [lexSegments_eq_foldl, List.foldl_append, List.foldl_cons, lexStep_dot]

theorem segs_empty (pre post : List (List Char)) :
    lexSegments (pre ++ [] :: post) [] = lexSegments (pre ++ post) [] := by
  simp only [lexSegments_eq_foldl, List.foldl_append, List.foldl_cons, lexStep_empty]

/-! splitting on `/` distributes over concatenation at a slash -/

/-- the segments of `a/b` are the segments of `a` followed by those of `b` -/
theorem split_slash_cur (a b cur : List Char) :
    Py.splitOnChar '/' (a ++ '/' :: b) cur = Py.splitOnChar '/' a cur ++ Py.splitOnChar '/' b [] := by
  induction a generalizing cur with
  | nil => simp [Py.splitOnChar]
  | cons x t ih =>
    by_cases hx : x = '/'
    · subst hx
      simp only [List.cons_append, Py.splitOnChar, beq_self_eq_true, ↓reduceIte]
      rw [ih]
    · have : (x == '/') = false := by simpa using hx
      simp only [List.cons_append, Py.splitOnChar, this, Bool.false_eq_true, ↓reduceIte]
      exact ih _

theorem split_slash (a b : List Char) :
    Py.splitOnChar '/' (a ++ '/' :: b) [] = Py.splitOnChar '/' a [] ++ Py.splitOnChar '/' b [] :=
  split_slash_cur a b []

theorem split_noslash (x : List Char) (h : '/' ∉ x) (cur : List Char) :
    Py.splitOnChar '/' x cur = [cur.reverse ++ x] := by
  induction x generalizing cur with
  | nil => simp [Py.splitOnChar]
  | cons c t ih =>
    have hc : c ≠ '/' := fun e => h (e ▸ List.mem_cons_self ..)
    have ht : '/' ∉ t := fun m => h (List.mem_cons_of_mem _ m)
    have : (c == '/') = false := by simpa using hc
    simp only [Py.splitOnChar, this, Bool.false_eq_true, ↓reduceIte]
    rw [ih ht]; simp

/-- `lexResolve` as a function of the segment list -/
theorem lexResolve_def (p : String) :
    lexResolve p = "/" ++ String.ofList (['/'].intercalate (lexSegments (Py.splitOnChar '/' p.toList []) [])) := rfl

/-- **detour**: `d/x/../rest` resolves like `d/rest` (`x` a plain name) -/
theorem lexResolve_detour (d x rest : List Char) (hx : normalSeg x) (hs : '/' ∉ x) :
    lexResolve (String.ofList (d ++ '/' :: x ++ '/' :: '.' :: '.' :: '/' :: rest))
      = lexResolve (String.ofList (d ++ '/' :: rest)) := by
  simp only [lexResolve_def, String.toList_ofList]
  congr 3
  have e1 : d ++ '/' :: x ++ '/' :: '.' :: '.' :: '/' :: rest
      = d ++ '/' :: (x ++ '/' :: (['.', '.'] ++ '/' :: rest)) := by simp
  rw [e1, split_slash, split_slash, split_slash, split_slash d rest, split_noslash x hs,
    split_noslash ['.', '.'] (by decide)]
  simp only [List.reverse_nil, List.nil_append, List.singleton_append]
  exact segs_detour _ _ x hx

/-- **dot**: `d/./rest` resolves like `d/rest` -/
theorem lexResolve_dot (d rest : List Char) :
    lexResolve (String.ofList (d ++ '/' :: '.' :: '/' :: rest)) = lexResolve (String.ofList (d ++ '/' :: rest)) := by
  simp only [lexResolve_def, String.toList_ofList]
  congr 3
  have e1 : d ++ '/' :: '.' :: '/' :: rest = d ++ '/' :: (['.'] ++ '/' :: rest) := by simp
  rw [e1, split_slash, split_slash, split_slash d rest, split_noslash ['.'] (by decide)]
  simp only [List.reverse_nil, List.nil_append, List.singleton_append]
  exact segs_dot _ _

/-- **repeated slash**: `d//rest` resolves like `d/rest` -/
theorem lexResolve_dslash (d rest : List Char) :
    lexResolve (String.ofList (d ++ '/' :: '/' :: rest)) = lexResolve (String.ofList (d ++ '/' :: rest)) := by
  simp only [lexResolve_def, String.toList_ofList]
  congr 3
  have e1 : d ++ '/' :: '/' :: rest = d ++ '/' :: ([] ++ '/' :: rest) := by simp
  rw [e1, split_slash, split_slash, split_slash d rest]
  simp only [Py.splitOnChar, List.reverse_nil, List.singleton_append]
  exact segs_empty _ _

/-- **trailing slash** -/
theorem lexResolve_trailing (d : List Char) :
    lexResolve (String.ofList (d ++ ['/'])) = lexResolve (String.ofList d) := by
  simp only [lexResolve_def, String.toList_ofList]
  congr 3
  have e1 : d ++ ['/'] = d ++ '/' :: [] := rfl
  rw [e1, split_slash]
  simp only [Py.splitOnChar, List.reverse_nil]
  have := segs_empty (Py.splitOnChar '/' d []) []
  simpa using this

end Dippy
