/-
`**` patterns (`_glob_to_regex`): literal prefixes, confinement of `D/**`, and the
fact that `*` / `?` inside such patterns never consume a path separator.
-/
import Dippy.Lemmas.GlobLit

set_option linter.unusedSimpArgs false

namespace Dippy.Glob

def ReToks.prepend (ts : List Tok) : ReToks → ReToks
  | .ok r => .ok (ts ++ r)
  | e => e

theorem ReToks.cons_eq_prepend (t : Tok) (r : ReToks) : ReToks.cons t r = ReToks.prepend [t] r := by
  cases r <;> rfl

theorem ReToks.prepend_prepend (a b : List Tok) (r : ReToks) :
    ReToks.prepend a (ReToks.prepend b r) = ReToks.prepend (a ++ b) r := by
  cases r <;> simp [ReToks.prepend]

theorem reTokens_literal_append (l rest : List Char) (n : Nat) (hl : literal l) (hn : l.length ≤ n) :
    reTokens (l ++ rest) (n + 1) = ReToks.prepend (lits l) (reTokens rest (n + 1 - l.length)) := by
  induction l generalizing n with
  | nil => cases h : reTokens rest (n + 1) <;> simp [lits, ReToks.prepend, h]
  | cons c l ih =>
    obtain ⟨⟨h1, h2, h3⟩, hl'⟩ := literal_cons hl
    cases n with
    | zero => simp at hn
    | succ m =>
      have hm : l.length ≤ m := by simpa using hn
      have hstep : reTokens (c :: (l ++ rest)) (m + 1 + 1) = ReToks.cons (.one (.lit c)) (reTokens (l ++ rest) (m + 1)) := by
        rw [reTokens]
        · intro t hh _; exact h1 hh
        · intro t hh _; exact h1 hh
        · intro hh; exact h1 hh
        · intro hh; exact h2 hh
        · intro hh; exact h3 hh
      have : m + 1 - l.length = m + 1 + 1 - (l.length + 1) := by omega
      simp only [List.cons_append, hstep, ih m hl' hm, ReToks.cons_eq_prepend, ReToks.prepend_prepend, lits,
        List.map_cons, List.length_cons, List.singleton_append, this, List.nil_append]

/-- `"**" in pattern` for a pattern ending in `**` -/
theorem hasStarStar_suffix (l : List Char) :
    (List.range (l ++ ['*', '*']).length).any (fun i => ((l ++ ['*', '*']).drop i).take 2 == ['*', '*']) = true := by
  rw [List.any_eq_true]
  refine ⟨l.length, ?_, ?_⟩
  · simp
  · simp

/-- **confinement**: a text matched by `D/**` (D glob-free) starts with `D/` -/
theorem globMatch_dir_starstar (text D : String) (hlit : literal D.toList)
    (h : globMatch text (D ++ "/**") = some true) :
    (D.toList ++ ['/']).isPrefixOf text.toList = true := by
  unfold globMatch at h
  have hp : (D ++ "/**").toList = (D.toList ++ ['/']) ++ ['*', '*'] := by simp
  simp only [hp, hasStarStar_suffix, Bool.not_true, Bool.false_eq_true, ↓reduceIte] at h
  have hne : (D ++ "/**" == "**") = false := by
    rw [beq_eq_false_iff_ne]
    intro he
    have := congrArg String.toList he
    rw [hp] at this
    have hl := congrArg List.length this
    simp at hl
  simp only [hne, Bool.false_eq_true, ↓reduceIte] at h
  have hlit' : literal (D.toList ++ ['/']) := by
    intro c hc
    rcases List.mem_append.mp hc with h1 | h1
    · exact hlit c h1
    · simp at h1; subst h1; decide
  have hlen : ((D.toList ++ ['/']) ++ ['*', '*']).length = (D.toList ++ ['/']).length + 1 + 1 := by simp
  rw [hlen, reTokens_literal_append _ _ _ hlit' (by omega)] at h
  have hk : (D.toList ++ ['/']).length + 1 + 1 + 1 - (D.toList ++ ['/']).length = 2 + 1 := by omega
  rw [hk] at h
  have hss : reTokens ['*', '*'] (2 + 1) = .ok [.starNoNl] := by decide
  rw [hss] at h
  simp only [ReToks.prepend] at h
  rw [matchToks_lits] at h
  simp only [Option.some.injEq, Bool.and_eq_true] at h
  exact h.1

/-- what a `*` inside a `**` pattern consumed contains no `/` -/
theorem starNoSlash_consumes (f : List Char → Bool) (s : List Char)
    (h : starWith (fun c => c != '/') f s = true) :
    ∃ k, (∀ c ∈ s.take k, c ≠ '/') ∧ f (s.drop k) = true := by
  induction s with
  | nil => exact ⟨0, by simp, by simpa [starWith] using h⟩
  | cons c t ih =>
    simp only [starWith, Bool.or_eq_true, Bool.and_eq_true] at h
    rcases h with h | ⟨hc, ht⟩
    · exact ⟨0, by simp, h⟩
    · obtain ⟨k, hk1, hk2⟩ := ih ht
      refine ⟨k + 1, ?_, by simpa using hk2⟩
      intro x hx
      simp only [List.take_succ_cons, List.mem_cons] at hx
      rcases hx with rfl | hx
      · simpa using hc
      · exact hk1 x hx

/-- `*` in a `**` pattern: the matched part never contains a path separator -/
theorem star_no_slash (endOk : List Char → Bool) (ps : List Tok) (s : List Char)
    (h : matchToks endOk (.starNoSlash :: ps) s = true) :
    ∃ k, (∀ c ∈ s.take k, c ≠ '/') ∧ matchToks endOk ps (s.drop k) = true := by
  simp only [matchToks] at h
  exact starNoSlash_consumes _ _ h

/-- `?` in a `**` pattern: exactly one character, never `/` -/
theorem question_no_slash (endOk : List Char → Bool) (ps : List Tok) (s : List Char)
    (h : matchToks endOk (.one .notSlash :: ps) s = true) :
    ∃ c t, s = c :: t ∧ c ≠ '/' ∧ matchToks endOk ps t = true := by
  cases s with
  | nil => simp [matchToks] at h
  | cons c t =>
    simp only [matchToks, CharM.test, Bool.and_eq_true] at h
    exact ⟨c, t, rfl, by simpa using h.1, h.2⟩

/-- and those are the tokens `_glob_to_regex` emits for `*` and `?` -/
example : reTokens "a*b?/**".toList 8 = .ok [.one (.lit 'a'), .starNoSlash, .one (.lit 'b'), .one .notSlash,
    .one (.lit '/'), .starNoNl] := by decide

end Dippy.Glob
