/-
`fnmatch` on glob-free (literal) patterns: a literal pattern matches exactly itself,
and `p ++ " *"` matches exactly the strings that start with `p ++ " "`.
-/
import Dippy.Model.Glob

set_option linter.unusedSimpArgs false

namespace Dippy.Glob

/-- no `*`, `?`, `[` -/
def literal (l : List Char) : Prop := ∀ c ∈ l, c ≠ '*' ∧ c ≠ '?' ∧ c ≠ '['

theorem literal_of_hasGlobChars {s : String} (h : hasGlobChars s = false) : literal s.toList := by
  intro c hc
  unfold hasGlobChars at h
  rw [List.any_eq_false] at h
  have := h c hc
  simp at this
  exact ⟨this.1.1, this.1.2, this.2⟩

theorem literal_cons {c : Char} {l : List Char} (h : literal (c :: l)) :
    (c ≠ '*' ∧ c ≠ '?' ∧ c ≠ '[') ∧ literal l :=
  ⟨h c (List.mem_cons_self ..), fun x hx => h x (List.mem_cons_of_mem _ hx)⟩

def lits (l : List Char) : List Tok := l.map fun c => .one (.lit c)

theorem fnTokens_literal_append (l rest : List Char) (n : Nat) (hl : literal l) (hn : l.length ≤ n) :
    fnTokens (l ++ rest) (n + 1) = lits l ++ fnTokens rest (n + 1 - l.length) := by
  induction l generalizing n with
  | nil => simp [lits]
  | cons c l ih =>
    obtain ⟨⟨h1, h2, h3⟩, hl'⟩ := literal_cons hl
    cases n with
    | zero => simp at hn
    | succ m =>
      have hm : l.length ≤ m := by simpa using hn
      have hstep : fnTokens (c :: (l ++ rest)) (m + 1 + 1) = .one (.lit c) :: fnTokens (l ++ rest) (m + 1) := by
        rw [fnTokens]
        · intro hh; exact h1 hh
        · intro hh; exact h2 hh
        · intro hh; exact h3 hh
      simp only [List.cons_append, hstep, ih m hl' hm, lits, List.map_cons, List.length_cons]
      have : m + 1 - l.length = m + 1 + 1 - (l.length + 1) := by omega
      rw [this]

theorem starWith_true (f : List Char → Bool) (s : List Char) (h : f [] = true) :
    starWith (fun _ => true) f s = true := by
  induction s with
  | nil => simp [starWith, h]
  | cons c t ih => simp [starWith, ih]

theorem matchToks_lits (endOk : List Char → Bool) (l : List Char) (rest : List Tok) (s : List Char) :
    matchToks endOk (lits l ++ rest) s
      = (l.isPrefixOf s && matchToks endOk rest (s.drop l.length)) := by
  induction l generalizing s with
  | nil => simp [lits]
  | cons c l ih =>
    cases s with
    | nil => simp [lits, matchToks]
    | cons d t =>
      simp only [lits, List.map_cons, List.cons_append, matchToks, CharM.test, List.isPrefixOf,
        List.length_cons, List.drop_succ_cons]
      have := ih t
      simp only [lits] at this
      rw [this, Bool.and_assoc]

/-- a literal pattern followed by ` *` matches exactly the texts starting with `p ++ " "` -/
theorem fnmatch_literal_prefix (cmd np : String) (h : literal np.toList) :
    fnmatch cmd (np ++ " *") = (np.toList ++ [' ']).isPrefixOf cmd.toList := by
  unfold fnmatch
  have hlit : literal (np.toList ++ [' ']) := by
    intro c hc
    rcases List.mem_append.mp hc with h1 | h1
    · exact h c h1
    · simp at h1; subst h1; decide
  have hpat : (np ++ " *").toList = (np.toList ++ [' ']) ++ ['*'] := by simp
  rw [hpat]
  have hlen : ((np.toList ++ [' ']) ++ ['*']).length = (np.toList ++ [' ']).length + 1 := by simp
  rw [hlen, fnTokens_literal_append _ _ _ hlit (by omega)]
  rw [matchToks_lits]
  have hstar : ∀ k, fnTokens ['*'] (k + 1) = [.star] := by
    intro k; cases k <;> simp [fnTokens]
  have hk : (np.toList ++ [' ']).length + 1 + 1 - (np.toList ++ [' ']).length = 1 + 1 := by omega
  rw [hk, hstar]
  simp only [matchToks]
  rw [starWith_true _ _ (by simp [matchToks])]
  simp

/-- a literal pattern matches exactly itself -/
theorem fnmatch_literal_exact (cmd np : String) (h : literal np.toList) :
    fnmatch cmd np = (cmd.toList == np.toList) := by
  unfold fnmatch
  have := fnTokens_literal_append np.toList [] np.toList.length h (Nat.le_refl _)
  simp only [List.append_nil] at this
  rw [this]
  have hnil : fnTokens [] (np.toList.length + 1 - np.toList.length) = [] := by
    have : np.toList.length + 1 - np.toList.length = 0 + 1 := by omega
    rw [this]; simp [fnTokens]
  rw [hnil, matchToks_lits]
  simp only [matchToks]
  -- prefix and nothing left ⇔ equal
  generalize np.toList = p
  generalize cmd.toList = s
  induction p generalizing s with
  | nil => cases s <;> simp
  | cons c p ih =>
    cases s with
    | nil => simp
    | cons d t =>
      simp only [List.isPrefixOf, List.length_cons, List.drop_succ_cons]
      rw [Bool.and_assoc, ih t]
      by_cases hdc : d = c
      · simp [hdc]
      · have hcd : ¬ c = d := fun e => hdc e.symm
        have h1 : (c == d) = false := by simpa using hcd
        have h2 : (d == c) = false := by simpa using hdc
        rw [h1]
        simp [hdc]

end Dippy.Glob
