/-
The visitor of `SafetyAnalyzer` reaches every node: specification of "is a node of the tree" written
without reference to the visitor (`Child`, `Desc`), and the coverage theorem
`visit = [] → every node's own check is empty`.
-/
import Dippy.Model.PyAst

set_option linter.unusedSimpArgs false
set_option linter.unusedVariables false

namespace Dippy.PyAst

/-- `c` stands directly in a field of `n`: as the field's value or as a member of its list -/
inductive Child : PNode → PNode → Prop where
  | field {k l fs name c} : (name, PVal.node c) ∈ fs → Child (.mk k l fs) c
  | item {k l fs name items c} : (name, PVal.list items) ∈ fs → PItem.node c ∈ items → Child (.mk k l fs) c

/-- `c` is a node of the tree `t`, reached through nodes the visitor's class-specific methods pass on to
    `generic_visit` (everything except the names of a `global` statement and the aliases of a relative
    `from . import x`, which is refused outright) -/
inductive Desc : PNode → PNode → Prop where
  | refl {a} : Desc a a
  | step {a b c} : descends a = true → Child a b → Desc b c → Desc a c

variable (T : Tables)

theorem visitItems_nil (ap : Bool) (items : List PItem) (h : visitItems T ap items = []) :
    ∀ c, PItem.node c ∈ items → visit T ap c = [] := by
  induction items with
  | nil => intro c hc; cases hc
  | cons it rest ih =>
    intro c hc
    cases it with
    | node n =>
      simp only [visitItems, List.append_eq_nil_iff] at h
      rcases List.mem_cons.mp hc with heq | hin
      · cases heq; exact h.1
      · exact ih h.2 c hin
    | str s =>
      simp only [visitItems] at h
      rcases List.mem_cons.mp hc with heq | hin
      · cases heq
      · exact ih h c hin
    | other =>
      simp only [visitItems] at h
      rcases List.mem_cons.mp hc with heq | hin
      · cases heq
      · exact ih h c hin

theorem visitFields_nil (ap : Bool) (fs : List (String × PVal)) (h : visitFields T ap fs = []) :
    ∀ name v, (name, v) ∈ fs → visitVal T ap v = [] := by
  induction fs with
  | nil => intro name v hv; cases hv
  | cons kv rest ih =>
    intro name v hv
    obtain ⟨k, x⟩ := kv
    simp only [visitFields, List.append_eq_nil_iff] at h
    rcases List.mem_cons.mp hv with heq | hin
    · cases heq; exact h.1
    · exact ih h.2 name v hin

/-- one level: an approved node's own check is empty and so is the visit of each of its children -/
theorem visit_nil_step (ap : Bool) (n : PNode) (h : visit T ap n = []) :
    localViolations T ap n = [] ∧ (descends n = true → ∀ c, Child n c → visit T ap c = []) := by
  obtain ⟨k, l, fs⟩ := n
  simp only [visit, List.append_eq_nil_iff] at h
  refine ⟨h.1, ?_⟩
  intro hd c hc
  have hf : visitFields T ap fs = [] := by simpa [hd] using h.2
  cases hc with
  | field hm =>
    have := visitFields_nil T ap fs hf _ _ hm
    simpa [visitVal] using this
  | item hm hi =>
    have := visitFields_nil T ap fs hf _ _ hm
    simp only [visitVal] at this
    exact visitItems_nil T ap _ this c hi

/-- **the visitor reaches every node**: if the analysis of a tree reports nothing, then the class-specific
    check of every node of the tree – at any depth, in any field – reports nothing -/
theorem visit_covers (ap : Bool) (t n : PNode) (h : visit T ap t = []) (hd : Desc t n) :
    localViolations T ap n = [] := by
  induction hd with
  | refl => exact (visit_nil_step T ap _ h).1
  | step hdesc hc _ ih => exact ih ((visit_nil_step T ap _ h).2 hdesc _ hc)

/-- … and conversely nothing else is reported: every violation comes from some node's own check -/
theorem visit_only_local (ap : Bool) :
    (∀ t : PNode, ∀ v ∈ visit T ap t, ∃ n, Desc t n ∧ v ∈ localViolations T ap n) := by
  intro t
  -- strong induction on the tree via the size of the term is awkward for nested inductives: use the
  -- mutual recursor through an auxiliary statement on fields and items
  exact
    @PNode.rec
      (fun t => ∀ v ∈ visit T ap t, ∃ n, Desc t n ∧ v ∈ localViolations T ap n)
      (fun pv => ∀ v ∈ visitVal T ap pv, ∃ c n, (pv = .node c ∨ ∃ items, pv = .list items ∧ PItem.node c ∈ items) ∧ Desc c n ∧ v ∈ localViolations T ap n)
      (fun it => ∀ v, (∀ c, it = .node c → v ∈ visit T ap c → ∃ n, Desc c n ∧ v ∈ localViolations T ap n))
      (fun fs => ∀ v ∈ visitFields T ap fs, ∃ name pv c n, (name, pv) ∈ fs ∧ (pv = .node c ∨ ∃ items, pv = .list items ∧ PItem.node c ∈ items) ∧ Desc c n ∧ v ∈ localViolations T ap n)
      (fun items => ∀ v ∈ visitItems T ap items, ∃ c n, PItem.node c ∈ items ∧ Desc c n ∧ v ∈ localViolations T ap n)
      (fun kv => ∀ v ∈ visitVal T ap kv.2, ∃ c n, (kv.2 = .node c ∨ ∃ items, kv.2 = .list items ∧ PItem.node c ∈ items) ∧ Desc c n ∧ v ∈ localViolations T ap n)
      (by
        intro k l fs ih v hv
        simp only [visit, List.mem_append] at hv
        rcases hv with hv | hv
        · exact ⟨_, .refl, hv⟩
        · by_cases hd : descends (.mk k l fs) = true
          · simp only [hd, ↓reduceIte] at hv
            obtain ⟨name, pv, c, n, hm, hshape, hdesc, hin⟩ := ih v hv
            refine ⟨n, ?_, hin⟩
            rcases hshape with rfl | ⟨items, rfl, hi⟩
            · exact .step hd (.field hm) hdesc
            · exact .step hd (.item hm hi) hdesc
          · simp [hd] at hv)
      (by
        intro n ih v hv
        simp only [visitVal] at hv
        obtain ⟨m, hdm, hin⟩ := ih v hv
        exact ⟨n, m, Or.inl rfl, hdm, hin⟩)
      (by
        intro items ih v hv
        simp only [visitVal] at hv
        obtain ⟨c, n, hi, hdm, hin⟩ := ih v hv
        exact ⟨c, n, Or.inr ⟨items, rfl, hi⟩, hdm, hin⟩)
      (by intro s v hv; simp [visitVal] at hv)
      (by intro v hv; simp [visitVal] at hv)
      (by intro v hv; simp [visitVal] at hv)
      (by
        intro n ih v c hc hv
        cases hc
        exact ih v hv)
      (by intro s v c hc; cases hc)
      (by intro v c hc; cases hc)
      (by intro v hv; simp [visitFields] at hv)
      (by
        intro kv rest ihkv ihrest v hv
        obtain ⟨name, pv⟩ := kv
        simp only [visitFields, List.mem_append] at hv
        rcases hv with hv | hv
        · obtain ⟨c, n, hshape, hdm, hin⟩ := ihkv v hv
          exact ⟨name, pv, c, n, by simp, hshape, hdm, hin⟩
        · obtain ⟨name', pv', c, n, hm, hshape, hdm, hin⟩ := ihrest v hv
          exact ⟨name', pv', c, n, by simp [hm], hshape, hdm, hin⟩)
      (by intro v hv; simp [visitItems] at hv)
      (by
        intro it rest ihit ihrest v hv
        cases it with
        | node c =>
          simp only [visitItems, List.mem_append] at hv
          rcases hv with hv | hv
          · obtain ⟨n, hdm, hin⟩ := ihit v c rfl hv
            exact ⟨c, n, by simp, hdm, hin⟩
          · obtain ⟨c', n, hi, hdm, hin⟩ := ihrest v hv
            exact ⟨c', n, by simp [hi], hdm, hin⟩
        | str s =>
          simp only [visitItems] at hv
          obtain ⟨c', n, hi, hdm, hin⟩ := ihrest v hv
          exact ⟨c', n, by simp [hi], hdm, hin⟩
        | other =>
          simp only [visitItems] at hv
          obtain ⟨c', n, hi, hdm, hin⟩ := ihrest v hv
          exact ⟨c', n, by simp [hi], hdm, hin⟩)
      (by intro s pv ih v hv; exact ih v hv)
      t

end Dippy.PyAst
