/-
Structural facts about the walk (`aNode` and friends): list helpers are maps,
every composite's action is the join of its parts' actions (R1).
-/
import Dippy.Model.Analyzer
import Dippy.Lemmas.Combine

namespace Dippy

/-- the actions of a list of decisions -/
def acts (ds : List Decision) : List Action := ds.map (·.action)

@[simp] theorem acts_nil : acts [] = [] := rfl
@[simp] theorem acts_cons (d : Decision) (ds : List Decision) : acts (d :: ds) = d.action :: acts ds := rfl
@[simp] theorem acts_append (xs ys : List Decision) : acts (xs ++ ys) = acts xs ++ acts ys := by
  simp [acts]

theorem combine_act (ds : List Decision) : (combine ds).action = supList (acts ds) :=
  combine_action ds

/-- the `if ds.isEmpty then allow … else combine ds` idiom still takes the join -/
theorem combine_or_allow (ds : List Decision) (r : String) :
    (if ds.isEmpty then (⟨.allow, r⟩ : Decision) else combine ds).action = supList (acts ds) := by
  cases ds with
  | nil => rfl
  | cons d ds => simp [combine_act]

/-- the pipeline/list idiom (re-join reasons when everything is allowed) keeps the action -/
theorem rejoin_action (ds : List Decision) :
    (let r := combine ds
     if r.action = .allow then (⟨.allow, joinComma (ds.map (·.reason))⟩ : Decision) else r).action
      = supList (acts ds) := by
  simp only
  split
  · next h => rw [← combine_act, h]
  · exact combine_act ds

@[simp] theorem wrapNonAllow_action (p : String) (d : Decision) :
    (wrapNonAllow p d).action = d.action := by
  unfold wrapNonAllow; split <;> rfl

section
variable (w : World) (rec : Rec) (h : HelpTables)

theorem aNodes_eq_map (ns : List Node) (cwd : String) (r : Bool) :
    aNodes w rec h ns cwd r = ns.map (fun n => aNode w rec h n cwd r) := by
  induction ns with
  | nil => simp [aNodes]
  | cons n ns ih => simp [aNodes, ih]

theorem aListParts_eq (ns : List Node) (cwd : String) (r : Bool) :
    aListParts w rec h ns cwd r
      = (ns.filter (fun n => !isOperator n)).map (fun n => aNode w rec h n cwd r) := by
  induction ns with
  | nil => simp [aListParts]
  | cons n ns ih =>
    by_cases hn : isOperator n = true
    · simp [aListParts, hn, ih]
    · simp [aListParts, hn, ih]

theorem aListPartsCd_eq (ns : List Node) (cwd0 cwd : String) (r : Bool) :
    aListPartsCd w rec h ns cwd0 cwd r
      = (match ns.filter (fun n => !isOperator n) with
         | [] => []
         | p :: ps => aNode w rec h p cwd0 r :: ps.map (fun n => aNode w rec h n cwd r)) := by
  induction ns with
  | nil => simp [aListPartsCd]
  | cons n ns ih =>
    by_cases hn : isOperator n = true
    · simp [aListPartsCd, hn, ih]
    · simp [aListPartsCd, hn, aListParts_eq]

theorem aOptNode_acts (e : Option Node) (cwd : String) (r : Bool) :
    acts (aOptNode w rec h e cwd r) = (e.map (fun n => (aNode w rec h n cwd r).action)).toList := by
  cases e <;> simp [aOptNode]

end
end Dippy
