/-
Helper lemmas about the shell handler model (`shellTakesValue`, `sw`): used by Props/C04.
-/
import Dippy.Model.Wrappers

namespace Dippy.W
open Dippy Generated.H

theorem sw_dash (t : String) : sw t "-" = (t.toList.head? == some '-') := by
  unfold sw Py.startsWith
  have : "-".toList = ['-'] := rfl
  rw [this]
  cases h : t.toList with
  | nil => simp
  | cons a l => simp [List.isPrefixOf]; exact Bool.beq_comm

theorem sw_plus (t : String) : sw t "+" = (t.toList.head? == some '+') := by
  unfold sw Py.startsWith
  have : "+".toList = ['+'] := rfl
  rw [this]
  cases h : t.toList with
  | nil => simp
  | cons a l => simp [List.isPrefixOf]; exact Bool.beq_comm

theorem takesValue_option (t : String) (h : shellTakesValue t = true) :
    (sw t "-" = true ∨ sw t "+" = true) ∧ t ≠ "--" := by
  simp only [shellTakesValue, Bool.or_eq_true] at h
  rcases h with h | h
  · have hall : shell__OPTIONS_WITH_VALUE.all (fun t => sw t "-" && !(t == "--")) = true := by decide +kernel
    have hm : t ∈ shell__OPTIONS_WITH_VALUE := by simpa using h
    have := List.all_eq_true.mp hall t hm
    simp only [Bool.and_eq_true, Bool.not_eq_true', beq_eq_false_iff_ne, ne_eq] at this
    exact ⟨Or.inl this.1, this.2⟩
  · rw [sw_dash, sw_plus]
    cases ht : t.toList with
    | nil => simp [ht] at h
    | cons c0 l =>
      cases l with
      | nil => simp [ht] at h
      | cons c1 rest =>
        simp only [ht, Bool.and_eq_true, Bool.or_eq_true, beq_iff_eq, bne_iff_ne, ne_eq] at h
        refine ⟨by simpa using h.1.1, ?_⟩
        intro he
        subst he
        simp at ht
        exact h.1.2 ht.2.1.symm

theorem not_option_no_value (w : String) (hw : sw w "-" = false ∧ sw w "+" = false) : shellTakesValue w = false := by
  cases h : shellTakesValue w with
  | false => rfl
  | true =>
    have := (takesValue_option w h).1
    rcases this with h1 | h1
    · rw [hw.1] at h1; cases h1
    · rw [hw.2] at h1; cases h1

end Dippy.W
