/-
Lemmas for the round trip `shellWords (bashJoin ts) = ts`.
-/
import Dippy.Model.Quote

namespace Dippy

set_option linter.unusedSimpArgs false

/-- a sound `alnum`: it accepts no blank, quote or shell metacharacter -/
def SoundAlnum (alnum : Char → Bool) : Prop := ∀ c, alnum c = true → shellSpecial c = false

theorem safeExtra_not_special (c : Char) (h : safeExtra.contains c = true) : shellSpecial c = false := by
  simp only [safeExtra, List.contains_eq_mem, List.mem_cons, List.not_mem_nil, or_false, decide_eq_true_eq] at h
  rcases h with h | h | h | h | h | h | h <;> subst h <;> decide

theorem safe_not_special {alnum : Char → Bool} (hs : SoundAlnum alnum) (c : Char)
    (h : isSafeChar alnum c = true) : shellSpecial c = false := by
  unfold isSafeChar at h
  cases ha : alnum c with
  | true => exact hs c ha
  | false =>
    rw [ha] at h
    exact safeExtra_not_special c (by simpa using h)

theorem special_parts (c : Char) (h : shellSpecial c = false) :
    isBlank c = false ∧ c ≠ '\'' ∧ c ≠ '"' ∧ isMetaChar c = false := by
  unfold shellSpecial at h
  simp only [Bool.or_eq_false_iff, decide_eq_false_iff_not] at h
  exact ⟨h.1.1.1, h.1.1.2, h.1.2, h.2⟩

/-- an unquoted run of safe characters is read literally -/
theorem lex_word_safe {alnum : Char → Bool} (hs : SoundAlnum alnum) (s rest cur : List Char)
    (hall : s.all (isSafeChar alnum) = true) :
    lexWords .word cur (s ++ rest) = lexWords .word (s.reverse ++ cur) rest := by
  induction s generalizing cur with
  | nil => simp
  | cons c s ih =>
    simp only [List.all_cons, Bool.and_eq_true] at hall
    obtain ⟨hb, hq, hd, hm⟩ := special_parts c (safe_not_special hs c hall.1)
    simp only [List.cons_append, lexWords, hb, Bool.false_eq_true, ↓reduceIte, hq, hd, hm]
    rw [ih _ hall.2]
    simp

/-- … and so is the first character of a word -/
theorem lex_out_safe {alnum : Char → Bool} (hs : SoundAlnum alnum) (c : Char) (s rest x : List Char)
    (hall : (c :: s).all (isSafeChar alnum) = true) :
    lexWords .out x ((c :: s) ++ rest) = lexWords .word (c :: s).reverse rest := by
  simp only [List.all_cons, Bool.and_eq_true] at hall
  obtain ⟨hb, hq, hd, hm⟩ := special_parts c (safe_not_special hs c hall.1)
  simp only [List.cons_append, lexWords, hb, Bool.false_eq_true, ↓reduceIte, hq, hd, hm]
  rw [lex_word_safe hs _ _ _ hall.2]
  simp

/-- the body of a single-quoted string produced by `escapeSq` reads back as the original -/
theorem lex_sq_escape (s rest cur : List Char) :
    lexWords .sq cur (escapeSq s ++ '\'' :: rest) = lexWords .word (s.reverse ++ cur) rest := by
  induction s generalizing cur with
  | nil => simp [escapeSq, lexWords]
  | cons c s ih =>
    by_cases hc : c = '\''
    · subst hc
      simp only [escapeSq, ↓reduceIte, List.cons_append, lexWords]
      simp only [show ¬ ('"' : Char) = '\'' by decide, show ¬ ('\'' : Char) = '"' by decide, ↓reduceIte,
        show isBlank '"' = false by decide, show isBlank '\'' = false by decide, Bool.false_eq_true, show (('\'' : Char) = '\\' || ('\'' : Char) = '$' || ('\'' : Char) = '`' || ('\'' : Char) = '!') = false by decide]
      rw [ih]
      simp
    · simp only [escapeSq, hc, ↓reduceIte, List.cons_append, lexWords]
      rw [ih]
      simp

theorem escapeSq_length (s : List Char) : s.length ≤ (escapeSq s).length := by
  induction s with
  | nil => simp [escapeSq]
  | cons c s ih =>
    unfold escapeSq
    split <;> simp <;> omega

theorem escapeSq_no_quote (s : List Char) (h : ∀ c ∈ s, c ≠ '\'') : escapeSq s = s := by
  induction s with
  | nil => rfl
  | cons c s ih =>
    have hc : c ≠ '\'' := h c (by simp)
    simp only [escapeSq, hc, ↓reduceIte]
    rw [ih (fun x hx => h x (by simp [hx]))]

theorem lex_out_sq (t rest x : List Char) :
    lexWords .out x ('\'' :: (escapeSq t ++ ['\'']) ++ rest) = lexWords .word t.reverse rest := by
  simp only [List.cons_append, List.append_assoc, lexWords, show isBlank '\'' = false by decide,
    Bool.false_eq_true, ↓reduceIte]
  have := lex_sq_escape t rest []
  simpa using this

/-- what `bash_quote t` followed by anything reads back as: the word `t` so far -/
theorem lex_out_quote {alnum : Char → Bool} (hs : SoundAlnum alnum) (t rest x : List Char) :
    lexWords .out x (bashQuoteL alnum t ++ rest) = lexWords .word t.reverse rest := by
  unfold bashQuoteL
  cases t with
  | nil =>
    simp [lexWords, show isBlank '\'' = false by decide]
  | cons c s =>
    simp only [List.isEmpty_cons, Bool.false_eq_true, ↓reduceIte]
    by_cases hall : (c :: s).all (isSafeChar alnum) = true
    · rw [if_pos hall]
      exact lex_out_safe hs c s rest x hall
    · rw [if_neg hall]
      exact lex_out_sq (c :: s) rest x

/-- the same for the first token, which may have been quoted although it is safe -/
theorem lex_out_quoteFirst {alnum : Char → Bool} (hs : SoundAlnum alnum) (t rest x : List Char) :
    lexWords .out x (quoteFirstL alnum t ++ rest) = lexWords .word t.reverse rest := by
  unfold quoteFirstL
  by_cases h : bashQuoteL alnum t = t ∧ isAssignWord (String.ofList t) = true
  · simp only [h, and_self, ↓reduceIte]
    -- `t` is unchanged by `bash_quote`, so it holds no single quote
    have hnq : ∀ c ∈ t, c ≠ '\'' := by
      intro c hc hq
      subst hq
      have h1 := h.1
      unfold bashQuoteL at h1
      cases t with
      | nil => simp at hc
      | cons a s =>
        simp only [List.isEmpty_cons, Bool.false_eq_true, ↓reduceIte] at h1
        by_cases hall : (a :: s).all (isSafeChar alnum) = true
        · have := List.all_eq_true.mp hall '\'' hc
          have := safe_not_special hs '\'' this
          revert this; decide
        · rw [if_neg hall] at h1
          have hl := congrArg List.length h1
          have := escapeSq_length (a :: s)
          simp at hl
          simp at this
          omega
    have := lex_out_sq t rest x
    rw [escapeSq_no_quote t hnq] at this
    exact this
  · simp only [h, ↓reduceIte]
    exact lex_out_quote hs t rest x

theorem lex_word_end (cur : List Char) : lexWords .word cur [] = some [cur.reverse] := rfl

theorem lex_word_blank (cur more : List Char) :
    lexWords .word cur (' ' :: more) = (lexWords .out [] more).map (cur.reverse :: ·) := by
  simp [lexWords, show isBlank ' ' = true by decide]

/-- pieces `qs` that each read back as the corresponding word of `ts` -/
theorem lex_join (qs ts : List (List Char)) (hlen : qs.length = ts.length)
    (h : ∀ i (hi : i < qs.length), ∀ rest x,
      lexWords .out x (qs[i] ++ rest) = lexWords .word (ts[i]'(hlen ▸ hi)).reverse rest) :
    lexWords .out [] (joinSp qs) = some ts := by
  induction qs generalizing ts with
  | nil =>
    cases ts with
    | nil => rfl
    | cons _ _ => simp at hlen
  | cons q qs ih =>
    cases ts with
    | nil => simp at hlen
    | cons t ts =>
      have h0 := h 0 (by simp)
      simp only [List.getElem_cons_zero] at h0
      cases qs with
      | nil =>
        cases ts with
        | nil =>
          have := h0 [] []
          simp only [List.append_nil] at this
          simp only [joinSp]
          rw [this, lex_word_end]
          simp
        | cons _ _ => simp at hlen
      | cons q2 qs2 =>
        simp only [joinSp]
        rw [h0, lex_word_blank]
        have hlen' : (q2 :: qs2).length = ts.length := by simpa using hlen
        have := ih ts hlen' (fun i hi rest x => by
          have := h (i + 1) (by simp at hi ⊢; omega) rest x
          simpa using this)
        rw [this]
        simp

end Dippy
