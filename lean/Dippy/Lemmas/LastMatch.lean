/-
R3: `lastMatch p xs` (the loop "iterate all rules, keep the last match") is the last
element of the filtered list; non-matching rules are inert.
-/
import Dippy.Model.Config

set_option linter.unusedSimpArgs false

namespace Dippy

theorem lastMatch_foldl {α : Type} (p : α → Bool) (xs : List α) (init : Option α) :
    xs.foldl (fun acc x => if p x then some x else acc) init
      = match (xs.filter p).getLast? with
        | some y => some y
        | none => init := by
  induction xs generalizing init with
  | nil => simp
  | cons x xs ih =>
    simp only [List.foldl_cons]
    rw [ih]
    by_cases hx : p x = true
    · simp only [hx, ↓reduceIte, List.filter_cons_of_pos]
      cases hf : xs.filter p with
      | nil => simp
      | cons y ys =>
        simp only [List.getLast?_cons_cons]
        cases hl : (y :: ys).getLast? with
        | none => simp at hl
        | some z => rfl
    · simp [hx]

/-- last match wins -/
theorem lastMatch_eq {α : Type} (p : α → Bool) (xs : List α) :
    lastMatch p xs = (xs.filter p).getLast? := by
  unfold lastMatch
  rw [lastMatch_foldl]
  cases (xs.filter p).getLast? <;> rfl

theorem lastMatch_append {α : Type} (p : α → Bool) (xs ys : List α) :
    lastMatch p (xs ++ ys) = match lastMatch p ys with
      | some y => some y
      | none => lastMatch p xs := by
  unfold lastMatch
  rw [List.foldl_append, lastMatch_foldl p ys, ← lastMatch_eq]
  rfl

/-- a rule that does not match is inert, wherever it stands -/
theorem lastMatch_inert {α : Type} (p : α → Bool) (a b : List α) (r : α) (h : p r = false) :
    lastMatch p (a ++ r :: b) = lastMatch p (a ++ b) := by
  rw [lastMatch_eq, lastMatch_eq]
  simp [List.filter_append, List.filter_cons, h]

/-- whatever the list, the result satisfies `p` and is a member -/
theorem lastMatch_some {α : Type} {p : α → Bool} {xs : List α} {x : α} (h : lastMatch p xs = some x) :
    x ∈ xs ∧ p x = true := by
  rw [lastMatch_eq] at h
  have := List.mem_of_getLast? h
  simpa [List.mem_filter] using this

theorem lastMatch_none {α : Type} {p : α → Bool} {xs : List α} :
    lastMatch p xs = none ↔ ∀ x ∈ xs, p x = false := by
  rw [lastMatch_eq]
  simp [List.getLast?_eq_none_iff, List.filter_eq_nil_iff]

/-- appending one rule: it decides exactly when it matches -/
theorem lastMatch_snoc {α : Type} (p : α → Bool) (xs : List α) (r : α) :
    lastMatch p (xs ++ [r]) = if p r then some r else lastMatch p xs := by
  rw [lastMatch_append]
  by_cases h : p r = true <;> simp [lastMatch, h]

/-- inserting one rule anywhere: the result is the old result or the new rule -/
theorem lastMatch_insert {α : Type} (p : α → Bool) (a b : List α) (r : α) :
    lastMatch p (a ++ r :: b) = lastMatch p (a ++ b) ∨ (lastMatch p (a ++ r :: b) = some r ∧ p r = true) := by
  by_cases h : p r = true
  · rw [lastMatch_append p a (r :: b), lastMatch_append p a b]
    have hb : lastMatch p (r :: b) = match lastMatch p b with
        | some y => some y
        | none => some r := by
      have := lastMatch_append p [r] b
      simp only [List.singleton_append] at this
      rw [this]; simp [lastMatch, h]
    rw [hb]
    cases hlb : lastMatch p b with
    | some y => left; rfl
    | none => right; exact ⟨rfl, h⟩
  · left; exact lastMatch_inert p a b r (by simpa using h)

end Dippy
