/-
The message escaping round trip: `_unescape (escape m) = m` and
`_extract_message (p ++ " \"" ++ escape m ++ "\"") = (p, m)`.
`escape` is the canonical writer (the repo has none): `\` ↦ `\\`, `"` ↦ `\"`.
-/
import Dippy.Model.Config

set_option linter.unusedSimpArgs false

namespace Dippy

/-- the writer's escaping of a message -/
def escapeL : List Char → List Char
  | [] => []
  | '\\' :: t => '\\' :: '\\' :: escapeL t
  | '"' :: t => '\\' :: '"' :: escapeL t
  | c :: t => c :: escapeL t

theorem unescape_escape (m : List Char) : unescapeL (escapeL m) = m := by
  induction m with
  | nil => rfl
  | cons c t ih =>
    by_cases h1 : c = '\\'
    · subst h1; simp [escapeL, unescapeL, ih]
    · by_cases h2 : c = '"'
      · subst h2; simp [escapeL, unescapeL, ih]
      · have he : escapeL (c :: t) = c :: escapeL t := by
          rw [escapeL]
          · intro hh; exact h1 hh
          · intro hh; exact h2 hh
        rw [he]
        have hu : ∀ rest, unescapeL (c :: rest) = c :: unescapeL rest := by
          intro rest
          rw [unescapeL]
          · intro t' hh _; exact h1 hh
          · intro t' hh _; exact h1 hh
        rw [hu, ih]

/-- In the reversed escaped text every `"` is followed (i.e. preceded in reading order) by a
    backslash, and the leading run of backslashes has even length.  We track both with one
    invariant on a forward scan: `escapeL m` is a concatenation of blocks `\\`, `\"` and single
    characters that are neither `\` nor `"`. -/
inductive Blocks : List Char → Prop where
  | nil : Blocks []
  | bs (t : List Char) : Blocks t → Blocks ('\\' :: '\\' :: t)
  | q (t : List Char) : Blocks t → Blocks ('\\' :: '"' :: t)
  | ch (c : Char) (t : List Char) : c ≠ '\\' → c ≠ '"' → Blocks t → Blocks (c :: t)

theorem blocks_escape (m : List Char) : Blocks (escapeL m) := by
  induction m with
  | nil => exact .nil
  | cons c t ih =>
    by_cases h1 : c = '\\'
    · subst h1; simp only [escapeL]; exact .bs _ ih
    · by_cases h2 : c = '"'
      · subst h2; simp only [escapeL]; exact .q _ ih
      · have he : escapeL (c :: t) = c :: escapeL t := by
          rw [escapeL]
          · intro hh; exact h1 hh
          · intro hh; exact h2 hh
        rw [he]; exact .ch c _ h1 h2 ih

end Dippy

namespace Dippy

/-- the reversed escaped text, computed from the reversed message -/
def escRev : List Char → List Char
  | [] => []
  | '\\' :: t => '\\' :: '\\' :: escRev t
  | '"' :: t => '"' :: '\\' :: escRev t
  | c :: t => c :: escRev t

theorem escapeL_append (a b : List Char) : escapeL (a ++ b) = escapeL a ++ escapeL b := by
  induction a with
  | nil => rfl
  | cons c t ih =>
    by_cases h1 : c = '\\'
    · subst h1; simp [escapeL, ih]
    · by_cases h2 : c = '"'
      · subst h2; simp [escapeL, ih]
      · have he : ∀ rest, escapeL (c :: rest) = c :: escapeL rest := by
          intro rest
          rw [escapeL]
          · intro hh; exact h1 hh
          · intro hh; exact h2 hh
        simp [he, ih]

theorem escRev_cons_other (c : Char) (t : List Char) (h1 : c ≠ '\\') (h2 : c ≠ '"') :
    escRev (c :: t) = c :: escRev t := by
  rw [escRev]
  · intro hh; exact h1 hh
  · intro hh; exact h2 hh

theorem escapeL_singleton_rev (c : Char) : (escapeL [c]).reverse = escRev [c] := by
  by_cases h1 : c = '\\'
  · subst h1; rfl
  · by_cases h2 : c = '"'
    · subst h2; rfl
    · rw [escRev_cons_other c [] h1 h2]
      have : escapeL [c] = [c] := by
        rw [escapeL]
        · rfl
        · intro hh; exact h1 hh
        · intro hh; exact h2 hh
      rw [this]; rfl

theorem escRev_cons (c : Char) (t : List Char) : escRev (c :: t) = escRev [c] ++ escRev t := by
  by_cases h1 : c = '\\'
  · subst h1; rfl
  · by_cases h2 : c = '"'
    · subst h2; rfl
    · rw [escRev_cons_other c t h1 h2, escRev_cons_other c [] h1 h2]; rfl

theorem escape_reverse (m : List Char) : (escapeL m).reverse = escRev m.reverse := by
  induction m with
  | nil => rfl
  | cons c t ih =>
    have : c :: t = [c] ++ t := rfl
    rw [this, escapeL_append, List.reverse_append, ih, escapeL_singleton_rev]
    simp only [List.reverse_append, List.reverse_cons, List.reverse_nil, List.nil_append]
    -- escRev (t.reverse ++ [c]) = escRev t.reverse ++ escRev [c]
    generalize t.reverse = r
    induction r with
    | nil => simp [escRev]
    | cons d r ihr =>
      rw [List.cons_append, escRev_cons d (r ++ [c]), escRev_cons d r, List.append_assoc, ihr]

theorem isSpace_backslash : Py.isSpace '\\' = false := by decide
theorem isSpace_quote : Py.isSpace '"' = false := by decide
theorem isSpace_space : Py.isSpace ' ' = true := by decide

/-- the backslash run right before the closing quote is even -/
theorem escRev_bs_even (r rest : List Char) :
    ((escRev r ++ '"' :: rest).takeWhile (· == '\\')).length % 2 = 0 := by
  induction r with
  | nil => simp [escRev]
  | cons c t ih =>
    by_cases h1 : c = '\\'
    · subst h1
      simp only [escRev, List.cons_append, List.takeWhile_cons, beq_self_eq_true, ↓reduceIte, List.length_cons]
      omega
    · by_cases h2 : c = '"'
      · subst h2; simp [escRev]
      · rw [escRev_cons_other c t h1 h2]
        simp [List.takeWhile_cons, h1]

/-- the backward search skips every quote of the escaped message and stops at the opening quote -/
theorem findOpenQuote_escRev (r rest acc : List Char) :
    findOpenQuote (escRev r ++ '"' :: ' ' :: rest) acc = some (' ' :: rest, (escRev r).reverse ++ acc) := by
  induction r generalizing acc with
  | nil => simp [escRev, findOpenQuote, isSpace_space]
  | cons c t ih =>
    by_cases h1 : c = '\\'
    · subst h1
      simp only [escRev, List.cons_append]
      rw [findOpenQuote, findOpenQuote, ih]
      · simp
      · intro hh; cases hh
      · intro hh; cases hh
    · by_cases h2 : c = '"'
      · subst h2
        simp only [escRev, List.cons_append]
        rw [findOpenQuote]
        simp only [isSpace_backslash, Bool.false_eq_true, ↓reduceIte]
        rw [findOpenQuote, ih]
        · simp
        · intro hh; cases hh
      · rw [escRev_cons_other c t h1 h2]
        simp only [List.cons_append]
        rw [findOpenQuote, ih]
        · simp
        · intro hh; exact h2 hh

theorem rstripL_snoc_nonspace (x : List Char) (c : Char) (hc : Py.isSpace c = false) :
    Py.rstripL Py.isSpace (x ++ [c]) = x ++ [c] := by
  unfold Py.rstripL
  simp [Py.lstripL, hc]

theorem rstripL_snoc_space (x : List Char) : Py.rstripL Py.isSpace (x ++ [' ']) = Py.rstripL Py.isSpace x := by
  unfold Py.rstripL
  simp [Py.lstripL, isSpace_space]

/-- `_extract_message` reads back what the writer wrote: any pattern without trailing
    whitespace, any message (every character, including quotes and backslashes) -/
theorem extract_render (p m : List Char) (hp : p ≠ []) (hps : Py.rstripL Py.isSpace p = p) :
    extractMessage (String.ofList (p ++ [' ', '"'] ++ escapeL m ++ ['"']))
      = .ok (String.ofList p) (some (String.ofList m)) := by
  unfold extractMessage
  simp only [String.toList_ofList]
  rw [rstripL_snoc_nonspace _ _ isSpace_quote]
  have hrev : (p ++ [' ', '"'] ++ escapeL m ++ ['"']).reverse
      = '"' :: (escRev m.reverse ++ '"' :: ' ' :: p.reverse) := by
    simp [escape_reverse]
  rw [hrev]
  simp only
  have heven := escRev_bs_even m.reverse (' ' :: p.reverse)
  have hne : ¬ ((List.takeWhile (fun x => x == '\\') (escRev m.reverse ++ '"' :: ' ' :: p.reverse)).length % 2 == 1) = true := by
    simp [heven]
  simp only [hne, Bool.false_eq_true, ↓reduceIte]
  rw [findOpenQuote_escRev]
  simp only [List.append_nil]
  have h1 : (' ' :: p.reverse).reverse = p ++ [' '] := by simp
  rw [h1, rstripL_snoc_space, hps]
  have hpe : p.isEmpty = false := by cases p <;> simp_all
  simp only [hpe, Bool.false_eq_true, ↓reduceIte]
  rw [← escape_reverse, List.reverse_reverse, unescape_escape]

end Dippy
