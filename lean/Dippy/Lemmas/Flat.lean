/-
R1, flattened: the verdict of any tree is the join of the verdicts of its atoms.
One mutual structural induction over the AST; everything downstream is list reasoning.
-/
import Dippy.Model.Flat
import Dippy.Lemmas.Walk

set_option linter.unusedSimpArgs false
set_option linter.unusedVariables false

namespace Dippy

/-- join of the actions of a list of decisions -/
def S (ds : List Decision) : Action := supList (acts ds)

@[simp] theorem S_nil : S [] = .allow := rfl
@[simp] theorem S_append (a b : List Decision) : S (a ++ b) = Action.sup (S a) (S b) := by
  simp [S]
@[simp] theorem S_cons (d : Decision) (ds : List Decision) : S (d :: ds) = Action.sup d.action (S ds) := by
  simp [S]
theorem S_singleton (d : Decision) : S [d] = d.action := by simp [S]

section
variable (w : World) (rec : Rec) (h : HelpTables)

/-- join over the decisions of a list of atoms -/
def L (as : List Atom) : Action := S (as.flatMap (atomDecisions w rec h))

@[simp] theorem L_nil : L w rec h [] = .allow := rfl
@[simp] theorem L_append (a b : List Atom) : L w rec h (a ++ b) = Action.sup (L w rec h a) (L w rec h b) := by
  simp [L, List.flatMap_append]
@[simp] theorem L_cons (a : Atom) (as : List Atom) :
    L w rec h (a :: as) = Action.sup (S (atomDecisions w rec h a)) (L w rec h as) := by
  simp [L, List.flatMap_cons]

theorem S_injectionRisk (ctx : CmdCtx) (wd : Word) (pos : Nat) :
    S (injectionRisk w ctx wd pos) = .allow ∨ S (injectionRisk w ctx wd pos) = .ask := by
  unfold injectionRisk
  split
  · split
    · right; simp [S]
    · left; rfl
  · left; rfl

theorem sup_inject_of_nonallow (a : Action) (ctx : CmdCtx) (wd : Word) (pos : Nat) (ha : a ≠ .allow) :
    Action.sup a (S (injectionRisk w ctx wd pos)) = a := by
  rcases S_injectionRisk w ctx wd pos with h1 | h1 <;> rw [h1] <;> cases a <;> simp_all [Action.sup]

theorem combine_S (ds : List Decision) : (combine ds).action = S ds := combine_act ds

theorem combine_or_allow_S (ds : List Decision) (r : String) :
    (if ds.isEmpty then (⟨.allow, r⟩ : Decision) else combine ds).action = S ds :=
  combine_or_allow ds r

theorem rejoin_S (ds : List Decision) :
    (let r := combine ds
     if r.action = .allow then (⟨.allow, joinComma (ds.map (·.reason))⟩ : Decision) else r).action = S ds :=
  rejoin_action ds

theorem text_atom_S (ps : Bool) (s : Option String) (cwd : String) (r : Bool) :
    S (atomDecisions w rec h (.text ps s cwd r)) = S (scanArg rec ps s cwd r) := rfl

theorem L_texts (ps : Bool) (ts : List String) (cwd : String) (r : Bool) :
    L w rec h (ts.map fun t => Atom.text ps (some t) cwd r) = S (ts.flatMap fun t => scanArg rec ps (some t) cwd r) := by
  induction ts with
  | nil => rfl
  | cons t ts ih => simp [L_cons, atomDecisions, List.flatMap_cons, ih]

theorem scanArg_some (ps : Bool) (t : String) (cwd : String) (r : Bool) :
    S (scanArg rec ps (some t) cwd r) = S (scanDecisions rec ps t cwd r) := by
  unfold scanArg Py.truthy
  by_cases ht : t.isEmpty = true
  · have : t = "" := by simpa using ht
    subst this
    simp [scanDecisions, scanItems, scanAux]
  · simp [ht]

theorem S_flatMap_congr {α : Type} (l : List α) (f g : α → List Decision) (hfg : ∀ a ∈ l, S (f a) = S (g a)) :
    S (l.flatMap f) = S (l.flatMap g) := by
  induction l with
  | nil => rfl
  | cons a l ih =>
    simp only [List.flatMap_cons, S_append]
    rw [hfg a (List.mem_cons_self ..), ih (fun x hx => hfg x (List.mem_cons_of_mem _ hx))]

/-- the text-only expansion kinds: model decisions = atoms -/
theorem expansion_flat (wd : Word) (p : Part) (cwd : String) (r : Bool) :
    S (expansionTexts rec wd p cwd r) = L w rec h (expansionAtoms wd p cwd r) := by
  cases p <;> simp [expansionTexts, expansionAtoms, L_cons, atomDecisions]
  · -- arith
    rw [L_texts]
    exact S_flatMap_congr _ _ _ (fun t _ => (scanArg_some rec false t cwd r).symm)

/-- the two passes of step 3, as actions: the join of the verdict on the words as spelled and on the words after
    quote removal (when quote removal changes nothing the two coincide; the second is dropped from the list when it is
    not stricter, which leaves the join unchanged) -/
theorem S_cmdDecisions (words unquoted : List String) (b : Nat) (cwd : String) (r : Bool) :
    S (cmdDecisions w rec h words unquoted b cwd r)
      = Action.sup (simpleCmd w rec h (words.length + 1) (words.drop b) cwd r).action
          (simpleCmd w rec h (unquoted.length + 1) (unquoted.drop b) cwd r).action := by
  unfold cmdDecisions
  by_cases hq : unquoted = words
  · subst hq
    simp
  · have hq' : (unquoted != words) = true := by simpa using hq
    simp only [hq', Bool.true_and]
    split
    · simp
    · rename_i hlt
      simp only [S_cons, S_nil, Action.sup_allow_right]
      generalize (simpleCmd w rec h (words.length + 1) (words.drop b) cwd r).action = a at hlt ⊢
      generalize (simpleCmd w rec h (unquoted.length + 1) (unquoted.drop b) cwd r).action = c at hlt ⊢
      cases a <;> cases c <;> simp [Action.rank, Action.sup] at hlt ⊢

mutual

theorem node_flat : ∀ (n : Node) (cwd : String) (r : Bool),
    (aNode w rec h n cwd r).action = L w rec h (flat w.syn n cwd r)
  | .command ws rs, cwd, r => by
    have h1 := cmdWords_flat (mkCmdCtx w ws) ws 0 cwd r
    have h2 := redirects_flat rs cwd r
    simp only [aNode, flat, L_append, L_cons, L_nil, atomDecisions, properDecisions, unquotedDecisions,
      World.syn_hasHandler, World.syn_simpleSafe]
    have hb : (mkCmdCtx w ws).base = (mkCmdCtx w ws).words.getD (mkCmdCtx w ws).baseIdx "" := rfl
    split
    · next he =>
      rw [combine_or_allow_S, S_append, h1, h2]
      simp
    · next he =>
      rw [← hb]
      split
      · rw [combine_S]; simp [h1, h2, Action.sup_assoc]
      · split
        · rw [combine_S]; simp [h1, h2, Action.sup_assoc]
        · rw [combine_S]; simp [h1, h2, Action.sup_assoc, S_cmdDecisions]
  | .pipeline cmds, cwd, r => by
    simp only [aNode, flat]
    rw [rejoin_S, nodes_flat cmds cwd r]
  | .list parts, cwd, r => by
    simp only [aNode, flat, World.syn_resolveCd]
    rw [rejoin_S, listPartsCd_flat parts _ _ r]
  | .ifN c t e rs, cwd, r => by
    simp only [aNode, flat, combine_S, S_append, S_cons, S_nil, L_append]
    rw [node_flat c cwd r, node_flat t cwd r, optNode_flat e cwd r, redirects_flat rs cwd r]
    simp [Action.sup_assoc]
  | .whileN _ c b rs, cwd, r => by
    simp only [aNode, flat, combine_S, S_append, S_cons, S_nil, L_append]
    rw [node_flat c cwd r, node_flat b cwd r, redirects_flat rs cwd r]
    simp [Action.sup_assoc]
  | .forN _ ws b rs, cwd, r => by
    simp only [aNode, flat, combine_S, S_append, S_cons, S_nil, L_append]
    rw [node_flat b cwd r, words_flat ws cwd r, redirects_flat rs cwd r]
    simp [Action.sup_assoc]
  | .forArith i c s b rs, cwd, r => by
    simp only [aNode, flat, combine_S, S_append, S_cons, S_nil, L_append, L_cons, L_nil, atomDecisions]
    rw [node_flat b cwd r, redirects_flat rs cwd r]
    simp [Action.sup_assoc]
  | .selectN _ ws b rs, cwd, r => by
    simp only [aNode, flat, combine_S, S_append, S_cons, S_nil, L_append]
    rw [node_flat b cwd r, words_flat ws cwd r, redirects_flat rs cwd r]
    simp [Action.sup_assoc]
  | .caseN wd pats rs, cwd, r => by
    simp only [aNode, flat]
    rw [combine_or_allow_S]
    simp only [S_append, L_append]
    rw [optWord_flat wd cwd r, casePats_flat pats cwd r, redirects_flat rs cwd r]
  | .function _ b, cwd, r => by simp only [aNode, flat]; exact node_flat b cwd r
  | .subshell b rs, cwd, r => by
    simp only [aNode, flat, combine_S, S_append, S_cons, S_nil, L_append]
    rw [node_flat b cwd r, redirects_flat rs cwd r]; simp
  | .braceGroup b rs, cwd, r => by
    simp only [aNode, flat, combine_S, S_append, S_cons, S_nil, L_append]
    rw [node_flat b cwd r, redirects_flat rs cwd r]; simp
  | .time p, cwd, r => by simp only [aNode, flat]; exact node_flat p cwd r
  | .negation p, cwd, r => by simp only [aNode, flat]; exact node_flat p cwd r
  | .coproc c, cwd, r => by simp only [aNode, flat]; exact node_flat c cwd r
  | .condExpr b rs, cwd, r => by
    simp only [aNode, flat]
    rw [combine_or_allow_S]
    simp only [S_append, L_append]
    rw [optCond_flat b cwd r, redirects_flat rs cwd r]
  | .arithCmd e raw rs, cwd, r => by
    simp only [aNode, flat]
    rw [combine_or_allow_S]
    simp only [S_append, L_append]
    rw [redirects_flat rs cwd r]
    cases raw with
    | none => simp only []; rw [optArith_flat e cwd r]
    | some t => simp [L_cons, atomDecisions, scanArg_some]
  | .comment, _, _ => by simp [aNode, flat]
  | .empty, _, _ => by simp [aNode, flat]
  | .operator _, _, _ => by simp [aNode, flat, atomDecisions, S]
  | .other k, _, _ => by simp [aNode, flat, atomDecisions, S]

theorem nodes_flat : ∀ (ns : List Node) (cwd : String) (r : Bool),
    S (aNodes w rec h ns cwd r) = L w rec h (flatNodes w.syn ns cwd r)
  | [], _, _ => by simp [aNodes, flatNodes]
  | n :: ns, cwd, r => by
    simp only [aNodes, flatNodes, S_cons, L_append]
    rw [node_flat n cwd r, nodes_flat ns cwd r]

theorem listParts_flat : ∀ (ns : List Node) (cwd : String) (r : Bool),
    S (aListParts w rec h ns cwd r) = L w rec h (flatListParts w.syn ns cwd r)
  | [], _, _ => by simp [aListParts, flatListParts]
  | n :: ns, cwd, r => by
    simp only [aListParts, flatListParts]
    split
    · exact listParts_flat ns cwd r
    · simp only [S_cons, L_append]
      rw [node_flat n cwd r, listParts_flat ns cwd r]

theorem listPartsCd_flat : ∀ (ns : List Node) (cwd0 cwd : String) (r : Bool),
    S (aListPartsCd w rec h ns cwd0 cwd r) = L w rec h (flatListPartsCd w.syn ns cwd0 cwd r)
  | [], _, _, _ => by simp [aListPartsCd, flatListPartsCd]
  | n :: ns, cwd0, cwd, r => by
    simp only [aListPartsCd, flatListPartsCd]
    split
    · exact listPartsCd_flat ns cwd0 cwd r
    · simp only [S_cons, L_append]
      rw [node_flat n cwd0 r, listParts_flat ns cwd r]

theorem optNode_flat : ∀ (e : Option Node) (cwd : String) (r : Bool),
    S (aOptNode w rec h e cwd r) = L w rec h (flatOptNode w.syn e cwd r)
  | none, _, _ => by simp [aOptNode, flatOptNode]
  | some n, cwd, r => by
    simp only [aOptNode, flatOptNode, S_cons, S_nil]
    rw [node_flat n cwd r]; simp

theorem cmdWords_flat (ctx : CmdCtx) : ∀ (ws : List Word) (pos : Nat) (cwd : String) (r : Bool),
    S (aCmdWords w rec h ctx ws pos cwd r) = L w rec h (flatCmdWords w.syn ctx ws pos cwd r)
  | [], _, _, _ => by simp [aCmdWords, flatCmdWords]
  | .mk v ps :: ws, pos, cwd, r => by
    simp only [aCmdWords, flatCmdWords, S_append, L_append]
    rw [cmdParts_flat ctx (.mk v ps) pos ps cwd r, cmdWords_flat ctx ws (pos + 1) cwd r]
    cases assignSubscript v with
    | none => rfl
    | some t =>
      simp only [L_cons, L_nil]
      rw [text_atom_S, scanArg_some]
      simp

theorem cmdParts_flat (ctx : CmdCtx) (wd : Word) (pos : Nat) : ∀ (ps : List Part) (cwd : String) (r : Bool),
    S (aCmdParts w rec h ctx wd pos ps cwd r) = L w rec h (flatCmdParts w.syn ctx wd pos ps cwd r)
  | [], _, _ => by simp [aCmdParts, flatCmdParts]
  | p :: ps, cwd, r => by
    have ih := cmdParts_flat ctx wd pos ps cwd r
    cases p with
    | cmdsub cmd =>
      have hn := node_flat cmd cwd r
      simp only [aCmdParts, flatCmdParts, S_append, L_append, L_cons, L_nil, atomDecisions]
      rw [ih, ← hn]
      by_cases ha : (aNode w rec h cmd cwd r).action = .allow
      · simp [ha]
      · simp only [ha, ne_eq, not_false_eq_true, ↓reduceIte, S_cons, S_nil, Action.sup_allow_right]
        rw [sup_inject_of_nonallow w _ ctx wd pos ha]
    | procsub dir cmd =>
      simp only [aCmdParts, flatCmdParts, S_append, L_append, S_cons, S_nil, wrapNonAllow_action]
      rw [ih, node_flat cmd cwd r]; simp
    | array elems =>
      simp only [aCmdParts, flatCmdParts, S_append, L_append]
      rw [ih, words_flat elems cwd r]
    | param n o arg =>
      simp only [aCmdParts, flatCmdParts, S_append, L_append]
      rw [ih, expansion_flat]
    | paramLen _ =>
      simp only [aCmdParts, flatCmdParts, S_append, L_append]
      rw [ih, expansion_flat]
    | paramIndirect _ _ _ =>
      simp only [aCmdParts, flatCmdParts, S_append, L_append]
      rw [ih, expansion_flat]
    | arith _ =>
      simp only [aCmdParts, flatCmdParts, S_append, L_append]
      rw [ih, expansion_flat]
    | arithDeprecated _ =>
      simp only [aCmdParts, flatCmdParts, S_append, L_append]
      rw [ih, expansion_flat]
    | other _ =>
      simp only [aCmdParts, flatCmdParts, S_append, L_append]
      rw [ih, expansion_flat]

theorem wordParts_flat (wd : Word) : ∀ (ps : List Part) (cwd : String) (r : Bool),
    S (aWordParts w rec h wd ps cwd r) = L w rec h (flatWordParts w.syn wd ps cwd r)
  | [], _, _ => by simp [aWordParts, flatWordParts]
  | p :: ps, cwd, r => by
    have ih := wordParts_flat wd ps cwd r
    cases p with
    | cmdsub cmd =>
      simp only [aWordParts, flatWordParts, S_append, L_append, S_cons, S_nil, wrapNonAllow_action]
      rw [ih, node_flat cmd cwd r]; simp
    | procsub dir cmd =>
      simp only [aWordParts, flatWordParts, S_append, L_append, S_cons, S_nil, wrapNonAllow_action]
      rw [ih, node_flat cmd cwd r]; simp
    | array elems =>
      simp only [aWordParts, flatWordParts, S_append, L_append]
      rw [ih, words_flat elems cwd r]
    | param n o arg =>
      simp only [aWordParts, flatWordParts, S_append, L_append]
      rw [ih, expansion_flat]
    | paramLen _ =>
      simp only [aWordParts, flatWordParts, S_append, L_append]
      rw [ih, expansion_flat]
    | paramIndirect _ _ _ =>
      simp only [aWordParts, flatWordParts, S_append, L_append]
      rw [ih, expansion_flat]
    | arith _ =>
      simp only [aWordParts, flatWordParts, S_append, L_append]
      rw [ih, expansion_flat]
    | arithDeprecated _ =>
      simp only [aWordParts, flatWordParts, S_append, L_append]
      rw [ih, expansion_flat]
    | other _ =>
      simp only [aWordParts, flatWordParts, S_append, L_append]
      rw [ih, expansion_flat]

theorem word_flat : ∀ (wd : Word) (cwd : String) (r : Bool),
    S (aWord w rec h wd cwd r) = L w rec h (flatWord w.syn wd cwd r)
  | .mk v ps, cwd, r => by simp only [aWord, flatWord]; exact wordParts_flat (.mk v ps) ps cwd r

theorem condOperand_flat (regex : Bool) : ∀ (wd : Word) (cwd : String) (r : Bool),
    S (aCondOperand w rec h regex wd cwd r) = L w rec h (flatCondOperand w.syn regex wd cwd r)
  | .mk v ps, cwd, r => by
    simp only [aCondOperand, flatCondOperand, S_append, L_append]
    rw [wordParts_flat (.mk v ps) ps cwd r]
    split <;> simp [L_cons, atomDecisions]

theorem words_flat : ∀ (ws : List Word) (cwd : String) (r : Bool),
    S (aWords w rec h ws cwd r) = L w rec h (flatWords w.syn ws cwd r)
  | [], _, _ => by simp [aWords, flatWords]
  | wd :: ws, cwd, r => by
    simp only [aWords, flatWords, S_append, L_append]
    rw [word_flat wd cwd r, words_flat ws cwd r]

theorem optWord_flat : ∀ (wd : Option Word) (cwd : String) (r : Bool),
    S (aOptWord w rec h wd cwd r) = L w rec h (flatOptWord w.syn wd cwd r)
  | none, _, _ => by simp [aOptWord, flatOptWord]
  | some wd, cwd, r => by simp only [aOptWord, flatOptWord]; exact word_flat wd cwd r

theorem redirects_flat : ∀ (rs : List Redir) (cwd : String) (r : Bool),
    S (aRedirects w rec h rs cwd r) = L w rec h (flatRedirects w.syn rs cwd r)
  | [], _, _ => by simp [aRedirects, flatRedirects]
  | rd :: rs, cwd, r => by
    have ih := redirects_flat rs cwd r
    cases rd with
    | heredoc quoted content =>
      simp only [aRedirects, flatRedirects, S_append, L_append]
      rw [ih]
      cases quoted <;> simp [atomDecisions]
    | redirect op tgt =>
      cases tgt with
      | none =>
        simp only [aRedirects, flatRedirects, S_append, L_append]
        rw [ih]
        cases r <;> simp [atomDecisions]
      | some t =>
        simp only [aRedirects, flatRedirects, S_append, L_append]
        rw [ih, word_flat t cwd r]
        cases r <;> cases hamp : Py.startsWith t.value "&" <;> simp [atomDecisions, hamp]
    | other _ => simpa [aRedirects, flatRedirects] using ih

theorem casePats_flat : ∀ (ps : List CasePat) (cwd : String) (r : Bool),
    S (aCasePats w rec h ps cwd r) = L w rec h (flatCasePats w.syn ps cwd r)
  | [], _, _ => by simp [aCasePats, flatCasePats]
  | .mk pat body :: ps, cwd, r => by
    simp only [aCasePats, flatCasePats, S_append, L_append, L_cons, L_nil, atomDecisions]
    rw [optNode_flat body cwd r, casePats_flat ps cwd r]
    simp

theorem cond_flat : ∀ (c : Cond) (cwd : String) (r : Bool),
    S (aCond w rec h c cwd r) = L w rec h (flatCond w.syn c cwd r)
  | .unary _ o, cwd, r => by simp only [aCond, flatCond]; exact condOperand_flat false o cwd r
  | .binary _ l r', cwd, r => by
    simp only [aCond, flatCond, S_append, L_append]
    rw [condOperand_flat false l cwd r, condOperand_flat _ r' cwd r]
  | .and l r', cwd, r => by
    simp only [aCond, flatCond, S_append, L_append]
    rw [cond_flat l cwd r, cond_flat r' cwd r]
  | .or l r', cwd, r => by
    simp only [aCond, flatCond, S_append, L_append]
    rw [cond_flat l cwd r, cond_flat r' cwd r]
  | .not o, cwd, r => by simp only [aCond, flatCond]; exact cond_flat o cwd r
  | .paren i, cwd, r => by simp only [aCond, flatCond]; exact cond_flat i cwd r
  | .other _, _, _ => by simp [aCond, flatCond]

theorem optCond_flat : ∀ (c : Option Cond) (cwd : String) (r : Bool),
    S (aOptCond w rec h c cwd r) = L w rec h (flatOptCond w.syn c cwd r)
  | none, _, _ => by simp [aOptCond, flatOptCond]
  | some c, cwd, r => by simp only [aOptCond, flatOptCond]; exact cond_flat c cwd r

theorem arith_flat : ∀ (e : Arith) (cwd : String) (r : Bool),
    S (aArith w rec h e cwd r) = L w rec h (flatArith w.syn e cwd r)
  | .cmdsub cmd, cwd, r => by
    simp only [aArith, flatArith, S_cons, S_nil, wrapNonAllow_action]
    rw [node_flat cmd cwd r]; simp
  | .node _ attrs, cwd, r => by
    simp only [aArith, flatArith, World.syn_arithWalked]
    have hk := arithAttrs_flat attrs cwd r
    generalize w.arithWalked = names
    induction names with
    | nil => simp
    | cons a as ih =>
      simp only [List.flatMap_cons, S_append, L_append]
      rw [ih, hk a]

theorem arithAttrs_flat : ∀ (attrs : List (String × AVal)) (cwd : String) (r : Bool) (a : String),
    S ((((aArithAttrs w rec h attrs cwd r).find? (fun kv => kv.1 == a)).map (·.2)).getD [])
      = L w rec h ((((flatArithAttrs w.syn attrs cwd r).find? (fun kv => kv.1 == a)).map (·.2)).getD [])
  | [], _, _, _ => by simp [aArithAttrs, flatArithAttrs]
  | (k, v) :: rest, cwd, r, a => by
    unfold aArithAttrs flatArithAttrs
    rw [List.find?_cons, List.find?_cons]
    by_cases hk : (k == a) = true
    · simp only [hk, Option.map_some, Option.getD_some]
      cases v with
      | one x => exact arith_flat x cwd r
      | many _ => simp
      | str _ => simp
    · simp only [hk]
      exact arithAttrs_flat rest cwd r a

theorem optArith_flat : ∀ (e : Option Arith) (cwd : String) (r : Bool),
    S (aOptArith w rec h e cwd r) = L w rec h (flatOptArith w.syn e cwd r)
  | none, _, _ => by simp [aOptArith, flatOptArith]
  | some e, cwd, r => by simp only [aOptArith, flatOptArith]; exact arith_flat e cwd r

end

/-- R1: the verdict of a tree is the join of the verdicts of its atoms -/
theorem verdict_eq_leaves (n : Node) (cwd : String) (r : Bool) :
    (aNode w rec h n cwd r).action = S (leaves w rec h n cwd r) :=
  node_flat w rec h n cwd r

end
end Dippy
