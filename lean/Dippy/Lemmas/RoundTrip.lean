/-
Rule-level write-then-parse round trip (C11): a canonical writer for config rule lines and the
lemmas showing `parseLine` reads back exactly what it wrote.  The repo has no writer; `renderLine`
is the one the documentation describes (directive, pattern tokens joined by blanks, optional ` |`
anchor, optional quoted message with `\` and `"` escaped).
-/
import Dippy.Lemmas.Escape

set_option linter.unusedSimpArgs false
set_option linter.unusedVariables false

namespace Dippy.RT
open Dippy

/-- a pattern token: non-empty, no whitespace -/
def Tok (t : List Char) : Prop := t ≠ [] ∧ ∀ c ∈ t, Py.isSpace c = false

/-- `" ".join(tokens)` on character lists -/
def joinL : List (List Char) → List Char
  | [] => []
  | [x] => x
  | x :: y :: r => x ++ ' ' :: joinL (y :: r)

theorem joinL_cons_cons (x y : List Char) (r : List (List Char)) : joinL (x :: y :: r) = x ++ ' ' :: joinL (y :: r) := rfl

theorem splitWsAux_nospace (t rest cur : List Char) (h : ∀ c ∈ t, Py.isSpace c = false) :
    Py.splitWsAux (t ++ rest) cur = Py.splitWsAux rest (t.reverse ++ cur) := by
  induction t generalizing cur with
  | nil => simp
  | cons c t ih =>
    have hc : Py.isSpace c = false := h c (by simp)
    simp only [List.cons_append, Py.splitWsAux, hc, Bool.false_eq_true, ↓reduceIte]
    rw [ih _ (fun c' hc' => h c' (by simp [hc']))]
    simp

theorem splitWsAux_join (ts : List (List Char)) (h : ∀ t ∈ ts, Tok t) : Py.splitWsAux (joinL ts) [] = ts := by
  induction ts with
  | nil => simp [joinL, Py.splitWsAux]
  | cons x r ih =>
    have hx := h x (by simp)
    cases r with
    | nil =>
      have := splitWsAux_nospace x [] [] hx.2
      simp only [List.append_nil] at this
      simp only [joinL, this, Py.splitWsAux]
      have hne : (x.reverse).isEmpty = false := by
        cases x with
        | nil => exact absurd rfl hx.1
        | cons a b => simp
      simp [hne]
    | cons y r' =>
      rw [joinL_cons_cons, splitWsAux_nospace x _ [] hx.2]
      have hne : (x.reverse ++ []).isEmpty = false := by
        cases x with
        | nil => exact absurd rfl hx.1
        | cons a b => simp
      simp only [Py.splitWsAux, isSpace_space, ↓reduceIte, hne, Bool.false_eq_true]
      rw [ih (fun t ht => h t (by simp [ht]))]
      simp

/-- a non-empty token list joins to a text whose first character is the first token's -/
theorem joinL_head (x : List Char) (r : List (List Char)) : ∃ tl, joinL (x :: r) = x ++ tl := by
  cases r with
  | nil => exact ⟨[], by simp [joinL]⟩
  | cons y r' => exact ⟨' ' :: joinL (y :: r'), rfl⟩

/-- … and whose last character is the last token's -/
theorem joinL_last (ts : List (List Char)) (hne : ts ≠ []) : ∃ pre, joinL ts = pre ++ ts.getLast hne := by
  induction ts with
  | nil => exact absurd rfl hne
  | cons x r ih =>
    cases r with
    | nil => exact ⟨[], by simp [joinL]⟩
    | cons y r' =>
      obtain ⟨pre, hp⟩ := ih (by simp)
      refine ⟨x ++ ' ' :: pre, ?_⟩
      rw [joinL_cons_cons, hp]
      simp

theorem lstripL_head_nonspace (c : Char) (t : List Char) (h : Py.isSpace c = false) :
    Py.lstripL Py.isSpace (c :: t) = c :: t := by
  simp [Py.lstripL, h]

theorem tok_snoc (t : List Char) (h : Tok t) : ∃ pre c, t = pre ++ [c] ∧ Py.isSpace c = false := by
  obtain ⟨hne, hns⟩ := h
  refine ⟨t.dropLast, t.getLast hne, (List.dropLast_concat_getLast hne).symm, hns _ (List.getLast_mem hne)⟩

theorem tok_cons (t : List Char) (h : Tok t) : ∃ c tl, t = c :: tl ∧ Py.isSpace c = false := by
  obtain ⟨hne, hns⟩ := h
  cases t with
  | nil => exact absurd rfl hne
  | cons c tl => exact ⟨c, tl, rfl, hns c (by simp)⟩

end Dippy.RT
