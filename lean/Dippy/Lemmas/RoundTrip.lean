/-
Rule-level write-then-parse round trip (C11): a canonical writer for config rule lines and the
lemmas showing `parseLine` reads back exactly what it wrote.  The repo has no writer; `renderLine`
is the one the documentation describes (directive, pattern tokens joined by blanks, optional ` |`
anchor, optional quoted message with `\` and `"` escaped).
-/
import Dippy.Lemmas.Escape

set_option linter.unusedSimpArgs false
set_option linter.unusedVariables false

namespace Dippy.RT
open Dippy

/-- a pattern token: non-empty, no whitespace -/
def Tok (t : List Char) : Prop := t ≠ [] ∧ ∀ c ∈ t, Py.isSpace c = false

/-- `" ".join(tokens)` on character lists -/
def joinL : List (List Char) → List Char
  | [] => []
  | [x] => x
  | x :: y :: r => x ++ ' ' :: joinL (y :: r)

theorem joinL_cons_cons (x y : List Char) (r : List (List Char)) : joinL (x :: y :: r) = x ++ ' ' :: joinL (y :: r) := rfl

theorem splitWsAux_nospace (t rest cur : List Char) (h : ∀ c ∈ t, Py.isSpace c = false) :
    Py.splitWsAux (t ++ rest) cur = Py.splitWsAux rest (t.reverse ++ cur) := by
  induction t generalizing cur with
  | nil => simp
  | cons c t ih =>
    have hc : Py.isSpace c = false := h c (by simp)
    simp only [List.cons_append, Py.splitWsAux, hc, Bool.false_eq_true, ↓reduceIte]
    rw [ih _ (fun c' hc' => h c' (by simp [hc']))]
    simp

theorem splitWsAux_join (ts : List (List Char)) (h : ∀ t ∈ ts, Tok t) : Py.splitWsAux (joinL ts) [] = ts := by
  induction ts with
  | nil => simp [joinL, Py.splitWsAux]
  | cons x r ih =>
    have hx := h x (by simp)
    cases r with
    | nil =>
      have := splitWsAux_nospace x [] [] hx.2
      simp only [List.append_nil] at this
      simp only [joinL, this, Py.splitWsAux]
      have hne : (x.reverse).isEmpty = false := by
        cases x with
        | nil => exact absurd rfl hx.1
        | cons a b => simp
      simp [hne]
    | cons y r' =>
      rw [joinL_cons_cons, splitWsAux_nospace x _ [] hx.2]
      have hne : (x.reverse ++ []).isEmpty = false := by
        cases x with
        | nil => exact absurd rfl hx.1
        | cons a b => simp
      simp only [Py.splitWsAux, isSpace_space, ↓reduceIte, hne, Bool.false_eq_true]
      rw [ih (fun t ht => h t (by simp [ht]))]
      simp

/-- a non-empty token list joins to a text whose first character is the first token's -/
theorem joinL_head (x : List Char) (r : List (List Char)) : ∃ tl, joinL (x :: r) = x ++ tl := by
  cases r with
  | nil => exact ⟨[], by simp [joinL]⟩
  | cons y r' => exact ⟨' ' :: joinL (y :: r'), rfl⟩

/-- … and whose last character is the last token's -/
theorem joinL_last (ts : List (List Char)) (hne : ts ≠ []) : ∃ pre, joinL ts = pre ++ ts.getLast hne := by
  induction ts with
  | nil => exact absurd rfl hne
  | cons x r ih =>
    cases r with
    | nil => exact ⟨[], by simp [joinL]⟩
    | cons y r' =>
      obtain ⟨pre, hp⟩ := ih (by simp)
      refine ⟨x ++ ' ' :: pre, ?_⟩
      rw [joinL_cons_cons, hp]
      simp

theorem lstripL_head_nonspace (c : Char) (t : List Char) (h : Py.isSpace c = false) :
    Py.lstripL Py.isSpace (c :: t) = c :: t := by
  simp [Py.lstripL, h]

theorem tok_snoc (t : List Char) (h : Tok t) : ∃ pre c, t = pre ++ [c] ∧ Py.isSpace c = false := by
  obtain ⟨hne, hns⟩ := h
  refine ⟨t.dropLast, t.getLast hne, (List.dropLast_concat_getLast hne).symm, hns _ (List.getLast_mem hne)⟩

theorem tok_cons (t : List Char) (h : Tok t) : ∃ c tl, t = c :: tl ∧ Py.isSpace c = false := by
  obtain ⟨hne, hns⟩ := h
  cases t with
  | nil => exact absurd rfl hne
  | cons c tl => exact ⟨c, tl, rfl, hns c (by simp)⟩

theorem takeWhile_nospace (d rest : List Char) (h : ∀ c ∈ d, Py.isSpace c = false) :
    (d ++ ' ' :: rest).takeWhile (fun c => !Py.isSpace c) = d := by
  induction d with
  | nil => simp [isSpace_space]
  | cons c t ih =>
    have hc : Py.isSpace c = false := h c (by simp)
    simp only [List.cons_append, List.takeWhile_cons, hc, Bool.not_false, ↓reduceIte]
    rw [ih (fun c' hc' => h c' (by simp [hc']))]

theorem dropWhile_nospace (d rest : List Char) (h : ∀ c ∈ d, Py.isSpace c = false) :
    (d ++ ' ' :: rest).dropWhile (fun c => !Py.isSpace c) = ' ' :: rest := by
  induction d with
  | nil => simp [isSpace_space]
  | cons c t ih =>
    have hc : Py.isSpace c = false := h c (by simp)
    simp only [List.cons_append, List.dropWhile_cons, hc, Bool.not_false, ↓reduceIte]
    rw [ih (fun c' hc' => h c' (by simp [hc']))]

/-- a line `d body` whose directive has no blanks and whose body neither starts nor ends with one -/
structure LineShape (d body : List Char) : Prop where
  dTok : Tok d
  bodyHead : ∃ c tl, body = c :: tl ∧ Py.isSpace c = false
  bodyLast : ∃ pre c, body = pre ++ [c] ∧ Py.isSpace c = false

theorem strip_line (d body : List Char) (h : LineShape d body) :
    Py.strip (String.ofList (d ++ ' ' :: body)) = String.ofList (d ++ ' ' :: body) := by
  obtain ⟨c0, d', hd, hc0⟩ := tok_cons d h.dTok
  obtain ⟨pre, cl, hb, hcl⟩ := h.bodyLast
  unfold Py.strip Py.stripL
  simp only [String.toList_ofList]
  subst hd
  rw [List.cons_append, lstripL_head_nonspace _ _ hc0]
  have : c0 :: (d' ++ ' ' :: body) = (c0 :: (d' ++ ' ' :: pre)) ++ [cl] := by simp [hb]
  rw [this, rstripL_snoc_nonspace _ _ hcl]

theorem strip_body (body : List Char)
    (hh : ∃ c tl, body = c :: tl ∧ Py.isSpace c = false) (hl : ∃ pre c, body = pre ++ [c] ∧ Py.isSpace c = false) :
    Py.strip (String.ofList body) = String.ofList body := by
  obtain ⟨c0, tl, hb0, hc0⟩ := hh
  obtain ⟨pre, cl, hb, hcl⟩ := hl
  unfold Py.strip Py.stripL
  simp only [String.toList_ofList]
  rw [hb0, lstripL_head_nonspace _ _ hc0, ← hb0, hb, rstripL_snoc_nonspace _ _ hcl]

theorem split1_line (d body : List Char) (h : LineShape d body) :
    Py.split1 (String.ofList (d ++ ' ' :: body)) = [String.ofList d, String.ofList body] := by
  obtain ⟨c0, d', hd, hc0⟩ := tok_cons d h.dTok
  obtain ⟨b0, btl, hb, hb0⟩ := h.bodyHead
  unfold Py.split1
  simp only [String.toList_ofList]
  have hl : Py.lstripL Py.isSpace (d ++ ' ' :: body) = d ++ ' ' :: body := by
    subst hd; rw [List.cons_append, lstripL_head_nonspace _ _ hc0]
  rw [hl, takeWhile_nospace d body h.dTok.2, dropWhile_nospace d body h.dTok.2]
  have hne : (d ++ ' ' :: body).isEmpty = false := by subst hd; simp
  have hrest : Py.lstripL Py.isSpace (' ' :: body) = body := by
    rw [Py.lstripL]; simp only [isSpace_space, ↓reduceIte]
    rw [hb, lstripL_head_nonspace _ _ hb0]
  have hbne : body.isEmpty = false := by rw [hb]; simp
  simp [hne, hrest, hbne]

/-! ### the writer -/

def msgPart : Option (List Char) → List Char
  | none => []
  | some m => [' ', '"'] ++ escapeL m ++ ['"']

def anchorPart (ex : Bool) : List Char := if ex then [' ', '|'] else []

/-- the rule line a writer produces: directive, pattern tokens, ` |` when exact, quoted message -/
def renderLine (d : String) (ts : List (List Char)) (ex : Bool) (m : Option (List Char)) : String :=
  String.ofList (d.toList ++ ' ' :: (joinL ts ++ anchorPart ex ++ msgPart m))

/-- well-formed pattern: at least one token, tokens non-empty and blank-free; when the rule is not
    exact the pattern does not itself end in the anchor `|`, and when there is neither anchor nor
    message it does not end in `"` (which would read as the end of a message) -/
structure WfPat (ts : List (List Char)) (ex : Bool) (m : Option (List Char)) : Prop where
  ne : ts ≠ []
  toks : ∀ t ∈ ts, Tok t
  noBar : ex = false → ∀ pre c, joinL ts = pre ++ [c] → c ≠ '|'
  noQuote : ex = false → m = none → ∀ pre c, joinL ts = pre ++ [c] → c ≠ '"'

/-- the decidable form of `WfPat` (what the correspondence harness evaluates) -/
def wfPatB (ts : List (List Char)) (ex : Bool) (m : Option (List Char)) : Bool :=
  !ts.isEmpty && ts.all (fun t => !t.isEmpty && t.all (fun c => !Py.isSpace c))
    && (ex || (joinL ts).getLast? != some '|')
    && (ex || m.isSome || (joinL ts).getLast? != some '"')

theorem wfPatB_sound (ts : List (List Char)) (ex : Bool) (m : Option (List Char)) (h : wfPatB ts ex m = true) :
    WfPat ts ex m := by
  unfold wfPatB at h
  simp only [Bool.and_eq_true, Bool.not_eq_true', List.all_eq_true, Bool.or_eq_true, bne_iff_ne, ne_eq] at h
  obtain ⟨⟨⟨h1, h2⟩, h3⟩, h4⟩ := h
  refine ⟨?_, ?_, ?_, ?_⟩
  · intro hh; subst hh; simp at h1
  · intro t ht
    have := h2 t ht
    refine ⟨?_, ?_⟩
    · intro hh; subst hh; simp at this
    · intro c hc; simpa using this.2 c hc
  · intro hex pre c hj hc
    subst hex; subst hc
    rcases h3 with h3 | h3
    · cases h3
    · apply h3; rw [hj]; simp
  · intro hex hm pre c hj hc
    subst hex; subst hm; subst hc
    rcases h4 with (h4 | h4) | h4
    · cases h4
    · cases h4
    · apply h4; rw [hj]; simp

theorem joinL_shape (ts : List (List Char)) (hne : ts ≠ []) (ht : ∀ t ∈ ts, Tok t) :
    (∃ c tl, joinL ts = c :: tl ∧ Py.isSpace c = false) ∧ (∃ pre c, joinL ts = pre ++ [c] ∧ Py.isSpace c = false) := by
  constructor
  · cases ts with
    | nil => exact absurd rfl hne
    | cons x r =>
      obtain ⟨tl, htl⟩ := joinL_head x r
      obtain ⟨c, xt, hx, hc⟩ := tok_cons x (ht x (by simp))
      exact ⟨c, xt ++ tl, by rw [htl, hx]; simp, hc⟩
  · obtain ⟨pre, hp⟩ := joinL_last ts hne
    obtain ⟨p2, c, hl, hc⟩ := tok_snoc _ (ht _ (List.getLast_mem hne))
    exact ⟨pre ++ p2, c, by rw [hp, hl]; simp, hc⟩

theorem rstripL_nonspace_last (x : List Char) (h : ∃ pre c, x = pre ++ [c] ∧ Py.isSpace c = false) :
    Py.rstripL Py.isSpace x = x := by
  obtain ⟨pre, c, hx, hc⟩ := h
  rw [hx, rstripL_snoc_nonspace _ _ hc]

/-- the body (pattern, anchor, message) starts and ends with a non-blank -/
theorem body_shape (ts : List (List Char)) (ex : Bool) (m : Option (List Char)) (hne : ts ≠ []) (ht : ∀ t ∈ ts, Tok t) :
    (∃ c tl, joinL ts ++ anchorPart ex ++ msgPart m = c :: tl ∧ Py.isSpace c = false)
      ∧ (∃ pre c, joinL ts ++ anchorPart ex ++ msgPart m = pre ++ [c] ∧ Py.isSpace c = false) := by
  obtain ⟨⟨c, tl, h1, hc⟩, ⟨pre, cl, h2, hcl⟩⟩ := joinL_shape ts hne ht
  constructor
  · exact ⟨c, tl ++ anchorPart ex ++ msgPart m, by rw [h1]; simp, hc⟩
  · cases m with
    | some mm =>
      refine ⟨joinL ts ++ anchorPart ex ++ [' ', '"'] ++ escapeL mm, '"', by simp [msgPart], isSpace_quote⟩
    | none =>
      cases ex with
      | true => exact ⟨joinL ts ++ [' '], '|', by simp [msgPart, anchorPart], by decide⟩
      | false => exact ⟨pre, cl, by simp [msgPart, anchorPart, h2], hcl⟩

/-- `_extract_message` on the body: the pattern with its anchor, and the message -/
theorem extract_body (ts : List (List Char)) (ex : Bool) (m : Option (List Char)) (h : WfPat ts ex m) :
    extractMessage (String.ofList (joinL ts ++ anchorPart ex ++ msgPart m))
      = .ok (String.ofList (joinL ts ++ anchorPart ex)) (m.map String.ofList) := by
  have hsh := (body_shape ts ex none h.ne h.toks).2
  simp only [msgPart, List.append_nil] at hsh
  cases m with
  | some mm =>
    have := extract_render (joinL ts ++ anchorPart ex) mm
      (by obtain ⟨pre, c, hx, _⟩ := hsh; rw [hx]; simp) (rstripL_nonspace_last _ hsh)
    simpa [msgPart, List.append_assoc] using this
  | none =>
    obtain ⟨pre, c, hx, hc⟩ := hsh
    have hcq : c ≠ '"' := by
      cases ex with
      | true =>
        have : joinL ts ++ [' ', '|'] = (joinL ts ++ [' ']) ++ ['|'] := by simp
        simp only [anchorPart, ↓reduceIte] at hx
        rw [this] at hx
        have := List.append_inj' hx rfl
        have hc' : c = '|' := by simpa using this.2.symm
        rw [hc']; decide
      | false =>
        simp only [anchorPart, Bool.false_eq_true, ↓reduceIte, List.append_nil] at hx
        exact h.noQuote rfl rfl pre c hx
    unfold extractMessage
    simp only [msgPart, List.append_nil, String.toList_ofList, Option.map_none]
    rw [rstripL_nonspace_last _ ⟨pre, c, hx, hc⟩, hx]
    simp only [List.reverse_append, List.reverse_cons, List.reverse_nil, List.nil_append, List.singleton_append]
    split
    · rename_i heq
      have : c = '"' := by
        have := congrArg List.head? heq
        simpa using this
      exact absurd this hcq
    · rfl

/-- `_strip_exact_anchor` on pattern + anchor -/
theorem anchor_body (ts : List (List Char)) (ex : Bool) (m : Option (List Char)) (h : WfPat ts ex m) :
    stripExactAnchor (String.ofList (joinL ts ++ anchorPart ex)) = (String.ofList (joinL ts), ex) := by
  have hsh := (joinL_shape ts h.ne h.toks).2
  unfold stripExactAnchor Py.endsWith
  cases ex with
  | true =>
    have hsuf : ("|".toList).isSuffixOf (joinL ts ++ anchorPart true) = true := by
      show (['|'] : List Char).isSuffixOf (joinL ts ++ anchorPart true) = true
      rw [List.isSuffixOf_iff_suffix]
      exact ⟨joinL ts ++ [' '], by simp [anchorPart]⟩
    simp only [String.toList_ofList, hsuf, ↓reduceIte, Prod.mk.injEq, and_true]
    have hd : (joinL ts ++ anchorPart true).dropLast = joinL ts ++ [' '] := by
      have : joinL ts ++ anchorPart true = (joinL ts ++ [' ']) ++ ['|'] := by simp [anchorPart]
      rw [this, List.dropLast_concat]
    rw [hd]
    unfold Py.rstrip
    simp only [String.toList_ofList]
    rw [rstripL_snoc_space, rstripL_nonspace_last _ hsh]
  | false =>
    obtain ⟨pre, c, hx, hc⟩ := hsh
    have hbar := h.noBar rfl pre c hx
    have hsuf : ("|".toList).isSuffixOf (joinL ts ++ anchorPart false) = false := by
      simp only [anchorPart, Bool.false_eq_true, ↓reduceIte, List.append_nil, hx]
      have : "|".toList = ['|'] := rfl
      rw [this]
      rw [Bool.eq_false_iff]
      intro hh
      rw [List.isSuffixOf_iff_suffix] at hh
      obtain ⟨t, ht⟩ := hh
      have := List.append_inj' ht rfl
      exact hbar (by simpa using this.2.symm)
    simp only [anchorPart, Bool.false_eq_true, ↓reduceIte, List.append_nil] at hsuf
    simp only [String.toList_ofList, anchorPart, Bool.false_eq_true, ↓reduceIte, List.append_nil, hsuf]

theorem anchor_body_none (ts : List (List Char)) (ex : Bool) (h : WfPat ts ex none) :
    stripExactAnchor (String.ofList (joinL ts ++ anchorPart ex ++ msgPart none)) = (String.ofList (joinL ts), ex) := by
  simpa [msgPart] using anchor_body ts ex none h

theorem tildes_join (pe : PathEnv) (ts : List (List Char)) (h : ∀ t ∈ ts, Tok t) :
    expandPatternTildes pe (String.ofList (joinL ts))
      = Py.joinSpace ((ts.map String.ofList).map (expandHomeOnly pe)) := by
  unfold expandPatternTildes Py.splitWs
  simp only [String.toList_ofList]
  rw [splitWsAux_join ts h]

theorem lineShape (d : List Char) (hd : Tok d) (ts : List (List Char)) (ex : Bool) (m : Option (List Char))
    (h : WfPat ts ex m) : LineShape d (joinL ts ++ anchorPart ex ++ msgPart m) :=
  ⟨hd, (body_shape ts ex m h.ne h.toks).1, (body_shape ts ex m h.ne h.toks).2⟩

theorem body_nonempty (ts : List (List Char)) (ex : Bool) (m : Option (List Char)) (h : WfPat ts ex m) :
    (String.ofList (joinL ts ++ anchorPart ex ++ msgPart m)).isEmpty = false := by
  obtain ⟨c, tl, hx, _⟩ := (body_shape ts ex m h.ne h.toks).1
  rw [hx]; simp

/-- `" ".join` of the tokens as strings is the joined character list -/
theorem joinSpace_ofList (ts : List (List Char)) : Py.joinSpace (ts.map String.ofList) = String.ofList (joinL ts) := by
  apply String.toList_inj.mp
  unfold Py.joinSpace
  rw [String.toList_intercalate]
  simp only [List.map_map, String.toList_ofList]
  have : (List.map (String.toList ∘ String.ofList) ts) = ts := by
    induction ts with
    | nil => rfl
    | cons x r ih => simp [ih]
  rw [this]
  clear this
  induction ts with
  | nil => rfl
  | cons x r ih =>
    cases r with
    | nil => simp [joinL, List.intercalate]
    | cons y r' =>
      rw [joinL_cons_cons, ← ih]
      simp [List.intercalate, List.intersperse]

/-- a token that is not `~` / `~/…` is left alone by the parse-time tilde expansion -/
theorem expandHomeOnly_id (pe : PathEnv) (t : String) (h : Py.startsWith t "~" = false) : expandHomeOnly pe t = t := by
  unfold expandHomeOnly classifyToken
  have h1 : (t == "~") = false := by
    rw [beq_eq_false_iff_ne]; intro hh; subst hh; simp [Py.startsWith] at h
  have h2 : Py.startsWith t "~/" = false := by
    unfold Py.startsWith at h ⊢
    rw [Bool.eq_false_iff] at h ⊢
    intro hh; apply h
    rw [List.isPrefixOf_iff_prefix] at hh ⊢
    obtain ⟨r, hr⟩ := hh
    exact ⟨'/' :: r, by rw [← hr]; rfl⟩
  simp only [h, h1, h2]
  have hne : ∀ k : TokKind, (k = .url ∨ k = .variable ∨ k = .absolute ∨ k = .userHome ∨ k = .relative ∨ k = .bare) → k ≠ .home := by
    intro k hk hh; subst hh; simp at hk
  have : (if (Py.containsSub t "://" && !false) = true then TokKind.url
      else if Py.startsWith t "$" = true then TokKind.variable
      else if Py.startsWith t "/" = true then TokKind.absolute
      else if (false || false) = true then TokKind.home
      else if false = true then TokKind.userHome
      else if (t == "." || t == ".." || Py.startsWith t "./" || Py.startsWith t "../" || Py.hasChar t '/') = true then TokKind.relative
      else TokKind.bare) ≠ TokKind.home := by
    apply hne
    split
    · simp
    · split
      · simp
      · split
        · simp
        · split
          · simp_all
          · split
            · simp_all
            · split <;> simp
  simp only [this, ↓reduceIte]

end Dippy.RT
