/-
Lemmas about Python's `str.strip(chars)` as modelled in `Model/PyStr.lean`: what is removed is a prefix and a suffix
made of the given characters only, what is left neither begins nor ends with one, and stripping twice is stripping once.
-/
import Dippy.Model.PyStr

namespace Dippy.Py

theorem lstripL_split (p : Char → Bool) (l : List Char) :
    ∃ pre, l = pre ++ lstripL p l ∧ ∀ c ∈ pre, p c = true := by
  induction l with
  | nil => exact ⟨[], by simp [lstripL]⟩
  | cons c t ih =>
    by_cases hc : p c = true
    · obtain ⟨pre, h1, h2⟩ := ih
      refine ⟨c :: pre, ?_, ?_⟩
      · simp only [lstripL, hc, if_true, List.cons_append]
        exact congrArg (c :: ·) h1
      · intro d hd
        rcases List.mem_cons.mp hd with rfl | hd
        · exact hc
        · exact h2 d hd
    · exact ⟨[], by simp [lstripL, hc]⟩

theorem lstripL_head (p : Char → Bool) (l : List Char) (c : Char) (h : (lstripL p l).head? = some c) : p c = false := by
  induction l with
  | nil => simp [lstripL] at h
  | cons d t ih =>
    by_cases hd : p d = true
    · simp only [lstripL, hd, if_true] at h
      exact ih h
    · simp only [lstripL, hd] at h
      simp at h
      subst h
      simpa using hd

/-- nothing to strip on the left: the list is returned -/
theorem lstripL_id (p : Char → Bool) (l : List Char) (h : ∀ c, l.head? = some c → p c = false) : lstripL p l = l := by
  cases l with
  | nil => rfl
  | cons d t =>
    have := h d rfl
    simp [lstripL, this]

theorem rstripL_split (p : Char → Bool) (l : List Char) :
    ∃ suf, l = rstripL p l ++ suf ∧ ∀ c ∈ suf, p c = true := by
  obtain ⟨pre, h1, h2⟩ := lstripL_split p l.reverse
  refine ⟨pre.reverse, ?_, ?_⟩
  · have := congrArg List.reverse h1
    simpa [rstripL] using this
  · intro c hc
    exact h2 c (List.mem_reverse.mp hc)

theorem rstripL_last (p : Char → Bool) (l : List Char) (c : Char) (h : (rstripL p l).getLast? = some c) : p c = false := by
  unfold rstripL at h
  rw [List.getLast?_reverse] at h
  exact lstripL_head p _ c h

/-- `strip`: the text is `pre ++ stripped ++ suf`, and `pre`, `suf` hold stripped characters only -/
theorem stripL_split (p : Char → Bool) (l : List Char) :
    ∃ pre suf, l = pre ++ stripL p l ++ suf ∧ (∀ c ∈ pre, p c = true) ∧ (∀ c ∈ suf, p c = true) := by
  obtain ⟨pre, h1, h2⟩ := lstripL_split p l
  obtain ⟨suf, h3, h4⟩ := rstripL_split p (lstripL p l)
  refine ⟨pre, suf, ?_, h2, h4⟩
  unfold stripL
  rw [List.append_assoc, ← h3]
  exact h1

/-- what is left does not end with a stripped character -/
theorem stripL_last (p : Char → Bool) (l : List Char) (c : Char) (h : (stripL p l).getLast? = some c) : p c = false :=
  rstripL_last p _ c h

/-- dropping a suffix from a list that does not start with a stripped character leaves one that does not either -/
theorem rstripL_head_of (p : Char → Bool) (l : List Char) (hl : ∀ c, l.head? = some c → p c = false) :
    ∀ c, (rstripL p l).head? = some c → p c = false := by
  intro c hc
  obtain ⟨suf, h1, _⟩ := rstripL_split p l
  cases hr : rstripL p l with
  | nil => rw [hr] at hc; simp at hc
  | cons d t =>
    rw [hr] at hc h1
    simp at hc
    subst hc
    apply hl
    rw [h1]
    rfl

/-- what is left does not begin with a stripped character -/
theorem stripL_head (p : Char → Bool) (l : List Char) (c : Char) (h : (stripL p l).head? = some c) : p c = false :=
  rstripL_head_of p _ (fun c hc => lstripL_head p l c hc) c h

theorem rstripL_id (p : Char → Bool) (l : List Char) (h : ∀ c, l.getLast? = some c → p c = false) : rstripL p l = l := by
  unfold rstripL
  rw [lstripL_id p l.reverse (by intro c hc; rw [List.head?_reverse] at hc; exact h c hc)]
  simp

/-- stripping twice is stripping once -/
theorem stripL_idem (p : Char → Bool) (l : List Char) : stripL p (stripL p l) = stripL p l := by
  have hh := stripL_head p l
  have hl := stripL_last p l
  generalize stripL p l = m at hh hl
  unfold stripL
  rw [lstripL_id p m hh, rstripL_id p m hl]

/-! ### padding: stripped characters added at the two ends change nothing -/

theorem lstripL_append_left (p : Char → Bool) (pre l : List Char) (h : ∀ c ∈ pre, p c = true) :
    lstripL p (pre ++ l) = lstripL p l := by
  induction pre with
  | nil => rfl
  | cons c t ih =>
    have hc : p c = true := h c (List.mem_cons_self ..)
    simp only [List.cons_append, lstripL, hc, if_true]
    exact ih (fun d hd => h d (List.mem_cons_of_mem _ hd))

theorem lstripL_all (p : Char → Bool) (l : List Char) (h : ∀ c ∈ l, p c = true) : lstripL p l = [] := by
  have := lstripL_append_left p l [] h
  simpa [lstripL] using this

theorem rstripL_append_right (p : Char → Bool) (l suf : List Char) (h : ∀ c ∈ suf, p c = true) :
    rstripL p (l ++ suf) = rstripL p l := by
  unfold rstripL
  rw [List.reverse_append, lstripL_append_left p suf.reverse l.reverse (fun c hc => h c (List.mem_reverse.mp hc))]

theorem strip_append_right (p : Char → Bool) (l suf : List Char) (h : ∀ c ∈ suf, p c = true) :
    rstripL p (lstripL p (l ++ suf)) = rstripL p (lstripL p l) := by
  induction l with
  | nil =>
    simp only [List.nil_append, lstripL_all p suf h, lstripL]
  | cons c t ih =>
    by_cases hc : p c = true
    · simp only [List.cons_append, lstripL, hc, if_true]
      exact ih
    · simp only [List.cons_append, lstripL, hc]
      simpa using rstripL_append_right p (c :: t) suf h

/-- `strip` of a padded text is `strip` of the text -/
theorem stripL_pad (p : Char → Bool) (pre l suf : List Char) (h1 : ∀ c ∈ pre, p c = true) (h2 : ∀ c ∈ suf, p c = true) :
    stripL p (pre ++ l ++ suf) = stripL p l := by
  unfold stripL
  rw [List.append_assoc, lstripL_append_left p pre _ h1]
  exact strip_append_right p l suf h2

theorem stripL_all (p : Char → Bool) (l : List Char) (h : ∀ c ∈ l, p c = true) : stripL p l = [] := by
  unfold stripL
  rw [lstripL_all p l h]
  rfl

theorem strip_idem (s : String) : strip (strip s) = strip s := by
  simp only [strip, String.toList_ofList]
  rw [stripL_idem]

theorem strip_pad (pre suf : List Char) (s : String) (h1 : ∀ c ∈ pre, isSpace c = true) (h2 : ∀ c ∈ suf, isSpace c = true) :
    strip (String.ofList (pre ++ s.toList ++ suf)) = strip s := by
  simp only [strip, String.toList_ofList]
  rw [stripL_pad isSpace pre s.toList suf h1 h2]

end Dippy.Py
