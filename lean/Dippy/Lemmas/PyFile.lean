/-
What `analyze_python_file = (True, …)` guarantees (model: Model/PyFile.lean).
-/
import Dippy.Model.PyFile
import Dippy.Lemmas.PyWalk

set_option linter.unusedSimpArgs false
set_option linter.unusedVariables false

namespace Dippy.PyFile
open Dippy Dippy.PyAst

/-- **a file judged safe** exists, is a regular file with a Python suffix, is within the size limit, is readable as
    UTF-8 and declares no other encoding, parses, passes the AST checker with no violation at all, and none of the
    modules it imports is shadowed by a file or directory next to it -/
theorem safe_means (T : Tables) (suffixes : List String) (limit : Nat) (isName : Char → Bool) (ff : FileFacts)
    (h : analyzeFile T suffixes limit isName ff = .safe) :
    ff.pathExists = true ∧ ff.isFile = true ∧ suffixes.contains ff.suffix = true
      ∧ (∃ sz, ff.size = some sz ∧ sz ≤ limit)
      ∧ ∃ src tree, ff.source = some src ∧ foreignCookie isName src = none ∧ ff.tree = some tree
          ∧ visit T true tree = [] ∧ ∀ r ∈ importRoots tree, ff.shadowed r = false := by
  unfold analyzeFile at h
  split at h
  · cases h
  · rename_i h1
    split at h
    · cases h
    · rename_i h2
      split at h
      · cases h
      · rename_i h3
        split at h
        · cases h
        · rename_i sz hsz
          split at h
          · cases h
          · rename_i h4
            split at h
            · cases h
            · rename_i src hsrc
              split at h
              · cases h
              · rename_i hck
                split at h
                · cases h
                · rename_i tree htree
                  split at h
                  · cases h
                  · rename_i hfirst
                    split at h
                    · cases h
                    · rename_i hfind
                      refine ⟨by simpa using h1, by simpa using h2, by simpa using h3, ⟨sz, hsz, by omega⟩, src, tree, hsrc, hck, htree, ?_, ?_⟩
                      · unfold firstReason at hfirst
                        split at hfirst
                        · assumption
                        · cases hfirst
                      · intro r hr
                        have := List.find?_eq_none.mp hfind r hr
                        simpa using this

end Dippy.PyFile
