/-
Lemmas about `Action.sup`, `supList` and `combine` (R1's algebra).
-/
import Dippy.Model.Action

namespace Dippy

namespace Action

theorem sup_comm (a b : Action) : sup a b = sup b a := by cases a <;> cases b <;> rfl
theorem sup_assoc (a b c : Action) : sup (sup a b) c = sup a (sup b c) := by
  cases a <;> cases b <;> cases c <;> rfl
@[simp] theorem sup_idem (a : Action) : sup a a = a := by cases a <;> rfl
@[simp] theorem sup_allow_left (a : Action) : sup .allow a = a := by cases a <;> rfl
@[simp] theorem sup_allow_right (a : Action) : sup a .allow = a := by cases a <;> rfl
@[simp] theorem sup_deny_left (a : Action) : sup .deny a = .deny := by cases a <;> rfl
@[simp] theorem sup_deny_right (a : Action) : sup a .deny = .deny := by cases a <;> rfl

theorem le_def (a b : Action) : a ≤ b ↔ a.rank ≤ b.rank := Iff.rfl
theorem le_refl (a : Action) : a ≤ a := Nat.le_refl _
theorem le_trans {a b c : Action} : a ≤ b → b ≤ c → a ≤ c := Nat.le_trans
theorem le_antisymm {a b : Action} (h1 : a ≤ b) (h2 : b ≤ a) : a = b := by
  cases a <;> cases b <;> simp [le_def, rank] at h1 h2 <;> rfl
theorem allow_le (a : Action) : Action.allow ≤ a := Nat.zero_le _
theorem le_deny (a : Action) : a ≤ Action.deny := by cases a <;> simp [le_def, rank]
theorem le_sup_left (a b : Action) : a ≤ sup a b := by
  cases a <;> cases b <;> simp [le_def, rank, sup]
theorem le_sup_right (a b : Action) : b ≤ sup a b := by
  cases a <;> cases b <;> simp [le_def, rank, sup]
theorem sup_le {a b c : Action} (h1 : a ≤ c) (h2 : b ≤ c) : sup a b ≤ c := by
  cases a <;> cases b <;> cases c <;> simp [le_def, rank, sup] at * 
theorem sup_eq_allow {a b : Action} : sup a b = .allow ↔ a = .allow ∧ b = .allow := by
  cases a <;> cases b <;> simp [sup]
theorem le_allow {a : Action} : a ≤ .allow ↔ a = .allow := by
  cases a <;> simp [le_def, rank]

end Action

theorem foldl_sup (as : List Action) (x : Action) :
    as.foldl Action.sup x = Action.sup x (as.foldl Action.sup .allow) := by
  induction as generalizing x with
  | nil => simp
  | cons a as ih =>
    simp only [List.foldl_cons]
    rw [ih (Action.sup x a), ih (Action.sup .allow a)]
    simp [Action.sup_assoc]

@[simp] theorem supList_nil : supList [] = .allow := rfl

@[simp] theorem supList_cons (a : Action) (as : List Action) :
    supList (a :: as) = Action.sup a (supList as) := by
  unfold supList
  rw [List.foldl_cons, foldl_sup]
  simp

@[simp] theorem supList_append (xs ys : List Action) :
    supList (xs ++ ys) = Action.sup (supList xs) (supList ys) := by
  induction xs with
  | nil => simp
  | cons a xs ih => simp [ih, Action.sup_assoc]

theorem supList_singleton (a : Action) : supList [a] = a := by simp

theorem le_supList {a : Action} {as : List Action} (h : a ∈ as) : a ≤ supList as := by
  induction as with
  | nil => cases h
  | cons b bs ih =>
    rw [supList_cons]
    cases h with
    | head => exact Action.le_sup_left _ _
    | tail _ h => exact Action.le_trans (ih h) (Action.le_sup_right _ _)

theorem supList_le {c : Action} {as : List Action} (h : ∀ a ∈ as, a ≤ c) : supList as ≤ c := by
  induction as with
  | nil => exact Action.allow_le _
  | cons b bs ih =>
    rw [supList_cons]
    exact Action.sup_le (h b (List.mem_cons_self ..)) (ih fun a ha => h a (List.mem_cons_of_mem _ ha))

/-- the join is attained by a member (or is `allow` for the empty list) -/
theorem supList_mem (as : List Action) : supList as = .allow ∨ supList as ∈ as := by
  induction as with
  | nil => left; rfl
  | cons b bs ih =>
    rw [supList_cons]
    rcases ih with h | h
    · rw [h]; right; simp
    · cases b <;> cases hs : supList bs <;> simp_all [Action.sup]

theorem supList_eq_allow {as : List Action} : supList as = .allow ↔ ∀ a ∈ as, a = .allow := by
  induction as with
  | nil => simp
  | cons b bs ih => simp [Action.sup_eq_allow, ih]

theorem supList_perm {xs ys : List Action} (h : xs.Perm ys) : supList xs = supList ys := by
  induction h with
  | nil => rfl
  | cons a _ ih => simp [ih]
  | swap a b l => simp [← Action.sup_assoc, Action.sup_comm a b]
  | trans _ _ ih1 ih2 => exact ih1.trans ih2

theorem supList_dup (xs : List Action) : supList (xs ++ xs) = supList xs := by simp

/-- `_combine` takes the join of the actions. -/
theorem combine_action (ds : List Decision) :
    (combine ds).action = supList (ds.map (·.action)) := by
  induction ds with
  | nil => rfl
  | cons d ds ih =>
    rw [List.map_cons, supList_cons, ← ih]
    unfold combine
    cases hd : d.action <;> cases ds with
    | nil => simp [hd]
    | cons e es =>
      simp only [List.isEmpty_cons, Bool.false_eq_true, ↓reduceIte, List.any_cons, hd]
      by_cases h1 : (decide (e.action = Action.deny) || es.any fun d => decide (d.action = Action.deny)) = true
      · simp [h1]
      · by_cases h2 : (decide (e.action = Action.ask) || es.any fun d => decide (d.action = Action.ask)) = true
        · simp [h1, h2, Action.sup]
        · simp [h1, h2, Action.sup]

theorem combine_action_append (xs ys : List Decision) :
    (combine (xs ++ ys)).action = Action.sup (combine xs).action (combine ys).action := by
  simp [combine_action]

theorem combine_singleton_action (d : Decision) : (combine [d]).action = d.action := by
  simp [combine_action]

/-- a single decision passes through `_combine` unchanged, reason included -/
theorem combine_singleton (d : Decision) : combine [d] = d := by
  unfold combine
  cases d with
  | mk a r => cases a <;> simp [reasonsOf, joinComma]

end Dippy
