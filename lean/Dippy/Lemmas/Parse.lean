/-
R4: `parse_config` is a fold of independent per-line results; each rule family of the
result is the concatenation of that family's line results; a skipped line is the
identity; parsing a concatenation is parsing the second text on top of the first.
-/
import Dippy.Model.Config

set_option linter.unusedSimpArgs false

namespace Dippy

def LineResult.ruleOf : LineResult → Option Rule
  | .rule r => some r
  | _ => none
def LineResult.redirectOf : LineResult → Option Rule
  | .redirect r => some r
  | _ => none
def LineResult.afterOf : LineResult → Option AfterRule
  | .after r => some r
  | _ => none
def LineResult.mcpOf : LineResult → Option Rule
  | .mcp r => some r
  | _ => none
def LineResult.afterMcpOf : LineResult → Option AfterRule
  | .afterMcp r => some r
  | _ => none
def LineResult.aliasOf : LineResult → Option (String × String)
  | .alias s t => some (s, t)
  | _ => none

/-- folding a list of line results -/
def applyAll (c : Config) (rs : List LineResult) : Config := rs.foldl Config.apply c

theorem parseLines_eq (e : ParseEnv) (lines : List String) (c : Config) :
    parseLines e lines c = applyAll c (lines.map (parseLine e)) := by
  unfold parseLines applyAll
  rw [List.foldl_map]

theorem applyAll_append (c : Config) (a b : List LineResult) :
    applyAll c (a ++ b) = applyAll (applyAll c a) b := by
  unfold applyAll; rw [List.foldl_append]

theorem parseLines_append (e : ParseEnv) (a b : List String) (c : Config) :
    parseLines e (a ++ b) c = parseLines e b (parseLines e a c) := by
  unfold parseLines; rw [List.foldl_append]

theorem applyAll_rules (c : Config) (rs : List LineResult) :
    (applyAll c rs).rules = c.rules ++ rs.filterMap LineResult.ruleOf := by
  induction rs generalizing c with
  | nil => simp [applyAll]
  | cons r rs ih =>
    have : applyAll c (r :: rs) = applyAll (c.apply r) rs := rfl
    rw [this, ih]
    cases r <;> simp [Config.apply, LineResult.ruleOf, List.filterMap_cons]

theorem applyAll_redirectRules (c : Config) (rs : List LineResult) :
    (applyAll c rs).redirectRules = c.redirectRules ++ rs.filterMap LineResult.redirectOf := by
  induction rs generalizing c with
  | nil => simp [applyAll]
  | cons r rs ih =>
    have : applyAll c (r :: rs) = applyAll (c.apply r) rs := rfl
    rw [this, ih]
    cases r <;> simp [Config.apply, LineResult.redirectOf, List.filterMap_cons]

theorem applyAll_afterRules (c : Config) (rs : List LineResult) :
    (applyAll c rs).afterRules = c.afterRules ++ rs.filterMap LineResult.afterOf := by
  induction rs generalizing c with
  | nil => simp [applyAll]
  | cons r rs ih =>
    have : applyAll c (r :: rs) = applyAll (c.apply r) rs := rfl
    rw [this, ih]
    cases r <;> simp [Config.apply, LineResult.afterOf, List.filterMap_cons]

theorem applyAll_mcpRules (c : Config) (rs : List LineResult) :
    (applyAll c rs).mcpRules = c.mcpRules ++ rs.filterMap LineResult.mcpOf := by
  induction rs generalizing c with
  | nil => simp [applyAll]
  | cons r rs ih =>
    have : applyAll c (r :: rs) = applyAll (c.apply r) rs := rfl
    rw [this, ih]
    cases r <;> simp [Config.apply, LineResult.mcpOf, List.filterMap_cons]

theorem applyAll_afterMcpRules (c : Config) (rs : List LineResult) :
    (applyAll c rs).afterMcpRules = c.afterMcpRules ++ rs.filterMap LineResult.afterMcpOf := by
  induction rs generalizing c with
  | nil => simp [applyAll]
  | cons r rs ih =>
    have : applyAll c (r :: rs) = applyAll (c.apply r) rs := rfl
    rw [this, ih]
    cases r <;> simp [Config.apply, LineResult.afterMcpOf, List.filterMap_cons]

theorem applyAll_aliases (c : Config) (rs : List LineResult) :
    (applyAll c rs).aliases
      = (rs.filterMap LineResult.aliasOf).foldl (fun acc kv => aliasInsert acc kv.1 kv.2) c.aliases := by
  induction rs generalizing c with
  | nil => simp [applyAll]
  | cons r rs ih =>
    have : applyAll c (r :: rs) = applyAll (c.apply r) rs := rfl
    rw [this, ih]
    cases r <;> simp [Config.apply, LineResult.aliasOf, List.filterMap_cons]

/-- a line whose result is `skip` (blank, comment, malformed, unknown directive) is the identity -/
theorem skip_line_identity (e : ParseEnv) (a b : List String) (l : String) (c : Config)
    (h : parseLine e l = .skip) :
    parseLines e (a ++ l :: b) c = parseLines e (a ++ b) c := by
  rw [parseLines_append, parseLines_append]
  have : parseLines e (l :: b) (parseLines e a c) = parseLines e b (parseLines e a c) := by
    unfold parseLines
    simp [List.foldl_cons, h, Config.apply]
  exact this

end Dippy

namespace Dippy

def LineResult.logOf : LineResult → Option String
  | .setLog p => some p
  | _ => none

def LineResult.isLogFull : LineResult → Bool
  | .setLogFull => true
  | _ => false

/-- the `log` setting: the last `set log` line wins -/
def lastLog (init : Option String) (rs : List LineResult) : Option String :=
  rs.foldl (fun acc r => match r.logOf with
    | some p => some p
    | none => acc) init

theorem applyAll_log (c : Config) (rs : List LineResult) :
    (applyAll c rs).log = lastLog c.log rs := by
  induction rs generalizing c with
  | nil => rfl
  | cons r rs ih =>
    have : applyAll c (r :: rs) = applyAll (c.apply r) rs := rfl
    rw [this, ih]
    cases r <;> rfl

theorem lastLog_append (init : Option String) (a b : List LineResult) :
    lastLog init (a ++ b) = lastLog (lastLog init a) b := by
  unfold lastLog; rw [List.foldl_append]

theorem lastLog_none (init : Option String) (rs : List LineResult) :
    lastLog init rs = match lastLog none rs with
      | some p => some p
      | none => init := by
  induction rs generalizing init with
  | nil => cases init <;> rfl
  | cons r rs ih =>
    have h1 : ∀ i, lastLog i (r :: rs) = lastLog (match r.logOf with | some p => some p | none => i) rs := fun _ => rfl
    rw [h1, h1, ih]
    cases hr : r.logOf with
    | some p =>
      simp only
      rw [ih (some p)]
      cases lastLog none rs <;> rfl
    | none => rfl

theorem applyAll_logFull (c : Config) (rs : List LineResult) :
    (applyAll c rs).logFull = (c.logFull || rs.any LineResult.isLogFull) := by
  induction rs generalizing c with
  | nil => simp [applyAll]
  | cons r rs ih =>
    have : applyAll c (r :: rs) = applyAll (c.apply r) rs := rfl
    rw [this, ih]
    cases r <;> simp [Config.apply, LineResult.isLogFull]

end Dippy
