/-
The `remote` flag is constant through the walk of one tree: every atom of `flat w n cwd r`
carries exactly `r`, and file-redirection atoms exist only when `r = false`.
(The only place the flag changes is the handler delegation of `builtinVerdict`.)
-/
import Dippy.Model.Flat

namespace Dippy

set_option linter.unusedSimpArgs false

/-- an atom produced by a walk whose flag is `r` -/
def Atom.flagOk (r : Bool) : Atom → Bool
  | .proper _ _ _ r' => r' == r
  | .unquotedCmd _ _ _ _ r' => r' == r
  | .text _ _ _ r' => r' == r
  | .redir _ _ _ => !r
  | .inject _ _ _ => true
  | .unknown _ => true

def flagAll (r : Bool) (l : List Atom) : Bool := l.all (Atom.flagOk r)

@[simp] theorem flagAll_nil (r : Bool) : flagAll r [] = true := rfl
@[simp] theorem flagAll_append (r : Bool) (a b : List Atom) : flagAll r (a ++ b) = (flagAll r a && flagAll r b) := by
  simp [flagAll]
@[simp] theorem flagAll_cons (r : Bool) (a : Atom) (l : List Atom) : flagAll r (a :: l) = (a.flagOk r && flagAll r l) := by
  simp [flagAll]

theorem expansion_flag (wd : Word) (p : Part) (cwd : String) (r : Bool) :
    flagAll r (expansionAtoms wd p cwd r) = true := by
  cases p <;> simp [expansionAtoms, flagAll, Atom.flagOk]

variable (w : Syn)

mutual

theorem node_flag : ∀ (n : Node) (cwd : String) (r : Bool), flagAll r (flat w n cwd r) = true
  | .command ws rs, cwd, r => by
    simp [flat, cmdWords_flag (mkCmdCtxS w.hasHandler w.simpleSafe ws) ws 0 cwd r, redirects_flag rs cwd r, Atom.flagOk]
  | .pipeline cmds, cwd, r => by simp [flat, nodes_flag cmds cwd r]
  | .list parts, cwd, r => by simp [flat, listPartsCd_flag parts _ _ r]
  | .ifN c t e rs, cwd, r => by
    simp [flat, node_flag c cwd r, node_flag t cwd r, optNode_flag e cwd r, redirects_flag rs cwd r]
  | .whileN _ c b rs, cwd, r => by simp [flat, node_flag c cwd r, node_flag b cwd r, redirects_flag rs cwd r]
  | .forN _ ws b rs, cwd, r => by simp [flat, node_flag b cwd r, words_flag ws cwd r, redirects_flag rs cwd r]
  | .forArith i c s b rs, cwd, r => by simp [flat, node_flag b cwd r, redirects_flag rs cwd r, Atom.flagOk]
  | .selectN _ ws b rs, cwd, r => by simp [flat, node_flag b cwd r, words_flag ws cwd r, redirects_flag rs cwd r]
  | .caseN wd pats rs, cwd, r => by simp [flat, optWord_flag wd cwd r, casePats_flag pats cwd r, redirects_flag rs cwd r]
  | .function _ b, cwd, r => by simp [flat, node_flag b cwd r]
  | .subshell b rs, cwd, r => by simp [flat, node_flag b cwd r, redirects_flag rs cwd r]
  | .braceGroup b rs, cwd, r => by simp [flat, node_flag b cwd r, redirects_flag rs cwd r]
  | .time p, cwd, r => by simp [flat, node_flag p cwd r]
  | .negation p, cwd, r => by simp [flat, node_flag p cwd r]
  | .coproc c, cwd, r => by simp [flat, node_flag c cwd r]
  | .condExpr b rs, cwd, r => by simp [flat, optCond_flag b cwd r, redirects_flag rs cwd r]
  | .arithCmd e raw rs, cwd, r => by
    cases raw with
    | some t => simp [flat, redirects_flag rs cwd r, Atom.flagOk]
    | none => simp [flat, optArith_flag e cwd r, redirects_flag rs cwd r]
  | .comment, _, _ => by simp [flat]
  | .empty, _, _ => by simp [flat]
  | .operator _, _, _ => by simp [flat, Atom.flagOk]
  | .other k, _, _ => by simp [flat, Atom.flagOk]

theorem nodes_flag : ∀ (ns : List Node) (cwd : String) (r : Bool), flagAll r (flatNodes w ns cwd r) = true
  | [], _, _ => by simp [flatNodes]
  | n :: ns, cwd, r => by simp [flatNodes, node_flag n cwd r, nodes_flag ns cwd r]

theorem listParts_flag : ∀ (ns : List Node) (cwd : String) (r : Bool), flagAll r (flatListParts w ns cwd r) = true
  | [], _, _ => by simp [flatListParts]
  | n :: ns, cwd, r => by
    simp only [flatListParts]
    split
    · exact listParts_flag ns cwd r
    · simp [node_flag n cwd r, listParts_flag ns cwd r]

theorem listPartsCd_flag : ∀ (ns : List Node) (cwd0 cwd : String) (r : Bool), flagAll r (flatListPartsCd w ns cwd0 cwd r) = true
  | [], _, _, _ => by simp [flatListPartsCd]
  | n :: ns, cwd0, cwd, r => by
    simp only [flatListPartsCd]
    split
    · exact listPartsCd_flag ns cwd0 cwd r
    · simp [node_flag n cwd0 r, listParts_flag ns cwd r]

theorem optNode_flag : ∀ (e : Option Node) (cwd : String) (r : Bool), flagAll r (flatOptNode w e cwd r) = true
  | none, _, _ => by simp [flatOptNode]
  | some n, cwd, r => by simp [flatOptNode, node_flag n cwd r]

theorem cmdWords_flag (ctx : CmdCtx) : ∀ (ws : List Word) (pos : Nat) (cwd : String) (r : Bool),
    flagAll r (flatCmdWords w ctx ws pos cwd r) = true
  | [], _, _, _ => by simp [flatCmdWords]
  | .mk v ps :: ws, pos, cwd, r => by
    simp [flatCmdWords, cmdParts_flag ctx (.mk v ps) pos ps cwd r, cmdWords_flag ctx ws (pos + 1) cwd r]
    cases assignSubscript v <;> simp [flagAll, Atom.flagOk]

theorem cmdParts_flag (ctx : CmdCtx) (wd : Word) (pos : Nat) : ∀ (ps : List Part) (cwd : String) (r : Bool),
    flagAll r (flatCmdParts w ctx wd pos ps cwd r) = true
  | [], _, _ => by simp [flatCmdParts]
  | p :: ps, cwd, r => by
    have ih := cmdParts_flag ctx wd pos ps cwd r
    cases p with
    | cmdsub cmd => simp [flatCmdParts, ih, node_flag cmd cwd r, Atom.flagOk]
    | procsub dir cmd => simp [flatCmdParts, ih, node_flag cmd cwd r]
    | array elems => simp [flatCmdParts, ih, words_flag elems cwd r]
    | param n o arg => simp [flatCmdParts, ih, expansion_flag]
    | paramLen _ => simp [flatCmdParts, ih, expansion_flag]
    | paramIndirect _ _ _ => simp [flatCmdParts, ih, expansion_flag]
    | arith _ => simp [flatCmdParts, ih, expansion_flag]
    | arithDeprecated _ => simp [flatCmdParts, ih, expansion_flag]
    | other _ => simp [flatCmdParts, ih, expansion_flag]

theorem wordParts_flag (wd : Word) : ∀ (ps : List Part) (cwd : String) (r : Bool),
    flagAll r (flatWordParts w wd ps cwd r) = true
  | [], _, _ => by simp [flatWordParts]
  | p :: ps, cwd, r => by
    have ih := wordParts_flag wd ps cwd r
    cases p with
    | cmdsub cmd => simp [flatWordParts, ih, node_flag cmd cwd r]
    | procsub dir cmd => simp [flatWordParts, ih, node_flag cmd cwd r]
    | array elems => simp [flatWordParts, ih, words_flag elems cwd r]
    | param n o arg => simp [flatWordParts, ih, expansion_flag]
    | paramLen _ => simp [flatWordParts, ih, expansion_flag]
    | paramIndirect _ _ _ => simp [flatWordParts, ih, expansion_flag]
    | arith _ => simp [flatWordParts, ih, expansion_flag]
    | arithDeprecated _ => simp [flatWordParts, ih, expansion_flag]
    | other _ => simp [flatWordParts, ih, expansion_flag]

theorem word_flag : ∀ (wd : Word) (cwd : String) (r : Bool), flagAll r (flatWord w wd cwd r) = true
  | .mk v ps, cwd, r => by simp only [flatWord]; exact wordParts_flag (.mk v ps) ps cwd r

theorem condOperand_flag (regex : Bool) : ∀ (wd : Word) (cwd : String) (r : Bool), flagAll r (flatCondOperand w regex wd cwd r) = true
  | .mk v ps, cwd, r => by
    simp only [flatCondOperand]
    split <;> simp [wordParts_flag (.mk v ps) ps cwd r, Atom.flagOk]

theorem words_flag : ∀ (ws : List Word) (cwd : String) (r : Bool), flagAll r (flatWords w ws cwd r) = true
  | [], _, _ => by simp [flatWords]
  | wd :: ws, cwd, r => by simp [flatWords, word_flag wd cwd r, words_flag ws cwd r]

theorem optWord_flag : ∀ (wd : Option Word) (cwd : String) (r : Bool), flagAll r (flatOptWord w wd cwd r) = true
  | none, _, _ => by simp [flatOptWord]
  | some wd, cwd, r => by simp only [flatOptWord]; exact word_flag wd cwd r

theorem redirects_flag : ∀ (rs : List Redir) (cwd : String) (r : Bool), flagAll r (flatRedirects w rs cwd r) = true
  | [], _, _ => by simp [flatRedirects]
  | rd :: rs, cwd, r => by
    have ih := redirects_flag rs cwd r
    cases rd with
    | heredoc quoted content => cases quoted <;> simp [flatRedirects, ih, Atom.flagOk]
    | redirect op tgt =>
      cases tgt with
      | none => cases r <;> simp [flatRedirects, ih, Atom.flagOk]
      | some t => cases r <;> cases hamp : Py.startsWith t.value "&" <;> simp [flatRedirects, ih, word_flag t cwd _, Atom.flagOk, hamp]
    | other _ => simpa [flatRedirects] using ih

theorem casePats_flag : ∀ (ps : List CasePat) (cwd : String) (r : Bool), flagAll r (flatCasePats w ps cwd r) = true
  | [], _, _ => by simp [flatCasePats]
  | .mk pat body :: ps, cwd, r => by
    simp [flatCasePats, optNode_flag body cwd r, casePats_flag ps cwd r, Atom.flagOk]

theorem cond_flag : ∀ (c : Cond) (cwd : String) (r : Bool), flagAll r (flatCond w c cwd r) = true
  | .unary _ o, cwd, r => by simp only [flatCond]; exact condOperand_flag false o cwd r
  | .binary op l r', cwd, r => by simp [flatCond, condOperand_flag false l cwd r, condOperand_flag (op == "=~") r' cwd r]
  | .and l r', cwd, r => by simp [flatCond, cond_flag l cwd r, cond_flag r' cwd r]
  | .or l r', cwd, r => by simp [flatCond, cond_flag l cwd r, cond_flag r' cwd r]
  | .not o, cwd, r => by simp only [flatCond]; exact cond_flag o cwd r
  | .paren i, cwd, r => by simp only [flatCond]; exact cond_flag i cwd r
  | .other _, _, _ => by simp [flatCond]

theorem optCond_flag : ∀ (c : Option Cond) (cwd : String) (r : Bool), flagAll r (flatOptCond w c cwd r) = true
  | none, _, _ => by simp [flatOptCond]
  | some c, cwd, r => by simp only [flatOptCond]; exact cond_flag c cwd r

theorem arith_flag : ∀ (e : Arith) (cwd : String) (r : Bool), flagAll r (flatArith w e cwd r) = true
  | .cmdsub cmd, cwd, r => by simp only [flatArith]; exact node_flag cmd cwd r
  | .node _ attrs, cwd, r => by
    simp only [flatArith]
    have hk := arithAttrs_flag attrs cwd r
    generalize w.arithWalked = names
    induction names with
    | nil => simp
    | cons a as ih => simp [List.flatMap_cons, ih, hk a]

theorem arithAttrs_flag : ∀ (attrs : List (String × AVal)) (cwd : String) (r : Bool) (a : String),
    flagAll r ((((flatArithAttrs w attrs cwd r).find? (fun kv => kv.1 == a)).map (·.2)).getD []) = true
  | [], _, _, _ => by simp [flatArithAttrs]
  | (k, v) :: rest, cwd, r, a => by
    unfold flatArithAttrs
    rw [List.find?_cons]
    by_cases hk : (k == a) = true
    · simp only [hk, Option.map_some, Option.getD_some]
      cases v with
      | one x => exact arith_flag x cwd r
      | many _ => simp
      | str _ => simp
    · simp only [hk]
      exact arithAttrs_flag rest cwd r a

theorem optArith_flag : ∀ (e : Option Arith) (cwd : String) (r : Bool), flagAll r (flatOptArith w e cwd r) = true
  | none, _, _ => by simp [flatOptArith]
  | some e, cwd, r => by simp only [flatOptArith]; exact arith_flag e cwd r

end

end Dippy
