/-
Line-protocol driver: one JSON request per line on stdin, one JSON reply per line
on stdout.  Runs the *model's* executable definitions on inputs supplied by the
Python harness, which runs the implementation on the same inputs and compares.
Not part of any proof; imports only the model (no Mathlib) so it links as an exe.
-/
import Lean.Data.Json
import Dippy.Model.Analyzer
import Dippy.Model.Config
import Dippy.Model.Load
import Dippy.Model.Hook
import Dippy.Model.LogFS
import Dippy.Generated.Tables
import Dippy.Generated.Hook
import Dippy.Model.Wrappers
import Dippy.Model.ProcState
import Dippy.Model.Statusline
import Dippy.Model.Sql
import Dippy.Model.PyCli
import Dippy.Lemmas.RoundTrip
import Dippy.Model.PyAst
import Dippy.Model.PyFile
import Dippy.Generated.PyCli
import Dippy.Generated.PyAst

open Lean Dippy

namespace Driver

abbrev R := Except String

def str (j : Json) (k : String) : R String := do (← j.getObjVal? k).getStr?
def strD (j : Json) (k : String) (d : String) : String := (str j k).toOption.getD d
def optStr (j : Json) (k : String) : Option String :=
  match j.getObjVal? k with
  | .ok (.str s) => some s
  | _ => none
def arr (j : Json) (k : String) : R (Array Json) := do (← j.getObjVal? k).getArr?
def arrD (j : Json) (k : String) : Array Json := (arr j k).toOption.getD #[]
def boolD (j : Json) (k : String) (d : Bool) : Bool :=
  match j.getObjVal? k with
  | .ok (.bool b) => b
  | _ => d
def natD (j : Json) (k : String) (d : Nat) : Nat :=
  match j.getObjVal? k with
  | .ok v => (v.getNat?).toOption.getD d
  | _ => d
def optObj (j : Json) (k : String) : Option Json :=
  match j.getObjVal? k with
  | .ok .null => none
  | .ok v => some v
  | _ => none
def strList (j : Json) : R (List String) := do
  let a ← j.getArr?
  a.toList.mapM (·.getStr?)

mutual
partial def toNode (j : Json) : R Node := do
  let k ← str j "k"
  let reds : R (List Redir) := (arrD j "redirects").toList.mapM toRedir
  match k with
  | "command" => return .command (← (arrD j "words").toList.mapM toWord) (← reds)
  | "pipeline" => return .pipeline (← (arrD j "commands").toList.mapM toNode)
  | "list" => return .list (← (arrD j "parts").toList.mapM toNode)
  | "operator" => return .operator (strD j "op" "")
  | "if" =>
    let e ← match optObj j "else" with
      | some e => pure (some (← toNode e))
      | none => pure none
    return .ifN (← toNode (← j.getObjVal? "cond")) (← toNode (← j.getObjVal? "then")) e (← reds)
  | "while" => return .whileN false (← toNode (← j.getObjVal? "cond")) (← toNode (← j.getObjVal? "body")) (← reds)
  | "until" => return .whileN true (← toNode (← j.getObjVal? "cond")) (← toNode (← j.getObjVal? "body")) (← reds)
  | "for" => return .forN (strD j "var" "") (← (arrD j "words").toList.mapM toWord) (← toNode (← j.getObjVal? "body")) (← reds)
  | "select" => return .selectN (strD j "var" "") (← (arrD j "words").toList.mapM toWord) (← toNode (← j.getObjVal? "body")) (← reds)
  | "for-arith" => return .forArith (strD j "init" "") (strD j "condx" "") (strD j "incr" "") (← toNode (← j.getObjVal? "body")) (← reds)
  | "case" =>
    let wd ← match optObj j "word" with
      | some x => pure (some (← toWord x))
      | none => pure none
    return .caseN wd (← (arrD j "patterns").toList.mapM toCasePat) (← reds)
  | "function" => return .function (strD j "name" "") (← toNode (← j.getObjVal? "body"))
  | "subshell" => return .subshell (← toNode (← j.getObjVal? "body")) (← reds)
  | "brace-group" => return .braceGroup (← toNode (← j.getObjVal? "body")) (← reds)
  | "time" => return .time (← toNode (← j.getObjVal? "pipeline"))
  | "negation" => return .negation (← toNode (← j.getObjVal? "pipeline"))
  | "coproc" => return .coproc (← toNode (← j.getObjVal? "command"))
  | "cond-expr" =>
    let b ← match optObj j "body" with
      | some x => pure (some (← toCond x))
      | none => pure none
    return .condExpr b (← reds)
  | "arith-cmd" =>
    let e ← match optObj j "expr" with
      | some x => pure (some (← toArith x))
      | none => pure none
    return .arithCmd e (optStr j "raw") (← reds)
  | "comment" => return .comment
  | "empty" => return .empty
  | other => return .other (strD j "kind" other)

partial def toWord (j : Json) : R Word := do
  return .mk (strD j "v" "") (← (arrD j "p").toList.mapM toPart)

partial def toPart (j : Json) : R Part := do
  let k ← str j "k"
  match k with
  | "cmdsub" => return .cmdsub (← toNode (← j.getObjVal? "c"))
  | "procsub" => return .procsub (strD j "d" "?") (← toNode (← j.getObjVal? "c"))
  | "param" => return .param (strD j "n" "") (optStr j "op") (optStr j "arg")
  | "param-len" => return .paramLen (strD j "n" "")
  | "param-indirect" => return .paramIndirect (strD j "n" "") (optStr j "op") (optStr j "arg")
  | "arith" =>
    match optObj j "e" with
    | some x => return .arith (some (← toArith x))
    | none => return .arith none
  | "arith-deprecated" => return .arithDeprecated (strD j "e" "")
  | "array" => return .array (← (arrD j "elems").toList.mapM toWord)
  | other => return .other (strD j "kind" other)

partial def toRedir (j : Json) : R Redir := do
  let k ← str j "k"
  match k with
  | "redirect" =>
    match optObj j "target" with
    | some t => return .redirect (strD j "op" "") (some (← toWord t))
    | none => return .redirect (strD j "op" "") none
  | "heredoc" => return .heredoc (boolD j "quoted" true) (strD j "content" "")
  | other => return .other other

partial def toCasePat (j : Json) : R CasePat := do
  match optObj j "body" with
  | some b => return .mk (strD j "pattern" "") (some (← toNode b))
  | none => return .mk (strD j "pattern" "") none

partial def toCond (j : Json) : R Cond := do
  let k ← str j "k"
  match k with
  | "unary-test" => return .unary (strD j "op" "") (← toWord (← j.getObjVal? "operand"))
  | "binary-test" => return .binary (strD j "op" "") (← toWord (← j.getObjVal? "left")) (← toWord (← j.getObjVal? "right"))
  | "cond-and" => return .and (← toCond (← j.getObjVal? "left")) (← toCond (← j.getObjVal? "right"))
  | "cond-or" => return .or (← toCond (← j.getObjVal? "left")) (← toCond (← j.getObjVal? "right"))
  | "cond-not" => return .not (← toCond (← j.getObjVal? "operand"))
  | "cond-paren" => return .paren (← toCond (← j.getObjVal? "inner"))
  | other => return .other other

partial def toArith (j : Json) : R Arith := do
  let k ← str j "k"
  if k == "cmdsub" then
    return .cmdsub (← toNode (← j.getObjVal? "c"))
  else
    let attrs ← (arrD j "attrs").toList.mapM fun a => do
      let pr ← a.getArr?
      let name ← (pr[0]!).getStr?
      let v := pr[1]!
      match v.getObjVal? "one" with
      | .ok x => return (name, AVal.one (← toArith x))
      | _ =>
        match v.getObjVal? "many" with
        | .ok xs => return (name, AVal.many (← (← xs.getArr?).toList.mapM toArith))
        | _ => return (name, AVal.str ((v.getObjValAs? String "str").toOption.getD ""))
    return .node k attrs
end

def toMatch (j : Json) : Option Match :=
  if j.isNull then none else
  let d := match strD j "decision" "ask" with
    | "allow" => Action.allow
    | "deny" => Action.deny
    | _ => Action.ask
  some ⟨d, strD j "pattern" "", optStr j "message"⟩

def toClassification (j : Json) : Classification :=
  { action := strD j "action" "ask"
    innerCommand := optStr j "inner"
    description := optStr j "desc"
    redirectTargets := ((strList (j.getObjValD "targets")).toOption.getD [])
    remote := boolD j "remote" false }

def missMatch : Match := ⟨.deny, "<oracle-miss>", none⟩

/-- A `World` whose external answers are looked up in tables recorded by the harness. -/
def worldOfTables (j : Json) : R World := do
  let parseT ← (arrD j "parse").toList.mapM fun e => do
    let pr ← e.getArr?
    let s ← (pr[0]!).getStr?
    let r := pr[1]!
    match r.getObjVal? "err" with
    | .ok m => return (s, ParseResult.error ((m.getStr?).toOption.getD ""))
    | _ => return (s, ParseResult.ok (← (arrD r "ok").toList.mapM toNode))
  let mcT ← (arrD j "matchCommand").toList.mapM fun e => do
    let pr ← e.getArr?
    return ((← strList pr[0]!), (← (pr[1]!).getStr?), (← (pr[2]!).getBool?), toMatch pr[3]!)
  let mrT ← (arrD j "matchRedirect").toList.mapM fun e => do
    let pr ← e.getArr?
    return ((← (pr[0]!).getStr?), (← (pr[1]!).getStr?), toMatch pr[2]!)
  let clT ← (arrD j "classify").toList.mapM fun e => do
    let pr ← e.getArr?
    return ((← strList pr[0]!), toClassification pr[1]!)
  let dsT ← (arrD j "description").toList.mapM fun e => do
    let pr ← e.getArr?
    return ((← strList pr[0]!), (← (pr[1]!).getStr?))
  let cdT ← (arrD j "resolveCd").toList.mapM fun e => do
    let pr ← e.getArr?
    return ((← (pr[0]!).getStr?), (← (pr[1]!).getStr?), (← (pr[2]!).getStr?))
  return {
    parse := fun s => match parseT.find? (·.1 == s) with
      | some (_, r) => r
      | none => .error "<oracle-miss>"
    matchCommand := fun ws cwd rem =>
      match mcT.find? (fun e => e.1 == ws && e.2.1 == cwd && e.2.2.1 == rem) with
      | some e => e.2.2.2
      | none => some missMatch
    matchRedirect := fun t cwd =>
      match mrT.find? (fun e => e.1 == t && e.2.1 == cwd) with
      | some e => e.2.2
      | none => some missMatch
    hasHandler := fun b => Generated.handlerCommands.contains b
    classify := fun ts => match clT.find? (·.1 == ts) with
      | some e => e.2
      | none => { action := "<oracle-miss>", description := some "<oracle-miss>" }
    runsScripts := fun b => Generated.runsScriptsCommands.contains b
    description := fun ts => match dsT.find? (·.1 == ts) with
      | some e => e.2
      | none => "<oracle-miss>"
    simpleSafe := fun b => Generated.simpleSafe.contains b
    wrapper := fun b => Generated.wrapperCommands.contains b
    wrapperArgFlags := fun b => { flags := ((Generated.wrapperFlagsWithArg.find? (·.1 == b)).map (·.2)).getD [], duration := Generated.wrapperDurationCommands.contains b }
    resolveCd := fun t cwd => match cdT.find? (fun e => e.1 == t && e.2.1 == cwd) with
      | some e => e.2.2
      | none => "<oracle-miss>"
    safeTarget := fun t => Generated.safeRedirectTargets.contains t
    redirectOp := fun o => Generated.redirectOps.contains o
    arithWalked := Generated.arithWalkedAttrs }

def stdHelp : HelpTables :=
  ⟨Generated.helpWords, Generated.helpFlags2, Generated.helpFlagsLast⟩

def decisionJson (d : Decision) : Json :=
  Json.mkObj [("action", d.action.toString), ("reason", d.reason)]


def toAction (s : String) : Action :=
  match s with
  | "allow" => .allow
  | "deny" => .deny
  | _ => .ask

def toRule (j : Json) : Rule :=
  { decision := toAction (strD j "decision" "ask"), pattern := strD j "pattern" "",
    message := optStr j "message", exact := boolD j "exact" false }

def toAfterRule (j : Json) : AfterRule :=
  { pattern := strD j "pattern" "", message := optStr j "message" }

def toConfig (j : Json) : Config :=
  { rules := (arrD j "rules").toList.map toRule
    redirectRules := (arrD j "redirect_rules").toList.map toRule
    afterRules := (arrD j "after_rules").toList.map toAfterRule
    mcpRules := (arrD j "mcp_rules").toList.map toRule
    afterMcpRules := (arrD j "after_mcp_rules").toList.map toAfterRule
    aliases := (arrD j "aliases").toList.filterMap fun e =>
      match e.getArr? with
      | .ok pr => some (((pr[0]!).getStr?).toOption.getD "", ((pr[1]!).getStr?).toOption.getD "")
      | _ => none
    default := strD j "default" "ask"
    log := optStr j "log"
    logFull := boolD j "log_full" false }

def optStrJson : Option String → Json
  | some s => Json.str s
  | none => Json.null

def ruleJson (r : Rule) : Json :=
  Json.mkObj [("decision", r.decision.toString), ("pattern", r.pattern), ("message", optStrJson r.message), ("exact", r.exact)]

def afterRuleJson (r : AfterRule) : Json :=
  Json.mkObj [("pattern", r.pattern), ("message", optStrJson r.message)]

def configJson (c : Config) : Json :=
  Json.mkObj [
    ("rules", Json.arr (c.rules.map ruleJson).toArray),
    ("redirect_rules", Json.arr (c.redirectRules.map ruleJson).toArray),
    ("after_rules", Json.arr (c.afterRules.map afterRuleJson).toArray),
    ("mcp_rules", Json.arr (c.mcpRules.map ruleJson).toArray),
    ("after_mcp_rules", Json.arr (c.afterMcpRules.map afterRuleJson).toArray),
    ("aliases", Json.arr (c.aliases.map fun kv => Json.arr #[Json.str kv.1, Json.str kv.2]).toArray),
    ("default", c.default), ("log", optStrJson c.log), ("log_full", c.logFull)]

def matchJson : Option Match → Json
  | none => Json.null
  | some m => Json.mkObj [("decision", m.decision.toString), ("pattern", m.pattern), ("message", optStrJson m.message)]

/-- `{"home":…, "lex":true}` or `{"home":…, "resolve":[[joinedPath,result]…]}` -/
def toPathEnv (j : Json) : PathEnv :=
  let home := strD j "home" "/home/u"
  if boolD j "lex" false then ⟨home, lexResolve⟩
  else
    let t := (arrD j "resolve").toList.filterMap fun e =>
      match e.getArr? with
      | .ok pr => some (((pr[0]!).getStr?).toOption.getD "", ((pr[1]!).getStr?).toOption.getD "")
      | _ => none
    ⟨home, fun p => match t.find? (fun e => e.1 == p) with
      | some e => e.2
      | none => "<oracle-miss:resolve:" ++ p ++ ">"⟩

def toParseEnv (j : Json) : ParseEnv :=
  let users := (arrD j "users").toList.filterMap fun e =>
    match e.getArr? with
    | .ok pr => some (((pr[0]!).getStr?).toOption.getD "", ((pr[1]!).getStr?).toOption.getD "")
    | _ => none
  ⟨strD j "home" "/home/u", fun u => (users.find? (·.1 == u)).map (·.2)⟩

def kindName : TokKind → String
  | .url => "url" | .variable => "variable" | .absolute => "absolute" | .home => "home"
  | .userHome => "user_home" | .relative => "relative" | .bare => "bare"

def pairTable (j : Json) (k : String) : List (String × Json) :=
  (arrD j k).toList.filterMap fun e =>
    match e.getArr? with
    | .ok pr => some (((pr[0]!).getStr?).toOption.getD "", pr[1]!)
    | _ => none

def toFS (j : Json) : FS :=
  let files := pairTable j "isfile"
  let reads := pairTable j "read"
  let res := pairTable j "resolve"
  { isFile := fun p => match files.find? (·.1 == p) with
      | some (_, v) => (match (v.getStr?).toOption.getD "" with
          | "yes" => .yes | "no" => .no | "permission" => .permission | _ => .raised)
      | none => .raised
    readText := fun p => match reads.find? (·.1 == p) with
      | some (_, v) => (match v.getObjVal? "ok" with
          | .ok t => .ok ((t.getStr?).toOption.getD "")
          | _ => match strD v "err" "raised" with
            | "permission" => .permission
            | "oserror" => .oserror (strD v "msg" "")
            | _ => .raised)
      | none => .raised
    resolve := fun p => match res.find? (·.1 == p) with
      | some (_, v) => (v.getStr?).toOption.getD "<oracle-miss>"
      | none => "<oracle-miss:resolve>" }

/-- tagged encoding of a Python JSON value -/
partial def toPJson (j : Json) : PJson :=
  match strD j "t" "null" with
  | "bool" => .bool (boolD j "v" false)
  | "num" => .num (boolD j "zero" false) (strD j "repr" "")
  | "str" => .str (strD j "v" "")
  | "arr" => .arr ((arrD j "v").toList.map toPJson)
  | "obj" => .obj ((arrD j "v").toList.filterMap fun e =>
      match e.getArr? with
      | .ok pr => some (((pr[0]!).getStr?).toOption.getD "", toPJson pr[1]!)
      | _ => none)
  | _ => .null

partial def ofPJson : PJson → Json
  | .null => Json.null
  | .bool b => Json.bool b
  | .num _ r => Json.mkObj [("num", Json.str r)]
  | .str s => Json.str s
  | .arr xs => Json.arr (xs.map ofPJson).toArray
  | .obj kvs => Json.mkObj (kvs.map fun kv => (kv.1, ofPJson kv.2))

def toLoadResult (v : Json) : LoadResult :=
  match v.getObjVal? "ok" with
  | .ok c => .ok (toConfig c)
  | _ => match v.getObjVal? "config_error" with
    | .ok m => .configError ((m.getStr?).toOption.getD "")
    | _ => .raised

def toMode (s : String) : Option Mode :=
  match s with
  | "claude" => some .claude
  | "gemini" => some .gemini
  | "cursor" => some .cursor
  | _ => none

def toHookEnv (j : Json) : HookEnv :=
  let res := pairTable j "resolve"
  let loads := pairTable j "load"
  let toks := pairTable j "tokenize"
  let ans := (arrD j "analyze").toList.filterMap fun e =>
    match e.getArr? with
    | .ok pr => some (((pr[0]!).getStr?).toOption.getD "", ((pr[1]!).getStr?).toOption.getD "", pr[2]!)
    | _ => none
  let environ := pairTable j "environ"
  let argv := (strList (j.getObjValD "argv")).toOption.getD []
  { explicitMode := match optStr j "explicit" with
      | some e => toMode e
      | none => explicitFromFlags argv fun k => (environ.find? (·.1 == k)).bind fun kv => (kv.2.getStr?).toOption
    processCwd := strD j "process_cwd" "/"
    resolveCwd := fun s => match res.find? (·.1 == s) with
      | some (_, v) => (v.getStr?).toOption
      | none => some ("<oracle-miss:resolveCwd:" ++ s ++ ">")
    loadConfig := fun cwd => match loads.find? (·.1 == cwd) with
      | some (_, v) => toLoadResult v
      | none => .configError ("<oracle-miss:load:" ++ cwd ++ ">")
    analyze := fun cmd _ cwd => match ans.find? (fun e => e.1 == cmd && e.2.1 == cwd) with
      | some e => if e.2.2.isNull then none else
          some ⟨toAction (strD e.2.2 "action" "ask"), strD e.2.2 "reason" ""⟩
      | none => some ⟨.deny, "<oracle-miss:analyze>"⟩
    tokenize := fun cmd => match toks.find? (·.1 == cmd) with
      | some (_, v) => (strList v).toOption.getD []
      | none => ["<oracle-miss:tokenize>"]
    pathEnv := toPathEnv (j.getObjValD "env")
    logOk := boolD j "log_ok" true
    geminiNames := Generated.geminiNames
    shellToolNames := Generated.shellToolNames
    bypassModes := Generated.bypassModes }

mutual
/-- the serialised Python AST of harness/corr_pyast.py -/
partial def toPNode (j : Json) : R PyAst.PNode := do
  let k ← str j "k"
  let l := match j.getObjValD "l" with
    | .num n => n.mantissa.toNat
    | _ => 0
  let fs ← (← arr j "f").toList.mapM fun e => do
    let pr ← e.getArr?
    let name ← (pr[0]!).getStr?
    let v ← toPVal pr[1]!
    return (name, v)
  return .mk k l fs
partial def toPVal (j : Json) : R PyAst.PVal := do
  match j with
  | .str "none" => return .none
  | .str _ => return .other
  | _ =>
    match j.getObjVal? "n" with
    | .ok n => return .node (← toPNode n)
    | .error _ =>
      match j.getObjVal? "s" with
      | .ok (.str s) => return .str s
      | _ =>
        match j.getObjVal? "l" with
        | .ok (.arr items) => return .list (← items.toList.mapM toPItem)
        | _ => return .other
partial def toPItem (j : Json) : R PyAst.PItem := do
  match j with
  | .str _ => return .other
  | _ =>
    match j.getObjVal? "n" with
    | .ok n => return .node (← toPNode n)
    | .error _ =>
      match j.getObjVal? "s" with
      | .ok (.str s) => return .str s
      | _ => return .other
end

def handle (j : Json) : R Json := do
  let op ← str j "op"
  match op with
  | "analyze" =>
    let w0 ← worldOfTables (j.getObjValD "world")
    let w := match optObj j "config" with
      | some c => w0.withConfig (toPathEnv (j.getObjValD "env")) (toConfig c)
      | none => w0
    let d := analyzeStr w stdHelp (natD j "fuel" 64) (← str j "cmd") (← str j "cwd") (boolD j "remote" false)
    return decisionJson d
  | "scan" =>
    return Json.arr ((scanItems (boolD j "procsub" false) (← str j "s")).map fun it => match it with
      | .sub inner rel => Json.mkObj [("sub", Json.str inner), ("reliable", Json.bool rel)]
      | .unanalyzable t => Json.mkObj [("unanalyzable", Json.str t)]).toArray
  | "arithtexts" => return Json.arr ((arithTexts (← str j "s")).map Json.str).toArray
  | "combine" =>
    let ds ← (arrD j "ds").toList.mapM fun e => do
      let a := match strD e "action" "ask" with
        | "allow" => Action.allow | "deny" => Action.deny | _ => Action.ask
      return (⟨a, strD e "reason" ""⟩ : Decision)
    return decisionJson (combine ds)
  | "htables" =>
    let l (xs : List String) : Json := Json.arr (xs.map Json.str).toArray
    let d (xs : List (String × String)) : Json := Json.arr (xs.map fun kv => Json.arr #[Json.str kv.1, Json.str kv.2]).toArray
    return Json.mkObj [
      ("env.FLAGS_WITH_ARG", l Generated.H.env_FLAGS_WITH_ARG), ("xargs.FLAGS_WITH_ARG", l Generated.H.xargs_FLAGS_WITH_ARG),
      ("xargs.UNSAFE_FLAGS", l Generated.H.xargs_UNSAFE_FLAGS), ("arch.FLAGS_NO_ARG", l Generated.H.arch_FLAGS_NO_ARG),
      ("arch.FLAGS_WITH_ARG", l Generated.H.arch_FLAGS_WITH_ARG), ("arch.ARCH_FLAGS", l Generated.H.arch_ARCH_FLAGS),
      ("caffeinate.FLAGS_NO_ARG", l Generated.H.caffeinate_FLAGS_NO_ARG), ("caffeinate.FLAGS_WITH_ARG", l Generated.H.caffeinate_FLAGS_WITH_ARG),
      ("fd.EXEC_FLAGS", l Generated.H.fd_EXEC_FLAGS), ("script.FLAGS_WITH_ARG", l Generated.H.script_FLAGS_WITH_ARG),
      ("script.FLAGS_NO_ARG", l Generated.H.script_FLAGS_NO_ARG), ("docker.EXEC_FLAGS_WITH_ARG", l Generated.H.docker_EXEC_FLAGS_WITH_ARG),
      ("shell.COMMANDS", l Generated.H.shell_COMMANDS), ("uv.RUN_FLAGS_WITH_ARG", l Generated.H.uv_RUN_FLAGS_WITH_ARG),
      ("tar.OPERATIONS", d Generated.H.tar_OPERATIONS),
      ("docker.EXEC_SHORT_FLAGS_WITH_ARG", Json.str Generated.H.docker_EXEC_SHORT_FLAGS_WITH_ARG),
      ("xargs.FLAG_CONTEXT", d Generated.H.xargs_FLAG_CONTEXT), ("find.FLAG_CONTEXT", d Generated.H.find_FLAG_CONTEXT),
      ("fd.FLAG_DISPLAY", d Generated.H.fd_FLAG_DISPLAY),
      ("bashSafeExtra", Json.str Generated.H.bashSafeExtra), ("modelSafeExtra", Json.str (String.ofList safeExtra)),
      ("bashQuoteReplace", Json.arr #[Json.str Generated.H.bashQuoteReplace.1, Json.str Generated.H.bashQuoteReplace.2]),
      ("bashAssignShape", Json.str Generated.H.bashAssignShape), ("analyzerAssignRe", Json.str Generated.H.analyzerAssignRe),
      ("runsScriptsCommands", l Generated.runsScriptsCommands),
      ("wrapperFlagsWithArg", Json.arr (Generated.wrapperFlagsWithArg.map fun kv => Json.arr #[Json.str kv.1, l kv.2]).toArray)]
  | "lru" =>
    -- replay a key sequence against the cache model: per operation hit/miss and the size afterwards
    let cap := natD j "cap" 32
    let keys ← strList (j.getObjValD "keys")
    let (_, outs) := keys.foldl (fun (acc : List (String × String) × List Json) k =>
      let hit := (acc.1.find? (fun kv => kv.1 == k)).isSome
      let c' := (PS.lruGet cap (fun x => x) acc.1 k).1
      (c', acc.2 ++ [Json.mkObj [("hit", Json.bool hit), ("size", Json.num c'.length), ("keys", Json.arr (c'.map fun kv => Json.str kv.1).toArray)]])) ([], [])
    return Json.arr outs.toArray
  | "statefacts" =>
    return Json.mkObj [("handlerCacheSize", Json.num Generated.handlerCacheSize),
      ("mutableState", Json.arr (Generated.mutableState.map fun t => Json.arr #[Json.str t.1, Json.str t.2.1, Json.str t.2.2]).toArray)]
  | "sl_cachename" =>
    -- sid: {"str": s} | "falsy" | "truthy"
    let sidJ := j.getObjValD "sid"
    let sid : SL.Sid := match sidJ.getObjVal? "str" with
      | .ok v => .str ((v.getStr?).toOption.getD "").toList
      | .error _ => if sidJ == Json.str "falsy" then .falsyOther else .truthyOther
    match SL.cachePath sid with
    | some n => return Json.str (String.ofList n)
    | none => return Json.null
  | "sl_collapse" => return Json.str (String.ofList (SL.collapse (← str j "s").toList))
  | "sql_strip" => return Json.str (String.ofList (Sql.stripQuoted (← str j "s").toList))
  | "sql_multi" => return Json.bool (Sql.hasMultiple (← str j "s").toList)
  | "sql_readonly" =>
    match Sql.isReadonly (← str j "s").toList (← strList (j.getObjValD "xr")) (← strList (j.getObjValD "xw")) with
    | some b => return Json.bool b
    | none => return Json.null
  | "sqlite_classify" =>
    return Json.str (match Sql.sqliteClassify (← strList (j.getObjValD "tokens")) with
      | .helpVersion => "sqlite3 help/version" | .readonlyMode => "sqlite3 (read-only mode)" | .initScript => "sqlite3 (init script)"
      | .interactive => "sqlite3 (interactive)" | .readOnlyQuery => "sqlite3 (read-only query)" | .writeQuery => "sqlite3 (write query)"
      | .unknownQuery => "sqlite3 (unknown query)")
  | "py_classify" =>
    -- resolve: [[token, path]], safe: [[path, bool]] recorded from the real run
    let res := (arrD j "resolve").toList.map fun e => (strD (e.getArrVal? 0 |>.toOption.getD Json.null |> fun x => Json.mkObj [("v", x)]) "v" "", strD (e.getArrVal? 1 |>.toOption.getD Json.null |> fun x => Json.mkObj [("v", x)]) "v" "")
    let safe := (arrD j "safe").toList.map fun e => (strD (e.getArrVal? 0 |>.toOption.getD Json.null |> fun x => Json.mkObj [("v", x)]) "v" "", (e.getArrVal? 1 |>.toOption.getD Json.null) == Json.bool true)
    let env : PyCli.Env := {
      resolve := fun _ t => ((res.find? (·.1 == t)).map (·.2)).getD "<oracle-miss>"
      fileSafe := fun p => ((safe.find? (·.1 == p)).map (·.2)).getD false }
    let v := PyCli.classify env (← str j "cwd") (← strList (j.getObjValD "tokens"))
    return (match v with
      | .interactive => Json.mkObj [("v", "interactive"), ("allow", false)]
      | .safeFlag => Json.mkObj [("v", "safe-flag"), ("allow", true)]
      | .inlineCode => Json.mkObj [("v", "inline-code"), ("allow", false)]
      | .moduleCalendar => Json.mkObj [("v", "module-calendar"), ("allow", true)]
      | .moduleOther => Json.mkObj [("v", "module-other"), ("allow", false)]
      | .askOption => Json.mkObj [("v", "ask-option"), ("allow", false)]
      | .noScript => Json.mkObj [("v", "no-script"), ("allow", false)]
      | .analysed p sf => Json.mkObj [("v", "analysed"), ("path", Json.str p), ("allow", sf)])
  | "py_visit" =>
    -- SafetyAnalyzer.visit on a serialised tree: violations in order and the import roots of the shadowing check
    let tree ← toPNode (j.getObjValD "tree")
    let T : PyAst.Tables :=
      { safeModules := Generated.PyAst.safeModules, dangerousModules := Generated.PyAst.dangerousModules,
        dangerousBuiltins := Generated.PyAst.dangerousBuiltins, dangerousAttrs := Generated.PyAst.dangerousAttrs,
        reflectionAttrs := Generated.PyAst.reflectionAttrs, moduleAliasAttrs := Generated.PyAst.moduleAliasAttrs }
    let vs := PyAst.visit T true tree
    return Json.mkObj [
      ("violations", Json.arr (vs.map fun v => Json.arr #[Json.num (v.line : Nat), Json.str v.kind, Json.str v.detail]).toArray),
      ("roots", Json.arr ((PyAst.importRoots tree).map Json.str).toArray),
      ("first", optStrJson (PyAst.firstReason T true tree))]
  | "py_file" =>
    -- analyze_python_file over recorded file facts
    let f := j.getObjValD "facts"
    let tree ← match f.getObjValD "tree" with
      | .null => pure none
      | t => do pure (some (← toPNode t))
    let sh := (arrD f "shadowed").toList.map fun e =>
      ((e.getArrVal? 0 |>.toOption.bind (·.getStr?.toOption)).getD "", (e.getArrVal? 1 |>.toOption.getD Json.null) == Json.bool true)
    let ff : PyFile.FileFacts :=
      { pathExists := (f.getObjValD "exists") == Json.bool true
        isFile := (f.getObjValD "is_file") == Json.bool true
        suffix := strD f "suffix" ""
        size := match f.getObjValD "size" with
          | .num n => some n.mantissa.toNat
          | _ => none
        source := match f.getObjValD "source" with
          | .str s => some s
          | _ => none
        tree := tree
        shadowed := fun r => ((sh.find? (·.1 == r)).map (·.2)).getD false }
    let T : PyAst.Tables :=
      { safeModules := Generated.PyAst.safeModules, dangerousModules := Generated.PyAst.dangerousModules,
        dangerousBuiltins := Generated.PyAst.dangerousBuiltins, dangerousAttrs := Generated.PyAst.dangerousAttrs,
        reflectionAttrs := Generated.PyAst.reflectionAttrs, moduleAliasAttrs := Generated.PyAst.moduleAliasAttrs }
    return (match PyFile.analyzeFile T Generated.PyCli.scriptSuffixes Generated.PyCli.sizeLimit PyFile.cookieNameChar ff with
      | .safe => Json.mkObj [("safe", true)]
      | .refused r => Json.mkObj [("safe", false), ("reason", Json.str r)])
  | "py_runs" =>
    return (match PyCli.pythonRuns false (← strList (j.getObjValD "args")) with
      | .interactive => Json.mkObj [("runs", "interactive")]
      | .infoOnly => Json.mkObj [("runs", "info")]
      | .code c => Json.mkObj [("runs", "code"), ("src", Json.str c)]
      | .module m => Json.mkObj [("runs", "module"), ("name", optStrJson m)]
      | .stdin => Json.mkObj [("runs", "stdin")]
      | .script s a => Json.mkObj [("runs", "script"), ("word", Json.str s), ("args", Json.arr (a.map Json.str).toArray)])
  | "bashquote" => return Json.str (bashQuote (← str j "s"))
  | "bashjoin" => return Json.str (bashJoin (← strList (j.getObjValD "tokens")))
  | "shellwords" =>
    match shellWords (← str j "s").toList with
    | some ws => return Json.arr (ws.map fun w => Json.str (String.ofList w)).toArray
    | none => return Json.null
  | "wclassify" =>
    let ts ← strList (j.getObjValD "tokens")
    let c := match (← str j "name") with
      | "shell" => W.shellClassify ts | "env" => W.envClassify ts | "xargs" => W.xargsClassify ts
      | "find" => W.findClassify ts | "fd" => W.fdClassify ts | "arch" => W.archClassify ts
      | "caffeinate" => W.caffeinateClassify ts | "script" => W.scriptClassify ts
      | "uvrun" => W.uvRunClassify ts | "tar" => W.tarClassify ts
      | _ => W.ask "<no-model>"
    return Json.mkObj [("action", Json.str c.action), ("inner", optStrJson c.innerCommand), ("desc", optStrJson c.description), ("remote", Json.bool c.remote)]
  | "execinner" =>
    let ts ← strList (j.getObjValD "tokens")
    let r := if (← str j "name") == "docker" then W.dockerExecInner false ts else W.kubectlExecInner ts
    match r with
    | some xs => return Json.arr (xs.map Json.str).toArray
    | none => return Json.null
  | "kubectl_delegates" =>
    match W.kubectlDelegates (← strList (j.getObjValD "tokens")) with
    | some xs => return Json.arr (xs.map Json.str).toArray
    | none => return Json.null
  | "stripquotes" => return Json.str (stripQuotes (← str j "s"))
  | "removequotes" => return Json.str (removeQuotes (← str j "s"))
  | "strip" => return Json.str (Py.strip (← str j "s"))
  | "fnmatch" => return Json.bool (Glob.fnmatch (← str j "name") (← str j "pat"))
  | "globmatch" =>
    match Glob.globMatch (← str j "text") (← str j "pat") with
    | some b => return Json.bool b
    | none => return Json.null
  | "hasglob" => return Json.bool (Glob.hasGlobChars (← str j "s"))
  | "classify_token" => return Json.str (kindName (classifyToken (← str j "t") (boolD j "is_path" false)))
  | "expand_token" =>
    return Json.str (expandToken (toPathEnv (j.getObjValD "env")) (← str j "t") (← str j "cwd") (boolD j "force" false))
  | "normpath" => return Json.str (normalizePath (toPathEnv (j.getObjValD "env")) (← str j "path") (← str j "cwd"))
  | "normredirpat" => return Json.str (normalizeRedirectPattern (toPathEnv (j.getObjValD "env")) (← str j "pattern") (← str j "cwd"))
  | "normpattern" => return Json.str (normalizePattern (toPathEnv (j.getObjValD "env")) (← str j "pattern") (← str j "cwd"))
  | "lexresolve" => return Json.str (lexResolve (← str j "p"))
  | "pathjoin" => return Json.str (pathJoin (← str j "cwd") (← str j "t"))
  | "purepath" => return Json.str (purePath (← str j "s"))
  | "parseconfig" => return configJson (parseConfig (toParseEnv (j.getObjValD "penv")) (← str j "text"))
  | "extractmsg" =>
    match extractMessage (← str j "s") with
    | .ok p m => return Json.mkObj [("pattern", p), ("message", optStrJson m)]
    | .error => return Json.str "ValueError"
  | "unescape" => return Json.str (String.ofList (unescapeL (← str j "s").toList))
  | "renderline" =>
    -- the writer of the C11 round-trip theorems, its well-formedness predicate, and the model's reading of the line
    let d ← str j "d"
    let ts := (← (← arr j "tokens").toList.mapM fun t => t.getStr?).map String.toList
    let ex := (j.getObjValD "exact") == Json.bool true
    let m : Option (List Char) := match j.getObjValD "msg" with
      | .str s => some s.toList
      | _ => none
    let line := RT.renderLine d ts ex m
    return Json.mkObj [("line", line), ("wf", RT.wfPatB ts ex m),
      ("parsed", configJson (parseConfig (toParseEnv (j.getObjValD "penv")) line))]
  | "stripanchor" =>
    let (p, e) := stripExactAnchor (← str j "s")
    return Json.mkObj [("pattern", p), ("exact", e)]
  | "splitlines" => return Json.arr ((splitLines (← str j "s")).map Json.str).toArray
  | "matchwords" =>
    return matchJson (matchWords (toPathEnv (j.getObjValD "env")) (toConfig (j.getObjValD "config"))
      (← strList (j.getObjValD "words")) (← str j "cwd") (boolD j "remote" false))
  | "matchredirect" =>
    return matchJson (matchRedirect (toPathEnv (j.getObjValD "env")) (toConfig (j.getObjValD "config")) (← str j "target") (← str j "cwd"))
  | "matchafter" =>
    return optStrJson (matchAfter (toPathEnv (j.getObjValD "env")) (toConfig (j.getObjValD "config")) (← strList (j.getObjValD "words")) (← str j "cwd"))
  | "matchmcp" => return matchJson (matchMcp (toConfig (j.getObjValD "config")) (← str j "tool"))
  | "matchaftermcp" => return optStrJson (matchAfterMcp (toConfig (j.getObjValD "config")) (← str j "tool"))
  | "merge" => return configJson (mergeConfigs (toConfig (j.getObjValD "base")) (toConfig (j.getObjValD "overlay")))
  | "tables" =>
    let l (xs : List String) : Json := Json.arr (xs.map Json.str).toArray
    return Json.mkObj [
      ("simpleSafe", l Generated.simpleSafe), ("wrapperCommands", l Generated.wrapperCommands),
      ("handlerCommands", l Generated.handlerCommands), ("safeRedirectTargets", l Generated.safeRedirectTargets),
      ("redirectOps", l Generated.redirectOps), ("arithWalkedAttrs", l Generated.arithWalkedAttrs),
      ("handlerModule", Json.arr (Generated.handlerModule.map fun kv => Json.arr #[Json.str kv.1, Json.str kv.2]).toArray),
      ("descriptionDepth", Json.arr (Generated.descriptionDepth.map fun kv => Json.arr #[Json.str kv.1, Json.num kv.2]).toArray)]
  | "loadconfig" =>
    let envPath : Option (Option String) := match optObj j "env_path" with
      | none => none
      | some v => match v.getObjVal? "path" with
        | .ok p => some (some ((p.getStr?).toOption.getD ""))
        | _ => some none
    match loadConfig (toParseEnv (j.getObjValD "penv")) (toFS (j.getObjValD "fs")) (← str j "user_config") (← str j "cwd") envPath with
    | .ok c => return Json.mkObj [("ok", configJson c)]
    | .configError m => return Json.mkObj [("config_error", Json.str m)]
    | .raised => return Json.str "raised"
  | "ancestors" => return Json.arr ((ancestors (← str j "p")).map Json.str).toArray
  | "hook" =>
    let env := toHookEnv j
    let sj := j.getObjValD "stdin"
    let stdin : Stdin := match strD sj "kind" "notjson" with
      | "value" => .value (toPJson (sj.getObjValD "json"))
      | "undecodable" => .undecodable
      | _ => .notJson
    let outs := hook env stdin
    return Json.arr (outs.map fun o => match o with
      | .json v => Json.mkObj [("json", ofPJson v)]
      | .text t => Json.mkObj [("text", Json.str t)]).toArray
  | "logrun" =>
    -- configure_logging(cfg) then one log_decision(...) under a fault schedule
    let oc (s : String) : Outcome := match s with
      | "ok" => .ok | "oserror" => .osError | "valueerror" => .valueError | _ => .other
    let φ : SinkFaults := ⟨oc (strD j "mkdir" "ok"), oc (strD j "open" "ok"), oc (strD j "write" "ok")⟩
    let cfg := toConfig (j.getObjValD "config")
    match configureLogging cfg φ with
    | none => return Json.str "raised:configure"
    | some st =>
      match logDecision st φ (strD j "decision" "") (strD j "cmd" "") (optStr j "rule") (optStr j "message") (optStr j "command") "TS" with
      | none => return Json.str "raised:log"
      | some (st', line) =>
        return Json.mkObj [("disabled", st'.disabled), ("configured", st'.path.isSome),
          ("line", match line with
            | some kvs => Json.arr (kvs.map fun kv => Json.arr #[Json.str kv.1, Json.str kv.2]).toArray
            | none => Json.null)]
  | "ping" => return Json.str "pong"
  | other => throw s!"unknown op {other}"

partial def loop (hIn : IO.FS.Stream) (hOut : IO.FS.Stream) : IO Unit := do
  let line ← hIn.getLine
  if line.isEmpty then return ()
  let reply := match Json.parse line with
    | .error e => Json.mkObj [("error", Json.str s!"json: {e}")]
    | .ok j => match handle j with
      | .ok r => Json.mkObj [("ok", r)]
      | .error e => Json.mkObj [("error", Json.str e)]
  hOut.putStrLn reply.compress
  hOut.flush
  loop hIn hOut

end Driver

def main : IO Unit := do
  Driver.loop (← IO.getStdin) (← IO.getStdout)
