import Dippy.Model.Action
import Dippy.Model.Syntax
import Dippy.Model.Scan
import Dippy.Model.PyStr
import Dippy.Model.Analyzer
