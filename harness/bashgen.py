"""Grammar-directed generator of bash programs as *structured* values.

A program is a tree of `P` nodes; `render()` gives bash text, `subprograms()`
the nested programs in every position bash evaluates (so that `reach()` – the
simple commands bash may execute – is defined on the structure, independently of
Dippy's parser and analyzer), `parts()` the constituents whose verdicts C03
says must be joined.

All random choices come from the Rng passed in.
"""
from __future__ import annotations

from dataclasses import dataclass, field
from typing import List, Optional, Tuple

# ---------------------------------------------------------------- words


@dataclass
class Seg:
    """A word segment."""

    kind: str  # lit | sq | dq | cmdsub | tick | procsub | param | arith | arith_old | var | ansi
    text: str = ""
    prog: Optional["P"] = None
    segs: List["Seg"] = field(default_factory=list)  # dq contents / param argument
    name: str = ""
    op: str = ""
    direction: str = "<"
    # where a nested program sits, for position accounting
    position: str = ""

    def render(self) -> str:
        k = self.kind
        if k == "lit":
            return self.text
        if k == "sq":
            return "'" + self.text + "'"
        if k == "ansi":
            return "$'" + self.text + "'"
        if k == "dq":
            return '"' + "".join(s.render() for s in self.segs) + '"'
        if k == "cmdsub":
            body = self.prog.render()
            # `$((` would start arithmetic
            if body.startswith("("):
                body = " " + body
            return "$(" + body + ")"
        if k == "tick":
            return "`" + self.prog.render() + "`"
        if k == "procsub":
            return self.direction + "(" + self.prog.render() + ")"
        if k == "var":
            return "$" + self.name
        if k == "param":
            return "${" + self.name + self.op + "".join(s.render() for s in self.segs) + "}"
        if k == "arith":
            return "$((" + "".join(s.render() for s in self.segs) + "))"
        if k == "arith_old":
            return "$[" + "".join(s.render() for s in self.segs) + "]"
        raise ValueError(k)

    def subprograms(self) -> List[Tuple[str, "P"]]:
        out = []
        if self.prog is not None:
            out.append((self.kind, self.prog))
        for s in self.segs:
            for pos, p in s.subprograms():
                out.append((self.kind + "/" + pos if self.kind in ("param", "arith", "arith_old") else pos, p))
        return out


@dataclass
class W:
    segs: List[Seg]

    def render(self) -> str:
        return "".join(s.render() for s in self.segs)

    def subprograms(self):
        out = []
        for s in self.segs:
            out.extend(s.subprograms())
        return out

    def is_plain(self) -> bool:
        return all(s.kind in ("lit", "sq") for s in self.segs)


def lit(t: str) -> W:
    return W([Seg("lit", t)])


@dataclass
class Redir:
    op: str  # > >> &> &>> 2> 2>> < <<< >| <> N> ...
    target: Optional[W] = None
    heredoc: Optional[Tuple[str, bool, List[Seg]]] = None  # (delimiter, quoted, body segments)

    def render(self) -> str:
        if self.heredoc is not None:
            d, q, _ = self.heredoc
            return "<<" + ("'" + d + "'" if q else d)
        sp = "" if self.target.render().startswith("&") else " "
        return self.op + sp + self.target.render()

    def heredoc_text(self) -> str:
        d, q, body = self.heredoc
        return "".join(s.render() for s in body) + "\n" + d

    def subprograms(self):
        out = []
        if self.target is not None:
            out.extend(("redirect-target/" + pos, p) for pos, p in self.target.subprograms())
        if self.heredoc is not None and not self.heredoc[1]:
            for s in self.heredoc[2]:
                out.extend(("heredoc/" + pos, p) for pos, p in s.subprograms())
        return out


# ---------------------------------------------------------------- programs


class P:
    kind = "?"
    redirs: List[Redir]

    def render(self) -> str:
        raise NotImplementedError

    def children(self) -> List["P"]:
        """directly nested complete commands (composition constituents)"""
        return []

    def words(self) -> List[W]:
        return []

    def heredocs(self) -> List[Redir]:
        out = [r for r in getattr(self, "redirs", []) if r.heredoc is not None]
        return out

    def subprograms(self) -> List[Tuple[str, "P"]]:
        """programs in expansion positions of this node itself (not of children)"""
        out = []
        for w in self.words():
            out.extend(w.subprograms())
        for r in getattr(self, "redirs", []):
            out.extend(r.subprograms())
        return out

    def reach(self) -> List["Simple"]:
        """every simple command bash may execute while running this program"""
        out: List[Simple] = []
        if isinstance(self, Simple):
            out.append(self)
        for c in self.children():
            out.extend(c.reach())
        for _, p in self.subprograms():
            out.extend(p.reach())
        return out

    def positions(self) -> List[str]:
        out = [pos for pos, _ in self.subprograms()]
        for c in self.children():
            out.extend(c.positions())
        for _, p in self.subprograms():
            out.extend(p.positions())
        return out

    def all_heredocs(self) -> List[Redir]:
        out = list(self.heredocs())
        for c in self.children():
            out.extend(c.all_heredocs())
        return out

    def render_redirs(self) -> str:
        rs = getattr(self, "redirs", [])
        return "".join(" " + r.render() for r in rs)

    def size(self) -> int:
        return 1 + sum(c.size() for c in self.children()) + sum(p.size() for _, p in self.subprograms())

    def depth(self) -> int:
        ds = [c.depth() for c in self.children()] + [p.depth() for _, p in self.subprograms()]
        return 1 + (max(ds) if ds else 0)

    def kinds(self) -> List[str]:
        out = [self.kind]
        for c in self.children():
            out.extend(c.kinds())
        for _, p in self.subprograms():
            out.extend(p.kinds())
        return out


def finish_heredocs(text: str, prog: P) -> str:
    """Append pending here-document bodies after the line that opened them.
    Only used at top level: the generator puts heredocs on single-line programs."""
    hs = prog.all_heredocs()
    if not hs:
        return text
    return text + "\n" + "\n".join(h.heredoc_text() for h in hs)


@dataclass
class Simple(P):
    assigns: List[Tuple[str, W]]
    argv: List[W]
    redirs: List[Redir] = field(default_factory=list)
    kind = "simple"
    label: str = ""  # verdict class the generator intended for the command proper
    # array-element assignments `name[SUBSCRIPT]=value`: (name, subscript word, value word); the subscript is arithmetic for
    # bash - a substitution in it runs even inside single quotes
    elem_assigns: List[Tuple[str, W, W]] = field(default_factory=list)

    def render(self) -> str:
        parts = [n + "[" + sub.render() + "]=" + w.render() for n, sub, w in self.elem_assigns]
        parts += [n + "=" + w.render() for n, w in self.assigns] + [w.render() for w in self.argv]
        return " ".join(parts) + self.render_redirs() if parts else self.render_redirs().lstrip()

    def words(self):
        return [x for _, sub, w in self.elem_assigns for x in (sub, w)] + [w for _, w in self.assigns] + list(self.argv)

    def alone(self) -> "Simple":
        return self


@dataclass
class Seq(P):
    items: List[P]
    ops: List[str]  # len(items)-1 separators among ; && || & \n ; optional trailing
    trailing: str = ""
    kind = "list"

    def render(self) -> str:
        out = self.items[0].render()
        for op, it in zip(self.ops, self.items[1:]):
            if op == "\n":
                out += "\n" + it.render()
            elif op == "&":
                out += " & " + it.render()
            else:
                out += (" " if op != ";" else "") + op + " " + it.render()
        return out + self.trailing

    def children(self):
        return list(self.items)


@dataclass
class Pipe(P):
    items: List[P]
    ops: List[str]  # | or |&
    kind = "pipeline"

    def render(self) -> str:
        out = self.items[0].render()
        for op, it in zip(self.ops, self.items[1:]):
            out += " " + op + " " + it.render()
        return out

    def children(self):
        return list(self.items)


@dataclass
class Group(P):
    body: P
    style: str  # subshell | brace
    redirs: List[Redir] = field(default_factory=list)

    @property
    def kind(self):
        return self.style

    def render(self) -> str:
        if self.style == "subshell":
            b = self.body.render()
            return "( " + b + " )" + self.render_redirs()
        return "{ " + self.body.render() + "; }" + self.render_redirs()

    def children(self):
        return [self.body]


@dataclass
class If(P):
    cond: P
    then: P
    elifs: List[Tuple[P, P]] = field(default_factory=list)
    els: Optional[P] = None
    redirs: List[Redir] = field(default_factory=list)
    kind = "if"

    def render(self) -> str:
        out = "if " + self.cond.render() + "; then " + self.then.render()
        for c, b in self.elifs:
            out += "; elif " + c.render() + "; then " + b.render()
        if self.els is not None:
            out += "; else " + self.els.render()
        return out + "; fi" + self.render_redirs()

    def children(self):
        out = [self.cond, self.then]
        for c, b in self.elifs:
            out += [c, b]
        if self.els is not None:
            out.append(self.els)
        return out


@dataclass
class Loop(P):
    style: str  # while | until
    cond: P
    body: P
    redirs: List[Redir] = field(default_factory=list)

    @property
    def kind(self):
        return self.style

    def render(self) -> str:
        return self.style + " " + self.cond.render() + "; do " + self.body.render() + "; done" + self.render_redirs()

    def children(self):
        return [self.cond, self.body]


@dataclass
class For(P):
    style: str  # for | select
    var: str
    items: Optional[List[W]]
    body: P
    redirs: List[Redir] = field(default_factory=list)

    @property
    def kind(self):
        return self.style

    def render(self) -> str:
        head = self.style + " " + self.var
        if self.items is not None:
            head += " in" + "".join(" " + w.render() for w in self.items)
        return head + "; do " + self.body.render() + "; done" + self.render_redirs()

    def children(self):
        return [self.body]

    def words(self):
        return list(self.items or [])


@dataclass
class ForArith(P):
    init: List[Seg]
    cond: List[Seg]
    incr: List[Seg]
    body: P
    redirs: List[Redir] = field(default_factory=list)
    kind = "for-arith"

    def render(self) -> str:
        r = lambda segs: "".join(s.render() for s in segs)
        return "for ((" + r(self.init) + "; " + r(self.cond) + "; " + r(self.incr) + ")); do " + self.body.render() + "; done" + self.render_redirs()

    def children(self):
        return [self.body]

    def subprograms(self):
        out = []
        for segs in (self.init, self.cond, self.incr):
            for s in segs:
                out.extend(("for-arith/" + pos, p) for pos, p in s.subprograms())
        for r in self.redirs:
            out.extend(r.subprograms())
        return out


@dataclass
class Case(P):
    word: W
    arms: List[Tuple[List[W], Optional[P], str]]  # patterns, body, terminator
    redirs: List[Redir] = field(default_factory=list)
    kind = "case"

    def render(self) -> str:
        out = "case " + self.word.render() + " in"
        for pats, body, term in self.arms:
            out += " " + "|".join(p.render() for p in pats) + ")"
            if body is not None:
                out += " " + body.render()
            out += " " + term
        return out + " esac" + self.render_redirs()

    def children(self):
        return [b for _, b, _ in self.arms if b is not None]

    def words(self):
        return [self.word]

    def subprograms(self):
        out = P.subprograms(self)
        for pats, _, _ in self.arms:
            for w in pats:
                out.extend(("case-pattern/" + pos, p) for pos, p in w.subprograms())
        return out


@dataclass
class Func(P):
    name: str
    body: P  # a Group
    style: int = 0
    kind = "function"

    def render(self) -> str:
        if self.style == 0:
            return self.name + "() " + self.body.render()
        return "function " + self.name + " " + self.body.render()

    def children(self):
        return [self.body]


@dataclass
class Prefix(P):
    style: str  # time | negation | coproc
    body: P

    @property
    def kind(self):
        return self.style

    def render(self) -> str:
        return {"time": "time ", "negation": "! ", "coproc": "coproc "}[self.style] + self.body.render()

    def children(self):
        return [self.body]


@dataclass
class CondExpr(P):
    """[[ … ]] ; `tree` is a nested tuple: ('unary', op, W) ('binary', op, W, W) ('and'|'or', a, b) ('not', a) ('paren', a)"""

    tree: tuple
    redirs: List[Redir] = field(default_factory=list)
    kind = "cond-expr"

    def _r(self, t) -> str:
        k = t[0]
        if k == "unary":
            return t[1] + " " + t[2].render()
        if k == "binary":
            return t[2].render() + " " + t[1] + " " + t[3].render()
        if k == "and":
            return self._r(t[1]) + " && " + self._r(t[2])
        if k == "or":
            return self._r(t[1]) + " || " + self._r(t[2])
        if k == "not":
            return "! " + self._r(t[1])
        if k == "paren":
            return "( " + self._r(t[1]) + " )"
        raise ValueError(k)

    def _w(self, t) -> List[W]:
        k = t[0]
        if k == "unary":
            return [t[2]]
        if k == "binary":
            return [t[2], t[3]]
        if k in ("and", "or"):
            return self._w(t[1]) + self._w(t[2])
        return self._w(t[1])

    def render(self) -> str:
        return "[[ " + self._r(self.tree) + " ]]" + self.render_redirs()

    def words(self):
        return self._w(self.tree)


@dataclass
class ArithCmd(P):
    segs: List[Seg]
    redirs: List[Redir] = field(default_factory=list)
    kind = "arith-cmd"

    def render(self) -> str:
        return "(( " + "".join(s.render() for s in self.segs) + " ))" + self.render_redirs()

    def subprograms(self):
        out = []
        for s in self.segs:
            out.extend(("arith-cmd/" + pos, p) for pos, p in s.subprograms())
        for r in self.redirs:
            out.extend(r.subprograms())
        return out


# ---------------------------------------------------------------- generator

ALLOW_CMDS = [["2ok", "-l"], ["ls"], ["cat", "f"], ["echo", "hi"], ["pwd"], ["true"], ["git", "status"], ["ok1"], ["ok1", "a", "b"], ["grep", "-r", "x", "."], ["wc", "-l"], ["head", "-n", "1"]]
ASK_CMDS = [["rm", "x"], ["foo"], ["git", "push"], ["askme"], ["mv", "a", "b"], ["chmod", "+x", "f"], ["./script.sh"], ["curl", "-X", "POST", "http://u"]]
DENY_CMDS = [["denied"], ["nope", "x"], ["denied", "-f", "y"], ["7zdenied", "x", "a.7z"]]

# the configuration every generated program is analysed under
CONFIG_TEXT = """\
allow ok1
ask askme "asked by rule"
deny denied "denied by rule"
deny nope *
deny 7zdenied "a program whose name starts with a digit"
allow 2ok
allow-redirect /tmp/ok
allow-redirect /tmp/okdir/**
ask-redirect /tmp/q "ask redirect"
deny-redirect /tmp/no "deny redirect"
"""

TARGETS_ALLOW = ["/dev/null", "/tmp/ok", "/tmp/okdir/a"]
TARGETS_ASK = ["f", "/tmp/q", "out.txt"]
TARGETS_DENY = ["/tmp/no"]
OPS_WRITE = [">", ">>", "&>", "&>>", "2>", "2>>"]
OPS_READ = ["<"]


class Gen:
    def __init__(self, rng, *, p_ask=0.18, p_deny=0.08, max_depth=4, exotic=False, pipe_both=True, heredocs=True, raw_safe=True):
        self.raw_safe = raw_safe
        self.r = rng
        self.p_ask = p_ask
        self.p_deny = p_deny
        self.max_depth = max_depth
        self.exotic = exotic  # positions/operators the pinned analyzer is known to skip
        self.pipe_both = pipe_both
        self.heredocs = heredocs
        self.fn = 0

    # -- atoms
    def atom_argv(self) -> Tuple[List[str], str]:
        x = self.r.random()
        if x < self.p_deny:
            return list(self.r.pick(DENY_CMDS)), "deny"
        if x < self.p_deny + self.p_ask:
            return list(self.r.pick(ASK_CMDS)), "ask"
        return list(self.r.pick(ALLOW_CMDS)), "allow"

    def seg_sub(self, depth) -> Seg:
        k = self.r.pick(["cmdsub", "cmdsub", "cmdsub", "tick", "procsub"])
        inner = self.prog(depth + 1, small=True)
        if k == "tick":
            # backticks cannot nest without escaping: keep the inner program free of backticks/quotes trouble
            inner = self.simple(self.max_depth, plain=True)
            return Seg("tick", prog=inner)
        if k == "procsub":
            return Seg("procsub", prog=inner, direction=self.r.pick(["<", ">"]))
        return Seg("cmdsub", prog=inner)

    def word(self, depth, *, allow_sub=True) -> W:
        r = self.r
        if not allow_sub or depth >= self.max_depth or r.chance(0.55):
            k = r.random()
            if k < 0.6:
                return lit(r.pick(["a", "b", "x.txt", "-v", "dir/f", "1", "--flag", "foo=bar"]))
            if k < 0.75:
                return W([Seg("sq", r.pick(["a b", "x", "$(nope)", "a;b"]))])
            if k < 0.9:
                return W([Seg("dq", segs=[Seg("lit", r.pick(["a b", "x", "y z"]))])])
            return W([Seg("var", name=r.pick(["HOME", "x", "1"]))])
        k = r.random()
        if k < 0.40:
            return W([self.seg_sub(depth)])
        if k < 0.55:
            return W([Seg("dq", segs=[Seg("lit", "p"), self.seg_sub_nq(depth, raw=False), Seg("lit", "s")])])
        if k < 0.65:
            return W([Seg("lit", "pre"), self.seg_sub(depth)])
        if k < 0.85:
            op = r.pick([":-", ":=", ":+", ":?", "-", "+", "#", "%", "/", "//"])
            j = r.random()
            if j < 0.2:
                # a process substitution alone in the argument: no `$(` and no backtick anywhere in the raw text
                inner = self.raw_prog(depth + 1) if self.raw_safe else self.prog(depth + 1, small=True)
                fire = r.pick([(":-", "x"), ("-", "x"), (":+", "HOME"), ("+", "HOME")])
                return W([Seg("param", name=fire[1], op=fire[0], segs=[Seg("lit", r.pick(["", "d"])), Seg("procsub", prog=inner, direction=r.pick(["<", ">"]))])])
            if j < 0.45:
                # single-quote characters around the substitution: literal text when the word is unquoted (bash does not run it,
                # Dippy's scan still counts it), ordinary characters inside a double-quoted word (bash runs it)
                fire = r.pick([(":-", "x"), ("-", "x"), (":+", "HOME"), ("+", "HOME"), (":=", "x")])
                arg = [Seg("lit", r.pick(["'", "it's ", "a '"])), self.seg_sub_nq(depth), Seg("lit", r.pick(["'", " isn't", "' b"]))]
                pw = Seg("param", name=fire[1], op=fire[0], segs=arg)
                return W([Seg("dq", segs=[Seg("lit", r.pick(["", "p "])), pw])]) if r.chance(0.7) else W([pw])
            arg = [Seg("lit", r.pick(["", "d", "a/"])), self.seg_sub_nq(depth)]
            if op in ("/", "//"):
                arg = [Seg("lit", "a/")] + arg
            return W([Seg("param", name="x", op=op, segs=arg)])
        if self.exotic:
            j = r.random()
            if j < 0.3:
                return W([Seg("arith", segs=[Seg("lit", "1 + "), self.seg_sub_nq(depth)])])
            if j < 0.45:
                return W([Seg("arith_old", segs=[Seg("lit", "1 + "), self.seg_sub_nq(depth)])])
            if j < 0.7:
                return W([Seg("param", name="a[", op="", segs=[self.seg_sub_nq(depth), Seg("lit", "]")])])
            return W([Seg("param", name="#a[", op="", segs=[self.seg_sub_nq(depth), Seg("lit", "]")])])
        return W([self.seg_sub(depth)])

    def seg_sub_nq(self, depth, raw=True) -> Seg:
        """a command substitution usable inside quotes / raw text: $(...) only.
        In raw-text positions (parameter arguments, here-document bodies, arithmetic text)
        and with `raw_safe` set, the inner program avoids what the depth-counting scanner
        is known to mishandle: bare parentheses, quotes, backslashes, backticks, `#`."""
        if raw and self.raw_safe:
            return Seg("cmdsub", prog=self.raw_prog(depth + 1))
        return Seg("cmdsub", prog=self.prog(depth + 1, small=True))

    def raw_prog(self, depth) -> P:
        r = self.r

        def plain_simple():
            argv, label = self.atom_argv()
            ws = [lit(a) for a in argv]
            if r.chance(0.3):
                ws.append(lit(r.pick(["a", "-v", "x.txt"])))
            if r.chance(0.25) and depth < self.max_depth:
                ws.append(W([Seg("cmdsub", prog=self.raw_prog(depth + 1))]))
            rs = [Redir(">", lit(r.pick(TARGETS_ALLOW + TARGETS_ASK + TARGETS_DENY)))] if r.chance(0.15) else []
            return Simple([], ws, rs, label=label)

        k = r.random()
        if k < 0.6:
            return plain_simple()
        n = r.randint(2, 3)
        items = [plain_simple() for _ in range(n)]
        if k < 0.8:
            return Pipe(items, ["|"] * (n - 1))
        return Seq(items, [r.pick([";", "&&", "||"]) for _ in range(n - 1)])

    def redirect(self, depth, *, allow_heredoc=False) -> Redir:
        r = self.r
        x = r.random()
        if allow_heredoc and self.heredocs and x < 0.12:
            quoted = r.chance(0.3)
            body = [Seg("lit", "text ")]
            if r.chance(0.7):
                body.append(self.seg_sub_nq(depth))
            return Redir("<<", heredoc=("EOF", quoted, body))
        if x < 0.2:
            return Redir("<", lit(r.pick(["in.txt", "/dev/null"])))
        if x < 0.27:
            if depth < self.max_depth and r.chance(0.4):
                # an fd-duplication target is a word like any other: bash expands the substitution in it
                sub = Seg("cmdsub", prog=self.prog(depth + 1, small=True))
                t = W([Seg("lit", "&"), sub]) if r.chance(0.7) else W([Seg("lit", "&"), Seg("param", name="nofd", op=":-", segs=[sub])])
                return Redir(r.pick(["2>", "1>", "0<", ">", "<", "3>"]), t)
            return Redir("2>", lit("&1"))
        if x < 0.32:
            return Redir("<<<", self.word(depth))
        ops = OPS_WRITE + ([">|", "1>", "3>>", "<>"] if self.exotic else [])
        op = r.pick(ops)
        if getattr(self, "no_file_redirects", False):
            return Redir(r.pick([">", "2>", "&>"]), lit("/dev/null"))
        y = r.random()
        if y < 0.55:
            t = lit(r.pick(TARGETS_ALLOW))
        elif y < 0.8:
            t = lit(r.pick(TARGETS_ASK))
        elif y < 0.88:
            t = lit(r.pick(TARGETS_DENY))
        elif y < 0.94:
            t = W([Seg("dq", segs=[Seg("lit", r.pick(TARGETS_ALLOW + TARGETS_ASK))])])
        else:
            t = W([Seg("lit", "/tmp/okdir/"), self.seg_sub(depth)]) if depth < self.max_depth else lit("/tmp/ok")
        return Redir(op, t)

    def redirs(self, depth, p=0.25, allow_heredoc=False) -> List[Redir]:
        out = []
        while self.r.chance(p) and len(out) < 3:
            out.append(self.redirect(depth, allow_heredoc=allow_heredoc and not any(x.heredoc for x in out)))
        return out

    def simple(self, depth, *, plain=False) -> Simple:
        r = self.r
        if not plain and self.exotic and depth < self.max_depth and r.chance(0.04):
            # `a[SUB]=v` on its own, or as an argument of declare/local: SUB bare, or wrapped in quote characters
            sub = self.seg_sub_nq(depth)
            q = r.pick(["", "'", '"'])
            subw = W([Seg("lit", q + r.pick(["", "i+"])), sub, Seg("lit", q)])
            if r.chance(0.7):
                return Simple([], [], [], label="allow", elem_assigns=[(r.pick(["a", "arr_1"]), subw, lit(r.pick(["1", "v"])))])
            return Simple([], [lit(r.pick(["declare", "local", "export", "typeset"])), W([Seg("lit", "a[")] + subw.segs + [Seg("lit", "]=1")])], [], label="allow")
        argv, label = self.atom_argv()
        ws = [lit(a) for a in argv]
        assigns = []
        if not plain:
            n = 0
            while r.chance(0.3) and n < 3:
                ws.append(self.word(depth))
                n += 1
            if r.chance(0.08):
                assigns.append((r.pick(["A", "FOO", "x_1"]), self.word(depth, allow_sub=r.chance(0.3))))
        rs = [] if plain else self.redirs(depth, allow_heredoc=(depth == 0))
        return Simple(assigns, ws, rs, label=label)

    def cond_tree(self, depth, d=0):
        r = self.r
        x = r.random()
        if d >= 2 or x < 0.5:
            if r.chance(0.5):
                return ("unary", r.pick(["-f", "-z", "-n", "-d", "-e"]), self.cond_word(depth))
            return ("binary", r.pick(["==", "!=", "=~", "-eq", "<"]), self.cond_word(depth), self.cond_word(depth))
        if x < 0.65:
            return ("and", self.cond_tree(depth, d + 1), self.cond_tree(depth, d + 1))
        if x < 0.8:
            return ("or", self.cond_tree(depth, d + 1), self.cond_tree(depth, d + 1))
        if x < 0.9:
            return ("not", self.cond_tree(depth, d + 1))
        return ("paren", self.cond_tree(depth, d + 1))

    def cond_word(self, depth) -> W:
        w = self.word(depth)
        # operator-looking literals confuse [[ ]] itself
        if w.is_plain() and w.render().startswith("-"):
            return lit("word")
        return w

    def arith_segs(self, depth) -> List[Seg]:
        r = self.r
        base = r.pick(["x = 1 + ", "y * ", "i < ", "a[1] + ", "-"])
        if r.chance(0.6) and depth < self.max_depth:
            return [Seg("lit", base), self.seg_sub_nq(depth)]
        return [Seg("lit", base + "2")]

    def prog(self, depth=0, *, small=False) -> P:
        r = self.r
        if depth >= self.max_depth or (small and r.chance(0.6)) or r.chance(0.25):
            return self.simple(depth)
        k = r.random()
        if k < 0.22:
            n = r.randint(2, 4)
            items = [self.prog(depth + 1) for _ in range(n)]
            ops = [r.pick([";", "&&", "||", "&", ";", "&&"]) for _ in range(n - 1)]
            return Seq(items, ops)
        if k < 0.36:
            n = r.randint(2, 4)
            items = [self.prog(depth + 1, small=True) for _ in range(n)]
            # `a | ! b` and `a | time b` are syntax errors: only the first element may carry a prefix
            # … and a list as a pipeline element must be grouped (`a | b || c` is `(a | b) || c`)
            items = [Group(it, "brace") if (isinstance(it, Seq) or (i > 0 and isinstance(it, Prefix))) else it for i, it in enumerate(items)]
            ops = [("|&" if (self.pipe_both and r.chance(0.05)) else "|") for _ in range(n - 1)]
            return Pipe(items, ops)
        if k < 0.46:
            return Group(self.prog(depth + 1), r.pick(["subshell", "brace"]), self.redirs(depth))
        if k < 0.56:
            elifs = [(self.prog(depth + 1, small=True), self.prog(depth + 1, small=True))] if r.chance(0.25) else []
            els = self.prog(depth + 1, small=True) if r.chance(0.5) else None
            return If(self.prog(depth + 1, small=True), self.prog(depth + 1), elifs, els, self.redirs(depth, 0.15))
        if k < 0.64:
            return Loop(r.pick(["while", "until"]), self.prog(depth + 1, small=True), self.prog(depth + 1), self.redirs(depth, 0.15))
        if k < 0.72:
            style = r.pick(["for", "for", "select"])
            items = None if r.chance(0.1) else [self.word(depth) for _ in range(r.randint(1, 3))]
            return For(style, r.pick(["i", "x"]), items, self.prog(depth + 1), self.redirs(depth, 0.15))
        if k < 0.76:
            return ForArith([Seg("lit", "i=0")], self.arith_segs(depth), [Seg("lit", "i++")], self.prog(depth + 1), self.redirs(depth, 0.1))
        if k < 0.84:
            arms = []
            for _ in range(r.randint(1, 3)):
                pats = [lit(r.pick(["a", "b*", "*", "[0-9]"])) for _ in range(r.randint(1, 2))]
                if self.exotic and r.chance(0.2):
                    pats[0] = W([self.seg_sub_nq(depth)])
                body = None if r.chance(0.15) else self.prog(depth + 1, small=True)
                arms.append((pats, body, r.pick([";;", ";;", ";&", ";;&"])))
            return Case(self.word(depth), arms, self.redirs(depth, 0.1))
        if k < 0.88:
            self.fn += 1
            return Func("fn%d" % self.fn, Group(self.prog(depth + 1), "brace"), r.randint(0, 1))
        if k < 0.93:
            return Prefix(r.pick(["time", "negation", "negation", "coproc"]), self.simple(depth) if r.chance(0.5) else Pipe([self.simple(depth), self.simple(depth)], ["|"]))
        if k < 0.97:
            return CondExpr(self.cond_tree(depth), self.redirs(depth, 0.1))
        return ArithCmd(self.arith_segs(depth), self.redirs(depth, 0.1))

    def program(self) -> Tuple[P, str]:
        if getattr(self, "p_plain_list", 0) and self.r.chance(self.p_plain_list):
            return self.plain_list()
        p = self.prog(0)
        return p, finish_heredocs(p.render(), p)

    def plain_list(self) -> Tuple[P, str]:
        """2-4 metacharacter-free simple commands joined by ; && || & or newlines (what a fast path on 'plain' text would see)"""
        r = self.r
        items = []
        for _ in range(r.randint(2, 4)):
            argv, label = self.atom_argv()
            ws = [lit(a) for a in argv if all(ch.isalnum() or ch in "@%+,:./-_" for ch in a)] or [lit("ls")]
            items.append(Simple([], ws, [], label=label))
        ops = [r.pick([";", "&&", "||", "\n", "\n", "&"]) for _ in items[1:]]
        p = Seq(items, ops)
        return p, p.render()


# ---------------------------------------------------------------- the same word, quoted differently

def requote(r, w: str) -> str:
    """another source spelling of the word `w` (bash's quote removal gives `w` back): the word is cut into pieces and each
    piece is written bare with backslashes, in single quotes, in double quotes or in $'…' with escapes"""
    if not w:
        return r.pick(["''", '""', "$''"])
    cuts = sorted({r.randrange(1, len(w)) for _ in range(r.randint(0, 2))}) if len(w) > 1 else []
    pieces = [w[a:b] for a, b in zip([0] + cuts, cuts + [len(w)])]
    out = []
    for p in pieces:
        k = r.random()
        if k < 0.3:
            out.append("".join("\\" + c if (r.chance(0.4) or not (c.isalnum() or c in "_-./=:,+@%")) and c != "\n" else c for c in p))
        elif k < 0.55 and "'" not in p:
            out.append("'" + p + "'")
        elif k < 0.8:
            out.append('"' + "".join("\\" + c if c in '$`"\\' else c for c in p) + '"')
        else:
            body = ""
            for c in p:
                j = r.random()
                if c in "'\\":
                    body += "\\" + c
                elif j < 0.25 and ord(c) < 256:
                    body += "\\x%02x" % ord(c)
                elif j < 0.4 and ord(c) < 256:
                    body += "\\%03o" % ord(c)
                elif j < 0.5:
                    body += "\\u%04x" % ord(c) if ord(c) < 0x10000 else c
                else:
                    body += c
            out.append("$'" + body + "'")
    return "".join(out)
