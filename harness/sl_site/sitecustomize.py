"""Scheduling aid for the statusline checks (loaded only when the harness puts this directory on PYTHONPATH).
SL_PAUSE_DIR: directory to watch; SL_GATE: path whose appearance releases the process.
The process pauses right after its first open-for-write of a file inside SL_PAUSE_DIR.
It knows nothing about how the cache is written: it only forces a schedule."""
import builtins
import os
import time

_dir = os.environ.get("SL_PAUSE_DIR")
_gate = os.environ.get("SL_GATE")
if _dir and _gate:
    _real_open = builtins.open
    _state = {"done": False}

    def _open(file, mode="r", *a, **kw):
        f = _real_open(file, mode, *a, **kw)
        try:
            if not _state["done"] and isinstance(file, str) and file.startswith(_dir) and any(c in mode for c in "wax+"):
                _state["done"] = True
                marker = _gate + ".paused"
                _real_open(marker, "w").close()
                t0 = time.time()
                while not os.path.exists(_gate) and time.time() - t0 < 10:
                    time.sleep(0.01)
        except Exception:  # noqa: BLE001
            pass
        return f

    builtins.open = _open
