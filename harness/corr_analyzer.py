"""T1-b: the real `analyze` against the Lean model of analyzer.py on the same AST.

The harness parses with the real Parable, serialises the AST, records every
external answer (re-parses, rule lookups, handler classifications, descriptions,
cd resolution) and asks the model for action *and* reason.
"""
from __future__ import annotations

import collections
from pathlib import Path

from common import Model, has_surrogate
from ser import Recorder, recording


def run_case(model: Model, analyze, text: str, cfg, cwd: str, remote: bool = False, oracle_match: bool = True, extra: dict | None = None):
    """Returns (impl_decision | None, model_reply | None, exception | None, world)."""
    rec = Recorder()
    exc = None
    d = None
    with recording(rec, oracle_match=oracle_match):
        try:
            d = analyze(text, cfg, Path(cwd), remote=remote)
        except RecursionError as e:  # deep inputs: the hook answers {} (C06)
            exc = e
        except Exception as e:  # noqa: BLE001
            exc = e
    if exc is not None or has_surrogate(text) or rec.ambiguous:
        return d, None, exc, rec
    req = {"op": "analyze", "fuel": 64, "cmd": text, "cwd": cwd, "remote": remote, "world": rec.world()}
    if extra:
        req.update(extra)
    r = model.ask(req)
    return d, r, None, rec


def agree(d, r) -> bool:
    return isinstance(r, dict) and r.get("action") == d.action and r.get("reason") == d.reason


def correspondence(model: Model, cases, cfg, *, cwd="/tmp/probe", max_div=5):
    """cases: iterable of (text, meta).  Returns stats dict."""
    from dippy.core.analyzer import analyze

    stats = collections.Counter()
    dist = collections.Counter()
    divs = []
    samples = []
    seen = set()
    for text, meta in cases:
        stats["cases"] += 1
        d, r, exc, rec = run_case(model, analyze, text, cfg, cwd)
        if exc is not None:
            stats["impl_exception"] += 1
            dist["exc:" + type(exc).__name__] += 1
            if len(divs) < max_div:
                divs.append({"input": text, "impl": "exception " + repr(exc), "model": None, "kind": "impl-exception"})
            continue
        if r is None:
            stats["skipped"] += 1
            continue
        dist["verdict:" + d.action] += 1
        if d.reason.startswith("parse error"):
            dist["parse-error"] += 1
        else:
            if text not in seen:
                seen.add(text)
                stats["distinct_nontrivial"] += 1
        stats["reparses"] += max(0, len(rec.parse) - 1)
        if len(samples) < 3 and len(text) < 200:
            samples.append({"input": text, "verdict": d.action, "reason": d.reason})
        if not agree(d, r):
            stats["diverged"] += 1
            if len(divs) < max_div:
                divs.append({"input": text, "impl": {"action": d.action, "reason": d.reason}, "model": r, "kind": "analyzer"})
    return {"stats": dict(stats), "distribution": dict(dist), "divergences": divs, "samples": samples}


def correspondence_cfg(model: Model, cases, *, max_div=5, area="analyze (config mode)"):
    """End-to-end: the model computes the rule lookups itself from the configuration.
    cases: iterable of (text, cfg_text, cwd)."""
    from dippy.core.analyzer import analyze
    from dippy.core.config import parse_config

    from corr_config import cfg_to_json, env_json, record_resolve

    stats = collections.Counter()
    dist = collections.Counter()
    divs = []
    samples = []
    seen = set()
    cache = {}
    for text, cfg_text, cwd in cases:
        stats["cases"] += 1
        if cfg_text not in cache:
            cfg = parse_config(cfg_text)
            cache[cfg_text] = (cfg, cfg_to_json(cfg))
        cfg, cj = cache[cfg_text]
        table = []
        rec = Recorder()
        exc = None
        d = None
        with record_resolve(table), recording(rec, oracle_match=False):
            try:
                d = analyze(text, cfg, Path(cwd))
            except Exception as e:  # noqa: BLE001
                exc = e
        if exc is not None:
            stats["impl_exception"] += 1
            if len(divs) < max_div:
                divs.append({"input": [text, cfg_text, cwd], "impl": "exception " + repr(exc), "model": None, "kind": "impl-exception"})
            continue
        if has_surrogate(text):
            continue
        r = model.ask({"op": "analyze", "fuel": 64, "cmd": text, "cwd": cwd, "remote": False, "world": rec.world(), "config": cj, "env": env_json(table)})
        dist["verdict:" + d.action] += 1
        key = (text, cfg_text)
        if key not in seen and not d.reason.startswith("parse error"):
            seen.add(key)
            stats["distinct_nontrivial"] += 1
        if len(samples) < 3:
            samples.append({"input": text, "config": cfg_text, "verdict": d.action, "reason": d.reason})
        if not agree(d, r):
            stats["diverged"] += 1
            if len(divs) < max_div:
                divs.append({"input": [text, cfg_text, cwd], "impl": {"action": d.action, "reason": d.reason}, "model": r, "kind": area})
    return {"area": area, "stats": dict(stats), "distribution": dict(dist), "divergences": divs, "samples": samples}
