#!/usr/bin/env python3
"""Entry point: ./check <ID> [--tier quick|thorough] [--replay FILE]"""
from __future__ import annotations

import argparse
import importlib
import json
import os
import sys

sys.path.insert(0, os.path.dirname(os.path.abspath(__file__)))


def main() -> int:
    ap = argparse.ArgumentParser()
    ap.add_argument("prop")
    ap.add_argument("--tier", default=os.environ.get("VERIF_TIER") or "quick", choices=["quick", "thorough"])
    ap.add_argument("--replay")
    a = ap.parse_args()
    os.environ["VERIF_TIER"] = a.tier
    import common
    import framework

    def go():
        common.import_repo()
        mod = importlib.import_module("props." + a.prop.lower())
        if a.replay:
            payload = json.load(open(a.replay))
            if payload.get("kind") in ("obligation", "correspondence") and "input" not in payload:
                print("this replay names theorems/correspondences that no longer check:")
                print(json.dumps({k: payload.get(k) for k in ("theorem", "divergence")}, indent=1, ensure_ascii=False))
                return framework.run_check(mod, a.tier)
            return mod.replay(payload)
        return framework.run_check(mod, a.tier)

    return framework.main_guard(go)


if __name__ == "__main__":
    sys.exit(main())
