#!/usr/bin/env python3
"""One long-lived hook process: reads one JSON query per line, answers one JSON line.
Usage: history_proc.py <repo_src>   (HOME and the DIPPY_* variables come from the environment)

query {"kind": "analyze", "cmd", "config", "cwd"}            -> {"action", "reason"}
query {"kind": "main", "stdin"}                               -> {"stdout"}     (dippy.dippy.main() called in-process)
query {"kind": "cacheinfo"}                                   -> lru statistics of _load_handler
"""
import contextlib
import io
import json
import sys

sys.path.insert(0, sys.argv[1])
sys.argv = [sys.argv[0]] + sys.argv[2:]

from pathlib import Path  # noqa: E402

import dippy.cli as CLI  # noqa: E402
import dippy.dippy as D  # noqa: E402
from dippy.core.analyzer import analyze  # noqa: E402
from dippy.core.config import parse_config  # noqa: E402

CONFIG_OBJECTS = {}
real_stdin = sys.stdin
real_stdout = sys.stdout
for line in real_stdin:
    q = json.loads(line)
    try:
        if q["kind"] == "analyze":
            # a long-lived process keeps the configurations it has loaded: with "reuse" the same Config object serves every
            # query with that text (anything an analysis stores on it is then history)
            if q.get("reuse"):
                cfg = CONFIG_OBJECTS.get(q["config"])
                if cfg is None:
                    cfg = CONFIG_OBJECTS[q["config"]] = parse_config(q["config"])
            else:
                cfg = parse_config(q["config"])
            d = analyze(q["cmd"], cfg, Path(q["cwd"]))
            out = {"action": d.action, "reason": d.reason}
        elif q["kind"] == "main":
            buf = io.StringIO()
            sys.stdin = io.StringIO(q["stdin"])
            try:
                with contextlib.redirect_stdout(buf):
                    try:
                        D.main()
                    except SystemExit:
                        pass
            finally:
                sys.stdin = real_stdin
            out = {"stdout": buf.getvalue()}
        elif q["kind"] == "fs":
            # a change of the files between two queries (the files are inputs of the later query)
            import os
            import shutil

            path = q["path"]
            if q["op"] == "write":
                st = os.stat(path) if (q.get("keep_stamp") and os.path.exists(path)) else None
                if os.path.islink(path):
                    os.unlink(path)
                with open(path, "w") as f:
                    f.write(q["content"])
                if st is not None:
                    os.utime(path, ns=(st.st_atime_ns, st.st_mtime_ns))
            elif q["op"] == "remove":
                if os.path.isdir(path) and not os.path.islink(path):
                    shutil.rmtree(path)
                elif os.path.lexists(path):
                    os.unlink(path)
            elif q["op"] == "mkdir":
                os.makedirs(path, exist_ok=True)
            elif q["op"] == "symlink":
                if os.path.lexists(path):
                    os.unlink(path)
                os.symlink(q["target"], path)
            out = {"fs": "ok"}
        elif q["kind"] == "cacheinfo":
            ci = CLI._load_handler.cache_info()
            out = {"hits": ci.hits, "misses": ci.misses, "maxsize": ci.maxsize, "currsize": ci.currsize}
        else:
            out = {"error": "unknown kind"}
    except Exception as e:  # noqa: BLE001
        out = {"exception": type(e).__name__ + ": " + str(e)[:200]}
    real_stdout.write(json.dumps(out) + "\n")
    real_stdout.flush()
