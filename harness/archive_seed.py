#!/usr/bin/env python3
"""archive_seed.py <seed_dir> <dest_name> <seedtest-result.json> : keep a confirmed seeded change under /verif/seeded/"""
import json, os, shutil, subprocess, sys
VERIF = os.path.dirname(os.path.dirname(os.path.abspath(__file__)))
src, name, resf = sys.argv[1:4]
res = json.load(open(resf))
dst = os.path.join(VERIF, "seeded", name)
os.makedirs(dst, exist_ok=True)
for f in ("patch.diff", "demo.py"):
    shutil.copy(os.path.join(src, f), os.path.join(dst, f))
meta = json.load(open(os.path.join(src, "meta.json")))
head = subprocess.run("git -C /repo log --oneline -1", shell=True, capture_output=True, text=True).stdout.strip()
meta["confirmed_by_me"] = {
    "base_commit": head,
    "demo_exit_unpatched": res.get("demo_unpatched_exit"),
    "demo_exit_patched": res.get("demo_patched_exit"),
    "suite": res.get("suite"),
    "ran": "harness/seedtest.py %s %s --suite" % (src, " ".join(res.get("checks", {}))),
    "checks": {k: {"exit": v["exit"], "lines": v["lines"], "replay": v.get("replay")} for k, v in res.get("checks", {}).items()},
    "checks_that_report_it": [k for k, v in res.get("checks", {}).items() if v["exit"] == 1],
}
meta["written_by"] = "independent sub-agent given only the property text and its own worktree"
json.dump(meta, open(os.path.join(dst, "meta.json"), "w"), indent=1, ensure_ascii=False)
print(dst, meta["confirmed_by_me"]["checks_that_report_it"])
