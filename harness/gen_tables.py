#!/usr/bin/env python3
"""T0 translator: read /repo's *source text* with `ast` (no import of dippy) and
write Lean literals into lean/Dippy/Generated/.  A table that cannot be found
where expected is emitted as a marker (`missing := true`) that makes the
obligations depending on it fail.

Usage: gen_tables.py [REPO] [OUTDIR]
Only rewrites a file when its content changed (keeps lake builds no-ops).
"""
from __future__ import annotations

import ast
import json
import os
import sys
import unicodedata

REPO = sys.argv[1] if len(sys.argv) > 1 else os.environ.get("DIPPY_REPO", "/repo")
HERE = os.path.dirname(os.path.abspath(__file__))
OUT = sys.argv[2] if len(sys.argv) > 2 else os.path.join(HERE, "..", "lean", "Dippy", "Generated")
SRC = os.path.join(REPO, "src", "dippy")

MISSING: list[str] = []


def lean_str(s: str) -> str:
    out = ['"']
    for ch in s:
        o = ord(ch)
        if ch == '"':
            out.append('\\"')
        elif ch == "\\":
            out.append("\\\\")
        elif ch == "\n":
            out.append("\\n")
        elif ch == "\t":
            out.append("\\t")
        elif ch == "\r":
            out.append("\\r")
        elif o < 32 or o == 127 or o > 126:
            out.append("\\u{%x}" % o)
        else:
            out.append(ch)
    out.append('"')
    return "".join(out)


def lean_list(xs, per_line=6) -> str:
    xs = list(xs)
    if not xs:
        return "[]"
    items = [lean_str(x) for x in xs]
    lines = []
    for i in range(0, len(items), per_line):
        lines.append("  " + ", ".join(items[i : i + per_line]))
    return "[\n" + ",\n".join(lines) + "]"


def parse_file(rel: str) -> ast.Module | None:
    p = os.path.join(SRC, rel)
    try:
        with open(p, encoding="utf-8") as f:
            return ast.parse(f.read(), filename=p)
    except (OSError, SyntaxError):
        return None


def const_strs(node) -> list[str] | None:
    """Evaluate a literal collection of strings: set/list/tuple/frozenset({..})/frozenset([..])."""
    if isinstance(node, ast.Call) and isinstance(node.func, ast.Name) and node.func.id in ("frozenset", "set", "tuple", "list"):
        if not node.args:
            return []
        return const_strs(node.args[0])
    if isinstance(node, (ast.Set, ast.List, ast.Tuple)):
        out = []
        for e in node.elts:
            if isinstance(e, ast.Constant) and isinstance(e.value, str):
                out.append(e.value)
            else:
                return None
        return out
    if isinstance(node, ast.BinOp) and isinstance(node.op, (ast.BitOr, ast.Add)):
        a, b = const_strs(node.left), const_strs(node.right)
        if a is None or b is None:
            return None
        return a + b
    return None


def module_assign(mod: ast.Module | None, name: str):
    if mod is None:
        return None
    for st in mod.body:
        if isinstance(st, ast.Assign):
            for t in st.targets:
                if isinstance(t, ast.Name) and t.id == name:
                    return st.value
        if isinstance(st, ast.AnnAssign) and isinstance(st.target, ast.Name) and st.target.id == name and st.value is not None:
            return st.value
    return None


def table(mod, name, what) -> list[str]:
    v = module_assign(mod, name)
    r = const_strs(v) if v is not None else None
    if r is None:
        MISSING.append(what)
        return []
    return r


def find_func(mod: ast.Module | None, name: str) -> ast.FunctionDef | None:
    if mod is None:
        return None
    for st in ast.walk(mod):
        if isinstance(st, ast.FunctionDef) and st.name == name:
            return st
    return None


def write_if_changed(path: str, text: str) -> bool:
    try:
        with open(path, encoding="utf-8") as f:
            if f.read() == text:
                return False
    except OSError:
        pass
    os.makedirs(os.path.dirname(path), exist_ok=True)
    with open(path, "w", encoding="utf-8") as f:
        f.write(text)
    return True


# ---------------------------------------------------------------- unicode

def ranges(pred) -> list[tuple[int, int]]:
    out = []
    start = None
    for cp in range(0x110000):
        if 0xD800 <= cp <= 0xDFFF:
            ok = False
        else:
            ok = pred(chr(cp))
        if ok and start is None:
            start = cp
        elif not ok and start is not None:
            out.append((start, cp - 1))
            start = None
    if start is not None:
        out.append((start, 0x10FFFF))
    return out


def gen_unicode() -> str:
    sp = ranges(str.isspace)
    dg = ranges(str.isdigit)
    al = ranges(str.isalnum)
    import re as _re

    dec = ranges(lambda c: _re.fullmatch(r"\d", c) is not None)
    # str.splitlines boundaries
    lb = [cp for cp in range(0x3000) if len((chr(cp) + "x").splitlines()) == 2 or chr(cp) in "\r\n"]
    lb = sorted(set(lb))

    def fmt(rs):
        items = ["(%d, %d)" % r for r in rs]
        lines = []
        for i in range(0, len(items), 8):
            lines.append("  " + ", ".join(items[i : i + 8]))
        return "[\n" + ",\n".join(lines) + "]"

    return (
        "-- GENERATED by harness/gen_tables.py from the running CPython (unicodedata %s). Do not edit.\n"
        "namespace Dippy.Generated\n\n"
        "/-- code point ranges with `str.isspace()` -/\n"
        "def spaceRanges : List (Nat × Nat) := %s\n\n"
        "/-- code point ranges with `str.isdigit()` -/\n"
        "def digitRanges : List (Nat × Nat) := %s\n\n"
        "/-- code point ranges with `str.isalnum()` -/\n"
        "def alnumRanges : List (Nat × Nat) := %s\n\n"
        "/-- code points at which `str.splitlines()` breaks a line -/\n"
        "def lineBreaks : List Nat := %s\n\n"
        "/-- code point ranges matched by the regular expression `\\d` (str patterns) -/\n"
        "def decimalRanges : List (Nat × Nat) := %s\n\n"
        "end Dippy.Generated\n"
    ) % (unicodedata.unidata_version, fmt(sp), fmt(dg), fmt(al), "[" + ", ".join(map(str, lb)) + "]", fmt(dec))


# ---------------------------------------------------------------- analyzer tables

def gen_tables() -> str:
    allow = parse_file("core/allowlists.py")
    an = parse_file("core/analyzer.py")
    simple_safe = sorted(set(table(allow, "SIMPLE_SAFE", "SIMPLE_SAFE")))
    wrappers = sorted(set(table(allow, "WRAPPER_COMMANDS", "WRAPPER_COMMANDS")))
    safe_targets = sorted(set(table(an, "SAFE_REDIRECT_TARGETS", "SAFE_REDIRECT_TARGETS")))

    # the set of operators (fd prefix removed) that open their target for writing
    red_ops = sorted(set(table(an, "_WRITE_REDIRECT_OPS", "redirectOps")))
    # the fd-prefix regular expression must be the one the model implements
    fdre = module_assign(an, "_FD_PREFIX_RE")
    fd_src = None
    if isinstance(fdre, ast.Call) and fdre.args and isinstance(fdre.args[0], ast.Constant):
        fd_src = fdre.args[0].value
    if fd_src is None:
        MISSING.append("_FD_PREFIX_RE")
        fd_src = ""

    # _WRAPPER_FLAGS_WITH_ARG: {wrapper: frozenset({...})}
    wfa_pairs: list[tuple[str, list[str]]] = []
    v = module_assign(an, "_WRAPPER_FLAGS_WITH_ARG")
    if isinstance(v, ast.Dict):
        for k, val in zip(v.keys, v.values):
            xs = const_strs(val)
            if isinstance(k, ast.Constant) and isinstance(k.value, str) and xs is not None:
                wfa_pairs.append((k.value, sorted(set(xs))))
            else:
                MISSING.append("_WRAPPER_FLAGS_WITH_ARG entry")
    else:
        MISSING.append("_WRAPPER_FLAGS_WITH_ARG")

    # the wrapper loop's DURATION test: `base == "<cmd>" and _TIMEOUT_DURATION.fullmatch(token)`
    dur_cmds: list[str] = []
    dur_pat = ""
    v = module_assign(an, "_TIMEOUT_DURATION")
    if isinstance(v, ast.Call) and ast.unparse(v.func) == "re.compile" and len(v.args) == 1 and isinstance(v.args[0], ast.Constant):
        dur_pat = v.args[0].value
    f = find_func(an, "_analyze_simple_command")
    dur_once = False
    if f is not None:
        for n in ast.walk(f):
            if isinstance(n, ast.If) and isinstance(n.test, ast.BoolOp) and isinstance(n.test.op, ast.And) and "_TIMEOUT_DURATION.fullmatch(token)" in ast.unparse(n.test):
                vals = n.test.values
                for c in vals:
                    if isinstance(c, ast.Compare) and ast.unparse(c.left) == "base" and isinstance(c.ops[0], ast.Eq) and isinstance(c.comparators[0], ast.Constant):
                        dur_cmds.append(c.comparators[0].value)
                # "only one": the test is guarded by `not seen_duration` and the branch sets it
                dur_once = any(ast.unparse(c) == "not seen_duration" for c in vals) and any(ast.unparse(x) == "seen_duration = True" for x in n.body)
    if not dur_pat or not dur_cmds:
        MISSING.append("wrapper DURATION test")

    # arithmetic attribute tuple in _find_cmdsubs_in_arith: `for attr in (...)`
    arith_attrs: list[str] | None = None
    f = find_func(an, "_find_cmdsubs_in_arith")
    if f is not None:
        for n in ast.walk(f):
            if isinstance(n, ast.For) and isinstance(n.target, ast.Name) and n.target.id == "attr":
                arith_attrs = const_strs(n.iter)
    if arith_attrs is None:
        MISSING.append("arithWalkedAttrs")
        arith_attrs = []

    # node kinds dispatched in _analyze_node: `kind == "x"` / `kind in (..)`
    kinds: list[str] = []
    f = find_func(an, "_analyze_node")
    if f is not None:
        for n in ast.walk(f):
            if isinstance(n, ast.Compare) and isinstance(n.left, ast.Name) and n.left.id == "kind" and len(n.ops) == 1:
                if isinstance(n.ops[0], ast.Eq) and isinstance(n.comparators[0], ast.Constant):
                    kinds.append(n.comparators[0].value)
                elif isinstance(n.ops[0], ast.In):
                    kinds.extend(const_strs(n.comparators[0]) or [])
    else:
        MISSING.append("dispatchedKinds")

    # help/version token tuples in _is_version_or_help
    help_sets: list[list[str]] = []
    f = find_func(an, "_is_version_or_help")
    if f is not None:
        for n in ast.walk(f):
            if isinstance(n, ast.Compare) and len(n.ops) == 1 and isinstance(n.ops[0], ast.In):
                s = const_strs(n.comparators[0])
                if s is not None:
                    help_sets.append(s)
    if len(help_sets) != 3:
        MISSING.append("helpSets")
        help_sets = [[], [], []]

    # handlers: COMMANDS of every cli module (file order = glob order is irrelevant: a dict)
    cli_dir = os.path.join(SRC, "cli")
    handlers: dict[str, str] = {}
    mods = []
    can_delegate, has_targets, can_remote, has_get_desc = [], [], [], []
    runs_scripts: list[str] = []
    try:
        names = sorted(os.listdir(cli_dir))
    except OSError:
        names = []
        MISSING.append("cli_dir")
    for fn in names:
        if not fn.endswith(".py") or fn.startswith("_"):
            continue
        m = parse_file("cli/" + fn)
        stem = fn[:-3]
        if m is None:
            MISSING.append("cli/" + fn)
            continue
        mods.append(stem)
        cnode = module_assign(m, "COMMANDS")
        cmds = const_strs(cnode) if cnode is not None else []
        if cmds is None:
            # computed table (e.g. python.py builds python3.8 … python3.19): evaluate the single
            # expression with a minimal set of builtins
            try:
                val = eval(compile(ast.Expression(cnode), fn, "eval"), {"__builtins__": {"range": range, "str": str, "list": list, "tuple": tuple, "set": set, "frozenset": frozenset, "sorted": sorted}})
                cmds = [x for x in val if isinstance(x, str)]
            except Exception:  # noqa: BLE001
                MISSING.append("cli/" + fn + ":COMMANDS")
                cmds = []
        for c in cmds:
            handlers.setdefault(c, stem)
        rs = module_assign(m, "RUNS_SCRIPTS")
        if rs is not None:
            # getattr(handler, "RUNS_SCRIPTS", False) is used for its truth value
            if isinstance(rs, ast.Constant):
                if rs.value:
                    runs_scripts.append(stem)
            else:
                MISSING.append("cli/" + fn + ":RUNS_SCRIPTS")
        src = ast.dump(m)
        for n in ast.walk(m):
            if isinstance(n, ast.Constant) and n.value == "delegate" and stem not in can_delegate:
                can_delegate.append(stem)
            if isinstance(n, ast.keyword) and n.arg == "redirect_targets" and stem not in has_targets:
                has_targets.append(stem)
            if isinstance(n, ast.keyword) and n.arg == "remote" and stem not in can_remote:
                can_remote.append(stem)
            if isinstance(n, ast.FunctionDef) and n.name == "get_description" and stem not in has_get_desc:
                has_get_desc.append(stem)

    # DESCRIPTION_DEPTH
    cli_init = parse_file("cli/__init__.py")
    depth_pairs: list[tuple[str, int]] = []
    v = module_assign(cli_init, "DESCRIPTION_DEPTH")
    if isinstance(v, ast.Dict):
        for k, val in zip(v.keys, v.values):
            if isinstance(k, ast.Constant) and isinstance(val, ast.Constant):
                depth_pairs.append((k.value, val.value))
    else:
        MISSING.append("DESCRIPTION_DEPTH")

    handler_names = sorted(handlers)
    pairs = ", ".join("(%s, %d)" % (lean_str(k), d) for k, d in depth_pairs)
    hmap = ",\n  ".join("(%s, %s)" % (lean_str(k), lean_str(handlers[k])) for k in handler_names)
    txt = [
        "-- GENERATED by harness/gen_tables.py from /repo's working tree. Do not edit.",
        "namespace Dippy.Generated",
        "",
        "/-- `SIMPLE_SAFE` (core/allowlists.py), sorted -/",
        "def simpleSafe : List String := " + lean_list(simple_safe),
        "",
        "/-- `WRAPPER_COMMANDS` (core/allowlists.py), sorted -/",
        "def wrapperCommands : List String := " + lean_list(wrappers),
        "",
        "/-- wrappers whose first positional word is a DURATION, and the pattern it is recognised by (`_TIMEOUT_DURATION`) -/",
        "def wrapperDurationCommands : List String := " + lean_list(dur_cmds),
        "def wrapperDurationPattern : String := " + lean_str(dur_pat),
        "/-- the duration is skipped once (`not seen_duration` guards the test, the branch sets the flag) -/",
        "def wrapperDurationOnce : Bool := " + ("true" if dur_once else "false"),
        "",
        "/-- `_WRAPPER_FLAGS_WITH_ARG` (core/analyzer.py): wrapper options whose argument is a separate word -/",
        "def wrapperFlagsWithArg : List (String × List String) := [" + ", ".join("(%s, %s)" % (lean_str(k), lean_list(xs).replace("\n", "")) for k, xs in wfa_pairs) + "]",
        "",
        "/-- keys of `KNOWN_HANDLERS`: the `COMMANDS` lists of every module in cli/, sorted -/",
        "def handlerCommands : List String := " + lean_list(handler_names),
        "",
        "/-- command name -> handler module -/",
        "def handlerModule : List (String × String) := [\n  " + hmap + "]",
        "",
        "/-- handler modules (file stems of cli/*.py) -/",
        "def handlerModules : List String := " + lean_list(mods),
        "",
        "/-- handler modules whose source mentions the literal \"delegate\" -/",
        "def delegatingModules : List String := " + lean_list(sorted(can_delegate)),
        "",
        "/-- handler modules whose source passes `redirect_targets=` -/",
        "def targetModules : List String := " + lean_list(sorted(has_targets)),
        "",
        "/-- handler modules whose source passes `remote=` -/",
        "def remoteModules : List String := " + lean_list(sorted(can_remote)),
        "",
        "/-- commands whose handler module sets a truthy `RUNS_SCRIPTS` -/",
        "def runsScriptsCommands : List String := " + lean_list([k for k in handler_names if handlers[k] in runs_scripts]),
        "",
        "/-- handler modules defining `get_description` -/",
        "def descModules : List String := " + lean_list(sorted(has_get_desc)),
        "",
        "/-- `DESCRIPTION_DEPTH` (cli/__init__.py) -/",
        "def descriptionDepth : List (String × Nat) := [" + pairs + "]",
        "",
        "/-- `SAFE_REDIRECT_TARGETS` (core/analyzer.py), sorted -/",
        "def safeRedirectTargets : List String := " + lean_list(safe_targets),
        "",
        "/-- `_WRITE_REDIRECT_OPS`: operators (fd prefix removed) that open the target for writing, sorted -/",
        "def redirectOps : List String := " + lean_list(red_ops),
        "",
        "/-- source of `_FD_PREFIX_RE` -/",
        "def fdPrefixRe : String := " + lean_str(fd_src),
        "",
        "/-- the attribute tuple walked by `_find_cmdsubs_in_arith`, in order -/",
        "def arithWalkedAttrs : List String := " + lean_list(arith_attrs),
        "",
        "/-- node kinds `_analyze_node` dispatches on, in source order -/",
        "def dispatchedKinds : List String := " + lean_list(kinds),
        "",
        "/-- `_is_version_or_help`: the three token tuples, in source order -/",
        "def helpWords : List String := " + lean_list(help_sets[0]),
        "def helpFlags2 : List String := " + lean_list(help_sets[1]),
        "def helpFlagsLast : List String := " + lean_list(help_sets[2]),
        "",
        "end Dippy.Generated",
        "",
    ]
    return "\n".join(txt)


# ---------------------------------------------------------------- parable class facts

def gen_parable() -> str:
    par = parse_file("vendor/parable.py")
    kinds: list[tuple[str, str, list[str]]] = []  # (class, kind, attrs assigned in __init__)
    if par is None:
        MISSING.append("vendor/parable.py")
    else:
        for st in par.body:
            if not isinstance(st, ast.ClassDef):
                continue
            init = None
            for b in st.body:
                if isinstance(b, ast.FunctionDef) and b.name == "__init__":
                    init = b
            if init is None:
                continue
            kind = None
            attrs = []
            for n in ast.walk(init):
                if isinstance(n, ast.Assign):
                    for t in n.targets:
                        if isinstance(t, ast.Attribute) and isinstance(t.value, ast.Name) and t.value.id == "self":
                            if t.attr == "kind" and isinstance(n.value, ast.Constant):
                                kind = n.value.value
                            elif t.attr != "kind" and t.attr not in attrs:
                                attrs.append(t.attr)
            if kind is not None and any(isinstance(b, ast.Name) and b.id == "Node" for b in st.bases):
                kinds.append((st.name, kind, attrs))
    arith = [(c, k, a) for (c, k, a) in kinds if c.startswith("Arith") and c not in ("ArithmeticExpansion", "ArithmeticCommand")]
    arith_attrs = []
    for _, _, a in arith:
        for x in a:
            if x not in arith_attrs:
                arith_attrs.append(x)
    lines = [
        "-- GENERATED by harness/gen_tables.py from src/dippy/vendor/parable.py. Do not edit.",
        "namespace Dippy.Generated",
        "",
        "/-- every `kind` string a Parable `Node` subclass sets, in class order -/",
        "def parableKinds : List String := " + lean_list([k for _, k, _ in kinds]),
        "",
        "/-- (kind, attributes assigned in `__init__`) of the `Arith*` expression classes -/",
        "def arithClasses : List (String × List String) := [\n  "
        + ",\n  ".join("(%s, [%s])" % (lean_str(k), ", ".join(lean_str(x) for x in a)) for _, k, a in arith)
        + "]",
        "",
        "/-- union of the attribute names of the `Arith*` classes -/",
        "def arithAllAttrs : List String := " + lean_list(arith_attrs),
        "",
        "end Dippy.Generated",
        "",
    ]
    return "\n".join(lines)


def gen_hook() -> str:
    """Facts about src/dippy/dippy.py: name tables and the shape of main()."""
    mod = parse_file("dippy.py")
    shell_names = sorted(set(table(mod, "SHELL_TOOL_NAMES", "SHELL_TOOL_NAMES")))
    gemini: list[str] | None = None
    f = find_func(mod, "_detect_mode_from_input")
    if f is not None:
        for n in ast.walk(f):
            if isinstance(n, ast.Compare) and isinstance(n.left, ast.Name) and n.left.id == "tool_name" and len(n.ops) == 1 and isinstance(n.ops[0], ast.In):
                gemini = const_strs(n.comparators[0])
    if gemini is None:
        MISSING.append("geminiNames")
        gemini = []
    bypass: list[list[str]] = []
    main_f = find_func(mod, "main")
    shape = {"tries": 0, "handlers": [], "before_try": [], "after_try": 0, "handler_prints_empty": True}
    if main_f is not None:
        for n in ast.walk(main_f):
            if isinstance(n, ast.Compare) and isinstance(n.left, ast.Name) and n.left.id == "permission_mode" and len(n.ops) == 1 and isinstance(n.ops[0], ast.In):
                b = const_strs(n.comparators[0])
                if b is not None:
                    bypass.append(b)
        body = [st for st in main_f.body if not (isinstance(st, ast.Expr) and isinstance(st.value, ast.Constant))]
        seen_try = False
        for st in body:
            if isinstance(st, ast.Try):
                shape["tries"] += 1
                seen_try = True
                for hnd in st.handlers:
                    shape["handlers"].append(ast.unparse(hnd.type) if hnd.type is not None else "<bare>")
                    # the handler must print json.dumps({}) and must not re-raise / exit
                    src = ast.unparse(hnd)
                    if "print(json.dumps({}))" not in src or "raise" in src or "exit" in src:
                        shape["handler_prints_empty"] = False
            elif not seen_try:
                shape["before_try"].append(ast.unparse(st))
            else:
                shape["after_try"] += 1
    else:
        MISSING.append("dippy.main")
    if not bypass or any(b != bypass[0] for b in bypass):
        MISSING.append("bypassModes")
    bypass_modes = bypass[0] if bypass else []
    # the entry script: `from dippy.dippy import main` then `main()` as the last statements
    entry_ok = False
    try:
        with open(os.path.join(REPO, "bin", "dippy-hook"), encoding="utf-8") as fh:
            em = ast.parse(fh.read())
        last = em.body[-1]
        entry_ok = isinstance(last, ast.Expr) and isinstance(last.value, ast.Call) and isinstance(last.value.func, ast.Name) and last.value.func.id == "main" and not any(isinstance(x, ast.Try) for x in em.body)
    except (OSError, SyntaxError, IndexError):
        MISSING.append("bin/dippy-hook")
    lines = [
        "-- GENERATED by harness/gen_tables.py from src/dippy/dippy.py and bin/dippy-hook. Do not edit.",
        "namespace Dippy.Generated",
        "",
        "/-- `SHELL_TOOL_NAMES`, sorted -/",
        "def shellToolNames : List String := " + lean_list(shell_names),
        "",
        "/-- the Gemini tool-name tuple in `_detect_mode_from_input` -/",
        "def geminiNames : List String := " + lean_list(gemini),
        "",
        "/-- the bypass permission modes tested in `main` (both sites agree) -/",
        "def bypassModes : List String := " + lean_list(bypass_modes),
        "",
        "/-- number of `try` statements at the top level of `main` -/",
        "def mainTryCount : Nat := %d" % shape["tries"],
        "",
        "/-- the exception classes its handlers catch, in order -/",
        "def mainHandlers : List String := " + lean_list(shape["handlers"]),
        "",
        "/-- statements of `main` before the `try` (docstring excluded) -/",
        "def mainBeforeTry : List String := " + lean_list(shape["before_try"]),
        "",
        "/-- statements of `main` after the `try` -/",
        "def mainAfterTry : Nat := %d" % shape["after_try"],
        "",
        "/-- every handler prints `{}` and neither re-raises nor exits -/",
        "def mainHandlersPrintEmpty : Bool := " + ("true" if shape["handler_prints_empty"] else "false"),
        "",
        "/-- bin/dippy-hook ends in a bare `main()` call with no try of its own -/",
        "def entryCallsMain : Bool := " + ("true" if entry_ok else "false"),
        "",
        "end Dippy.Generated",
        "",
    ]
    return "\n".join(lines)


# ---------------------------------------------------------------- launcher handler tables

HANDLER_SETS = [
    ("env", "FLAGS_WITH_ARG"), ("xargs", "FLAGS_WITH_ARG"), ("xargs", "UNSAFE_FLAGS"),
    ("arch", "FLAGS_NO_ARG"), ("arch", "FLAGS_WITH_ARG"), ("arch", "ARCH_FLAGS"),
    ("caffeinate", "FLAGS_NO_ARG"), ("caffeinate", "FLAGS_WITH_ARG"),
    ("fd", "EXEC_FLAGS"), ("script", "FLAGS_WITH_ARG"), ("script", "FLAGS_NO_ARG"),
    ("docker", "EXEC_FLAGS_WITH_ARG"), ("shell", "COMMANDS"), ("shell", "_OPTIONS_WITH_VALUE"), ("kubectl", "FLAGS_WITH_ARG"), ("kubectl", "SAFE_ACTIONS"), ("uv", "RUN_FLAGS_WITH_ARG"), ("uv", "SAFE_COMMANDS"),
]
HANDLER_TUPLES = [("tar", "RUNS_PROGRAM_OPTIONS")]
HANDLER_STRS = [("docker", "EXEC_SHORT_FLAGS_WITH_ARG")]
HANDLER_DICTS = [("xargs", "FLAG_CONTEXT"), ("find", "FLAG_CONTEXT"), ("fd", "FLAG_DISPLAY"), ("tar", "OPERATIONS")]


def gen_handlers() -> str:
    out = [
        "-- GENERATED by harness/gen_tables.py from src/dippy/cli/*.py and core/bash.py. Do not edit.",
        "namespace Dippy.Generated.H",
        "",
    ]
    for mod, name in HANDLER_SETS:
        m = parse_file("cli/%s.py" % mod)
        v = module_assign(m, name)
        r = const_strs(v) if v is not None else None
        if r is None:
            MISSING.append("cli/%s.py:%s" % (mod, name))
            r = []
        out.append("/-- `%s` of cli/%s.py, sorted -/" % (name, mod))
        out.append("def %s_%s : List String := %s" % (mod, name, lean_list(sorted(set(r)))))
        out.append("")
    for mod, name in HANDLER_TUPLES:
        v = module_assign(parse_file("cli/%s.py" % mod), name)
        r = const_strs(v) if v is not None else None
        if r is None:
            MISSING.append("cli/%s.py:%s" % (mod, name))
            r = []
        out.append("/-- `%s` of cli/%s.py, in source order -/" % (name, mod))
        out.append("def %s_%s : List String := %s" % (mod, name, lean_list(r)))
        out.append("")
    for mod, name in HANDLER_STRS:
        v = module_assign(parse_file("cli/%s.py" % mod), name)
        if isinstance(v, ast.Constant) and isinstance(v.value, str):
            val = v.value
        else:
            MISSING.append("cli/%s.py:%s" % (mod, name))
            val = ""
        out.append("/-- `%s` of cli/%s.py -/" % (name, mod))
        out.append("def %s_%s : String := %s" % (mod, name, lean_str(val)))
        out.append("")
    for mod, name in HANDLER_DICTS:
        m = parse_file("cli/%s.py" % mod)
        v = module_assign(m, name)
        pairs = []
        if isinstance(v, ast.Dict) and all(isinstance(k, ast.Constant) and isinstance(x, ast.Constant) for k, x in zip(v.keys, v.values)):
            pairs = [(k.value, x.value) for k, x in zip(v.keys, v.values)]
        else:
            MISSING.append("cli/%s.py:%s" % (mod, name))
        out.append("/-- `%s` of cli/%s.py -/" % (name, mod))
        out.append("def %s_%s : List (String × String) := [%s]" % (mod, name, ", ".join("(%s, %s)" % (lean_str(a), lean_str(b)) for a, b in pairs)))
        out.append("")
    # kubectl: the actions that have a subcommand table (keys of the two dicts)
    km = parse_file("cli/kubectl.py")
    keys = []
    for name in ("SAFE_SUBCOMMANDS", "UNSAFE_SUBCOMMANDS"):
        v = module_assign(km, name)
        if isinstance(v, ast.Dict) and all(isinstance(k, ast.Constant) and isinstance(k.value, str) for k in v.keys):
            keys += [k.value for k in v.keys]
        else:
            MISSING.append("cli/kubectl.py:" + name)
    out.append("/-- keys of `SAFE_SUBCOMMANDS` and `UNSAFE_SUBCOMMANDS` of cli/kubectl.py, sorted -/")
    out.append("def kubectl_SUBCOMMAND_ACTIONS : List String := %s" % lean_list(sorted(set(keys))))
    out.append("")
    # core/bash.py: the unquoted-safe characters, the quote replacement, the assignment shape
    b = parse_file("core/bash.py")
    an = parse_file("core/analyzer.py")
    safe_extra = None
    repl = None
    f = find_func(b, "bash_quote")
    if f is not None:
        for n in ast.walk(f):
            if isinstance(n, ast.Compare) and len(n.ops) == 1 and isinstance(n.ops[0], ast.In) and isinstance(n.comparators[0], ast.Constant) and isinstance(n.comparators[0].value, str):
                safe_extra = n.comparators[0].value
            if isinstance(n, ast.Call) and isinstance(n.func, ast.Attribute) and n.func.attr == "replace" and len(n.args) == 2 and all(isinstance(a, ast.Constant) for a in n.args):
                repl = (n.args[0].value, n.args[1].value)
    if safe_extra is None:
        MISSING.append("bash_quote:safe chars")
        safe_extra = ""
    if repl is None:
        MISSING.append("bash_quote:replace")
        repl = ("", "")

    def re_src(mod, name):
        v = module_assign(mod, name)
        if isinstance(v, ast.Call) and v.args and isinstance(v.args[0], ast.Constant):
            return v.args[0].value
        MISSING.append(name)
        return ""

    out += [
        "/-- the characters `bash_quote` leaves unquoted besides alphanumerics -/",
        "def bashSafeExtra : String := " + lean_str(safe_extra),
        "/-- `s.replace(a, b)` in `bash_quote` -/",
        "def bashQuoteReplace : String × String := (%s, %s)" % (lean_str(repl[0]), lean_str(repl[1])),
        "/-- `_ASSIGNMENT_SHAPE` (core/bash.py) and `_ASSIGNMENT_RE` (core/analyzer.py): must be the same expression -/",
        "def bashAssignShape : String := " + lean_str(re_src(b, "_ASSIGNMENT_SHAPE")),
        "def analyzerAssignRe : String := " + lean_str(re_src(an, "_ASSIGNMENT_RE")),
        "",
        "end Dippy.Generated.H",
        "",
    ]
    return "\n".join(out)


# ---------------------------------------------------------------- process state inventory (C18)

MUTATORS = {"append", "add", "update", "pop", "clear", "setdefault", "extend", "insert", "remove", "discard", "popitem", "sort", "reverse", "appendleft", "popleft"}


def scan_state():
    """Every place in src/dippy where state can outlive one analysis: `global` statements, cache decorators, stores into / mutator
    calls on module-level names from function bodies, attribute stores on modules, setattr, mutable default arguments, mutated
    class-level containers.  Returns sorted [file, kind, name]."""
    out = set()
    cache_sizes = {}
    for d, _, fs in os.walk(SRC):
        for f in sorted(fs):
            if not f.endswith(".py"):
                continue
            p = os.path.join(d, f)
            rel = os.path.relpath(p, SRC)
            if rel == "dippy_statusline.py":
                continue  # a separate program (C20), not part of the hook process
            try:
                m = ast.parse(open(p, encoding="utf-8").read())
            except (OSError, SyntaxError):
                MISSING.append("scan:" + rel)
                continue
            modnames = set()
            for st in m.body:
                if isinstance(st, ast.Assign):
                    for t in st.targets:
                        for n in ast.walk(t):
                            if isinstance(n, ast.Name):
                                modnames.add(n.id)
                elif isinstance(st, (ast.AnnAssign, ast.AugAssign)) and isinstance(st.target, ast.Name):
                    modnames.add(st.target.id)
            imported = set()
            for st in ast.walk(m):
                if isinstance(st, ast.Import):
                    for a in st.names:
                        imported.add((a.asname or a.name).split(".")[0])
                elif isinstance(st, ast.ImportFrom):
                    for a in st.names:
                        imported.add(a.asname or a.name)
            class_attrs = {}
            for node in ast.walk(m):
                if isinstance(node, ast.ClassDef):
                    for st in node.body:
                        if isinstance(st, (ast.Assign, ast.AnnAssign)) and isinstance(getattr(st, "value", None), (ast.List, ast.Dict, ast.Set)):
                            t = st.targets[0] if isinstance(st, ast.Assign) else st.target
                            if isinstance(t, ast.Name):
                                class_attrs[t.id] = node.name
            for node in ast.walk(m):
                # class-level containers that are mutated somewhere (x.ATTR[...] = / x.ATTR.add(...))
                if isinstance(node, ast.Call) and isinstance(node.func, ast.Attribute) and node.func.attr in MUTATORS and isinstance(node.func.value, ast.Attribute) and node.func.value.attr in class_attrs:
                    out.add((rel, "class-attr-mutated", class_attrs[node.func.value.attr] + "." + node.func.value.attr))
                if isinstance(node, (ast.Assign, ast.AugAssign)):
                    for t in (node.targets if isinstance(node, ast.Assign) else [node.target]):
                        if isinstance(t, ast.Subscript) and isinstance(t.value, ast.Attribute) and t.value.attr in class_attrs:
                            out.add((rel, "class-attr-mutated", class_attrs[t.value.attr] + "." + t.value.attr))
                if not isinstance(node, (ast.FunctionDef, ast.AsyncFunctionDef)):
                    continue
                fn = node
                for dec in fn.decorator_list:
                    src = ast.unparse(dec)
                    if "cache" in src:
                        out.add((rel, "cache", fn.name))
                        if isinstance(dec, ast.Call):
                            for kw in dec.keywords:
                                if kw.arg == "maxsize" and isinstance(kw.value, ast.Constant):
                                    cache_sizes[fn.name] = kw.value.value
                local = {a.arg for a in fn.args.args + fn.args.kwonlyargs + fn.args.posonlyargs}
                if fn.args.vararg:
                    local.add(fn.args.vararg.arg)
                if fn.args.kwarg:
                    local.add(fn.args.kwarg.arg)
                globs = set()
                for n in ast.walk(fn):
                    if isinstance(n, ast.Global):
                        globs.update(n.names)
                for n in ast.walk(fn):
                    tg = []
                    if isinstance(n, ast.Assign):
                        tg = n.targets
                    elif isinstance(n, (ast.AnnAssign, ast.AugAssign, ast.For, ast.comprehension)):
                        tg = [n.target]
                    elif isinstance(n, ast.With):
                        tg = [i.optional_vars for i in n.items if i.optional_vars is not None]
                    for t in tg:
                        for x in ast.walk(t):
                            if isinstance(x, ast.Name) and isinstance(x.ctx, ast.Store) and x.id not in globs:
                                local.add(x.id)
                for g in globs:
                    out.add((rel, "global", g))
                for n in ast.walk(fn):
                    if isinstance(n, (ast.Assign, ast.AugAssign, ast.Delete)):
                        tg = n.targets if isinstance(n, (ast.Assign, ast.Delete)) else [n.target]
                        for t in tg:
                            if isinstance(t, ast.Subscript) and isinstance(t.value, ast.Name) and t.value.id in modnames and t.value.id not in local:
                                out.add((rel, "store", t.value.id))
                            if isinstance(t, ast.Attribute) and isinstance(t.value, ast.Name) and t.value.id not in local and t.value.id != "self" and (t.value.id in imported or t.value.id in modnames):
                                out.add((rel, "attr-store", ast.unparse(t)))
                    if isinstance(n, ast.Call) and isinstance(n.func, ast.Attribute) and n.func.attr in MUTATORS and isinstance(n.func.value, ast.Name) and n.func.value.id in modnames and n.func.value.id not in local:
                        out.add((rel, "mutator", n.func.value.id))
                    if isinstance(n, ast.Call) and isinstance(n.func, ast.Name) and n.func.id == "setattr":
                        out.add((rel, "setattr", fn.name))
                for dflt in fn.args.defaults + [x for x in fn.args.kw_defaults if x is not None]:
                    if isinstance(dflt, (ast.List, ast.Dict, ast.Set)) or (isinstance(dflt, ast.Call) and isinstance(dflt.func, ast.Name) and dflt.func.id in ("list", "dict", "set")):
                        out.add((rel, "mutable-default", fn.name))
    return sorted(out), cache_sizes


def gen_state() -> str:
    inv, sizes = scan_state()
    dp = parse_file("dippy.py")
    cf = parse_file("core/config.py")
    # main(): the first statements of the try body read stdin and (when no explicit mode) assign MODE
    mode_first = False
    f = find_func(dp, "main")
    if f is not None:
        for st in f.body:
            if isinstance(st, ast.Try) and len(st.body) >= 2:
                a, b = st.body[0], st.body[1]
                ok_a = isinstance(a, ast.Assign) and "json.load" in ast.unparse(a.value)
                ok_b = (isinstance(b, ast.If) and ast.unparse(b.test) == "_EXPLICIT_MODE is None" and b.body and isinstance(b.body[0], ast.Assign)
                        and ast.unparse(b.body[0].targets[0]) == "MODE" and "_detect_mode_from_input" in ast.unparse(b.body[0].value))
                mode_first = bool(ok_a and ok_b)
    # MODE is assigned nowhere else
    mode_stores = 0
    if dp is not None:
        for n in ast.walk(dp):
            if isinstance(n, (ast.Assign, ast.AugAssign, ast.AnnAssign)):
                for t in (n.targets if isinstance(n, ast.Assign) else [n.target]):
                    if isinstance(t, ast.Name) and t.id == "MODE":
                        mode_stores += 1
    # configure_logging: `_log_disabled = False` is its first statement after the global declaration
    reset_first = False
    f = find_func(cf, "configure_logging")
    if f is not None:
        body = [st for st in f.body if not isinstance(st, (ast.Global, ast.Expr))]
        if body and isinstance(body[0], ast.Assign) and ast.unparse(body[0]) == "_log_disabled = False":
            reset_first = True
    # every path of configure_logging assigns _log_config (all three branches)
    assigns_cfg = 0
    if f is not None:
        for n in ast.walk(f):
            if isinstance(n, ast.Assign) and any(isinstance(t, ast.Name) and t.id == "_log_config" for t in n.targets):
                assigns_cfg += 1
    txt = [
        "-- GENERATED by harness/gen_tables.py: inventory of process-level mutable state in src/dippy (C18). Do not edit.",
        "namespace Dippy.Generated",
        "",
        "/-- (file, kind, name) of every site where state can outlive one analysis -/",
        "def mutableState : List (String × String × String) := [" + ",\n  ".join("(%s, %s, %s)" % (lean_str(a), lean_str(b), lean_str(c)) for a, b, c in inv) + "]",
        "",
        "/-- `lru_cache(maxsize=…)` of `_load_handler` -/",
        "def handlerCacheSize : Nat := %d" % int(sizes.get("_load_handler", 0) or 0),
        "",
        "/-- main(): stdin is read and MODE assigned (when not explicit) before anything else in the try body -/",
        "def mainAssignsModeFirst : Bool := " + ("true" if mode_first else "false"),
        "/-- number of assignments to MODE in dippy.py (module level + main) -/",
        "def modeStores : Nat := %d" % mode_stores,
        "/-- configure_logging resets `_log_disabled` before anything else -/",
        "def configureResetsDisabledFirst : Bool := " + ("true" if reset_first else "false"),
        "/-- number of assignments to `_log_config` in configure_logging (one per path) -/",
        "def configureAssignsLogConfig : Nat := %d" % assigns_cfg,
        "",
        "end Dippy.Generated",
        "",
    ]
    return "\n".join(txt)


# ---------------------------------------------------------------- quote removal (core/analyzer.py:_remove_quotes)

def gen_quoting() -> str:
    an = parse_file("core/analyzer.py")
    esc = module_assign(an, "_ANSI_C_ESCAPES")
    pairs = []
    if isinstance(esc, ast.Dict) and all(isinstance(k, ast.Constant) and isinstance(v, ast.Constant) and isinstance(k.value, str) and isinstance(v.value, str) and len(k.value) == 1 and len(v.value) == 1 for k, v in zip(esc.keys, esc.values)):
        pairs = [(ord(k.value), ord(v.value)) for k, v in zip(esc.keys, esc.values)]
    else:
        MISSING.append("_ANSI_C_ESCAPES")
    num = module_assign(an, "_ANSI_C_NUMERIC")
    num_src = num.args[0].value if isinstance(num, ast.Call) and num.args and isinstance(num.args[0], ast.Constant) else None
    if num_src is None:
        MISSING.append("_ANSI_C_NUMERIC")
        num_src = ""
    # the active expansions that leave a word to _strip_quotes (outside quotes; inside double quotes), and the characters a
    # backslash escapes inside double quotes
    markers, dq = [], None
    f = find_func(an, "_remove_quotes")
    if f is not None:
        for n in ast.walk(f):
            if isinstance(n, ast.If) and len(n.body) == 1 and isinstance(n.body[0], ast.Return) and ast.unparse(n.body[0].value) == "_strip_quotes(value)":
                t = ast.unparse(n.test)
                if "`" in t:
                    markers.append(t)
            if isinstance(n, ast.Compare) and isinstance(n.ops[0], ast.In) and isinstance(n.comparators[0], ast.Constant) and isinstance(n.comparators[0].value, str) and ast.unparse(n.left) == "value[i + 1]":
                dq = n.comparators[0].value
    if not markers or dq is None:
        MISSING.append("_remove_quotes shape")
        dq = dq or ""
    # where it is used: _analyze_command analyses the unquoted words a second time and keeps the stricter verdict
    ac = find_func(an, "_analyze_command")
    second = False
    if ac is not None:
        src = ast.unparse(ac)
        second = "unquoted = [_remove_quotes(getattr(w, 'value', str(w))) for w in node.words]" in src and "if unquoted != words:" in src and "order.index(unquoted_decision.action) > order.index(cmd_decision.action)" in src
    if not second:
        MISSING.append("_analyze_command second pass")
    # analyze(): which characters are stripped from the command text before it is parsed
    strip_chars = None
    fa = find_func(an, "analyze")
    if fa is not None:
        for st in fa.body:
            if isinstance(st, ast.Assign) and ast.unparse(st.targets[0]) == "command" and isinstance(st.value, ast.Call) and ast.unparse(st.value.func) == "command.strip":
                if len(st.value.args) == 1 and isinstance(st.value.args[0], ast.Constant) and isinstance(st.value.args[0].value, str):
                    strip_chars = st.value.args[0].value
                break
    if strip_chars is None:
        MISSING.append("analyze: command.strip(CHARS)")
        strip_chars = ""
    txt = [
        "-- GENERATED by harness/gen_tables.py from src/dippy/core/analyzer.py. Do not edit.",
        "namespace Dippy.Generated.Quoting",
        "",
        "/-- `analyze`: the characters stripped from both ends of the command text (what bash itself skips) -/",
        "def analyzeStripChars : String := " + lean_str(strip_chars),
        "",
        "/-- `_ANSI_C_ESCAPES`: the one-letter escapes of $'…' -/",
        "def ansiCEscapes : List (Char × Char) := [" + ", ".join("(Char.ofNat %d, Char.ofNat %d)" % p for p in pairs) + "]",
        "/-- `_ANSI_C_NUMERIC` -/",
        "def ansiCNumericPattern : String := " + lean_str(num_src),
        "/-- the substrings that make `_remove_quotes` leave a word to `_strip_quotes` -/",
        "def ownContextMarkers : List String := " + lean_list(markers),
        "/-- the characters a backslash escapes inside double quotes -/",
        "def doubleQuoteEscapable : String := " + lean_str(dq),
        "/-- `_analyze_command` analyses the quote-removed words as well and keeps the stricter verdict -/",
        "def secondPassPresent : Bool := " + ("true" if second else "false"),
        "",
        "end Dippy.Generated.Quoting",
        "",
    ]
    return "\n".join(txt)


# ---------------------------------------------------------------- statusline facts (C20)

def gen_statusline() -> str:
    m = parse_file("dippy_statusline.py")
    facts = {"suffix": "", "mcp": "", "tmp_has_pid": False, "opens_tmp": False, "renames_tmp_to_path": False, "writes_final_directly": True, "ttl": 0, "default": "", "slash_to": ""}
    f = find_func(m, "get_cache_path")
    if f is not None:
        for n in ast.walk(f):
            if isinstance(n, ast.JoinedStr):
                tail = [v.value for v in n.values if isinstance(v, ast.Constant)]
                if tail:
                    facts["suffix"] = tail[-1]
            if isinstance(n, ast.IfExp) and isinstance(n.orelse, ast.Constant):
                facts["default"] = n.orelse.value
                if isinstance(n.body, ast.Call) and getattr(n.body.func, "attr", "") == "replace" and len(n.body.args) == 2 and all(isinstance(a, ast.Constant) for a in n.body.args):
                    facts["slash_to"] = n.body.args[0].value + "->" + n.body.args[1].value
    v = module_assign(m, "MCP_CACHE_PATH")
    if isinstance(v, ast.Call) and v.args and isinstance(v.args[-1], ast.Constant):
        facts["mcp"] = v.args[-1].value
    v = module_assign(m, "CACHE_TTL")
    if isinstance(v, ast.Constant):
        facts["ttl"] = int(v.value)
    f = find_func(m, "set_cache")
    if f is not None:
        src = ast.unparse(f)
        for n in ast.walk(f):
            if isinstance(n, ast.Assign) and ast.unparse(n.targets[0]) == "tmp":
                facts["tmp_has_pid"] = "os.getpid()" in ast.unparse(n.value) and "path" in ast.unparse(n.value)
            if isinstance(n, ast.Call) and ast.unparse(n.func) == "open" and n.args:
                if ast.unparse(n.args[0]) == "tmp":
                    facts["opens_tmp"] = True
            if isinstance(n, ast.Call) and ast.unparse(n.func) in ("os.rename", "os.replace") and len(n.args) == 2:
                facts["renames_tmp_to_path"] = ast.unparse(n.args[0]) == "tmp" and ast.unparse(n.args[1]) == "path"
        facts["writes_final_directly"] = "open(path" in src
    if m is None or not facts["suffix"]:
        MISSING.append("statusline facts")
    b = lambda x: "true" if x else "false"  # noqa: E731
    txt = [
        "-- GENERATED by harness/gen_tables.py from src/dippy/dippy_statusline.py (C20). Do not edit.",
        "namespace Dippy.Generated.SL",
        "",
        "def cacheSuffix : String := " + lean_str(facts["suffix"]),
        "def defaultId : String := " + lean_str(facts["default"]),
        "def slashReplace : String := " + lean_str(facts["slash_to"]),
        "def mcpFile : String := " + lean_str(facts["mcp"]),
        "def cacheTtl : Nat := %d" % facts["ttl"],
        "/-- set_cache: tmp = f\"{path}.tmp.{os.getpid()}\"; open(tmp, \"w\"); os.rename(tmp, path); the entry is never opened for writing -/",
        "def tmpHasPid : Bool := " + b(facts["tmp_has_pid"]),
        "def opensTmp : Bool := " + b(facts["opens_tmp"]),
        "def renamesTmpToPath : Bool := " + b(facts["renames_tmp_to_path"]),
        "def writesFinalDirectly : Bool := " + b(facts["writes_final_directly"]),
        "",
        "end Dippy.Generated.SL",
        "",
    ]
    return "\n".join(txt)


# ---------------------------------------------------------------- SQL tables (C16)

def gen_sql() -> str:
    m = parse_file("core/sql.py")
    h = parse_file("cli/sqlite3.py")
    ro = sorted(set(table(m, "_READONLY_KEYWORDS", "_READONLY_KEYWORDS")))
    wr = sorted(set(table(m, "_WRITE_KEYWORDS", "_WRITE_KEYWORDS")))
    sw = sorted(set(table(h, "_SQLITE_WRITE", "_SQLITE_WRITE")))
    pat = module_assign(m, "_QUOTED_PATTERN")
    pat_src = pat.args[0].value if isinstance(pat, ast.Call) and pat.args and isinstance(pat.args[0], ast.Constant) else None
    if pat_src is None:
        MISSING.append("_QUOTED_PATTERN")
        pat_src = ""
    # the alternatives, comments and layout removed (re.VERBOSE)
    alts = []
    for line in pat_src.split("\n"):
        line = line.split("  #")[0].strip()
        if line.startswith("|"):
            line = line[1:].strip()
        if line:
            alts.append(line)
    var_pat = ""
    v = module_assign(m, "_VARIABLE_WITH_SUFFIX")
    if isinstance(v, ast.Call) and ast.unparse(v.func) == "re.compile" and len(v.args) == 1 and isinstance(v.args[0], ast.Constant):
        var_pat = v.args[0].value
    fro = find_func(m, "is_readonly_sql")
    first_test = ""
    if fro is not None:
        for st in fro.body:
            if isinstance(st, ast.If):
                first_test = ast.unparse(st.test)
                break
    if not var_pat or first_test != "_VARIABLE_WITH_SUFFIX.search(sql)":
        MISSING.append("sql _VARIABLE_WITH_SUFFIX guard")
    tuples = []
    f = find_func(h, "classify")
    if f is not None:
        for n in ast.walk(f):
            if isinstance(n, ast.Compare) and len(n.ops) == 1 and isinstance(n.ops[0], ast.In) and isinstance(n.comparators[0], ast.Tuple):
                xs = const_strs(n.comparators[0])
                if xs is not None:
                    tuples.append((n.lineno, xs))
    tuples = [xs for _, xs in sorted(tuples)]
    one_arg = module_assign(h, "_FLAGS_WITH_ARG")
    one_arg = const_strs(one_arg) if one_arg is not None else None
    two_arg = module_assign(h, "_FLAGS_WITH_TWO_ARGS")
    two_arg = const_strs(two_arg) if two_arg is not None else None
    if two_arg is None:
        MISSING.append("sqlite3 _FLAGS_WITH_TWO_ARGS")
        two_arg = []
    if len(tuples) != 2 or one_arg is None:
        MISSING.append("sqlite3 option tuples")
        tuples = [[], [], []]
    else:
        tuples.append(one_arg)
    # characters outside ASCII whose upper() is pure ASCII and that `\w` accepts (they can spell a keyword)
    ups = []
    for cp in range(128, 0x110000):
        c = chr(cp)
        if 0xD800 <= cp <= 0xDFFF:
            continue
        u = c.upper()
        if u.isascii() and (c.isalnum() or c == "_"):
            ups.append((cp, u))
    txt = [
        "-- GENERATED by harness/gen_tables.py from core/sql.py, cli/sqlite3.py and the running CPython's str.upper. Do not edit.",
        "namespace Dippy.Generated.Sql",
        "",
        "def readonlyKeywords : List String := " + lean_list(ro),
        "def writeKeywords : List String := " + lean_list(wr),
        "def sqliteWrite : List String := " + lean_list(sw),
        "/-- `_VARIABLE_WITH_SUFFIX` (SQLite's `$name(...)` variable tokens swallow quote characters) -/",
        "def variableWithSuffixPattern : String := " + lean_str(var_pat),
        "/-- the alternatives of `_QUOTED_PATTERN`, in order -/",
        "def quotedAlternatives : List String := " + lean_list(alts, per_line=1),
        "/-- sqlite3 classify: the help tuple, the no-argument options, the one-argument options -/",
        "def sqliteHelp : List String := " + lean_list(tuples[0]),
        "def sqliteNoArg : List String := " + lean_list(tuples[1]),
        "def sqliteOneArg : List String := " + lean_list(tuples[2]),
        "def sqliteTwoArg : List String := " + lean_list(two_arg),
        "/-- non-ASCII word characters whose `.upper()` is ASCII (code point, upper-cased text) -/",
        "def upperToAscii : List (Nat × String) := [" + ", ".join("(%d, %s)" % (cp, lean_str(u)) for cp, u in ups) + "]",
        "",
        "end Dippy.Generated.Sql",
        "",
    ]
    return "\n".join(txt)


# ---------------------------------------------------------------- python handler tables (C17)

def gen_pycli() -> str:
    m = parse_file("cli/python.py")
    fwa = sorted(set(table(m, "FLAGS_WITH_ARG", "python FLAGS_WITH_ARG")))
    safe = sorted(set(table(m, "SAFE_FLAGS", "python SAFE_FLAGS")))
    sizes = {}
    for name in ("SAFE_MODULES", "DANGEROUS_MODULES", "DANGEROUS_BUILTINS", "DANGEROUS_ATTRS", "SAFE_BUILTINS"):
        v = module_assign(m, name)
        xs = const_strs(v) if v is not None else None
        if xs is None:
            MISSING.append("python " + name)
            xs = []
        sizes[name] = sorted(set(xs))
    # file gates of analyze_python_file: the suffix tuple and the size limit
    suffixes, limit = [], 0
    f = find_func(m, "analyze_python_file")
    if f is not None:
        for n in ast.walk(f):
            if isinstance(n, ast.Compare) and isinstance(n.ops[0], ast.NotIn) and isinstance(n.comparators[0], ast.Tuple) and ast.unparse(n.left) == "path.suffix":
                suffixes = const_strs(n.comparators[0]) or []
            if isinstance(n, ast.Compare) and isinstance(n.ops[0], ast.Gt) and isinstance(n.comparators[0], ast.Constant) and isinstance(n.comparators[0].value, int):
                limit = n.comparators[0].value
    if not suffixes or not limit:
        MISSING.append("analyze_python_file gates")
    # _find_script_path: script words it refuses to resolve (`if token.startswith("~"): return None, -1`)
    refused = []
    f = find_func(m, "_find_script_path")
    if f is not None:
        for n in ast.walk(f):
            if (isinstance(n, ast.If) and isinstance(n.test, ast.Call) and ast.unparse(n.test.func) == "token.startswith" and len(n.test.args) == 1
                    and isinstance(n.test.args[0], ast.Constant) and isinstance(n.test.args[0].value, str) and not n.test.args[0].value.startswith("-")
                    and len(n.body) == 1 and isinstance(n.body[0], ast.Return) and ast.unparse(n.body[0].value) == "(None, -1)" and not n.orelse):
                refused.append(n.test.args[0].value)
    txt = [
        "-- GENERATED by harness/gen_tables.py from src/dippy/cli/python.py. Do not edit.",
        "namespace Dippy.Generated.PyCli",
        "",
        "def flagsWithArg : List String := " + lean_list(fwa),
        "def safeFlags : List String := " + lean_list(safe),
        "/-- leading text of a script word that `_find_script_path` does not resolve (the shell would expand it) -/",
        "def scriptRefusedPrefixes : List String := " + lean_list(refused),
        "def scriptSuffixes : List String := " + lean_list(suffixes),
        "def sizeLimit : Nat := %d" % limit,
        "def safeModules : List String := " + lean_list(sizes["SAFE_MODULES"]),
        "def dangerousModules : List String := " + lean_list(sizes["DANGEROUS_MODULES"]),
        "def dangerousBuiltins : List String := " + lean_list(sizes["DANGEROUS_BUILTINS"]),
        "",
        "end Dippy.Generated.PyCli",
        "",
    ]
    return "\n".join(txt)


# ---------------------------------------------------------------- SafetyAnalyzer tables and visitor shape (C17)

def gen_pyast() -> str:
    m = parse_file("cli/python.py")
    tabs = {}
    for name in ("SAFE_MODULES", "DANGEROUS_MODULES", "DANGEROUS_BUILTINS", "DANGEROUS_ATTRS"):
        v = module_assign(m, name)
        xs = const_strs(v) if v is not None else None
        if xs is None:
            MISSING.append("python " + name)
            xs = []
        tabs[name] = sorted(set(xs))
    cls = None
    if m is not None:
        for n in m.body:
            if isinstance(n, ast.ClassDef) and n.name == "SafetyAnalyzer":
                cls = n
    methods = []      # (class name, ends in generic_visit, contains a return)
    other_methods = []
    if cls is None:
        MISSING.append("python SafetyAnalyzer")
    else:
        for n in cls.body:
            if isinstance(n, ast.Assign) and len(n.targets) == 1 and isinstance(n.targets[0], ast.Name) and n.targets[0].id in ("REFLECTION_ATTRS", "MODULE_ALIAS_ATTRS"):
                xs = const_strs(n.value)
                if xs is None:
                    MISSING.append("python SafetyAnalyzer." + n.targets[0].id)
                    xs = []
                tabs[n.targets[0].id] = sorted(set(xs))
            if isinstance(n, (ast.FunctionDef, ast.AsyncFunctionDef)):
                if n.name.startswith("visit_"):
                    last = n.body[-1]
                    ends = isinstance(last, ast.Expr) and isinstance(last.value, ast.Call) and ast.unparse(last.value) == "self.generic_visit(node)"
                    has_return = any(isinstance(x, ast.Return) for x in ast.walk(n))
                    methods.append((n.name[len("visit_"):], ends, has_return))
                elif n.name not in ("__init__", "_add"):
                    # generic_visit / visit overridden, or any other helper: the model does not know it
                    other_methods.append(n.name)
        for k in ("REFLECTION_ATTRS", "MODULE_ALIAS_ATTRS"):
            if k not in tabs:
                MISSING.append("python SafetyAnalyzer." + k)
                tabs[k] = []
        bases = [ast.unparse(b) for b in cls.bases]
        if bases != ["ast.NodeVisitor"]:
            other_methods.append("bases:" + ",".join(bases))
    methods.sort()
    # how analyze_python_source drives the visitor
    f = find_func(m, "analyze_python_source")
    drive = []
    if f is not None:
        for n in ast.walk(f):
            if isinstance(n, ast.Call):
                drive.append(ast.unparse(n.func))
    drive = sorted(set(drive))
    txt = [
        "-- GENERATED by harness/gen_tables.py from src/dippy/cli/python.py (SafetyAnalyzer). Do not edit.",
        "namespace Dippy.Generated.PyAst",
        "",
        "def safeModules : List String := " + lean_list(tabs["SAFE_MODULES"]),
        "def dangerousModules : List String := " + lean_list(tabs["DANGEROUS_MODULES"]),
        "def dangerousBuiltins : List String := " + lean_list(tabs["DANGEROUS_BUILTINS"]),
        "def dangerousAttrs : List String := " + lean_list(tabs["DANGEROUS_ATTRS"]),
        "def reflectionAttrs : List String := " + lean_list(tabs["REFLECTION_ATTRS"]),
        "def moduleAliasAttrs : List String := " + lean_list(tabs["MODULE_ALIAS_ATTRS"]),
        "/-- the `visit_<Class>` methods of SafetyAnalyzer: (class, last statement is `self.generic_visit(node)`, contains a `return`) -/",
        "def visitorMethods : List (String × Bool × Bool) := [" + ", ".join("(%s, %s, %s)" % (lean_str(a), "true" if b else "false", "true" if c else "false") for a, b, c in methods) + "]",
        "/-- anything else defined in the class (an overridden `visit`/`generic_visit`, other bases …) -/",
        "def visitorOther : List String := " + lean_list(sorted(other_methods)),
        "/-- the calls `analyze_python_source` makes -/",
        "def driverCalls : List String := " + lean_list(drive),
        "",
        "end Dippy.Generated.PyAst",
        "",
    ]
    return "\n".join(txt)


def main() -> int:
    changed = []
    files = {
        "Unicode.lean": gen_unicode(),
        "Tables.lean": gen_tables(),
        "Parable.lean": gen_parable(),
        "Hook.lean": gen_hook(),
        "Handlers.lean": gen_handlers(),
        "State.lean": gen_state(),
        "Statusline.lean": gen_statusline(),
        "Sql.lean": gen_sql(),
        "PyCli.lean": gen_pycli(),
        "Quoting.lean": gen_quoting(),
        "PyAst.lean": gen_pyast(),
    }
    miss = (
        "-- GENERATED. Tables the translator could not find where it expected them.\n"
        "namespace Dippy.Generated\n\n"
        "def missingTables : List String := " + lean_list(MISSING) + "\n\n"
        "end Dippy.Generated\n"
    )
    files["Missing.lean"] = miss
    for name, text in files.items():
        if write_if_changed(os.path.join(OUT, name), text):
            changed.append(name)
    print(json.dumps({"changed": changed, "missing": MISSING}))
    return 0


if __name__ == "__main__":
    sys.exit(main())
