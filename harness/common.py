"""Shared harness plumbing: locating /repo, importing the working tree, the model
driver client, evidence/replay writers, PRNG, result bookkeeping."""
from __future__ import annotations

import json
import os
import random
import subprocess
import sys
import tempfile
import threading
import time

VERIF = os.path.dirname(os.path.dirname(os.path.abspath(__file__)))
REPO = os.environ.get("DIPPY_REPO", "/repo")
LEAN_DIR = os.path.join(VERIF, "lean")
DRIVER = os.path.join(LEAN_DIR, ".lake", "build", "bin", "driver")
SEED = int(os.environ.get("VERIF_SEED", "0") or 0)
TIER = os.environ.get("VERIF_TIER", "quick")

_SCRATCH_HOME = None


def scratch_home() -> str:
    """A throw-away HOME so that the implementation never reads a real user config."""
    global _SCRATCH_HOME
    if _SCRATCH_HOME is None:
        _SCRATCH_HOME = tempfile.mkdtemp(prefix="dippy-verif-home-")
        import atexit
        import shutil

        atexit.register(lambda: shutil.rmtree(_SCRATCH_HOME, ignore_errors=True))
    return _SCRATCH_HOME


def import_repo():
    """Import dippy from /repo's *working tree* (not an installed copy)."""
    os.environ["HOME"] = scratch_home()
    os.environ.pop("DIPPY_CONFIG", None)
    for k in ("DIPPY_CLAUDE", "DIPPY_GEMINI", "DIPPY_CURSOR"):
        os.environ.pop(k, None)
    src = os.path.join(REPO, "src")
    if src not in sys.path:
        sys.path.insert(0, src)
    import dippy  # noqa: F401

    got = os.path.realpath(os.path.dirname(dippy.__file__))
    want = os.path.realpath(os.path.join(src, "dippy"))
    if got != want:
        raise RuntimeError(f"imported dippy from {got}, wanted {want}")
    import logging
    import warnings

    logging.disable(logging.CRITICAL)
    warnings.simplefilter("ignore")
    return dippy


class Model:
    """Client of the Lean driver (line protocol, JSON)."""

    def __init__(self):
        if not os.path.exists(DRIVER):
            raise RuntimeError(f"driver not built: {DRIVER}")
        self.p = subprocess.Popen(
            [DRIVER], stdin=subprocess.PIPE, stdout=subprocess.PIPE, text=True, encoding="utf-8", bufsize=1 << 20
        )
        self.n = 0

    def ask(self, req: dict):
        self.p.stdin.write(json.dumps(req, ensure_ascii=False) + "\n")
        self.p.stdin.flush()
        line = self.p.stdout.readline()
        self.n += 1
        if not line:
            raise RuntimeError("driver died")
        r = json.loads(line)
        if "error" in r:
            return {"__error__": r["error"]}
        return r["ok"]

    def batch(self, reqs: list[dict]) -> list:
        out: list = []

        def writer():
            for r in reqs:
                self.p.stdin.write(json.dumps(r, ensure_ascii=False) + "\n")
            self.p.stdin.flush()

        t = threading.Thread(target=writer)
        t.start()
        for _ in reqs:
            line = self.p.stdout.readline()
            if not line:
                raise RuntimeError("driver died")
            r = json.loads(line)
            out.append({"__error__": r["error"]} if "error" in r else r["ok"])
        t.join()
        self.n += len(reqs)
        return out

    def close(self):
        try:
            self.p.stdin.close()
            self.p.wait(timeout=5)
        except Exception:
            self.p.kill()


def has_surrogate(s: str) -> bool:
    return any(0xD800 <= ord(c) <= 0xDFFF for c in s)


class Rng(random.Random):
    def chance(self, p: float) -> bool:
        return self.random() < p

    def pick(self, xs):
        return xs[self.randrange(len(xs))]


def rng(tag: str) -> Rng:
    return Rng(f"{SEED}:{tag}")


class Timer:
    def __init__(self):
        self.t0 = time.time()

    def s(self) -> float:
        return round(time.time() - self.t0, 3)
