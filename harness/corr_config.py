"""T1 for the rule engine and the config parser (model: Glob/Path/Config.lean).

Each `corr_*` function returns {"area", "stats", "distribution", "divergences", "samples"}.
"""
from __future__ import annotations

import collections
import json
import pathlib
from contextlib import contextmanager

from common import has_surrogate

HOME = None  # set by env_json()


def cfg_to_json(cfg) -> dict:
    def rule(r):
        return {"decision": r.decision, "pattern": r.pattern, "message": r.message, "exact": bool(r.exact)}

    def arule(r):
        return {"pattern": r.pattern, "message": r.message}

    return {
        "rules": [rule(r) for r in cfg.rules],
        "redirect_rules": [rule(r) for r in cfg.redirect_rules],
        "after_rules": [arule(r) for r in cfg.after_rules],
        "mcp_rules": [rule(r) for r in cfg.mcp_rules],
        "after_mcp_rules": [arule(r) for r in cfg.after_mcp_rules],
        "aliases": [[k, v] for k, v in cfg.aliases.items()],
        "default": cfg.default,
        "log": str(cfg.log) if cfg.log is not None else None,
        "log_full": bool(cfg.log_full),
    }


def match_to_json(m):
    if m is None:
        return None
    return {"decision": m.decision, "pattern": m.pattern, "message": m.message}


@contextmanager
def record_resolve(table: list):
    """Record every Path.resolve() as [str(self), str(result)]."""
    real = pathlib.Path.resolve

    def resolve(self, strict=False):
        r = real(self, strict)
        table.append([str(self), str(r)])
        return r

    pathlib.Path.resolve = resolve
    try:
        yield table
    finally:
        pathlib.Path.resolve = real


def env_json(table=None, lex=False) -> dict:
    home = str(pathlib.Path.home())
    if lex:
        return {"home": home, "lex": True}
    return {"home": home, "resolve": table or []}


class Acc:
    def __init__(self, area):
        self.area = area
        self.stats = collections.Counter()
        self.dist = collections.Counter()
        self.divs = []
        self.samples = []
        self.seen = set()

    def case(self, key, impl, model, nontrivial=True, sample=None, tag=None):
        self.stats["cases"] += 1
        if tag:
            self.dist[tag] += 1
        hk = json.dumps(key, ensure_ascii=False, default=str) if not isinstance(key, str) else key
        if nontrivial and hk not in self.seen:
            self.seen.add(hk)
            self.stats["distinct_nontrivial"] += 1
        if sample is not None and len(self.samples) < 3:
            self.samples.append(sample)
        if impl != model:
            self.stats["diverged"] += 1
            if len(self.divs) < 5:
                self.divs.append({"input": key if isinstance(key, (str, list, dict)) else repr(key), "impl": impl, "model": model, "kind": self.area})

    def result(self):
        return {"area": self.area, "stats": dict(self.stats), "distribution": dict(self.dist), "divergences": self.divs, "samples": self.samples}


# ---------------------------------------------------------------- generators

GLOB_ATOMS = ["*", "?", "**", "[abc]", "[a-c]", "[!a]", "[!a-c]", "[]", "[!]", "[]]", "[!]a]", "[a-", "[", "]", "[--a]", "[a-]", "[-a]", "[c-a]", "[a-cx-z]", "[a-c-e]", "[^a]", "[[]", "[a&&b]", "[~]", "[|]", "[b-ad-f]", "[!c-a]", "[z-a-]", "[ab-]", "[.-/]"]
LIT_ATOMS = ["a", "b", "c", "x", "ab", "/", ".", " ", "-", "foo", "tmp", "\n", "!", "^", "$", "(", "+", "é", "\\", "]", "a/b", "z"]


def gen_pattern(r, *, starstar=False, n=None) -> str:
    n = n if n is not None else r.randint(1, 6)
    out = []
    for _ in range(n):
        if r.chance(0.45):
            a = r.pick(GLOB_ATOMS)
            if a == "**" and not starstar:
                a = "*"
            out.append(a)
        else:
            out.append(r.pick(LIT_ATOMS))
    p = "".join(out)
    if starstar and "**" not in p:
        p = p + r.pick(["/**", "**", "/**/x", "**/"])
    if not starstar:
        while "**" in p:
            p = p.replace("**", "*?")
    return p


def text_for(r, pat: str) -> str:
    """a text derived from the pattern: mostly matching or near-miss"""
    out = []
    i = 0
    while i < len(pat):
        c = pat[i]
        if c == "*":
            out.append(r.pick(["", "a", "ab/c", "x", "/", "a\nb"]))
            i += 1
        elif c == "?":
            out.append(r.pick(["a", "/", "x", ""]))
            i += 1
        elif c == "[":
            j = pat.find("]", i + 2)
            if j < 0:
                out.append("[")
                i += 1
            else:
                body = pat[i + 1 : j]
                out.append(r.pick([body[:1], body[-1:], "b", "a", "-", "]", "!", "^", "z"]) or "a")
                i = j + 1
        else:
            out.append(c if r.chance(0.93) else r.pick(["", "x"]))
            i += 1
    t = "".join(out)
    if r.chance(0.08):
        t += r.pick(["\n", "x", "/"])
    return t


def corr_fnmatch(model, r, n) -> dict:
    import fnmatch

    acc = Acc("fnmatch.fnmatch")
    reqs, keys = [], []
    for _ in range(n):
        pat = gen_pattern(r, starstar=r.chance(0.1))
        txt = text_for(r, pat) if r.chance(0.85) else r.pick(LIT_ATOMS) + r.pick(LIT_ATOMS)
        keys.append((txt, pat))
        reqs.append({"op": "fnmatch", "name": txt, "pat": pat})
    reps = model.batch(reqs)
    for (txt, pat), rep in zip(keys, reps):
        try:
            impl = fnmatch.fnmatch(txt, pat)
        except Exception as e:  # noqa: BLE001
            impl = "exc:" + type(e).__name__
        acc.case([txt, pat], impl, rep, nontrivial=any(ch in pat for ch in "*?["), tag="match" if impl is True else "nomatch", sample={"text": txt, "pattern": pat, "match": impl})
    return acc.result()


def corr_globmatch(model, r, n) -> dict:
    from dippy.core.config import _glob_match

    acc = Acc("_glob_match (** patterns)")
    reqs, keys = [], []
    for _ in range(n):
        pat = gen_pattern(r, starstar=True)
        if r.chance(0.3):
            pat = r.pick(["/tmp/**", "/tmp/**/x", "**/foo", "/a/*/b/**", "/a/?/**", "src/**/*.py", "**", "/tmp/[ab]/**", "/tmp/**/"])
        txt = text_for(r, pat.replace("**", "*/*")) if r.chance(0.8) else r.pick(["/tmp/a", "/tmp/a/b", "/tmp/ax", "/tmpx", "/a/b/c/d", "/tmp/a\n", "/tmp/a\nb"])
        keys.append((txt, pat))
        reqs.append({"op": "globmatch", "text": txt, "pat": pat})
    reps = model.batch(reqs)
    for (txt, pat), rep in zip(keys, reps):
        impl = _glob_match(txt, pat)
        if rep is None:
            # the model declares the pattern unsupported: must be exactly "backslash in a bracket"
            acc.stats["unsupported"] += 1
            if "\\" not in pat:
                acc.case([txt, pat], impl, "unsupported-without-backslash")
            continue
        acc.case([txt, pat], impl, rep, tag="match" if impl else "nomatch", sample={"text": txt, "pattern": pat, "match": impl})
    return acc.result()


TOKENS = ["foo", ".", "..", "./a", "../a", "a/b", "a//b/", "/abs/x", "/abs/../y", "~", "~/x", "~bob", "~bob/x", "$HOME", "${X}/a", "http://x/y", "a://b", "/tmp/x://../../etc/p", "x://../y", "-v", "", "a/./b", "a/../../b", "./", "x/", "//x", "/", "~/", "~/../x", "/tmp//a/", "*", "src/*.py", "dir/**"]


def corr_paths(model, r, n) -> dict:
    from pathlib import Path

    from dippy.core import config as C

    acc = Acc("path normalisation")
    cwds = ["/tmp/probe", "/tmp/probe/sub/dir", "/", "/nonexistent/deep/er"]
    for _ in range(n):
        tok = r.pick(TOKENS) if r.chance(0.7) else r.pick(TOKENS) + r.pick(["", "/", "/..", "/./x", "//y"])
        cwd = r.pick(cwds)
        table = []
        with record_resolve(table):
            k = C._classify_token(tok)
            kp = C._classify_token(tok, is_path=True)
            e0 = C._expand_token(tok, Path(cwd), force_path=False)
            e1 = C._expand_token(tok, Path(cwd), force_path=True)
            npth = C._normalize_path(tok, Path(cwd))
            nrp = C._normalize_redirect_pattern(tok, Path(cwd))
            npat = C._normalize_pattern("cmd " + tok + " x", Path(cwd))
        env = env_json(table)
        reps = model.batch(
            [
                {"op": "classify_token", "t": tok},
                {"op": "classify_token", "t": tok, "is_path": True},
                {"op": "expand_token", "env": env, "t": tok, "cwd": cwd, "force": False},
                {"op": "expand_token", "env": env, "t": tok, "cwd": cwd, "force": True},
                {"op": "normpath", "env": env, "path": tok, "cwd": cwd},
                {"op": "normredirpat", "env": env, "pattern": tok, "cwd": cwd},
                {"op": "normpattern", "env": env, "pattern": "cmd " + tok + " x", "cwd": cwd},
            ]
        )
        acc.case([tok, cwd], [k, kp, e0, e1, npth, nrp, npat], reps, tag=k, sample={"token": tok, "cwd": cwd, "kind": k, "normalized_path": npth})
        # the lexical resolver equals pathlib in trees without symlinks on the way
        for joined, resolved in table:
            if joined.startswith("/nonexistent") or joined.startswith("/tmp/probe"):
                lr = model.ask({"op": "lexresolve", "p": joined})
                acc.case(["lexresolve", joined], resolved, lr, nontrivial=False)
    return acc.result()


# ---- config text

PATTERN_WORDS = ["git", "status", "push", "rm", "-rf", "*", "foo*", "ls", "/tmp/x", "~/bin/tool", "./run.sh", "src/*.py", "a?c", "[ab]z", "--force", "npm", "run", "x=1", "'q'", 'a"b', "é", "**", "/var/**/[z-a]*", "**/[9-0]x", "/x/**/[a-]", "[z-a]", "/tmp/**/[!b-a]"]
MESSAGES = ["no", "use trash instead", 'say \\"hi\\"', "back\\\\slash", "", "tab\there", "ünï", 'a "quoted" b', "trailing\\", "x|y", "#not comment"]
DIRECTIVES = ["allow", "ask", "deny", "allow-redirect", "ask-redirect", "deny-redirect", "after", "allow-mcp", "ask-mcp", "deny-mcp", "after-mcp"]
WS = [" ", "  ", "\t", " \t "]
# what str.strip() removes without being a line boundary of splitlines(): padding a line with these must not change it
PADWS = WS + ["\u00a0", "\u3000", "\x1f", " \u2003", "\u00a0\t", "\u205f "]
BREAKS = ["\n", "\n", "\n", "\r\n", "\r", "\x0b", "\x0c", "\x1c", "\x1d", "\x1e", "\x85", "\u2028", "\u2029"]


def gen_rule_line(r) -> str:
    d = r.pick(DIRECTIVES)
    if r.chance(0.1):
        d = d.upper() if r.chance(0.5) else d.capitalize()
    cross = r.chance(0.12)  # patterns that look like they belong to another family
    if ("mcp" in d) != cross and not (cross and "redirect" in d):
        pat = r.pick(["mcp__github__*", "mcp__*", "mcp__fs__read_file", "mcp__[ab]*", "*", "mcp__x__?"])
    elif "redirect" in d and not cross:
        pat = r.pick(["/tmp/ok", "/tmp/**", "~/out/**", "out.txt", "./build/*", "**/log", "/tmp/dir/", "dir/**/x", "*.log", "/tmp/a b"])
    else:
        pat = r.pick(WS[:2]).join(r.pick(PATTERN_WORDS) for _ in range(r.randint(1, 4)))
    line = d + r.pick(WS) + pat
    if r.chance(0.25) and d.split("-")[0].lower() != "after" or r.chance(0.1):
        line += r.pick(["|", " |", "  |"])
    if r.chance(0.5):
        line += r.pick(WS) + '"' + r.pick(MESSAGES) + '"'
    if r.chance(0.15):
        line += r.pick(PADWS)
    if r.chance(0.15):
        line = r.pick(PADWS) + line
    return line


def gen_other_line(r) -> str:
    k = r.random()
    if k < 0.2:
        return r.pick(["", "   ", "# comment", "  # indented comment", "#"])
    if k < 0.45:
        return r.pick(
            [
                "set log-full", "set log_full", "set LOG-FULL", "set log /tmp/dippy.log", "set log ~/logs/d.log", "set log ~nosuchuser/x", "set log ~root/x",
                "set log", "set default allow", "set default ask", "set default deny", "set default", "set", "set unknown 1", "set log-full yes", "set log a//b/./c/", "set log //x",
                "set log ~", "set  log   /tmp/a b",
            ]
        )
    if k < 0.6:
        return r.pick(["alias ~/bin/gh gh", "alias g git", "alias g", "alias a b c", "alias ./tool tool", "alias g hub", "alias ~/bin/gh other"])
    if k < 0.8:
        return r.pick(["allow", "deny", "ask   ", "bogus directive", "allowx ls", "deny \"msg only\"", "ask \"m\"", "after", "allow-mcp", "deny-redirect", "deny rm \"unterminated", 'deny rm "esc\\"', 'deny "a" "b"', "deny rm\"glued\"", 'after git push "done"', 'after git commit ""', "after npm *"])
    # arbitrary unicode / control characters
    n = r.randint(1, 12)
    return "".join(r.pick(["a", " ", "\t", '"', "\\", "|", "#", "\x00", "\u00a0", "\u3000", "é", "allow", "deny", "~", "/", "*", "\x1f", "\ufeff"]) for _ in range(n))


def gen_config_text(r, nlines=None, breaks=BREAKS) -> str:
    nlines = nlines if nlines is not None else r.randint(0, 10)
    parts = []
    for _ in range(nlines):
        parts.append(gen_rule_line(r) if r.chance(0.65) else gen_other_line(r))
        parts.append(r.pick(breaks))
    if parts and r.chance(0.3):
        parts.pop()
    return "".join(parts)


def penv_json() -> dict:
    import pwd

    home = str(pathlib.Path.home())
    users = [[u.pw_name, u.pw_dir] for u in pwd.getpwall()]
    return {"home": home, "users": users}


def corr_parse(model, r, n) -> dict:
    from dippy.core.config import parse_config

    acc = Acc("parse_config")
    penv = penv_json()
    for _ in range(n):
        text = gen_config_text(r)
        if has_surrogate(text):
            continue
        try:
            impl = cfg_to_json(parse_config(text))
        except Exception as e:  # noqa: BLE001
            impl = "exc:" + type(e).__name__ + ":" + str(e)[:80]
        rep = model.ask({"op": "parseconfig", "text": text, "penv": penv})
        nrules = 0 if isinstance(impl, str) else sum(len(impl[k]) for k in ("rules", "redirect_rules", "after_rules", "mcp_rules", "after_mcp_rules"))
        acc.case(text, impl, rep, nontrivial=nrules > 0, tag="rules:%d" % min(nrules, 5), sample={"text": text[:200], "rules_parsed": nrules})
    return acc.result()


def corr_pieces(model, r, n) -> dict:
    from dippy.core import config as C

    acc = Acc("_extract_message/_unescape/_strip_exact_anchor/splitlines")
    for _ in range(n):
        base = r.pick(PATTERN_WORDS) + r.pick(["", " x", "  y "])
        s = base + r.pick(["", " ", "\t"]) + r.pick(["", '"' + r.pick(MESSAGES) + '"', '"', '""', 'a"', '\\"', ' "x" "y"', ' "a\\\\"', '"lead']) + r.pick(["", " ", "|"])
        if r.chance(0.1):
            s = r.pick(['"only"', ' "x"', '"', '""', "", "  "])
        try:
            p, m = C._extract_message(s)
            impl = {"pattern": p, "message": m}
        except ValueError:
            impl = "ValueError"
        acc.case(["extract", s], impl, model.ask({"op": "extractmsg", "s": s}), tag="msg" if isinstance(impl, dict) and impl["message"] is not None else "nomsg", sample={"s": s, "result": impl})
        u = r.pick(MESSAGES) + r.pick(["", "\\", '\\"', "\\\\\\", "\\n"])
        acc.case(["unescape", u], C._unescape(u), model.ask({"op": "unescape", "s": u}), nontrivial="\\" in u)
        a = base + r.pick(["", "|", " |", "||", "| ", "\t|"])
        pa, ea = C._strip_exact_anchor(a)
        acc.case(["anchor", a], {"pattern": pa, "exact": ea}, model.ask({"op": "stripanchor", "s": a}), nontrivial=ea)
        t = gen_config_text(r, nlines=r.randint(0, 4))
        if not has_surrogate(t):
            acc.case(["splitlines", t], t.split("\n"), model.ask({"op": "splitlines", "s": t}), nontrivial=len(t) > 0)
    return acc.result()


# ---- matching

CMD_WORDS = [
    ["git", "status"], ["git", "push"], ["git", "push", "--force"], ["rm", "-rf", "x"], ["rm"], ["rmdir", "x"], ["ls"], ["foo", "a", "b"], ["./run.sh"], ["./run.sh", "x"],
    ["~/bin/tool", "x"], ["/tmp/x"], ["npm", "run", "build"], ["python", "src/a.py"], ["g", "status"], ["abc"], ["az"], ["bz", "q"], ["X=1", "rm", "x"], ["git", "statusx"], ["git"], ["foobar"],
    ["node", "bin/x"], ["cat", "../f"], ["git", "push", "*"], ["a b", "c"], ["7z", "x", "a.7z"], ["2to3", "-l"], ["7za"], ["30", "x"],
]


def gen_rules_text(r, k=None) -> str:
    k = k if k is not None else r.randint(0, 8)
    lines = []
    for _ in range(k):
        d = r.pick(["allow", "ask", "deny"])
        ws = list(r.pick(CMD_WORDS))
        x = r.random()
        if x < 0.25:
            ws = ws[: r.randint(1, len(ws))]
        elif x < 0.45:
            ws = ws[:1] + ["*"]
        elif x < 0.55:
            ws[-1] = ws[-1][:1] + "*"
        elif x < 0.62:
            ws = [ws[0][:-1] + "?"] + ws[1:]
        elif x < 0.68:
            ws = ["[" + ws[0][:1] + "z]" + ws[0][1:]] + ws[1:]
        elif x < 0.76:
            # a wildcard in the first token that has to absorb a blank: the pattern is matched against the whole joined command
            joined = " ".join(ws)
            i = r.randrange(len(joined))
            ws = ["*" + joined[i:i + r.randint(2, 6)] + "*"] if r.chance(0.6) else ["*" + joined[i:]]
        pat = " ".join(ws)
        if r.chance(0.2):
            pat += r.pick(["|", " |"])
        line = d + " " + pat
        if d != "allow" and r.chance(0.5):
            line += ' "' + r.pick(["m1", "because", "x y"]) + '"'
        lines.append(line)
    if r.chance(0.3):
        lines.insert(r.randrange(len(lines) + 1), r.pick(["alias g git", "alias ./run.sh foo", "alias ~/bin/tool abc"]))
    return "\n".join(lines) + "\n"


def corr_match_words(model, r, n) -> dict:
    from pathlib import Path

    from dippy.core import config as C

    acc = Acc("match_command/_match_words")
    for _ in range(n):
        text = gen_rules_text(r)
        cfg = C.parse_config(text)
        cj = cfg_to_json(cfg)
        for _ in range(4):
            words = list(r.pick(CMD_WORDS))
            if r.chance(0.3):
                words.append(r.pick(["extra", "-v", "x y", "../z"]))
            cwd = r.pick(["/tmp/probe", "/tmp/probe/sub"])
            remote = r.chance(0.15)
            table = []
            with record_resolve(table):
                m = C.match_command(C.SimpleCommand(words=words), cfg, Path(cwd), remote=remote)
            rep = model.ask({"op": "matchwords", "env": env_json(table), "config": cj, "words": words, "cwd": cwd, "remote": remote})
            acc.case([text, words, cwd, remote], match_to_json(m), rep, nontrivial=m is not None, tag="match:" + (m.decision if m else "none"), sample={"rules": text, "words": words, "match": match_to_json(m)})
    return acc.result()


TARGET_SPELLINGS = ["/tmp/ok", "/tmp/okdir/a", "/tmp/okdir/a/b", "out.txt", "./out.txt", "sub/../out.txt", "/tmp/../etc/passwd", "/tmp//ok", "/tmp/./ok", "/tmp/ok/", "~/out/x", "~/../x", "~", "build/a.log", "../up", "/tmp/okdirx", "/tmp/okdir", "x.log", "/tmp/a b", "$HOME/x", "/dev/null"]
REDIR_PATTERNS = ["/tmp/ok", "/tmp/okdir/**", "/tmp/**", "~/out/**", "out.txt", "./build/*", "**/log", "*.log", "/tmp/okdir/*", "/tmp/okdir/", "sub/**", "**", "/tmp/a b", "/tmp/**/b", "~/**", "/tmp/ok?", "/tmp/[ao]k"]


def gen_redirect_rules(r, k=None) -> str:
    k = k if k is not None else r.randint(0, 6)
    lines = []
    for _ in range(k):
        d = r.pick(["allow-redirect", "ask-redirect", "deny-redirect"])
        line = d + " " + r.pick(REDIR_PATTERNS)
        if d != "allow-redirect" and r.chance(0.4):
            line += ' "' + r.pick(["nope", "why"]) + '"'
        lines.append(line)
    return "\n".join(lines) + "\n"


def corr_match_redirect(model, r, n) -> dict:
    from pathlib import Path

    from dippy.core import config as C

    acc = Acc("match_redirect")
    for _ in range(n):
        text = gen_redirect_rules(r)
        cfg = C.parse_config(text)
        cj = cfg_to_json(cfg)
        for _ in range(4):
            t = r.pick(TARGET_SPELLINGS)
            cwd = r.pick(["/tmp/probe", "/tmp/probe/sub", "/tmp"])
            table = []
            with record_resolve(table):
                m = C.match_redirect(t, cfg, Path(cwd))
            rep = model.ask({"op": "matchredirect", "env": env_json(table), "config": cj, "target": t, "cwd": cwd})
            acc.case([text, t, cwd], match_to_json(m), rep, nontrivial=m is not None, tag="match:" + (m.decision if m else "none"), sample={"rules": text, "target": t, "cwd": cwd, "match": match_to_json(m)})
    return acc.result()


def corr_after_mcp(model, r, n) -> dict:
    from pathlib import Path

    from dippy.core import config as C

    acc = Acc("match_after/match_mcp/match_after_mcp")
    tools = ["mcp__github__get_issue", "mcp__github__create_pr", "mcp__fs__read_file", "mcp__x__y", "mcp__", "Bash", "mcp__a__b"]
    for _ in range(n):
        lines = []
        for _ in range(r.randint(0, 7)):
            k = r.random()
            if k < 0.35:
                lines.append("after " + " ".join(r.pick(CMD_WORDS)[: r.randint(1, 2)]) + r.pick(["", " *"]) + r.pick(["", ' "done"', ' ""', ' "check CI"']))
            elif k < 0.7:
                lines.append(r.pick(["allow-mcp", "ask-mcp", "deny-mcp"]) + " " + r.pick(["mcp__github__*", "mcp__*", "mcp__fs__read_file", "mcp__[ax]__?", "*"]) + r.pick(["", ' "m"']))
            elif k < 0.9:
                lines.append("after-mcp " + r.pick(["mcp__github__*", "mcp__*__create_*", "*"]) + r.pick(["", ' "posted"', ' ""']))
            else:
                lines.append(gen_rule_line(r))
        text = "\n".join(lines) + "\n"
        cfg = C.parse_config(text)
        cj = cfg_to_json(cfg)
        words = list(r.pick(CMD_WORDS))
        table = []
        with record_resolve(table):
            ma = C.match_after(words, cfg, Path("/tmp/probe"))
        acc.case(["after", text, words], ma, model.ask({"op": "matchafter", "env": env_json(table), "config": cj, "words": words, "cwd": "/tmp/probe"}), nontrivial=ma is not None, tag="after:" + ("none" if ma is None else "empty" if ma == "" else "msg"))
        tool = r.pick(tools)
        mm = C.match_mcp(tool, cfg)
        acc.case(["mcp", text, tool], match_to_json(mm), model.ask({"op": "matchmcp", "config": cj, "tool": tool}), nontrivial=mm is not None, tag="mcp:" + (mm.decision if mm else "none"), sample={"rules": text, "tool": tool, "match": match_to_json(mm)})
        mam = C.match_after_mcp(tool, cfg)
        acc.case(["aftermcp", text, tool], mam, model.ask({"op": "matchaftermcp", "config": cj, "tool": tool}), nontrivial=mam is not None)
    return acc.result()


def corr_tables(model) -> dict:
    """T0 cross-check: the generated Lean tables against the imported Python objects."""
    import dippy.cli as CLI
    import dippy.core.allowlists as AL
    import dippy.core.analyzer as AN

    acc = Acc("T0 tables vs imported module objects")
    t = model.ask({"op": "tables"})
    acc.case("SIMPLE_SAFE", sorted(AL.SIMPLE_SAFE), t.get("simpleSafe"), sample={"table": "SIMPLE_SAFE", "size": len(AL.SIMPLE_SAFE)})
    acc.case("WRAPPER_COMMANDS", sorted(AL.WRAPPER_COMMANDS), t.get("wrapperCommands"))
    acc.case("KNOWN_HANDLERS", sorted(CLI.KNOWN_HANDLERS), t.get("handlerCommands"))
    acc.case("KNOWN_HANDLERS.map", sorted([k, v] for k, v in CLI.KNOWN_HANDLERS.items()), sorted(t.get("handlerModule") or []))
    acc.case("SAFE_REDIRECT_TARGETS", sorted(AN.SAFE_REDIRECT_TARGETS), t.get("safeRedirectTargets"))
    acc.case("DESCRIPTION_DEPTH", sorted([k, v] for k, v in CLI.DESCRIPTION_DEPTH.items()), sorted(t.get("descriptionDepth") or []))
    return acc.result()
