"""T2: run a bash program in a throw-away jail where every external command is a stub that logs
its argv, and report what ran and which files changed."""
from __future__ import annotations

import os
import shutil
import subprocess
import tempfile

STUB = """#!/bin/bash
# stub: log argv; succeed on the first call of this name, fail afterwards (so loops terminate)
name=${0##*/}
printf '%s' "$name" >> "$JAIL_LOG"
for a in "$@"; do printf '\\t%s' "$a" >> "$JAIL_LOG"; done
printf '\\n' >> "$JAIL_LOG"
if [ -e "$JAIL_STATE/$name" ]; then exit 1; fi
: > "$JAIL_STATE/$name"
exit 0
"""


class Jail:
    def __init__(self, names, real=()):
        self.root = os.path.realpath(tempfile.mkdtemp(prefix="dippy-verif-jail-"))
        self.bin = os.path.join(self.root, "bin")
        self.work = os.path.join(self.root, "work")
        self.state = os.path.join(self.root, "state")
        self.log = os.path.join(self.root, "exec.log")
        for d in (self.bin, self.work, self.state):
            os.makedirs(d)
        for n in names:
            p = os.path.join(self.bin, os.path.basename(n))
            with open(p, "w") as f:
                f.write(STUB)
            os.chmod(p, 0o755)
        for n in real:
            src = shutil.which(n)
            if src:
                os.symlink(src, os.path.join(self.bin, n))

    def reset(self):
        # fresh directories per run: a background job of an earlier (timed-out) program may still be alive
        self.n = getattr(self, "n", 0) + 1
        for d in (self.work, self.state):
            shutil.rmtree(d, ignore_errors=True)
        self.work = os.path.join(self.root, "work%d" % self.n)
        self.state = os.path.join(self.root, "state%d" % self.n)
        self.log = os.path.join(self.root, "exec%d.log" % self.n)
        os.makedirs(self.work, exist_ok=True)
        os.makedirs(self.state, exist_ok=True)
        open(self.log, "w").close()

    def run(self, script: str, timeout=5, extra_env=None):
        """returns (exit status or None on timeout, executed = list of argv lists)"""
        self.reset()
        # local ./script.sh style names resolve in the work dir
        for n in os.listdir(self.bin):
            pass
        sp = os.path.join(self.work, "script.sh")
        shutil.copy(os.path.join(self.bin, "script.sh"), sp) if os.path.exists(os.path.join(self.bin, "script.sh")) else None
        env = {"PATH": self.bin, "HOME": self.work, "JAIL_LOG": self.log, "JAIL_STATE": self.state, "LANG": "C"}
        if extra_env:
            env.update(extra_env)
        import signal

        proc = subprocess.Popen(["/usr/bin/bash", "--norc", "--noprofile", "-c", script], cwd=self.work, env=env, stdin=subprocess.DEVNULL, stdout=subprocess.DEVNULL, stderr=subprocess.PIPE, start_new_session=True)
        try:
            _, err = proc.communicate(timeout=timeout)
            rc = proc.returncode
        except subprocess.TimeoutExpired:
            rc, err = None, b""
        finally:
            try:
                os.killpg(proc.pid, signal.SIGKILL)
            except (ProcessLookupError, PermissionError):
                pass
            try:
                proc.communicate(timeout=2)
            except Exception:  # noqa: BLE001
                pass
        executed = []
        try:
            with open(self.log, encoding="utf-8", errors="replace") as f:
                for line in f.read().split("\n"):
                    if line:
                        executed.append(line.split("\t"))
        except OSError:
            pass
        return rc, executed, err

    def cleanup(self):
        shutil.rmtree(self.root, ignore_errors=True)

    def __enter__(self):
        return self

    def __exit__(self, *a):
        self.cleanup()
