#!/usr/bin/env python3
"""Run one python script under an audit hook that records and vetoes every file, process, network and
dynamic-code event.  Usage: audit_runner.py <safe-module-list.json> <script>
Prints one JSON line: {"events": [...], "error": "..."}.

All modules of the safe list are imported before the hook is installed (their own import-time file
reads and compiles are not the script's doing), and the script is compiled before as well: what the
hook sees is what executing the script's code does."""
import json
import sys

safe = json.load(open(sys.argv[1]))
script = sys.argv[2]
import importlib  # noqa: E402

for m in safe:
    try:
        importlib.import_module(m)
    except Exception:  # noqa: BLE001
        pass
src = open(script, encoding="utf-8").read()
code = compile(src, script, "exec")
events = []
allowed_import = set(sys.modules) | set(safe)
DANGEROUS_PREFIXES = ("open", "os.", "subprocess.", "socket.", "ctypes.", "exec", "compile", "shutil.", "glob.", "tempfile.", "urllib.", "http.", "ftplib.", "smtplib.",
                      "sqlite3.", "mmap.", "fcntl.", "pty.", "builtins.input", "builtins.breakpoint", "marshal.", "pickle.", "webbrowser.", "code.__new__", "sys._getframe", "sys.settrace", "sys.setprofile",
                      "signal.", "resource.", "syslog.", "winreg.", "msvcrt.", "gc.get_", "function.__new__", "object.__setattr__", "object.__getattr__", "cpython.run_", "importlib.")
state = {"first_exec": True, "active": False}


def hook(name, args):
    if not state["active"]:
        return
    if name == "exec" and state["first_exec"]:
        state["first_exec"] = False
        return
    if name == "import":
        mod = args[0]
        if mod in allowed_import or mod.split(".")[0] in allowed_import:
            return
        events.append("import:" + str(mod))
        raise RuntimeError("vetoed import " + str(mod))
    if name.startswith(DANGEROUS_PREFIXES):
        events.append(name + ":" + repr(args)[:80])
        raise RuntimeError("vetoed " + name)


sys.addaudithook(hook)
out = {"events": events}
state["active"] = True
try:
    exec(code, {"__name__": "__main__", "__file__": script})
except SystemExit:
    pass
except BaseException as e:  # noqa: BLE001
    out["error"] = type(e).__name__ + ": " + str(e)[:200]
state["active"] = False
sys.stdout = sys.__stdout__
print("\n@@AUDIT@@" + json.dumps(out))
