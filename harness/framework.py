"""The per-property check pipeline (DESIGN.md section 5).

  1. T0  regenerate lean/Dippy/Generated from /repo's working tree
  2.     lake build the property's theorem file + driver; audit axioms; scan for sorry & co
  3. T1  corpus, then correspondence (model vs implementation) for the areas the theorems rest on
  4.     the property's direct oracle on the implementation (always a small budget; a large one
         when an obligation or a correspondence broke) – the failing-input search
  5.     known findings are reported as KNOWN-FINDING lines, anything else is a VIOLATION
  6.     evidence/<id>.json

Exit codes: 0 held, 1 violation, 2 infrastructure problem / timeout.
"""
from __future__ import annotations

import fcntl
import glob
import json
import os
import re
import subprocess
import sys
import time
import traceback

from common import LEAN_DIR, REPO, SEED, TIER, VERIF

ALLOWED_AXIOMS = {"propext", "Classical.choice", "Quot.sound"}
FORBIDDEN = re.compile(r"\b(sorry|admit|native_decide|bv_decide|implemented_by)\b|^\s*axiom\s|\bunsafe\s|maxHeartbeats\s+0\b")


class Infra(Exception):
    pass


def sh(cmd, cwd=None, timeout=1800, env=None):
    e = dict(os.environ)
    if env:
        e.update(env)
    p = subprocess.run(cmd, cwd=cwd, capture_output=True, text=True, timeout=timeout, env=e)
    return p.returncode, p.stdout + p.stderr


class BuildLock:
    def __enter__(self):
        os.makedirs(os.path.join(LEAN_DIR, ".lake"), exist_ok=True)
        self.f = open(os.path.join(LEAN_DIR, ".lake", "verif.lock"), "w")
        fcntl.flock(self.f, fcntl.LOCK_EX)
        return self

    def __exit__(self, *a):
        fcntl.flock(self.f, fcntl.LOCK_UN)
        self.f.close()


def t0_generate() -> dict:
    rc, out = sh(["/venv/bin/python", os.path.join(VERIF, "harness", "gen_tables.py"), REPO])
    if rc != 0:
        raise Infra("gen_tables failed: " + out[-2000:])
    return json.loads(out.strip().splitlines()[-1])


def strip_comments(src: str) -> str:
    # remove /- ... -/ (nesting-aware enough for our files) and -- line comments
    out = []
    i = 0
    depth = 0
    n = len(src)
    while i < n:
        if src.startswith("/-", i):
            depth += 1
            i += 2
        elif depth and src.startswith("-/", i):
            depth -= 1
            i += 2
        elif depth:
            if src[i] == "\n":
                out.append("\n")
            i += 1
        elif src.startswith("--", i):
            while i < n and src[i] != "\n":
                i += 1
        else:
            out.append(src[i])
            i += 1
    return "".join(out)


def scan_sources() -> list[str]:
    bad = []
    for path in glob.glob(os.path.join(LEAN_DIR, "Dippy", "**", "*.lean"), recursive=True) + [os.path.join(LEAN_DIR, "Driver.lean")]:
        if os.sep + "Generated" + os.sep in path:
            continue
        src = strip_comments(open(path, encoding="utf-8").read())
        # string literals may legitimately contain the words; drop them
        src = re.sub(r'"(?:[^"\\]|\\.)*"', '""', src)
        for ln, line in enumerate(src.splitlines(), 1):
            if FORBIDDEN.search(line):
                bad.append(f"{os.path.relpath(path, LEAN_DIR)}:{ln}: {line.strip()[:120]}")
    return bad


def theorem_names(prop_file: str) -> list[str]:
    """Fully qualified names of the theorems declared in a Props file."""
    src = strip_comments(open(prop_file, encoding="utf-8").read())
    ns: list[str] = []
    names = []
    for line in src.splitlines():
        m = re.match(r"\s*namespace\s+(\S+)", line)
        if m:
            ns.append(m.group(1))
            continue
        m = re.match(r"\s*end\s+(\S+)\s*$", line)
        if m and ns and ns[-1] == m.group(1):
            ns.pop()
            continue
        m = re.match(r"\s*(?:private\s+|protected\s+)?theorem\s+([^\s:({\[]+)", line)
        if m:
            names.append(".".join(ns + [m.group(1)]))
    return names


def lake_build(targets: list[str], timeout=1500):
    with BuildLock():
        rc, out = sh(["lake", "build"] + targets, cwd=LEAN_DIR, timeout=timeout)
    return rc == 0, out


def failing_theorems(build_output: str) -> list[str]:
    """Map `error: Dippy/Props/C05.lean:LINE:COL` to the enclosing theorem."""
    out = []
    for m in re.finditer(r"error: (\S+\.lean):(\d+):(\d+): (.*)", build_output):
        path, line, msg = m.group(1), int(m.group(2)), m.group(4)
        full = os.path.join(LEAN_DIR, path)
        name = None
        try:
            lines = open(full, encoding="utf-8").read().splitlines()
            for i in range(min(line, len(lines)) - 1, -1, -1):
                mm = re.match(r"\s*(?:theorem|example|def|abbrev|instance)\s+([^\s:({\[]+)?", lines[i])
                if mm:
                    name = (mm.group(1) or "example") + f" ({path}:{i + 1})"
                    break
        except OSError:
            pass
        out.append(f"{name or path + ':' + str(line)} — {msg[:160]}")
    return out


def audit(prop_id: str, names: list[str]) -> dict:
    """#print axioms for every property theorem; returns {name: [axioms]}."""
    audit_dir = os.path.join(LEAN_DIR, "Dippy", "Audit")
    os.makedirs(audit_dir, exist_ok=True)
    path = os.path.join(audit_dir, prop_id + ".lean")
    text = f"import Dippy.Props.{prop_id}\n" + "".join(f"#print axioms {n}\n" for n in names)
    old = None
    try:
        old = open(path).read()
    except OSError:
        pass
    if old != text:
        open(path, "w").write(text)
    with BuildLock():
        rc, out = sh(["lake", "env", "lean", path], cwd=LEAN_DIR, timeout=900)
    res: dict[str, list[str]] = {}
    for m in re.finditer(r"'(\S+)' depends on axioms: \[([^\]]*)\]", out):
        res[m.group(1)] = [a.strip() for a in m.group(2).replace("\n", " ").split(",") if a.strip()]
    for m in re.finditer(r"'(\S+)' does not depend on any axioms", out):
        res[m.group(1)] = []
    if rc != 0 and not res:
        raise Infra("axiom audit failed: " + out[-1500:])
    return res


def load_known_findings(prop_id: str) -> list[dict]:
    p = os.path.join(VERIF, "KNOWN_FINDINGS.json")
    try:
        data = json.load(open(p))
    except OSError:
        return []
    return [e for e in data if e.get("property") == prop_id]


def write_replay(prop_id: str, n: int, payload: dict) -> str:
    d = os.path.join(VERIF, "replays")
    os.makedirs(d, exist_ok=True)
    path = os.path.join(d, f"{prop_id}-{SEED}-{n}.json")
    payload = dict(payload)
    payload.setdefault("property", prop_id)
    payload.setdefault("seed", SEED)
    payload.setdefault("replay_cmd", f"./check {prop_id} --replay replays/{os.path.basename(path)}")
    with open(path, "w") as f:
        json.dump(payload, f, indent=1, ensure_ascii=True, default=str)
    return os.path.relpath(path, VERIF)


def write_evidence(prop_id: str, ev: dict):
    d = os.path.join(VERIF, "evidence")
    os.makedirs(d, exist_ok=True)
    with open(os.path.join(d, prop_id + ".json"), "w") as f:
        json.dump(ev, f, indent=1, ensure_ascii=True, default=str)


class Ctx:
    """What a property module gets."""

    def __init__(self, prop_id, tier, model, broken: bool):
        self.prop_id = prop_id
        self.tier = tier
        self.seed = SEED
        self.model = model
        self.broken = broken  # an obligation or a correspondence is broken: search harder
        self.hints: list = []
        self.t0 = time.time()

    def scale(self, quick: int, thorough: int) -> int:
        return thorough if self.tier == "thorough" else quick


def run_check(mod, tier: str) -> int:
    """mod: a property module (see props/*.py)."""
    from common import Model

    pid = mod.ID
    t_start = time.time()
    notes: list[str] = []
    broken_obligations: list[str] = []
    broken_corr: list[dict] = []

    # 1. T0
    t0 = t0_generate()
    if t0.get("missing"):
        broken_obligations.append("T0: tables not found where expected: " + ", ".join(t0["missing"]))

    # 2. build + audit
    targets = [f"Dippy.Props.{f}" for f in mod.PROP_FILES] + ["driver"]
    ok, out = lake_build(targets)
    driver_ok = os.path.exists(os.path.join(LEAN_DIR, ".lake", "build", "bin", "driver"))
    names: list[str] = []
    for f in mod.PROP_FILES:
        names += theorem_names(os.path.join(LEAN_DIR, "Dippy", "Props", f + ".lean"))
    axioms: dict[str, list[str]] = {}
    if not ok:
        ft = failing_theorems(out)
        broken_obligations += ft or ["lake build failed: " + out[-600:]]
        # the driver may still be buildable even if a theorem broke
        ok_d, out_d = lake_build(["driver"])
        driver_ok = ok_d
        if not ok_d:
            notes.append("driver does not build: " + out_d[-400:])
    else:
        for f in mod.PROP_FILES:
            fnames = theorem_names(os.path.join(LEAN_DIR, "Dippy", "Props", f + ".lean"))
            axioms.update(audit(f, fnames))
        for n in names:
            if n not in axioms:
                broken_obligations.append(f"audit: no axiom report for {n}")
            else:
                extra = set(axioms[n]) - ALLOWED_AXIOMS
                if extra:
                    broken_obligations.append(f"audit: {n} depends on {sorted(extra)}")
    # thorough tier: the toolchain's independent re-checker replays the compiled declarations through the kernel
    if ok and tier == "thorough":
        for f in mod.PROP_FILES:
            rc, lc_out = sh(["lake", "env", "leanchecker", f"Dippy.Props.{f}"], cwd=LEAN_DIR, timeout=1800)
            if rc != 0:
                broken_obligations.append(f"leanchecker rejected Dippy.Props.{f}: " + lc_out[-300:])
            else:
                notes.append(f"leanchecker accepted Dippy.Props.{f}")
    bad_src = scan_sources()
    if bad_src:
        broken_obligations.append("source scan: " + "; ".join(bad_src[:5]))
    discharged = 0 if not ok else len([n for n in names if n in axioms and not (set(axioms[n]) - ALLOWED_AXIOMS)])

    # 3. correspondence
    model = Model() if driver_ok else None
    ctx = Ctx(pid, tier, model, broken=bool(broken_obligations))
    corr_results = []
    if model is not None:
        try:
            corr_results = mod.correspondence(ctx)
        except Infra:
            raise
        except Exception as e:  # noqa: BLE001
            # the harness could not attach to the implementation (an interface it wraps has moved): the tie is
            # broken, which is not by itself a violation - the direct oracle below decides
            import traceback

            broken_corr.append({"area": "harness", "kind": "harness-cannot-attach", "input": None, "impl": "%s: %s" % (type(e).__name__, e), "model": None,
                                "trace": traceback.format_exc()[-800:]})
            try:
                model.close()
            except Exception:  # noqa: BLE001
                pass
            model = Model() if driver_ok else None
            ctx.model = model
        for cr in corr_results:
            for dv in cr.get("divergences", []):
                broken_corr.append(dict(dv, area=cr.get("area")))
    else:
        broken_corr.append({"area": "driver", "kind": "driver-unavailable", "input": None})
    ctx.broken = bool(broken_obligations or broken_corr)
    ctx.hints = [d.get("input") for d in broken_corr if d.get("input") is not None]

    # 4. direct oracle (failing-input search)
    try:
        search = mod.search(ctx)
    except Infra:
        raise
    except Exception as e:  # noqa: BLE001
        import traceback

        search = {"violations": [], "evaluations": 0, "distinct_nontrivial": 0, "stats": {}, "samples": [], "oracle": "search failed: %s: %s" % (type(e).__name__, e)}
        broken_corr.append({"area": "harness", "kind": "search-cannot-run", "input": None, "impl": "%s: %s" % (type(e).__name__, e), "model": None, "trace": traceback.format_exc()[-800:]})
    violations = search.get("violations", [])

    # 5. known findings
    known = [e for e in load_known_findings(pid) if e.get("status") == "open"]
    reported = []
    seen_known = set()
    for v in violations:
        k = None
        for e in known:
            if mod.matches_finding(e, v):
                k = e
                break
        if k is not None:
            seen_known.add(k["id"])
        else:
            reported.append(v)
    for e in known:
        if e["id"] in seen_known or mod.finding_still_fails(ctx, e):
            seen_known.add(e["id"])
            print(f"KNOWN-FINDING: property={pid} {e['id']} {e['what']}")

    rc = 0
    replay_paths = []
    if reported:
        rc = 1
        for i, v in enumerate(reported[:3]):
            path = write_replay(pid, i, dict(v, kind="impl-input", broken_obligations=broken_obligations, divergences=broken_corr[:3]))
            replay_paths.append(path)
            print(f"VIOLATION property={pid} replay={path}")
    elif broken_obligations or broken_corr:
        rc = 1
        kind = "obligation" if broken_obligations else "correspondence"
        path = write_replay(
            pid,
            0,
            {
                "kind": kind,
                "theorem": broken_obligations,
                "divergence": broken_corr[:5],
                "note": "the property is no longer shown to hold: the named theorems/correspondences do not check; the direct oracle found no failing input within its budget",
                "search": {k: v for k, v in search.items() if k != "violations"},
            },
        )
        replay_paths.append(path)
        print(f"VIOLATION property={pid} replay={path} no-failing-input-found")

    # 6. evidence
    if model is not None:
        model.close()
    evals = sum(cr.get("stats", {}).get("cases", 0) for cr in corr_results) + search.get("evaluations", 0)
    distinct = sum(cr.get("stats", {}).get("distinct_nontrivial", 0) for cr in corr_results) + search.get("distinct_nontrivial", 0)
    samples = []
    for cr in corr_results:
        samples += cr.get("samples", [])[:2]
    samples += search.get("samples", [])[:3]
    samples += [{"theorem": n, "axioms": axioms.get(n)} for n in names[:3]]
    used_axioms = sorted({a for v in axioms.values() for a in v})
    ev = {
        "property_id": pid,
        "tier": tier if tier in ("quick", "thorough") else "quick",
        "seed": SEED,
        "level": "proof",
        "coverage": {
            "obligations": max(1, len(names) + len(getattr(mod, "TABLE_OBLIGATIONS", []))),
            "discharged": discharged + (len(getattr(mod, "TABLE_OBLIGATIONS", [])) if ok else 0),
            "checker_cmd": f"cd lean && lake build {' '.join(targets)} && lake env lean Dippy/Audit/{mod.PROP_FILES[0]}.lean  (#print axioms on every property theorem)",
            "trusted_base": ["Lean 4.33.0 kernel"] + [f"axiom {a}" for a in used_axioms] + list(getattr(mod, "TRUSTED", [])),
            "theorems": names,
            "broken_obligations": broken_obligations,
            "evaluations": evals,
            "distinct_nontrivial": distinct,
            "rule": getattr(mod, "RULE", ""),
            "samples": samples or [{"note": "no samples"}],
            "correspondence": [{k: v for k, v in cr.items() if k not in ("divergences", "samples")} | {"divergences": len(cr.get("divergences", []))} for cr in corr_results],
            "search": {k: v for k, v in search.items() if k not in ("violations", "samples")},
            "known_findings_seen": sorted(seen_known),
            "t0": t0,
            "notes": notes,
        },
        "assumptions": list(getattr(mod, "ASSUMES", [])),
        "wall_s": round(time.time() - t_start, 2),
        "violations": len(reported) if reported else (1 if rc else 0),
    }
    write_evidence(pid, ev)
    print(f"{pid}: {'HELD' if rc == 0 else 'VIOLATED'} obligations={len(names)} discharged={discharged} corr_cases={evals} wall={ev['wall_s']}s")
    return rc


def main_guard(fn):
    try:
        return fn()
    except subprocess.TimeoutExpired as e:
        print("infrastructure: timeout " + str(e)[:300], file=sys.stderr)
        return 2
    except Infra as e:
        print("infrastructure: " + str(e)[:2000], file=sys.stderr)
        return 2
    except Exception:  # noqa: BLE001
        traceback.print_exc()
        return 2
