"""T1 for the SafetyAnalyzer model (Model/PyAst.lean): the real visitor vs `PyAst.visit` on the same trees.

A tree is serialised exactly as `ast.NodeVisitor.generic_visit` sees it: class name, lineno, and the
`_fields` in order, each an AST node, a list (AST members, strings, anything else), a string, None or other.
"""
from __future__ import annotations

import ast
import os
import sys

from corr_config import Acc


def ser(node: ast.AST):
    fields = []
    for name in node._fields:
        try:
            v = getattr(node, name)
        except AttributeError:
            continue
        fields.append([name, ser_val(v)])
    return {"k": type(node).__name__, "l": getattr(node, "lineno", 0) or 0, "f": fields}


def ser_val(v):
    if isinstance(v, ast.AST):
        return {"n": ser(v)}
    if isinstance(v, list):
        items = []
        for x in v:
            if isinstance(x, ast.AST):
                items.append({"n": ser(x)})
            elif isinstance(x, str):
                items.append({"s": x})
            else:
                items.append("other")
        return {"l": items}
    if isinstance(v, str):
        return {"s": v}
    if v is None:
        return "none"
    return "other"


def impl_visit(source: str):
    """(violations as [line, kind, detail], import roots as the shadow check collects them) or 'syntax'"""
    import dippy.cli.python as P

    try:
        tree = ast.parse(source)
    except (SyntaxError, ValueError, RecursionError, MemoryError):
        return None, None
    a = P.SafetyAnalyzer(allow_print=True)
    try:
        a.visit(tree)
    except RecursionError:
        return None, None
    vs = [[v.line, v.kind, v.detail] for v in a.violations]
    roots = []
    for node in ast.walk(tree):
        names = []
        if isinstance(node, ast.Import):
            names = [al.name for al in node.names]
        elif isinstance(node, ast.ImportFrom) and node.module:
            names = [node.module]
        roots += [n.split(".")[0] for n in names]
    return tree, {"violations": vs, "roots": sorted(set(roots))}


def corpus_files(r, n):
    """python sources to draw from: the repository's own, and the standard library of the running interpreter"""
    from common import REPO

    roots = [os.path.join(REPO, "src"), os.path.join(REPO, "tests"), os.path.dirname(os.__file__)]
    files = []
    for root in roots:
        for dp, dn, fn in os.walk(root):
            dn[:] = [d for d in dn if d not in ("__pycache__", "site-packages", "test", "tests", "idlelib", "lib2to3") or root != roots[2]]
            for f in fn:
                if f.endswith(".py"):
                    p = os.path.join(dp, f)
                    try:
                        if os.path.getsize(p) <= 60_000:
                            files.append(p)
                    except OSError:
                        pass
    files.sort()
    return r.sample(files, min(n, len(files)))


SNIPPETS = [
    "import json\nprint(json.dumps(1))\n",
    "import os\n",
    "import os.path as p, json\n",
    "from . import x\n",
    "from .. import y\nimport json\n",
    "from json import *\n",
    "from random import _os\n",
    "from operator import attrgetter\n",
    "from collections import namedtuple as nt\n",
    "import collections.abc\nimport xml.etree.ElementTree\nimport not_a_module.sub\n",
    "def f(x=[lambda: eval]):\n    pass\n",
    "x = open\n",
    "print = 1\nprint(print)\n",
    "del open\n",
    "open = 3\n",
    "with open('f') as f, g() as h:\n    pass\n",
    "with x.open('f'):\n    pass\n",
    "async def f():\n    await g()\n",
    "async def f():\n    async with a: pass\n    async for x in y: pass\n",
    "global_var = 1\ndef f():\n    global global_var, open\n    nonlocal_ok = 2\n",
    "a.__class__.__bases__\n",
    "a.__dict__ = 1\n",
    "x.system\nx.system = 1\nx.system()\n",
    "json.codecs.open\nrandom._os\ncalendar.sys.modules\nm.builtins\n",
    "f'{eval}' f'{x.__globals__!r:>{width}}'\n",
    "match x:\n    case {'k': eval}:\n        pass\n    case C(open=1) | [exec, *rest]:\n        pass\n",
    "try:\n    pass\nexcept* OSError as compile:\n    pass\nfinally:\n    getattr\n",
    "class K(metaclass=type):\n    @staticmethod\n    def m(self, *a: eval, **k) -> exec: ...\n",
    "type X[T: eval] = list[T]\ndef g[T](x: T) -> T: return x\n",
    "[eval for open in exec if compile]\n{a: b for a in __import__}\n(x for x in input)\n",
    "(y := eval)\nlambda open: open\n",
    "__builtins__\n__loader__.x\n__spec__ = 1\n",
    "x = 1 if breakpoint else 2\nassert globals, vars\nraise locals from dir\n",
    "import sys as s\ns.exit\n",
    "x: open = 1\nx: int\n",
    "@open\ndef f(): pass\n@x.system\nclass C: pass\n",
    "a[eval:exec:compile]\n*open, = x\n",
    "print(1)\nprint\n",
    "",
    "\n# only a comment\n",
    "'''doc'''\n",
    "if True:\n    import subprocess\nelse:\n    import socket\n",
    "while x:\n    import ctypes\n    break\nelse:\n    import shutil\n",
    "for os in y:\n    os.remove\n",
]


def gen_sources(r, n):
    """snippets, mutated corpus files and generated small modules"""
    out = list(SNIPPETS)
    names = ["eval", "exec", "open", "print", "compile", "getattr", "x", "json", "os", "sys", "__builtins__", "__import__", "input", "vars", "type", "len"]
    attrs = ["system", "dumps", "__class__", "__globals__", "_os", "sys", "builtins", "open", "write", "read", "path", "modules", "f_back", "popen", "loads", "__dict__", "remove", "x"]
    mods = ["json", "os", "sys", "os.path", "collections.abc", "random", "subprocess", "math", "re", "xml.etree", "unknown_mod", "json.decoder", "importlib.util", "builtins", "io", "calendar", "string"]
    for _ in range(n):
        lines = []
        for _ in range(r.randint(1, 6)):
            k = r.randrange(12)
            ind = "    " * r.randrange(2) if lines and lines[-1].rstrip().endswith(":") else ""
            if k == 0:
                lines.append(ind + "import " + ", ".join(r.pick(mods) + (" as m" if r.chance(0.3) else "") for _ in range(r.randint(1, 2))))
            elif k == 1:
                lines.append(ind + "from " + r.pick(mods) + " import " + r.pick(["x", "*", "_os", "system", "attrgetter", "dumps as d", "path", "sys", "builtins", "open"]))
            elif k == 2:
                lines.append(ind + r.pick(names) + "(" + r.pick(names) + ")")
            elif k == 3:
                lines.append(ind + r.pick(names) + "." + r.pick(attrs) + r.pick(["", "()", " = 1", "." + r.pick(attrs), "(x)." + r.pick(attrs)]))
            elif k == 4:
                lines.append(ind + r.pick(["def f(a=%s):", "class C(%s):", "if %s:", "while %s:", "with %s as w:", "for i in %s:"]) % r.pick(names + [n + "." + a for n in names[:4] for a in attrs[:3]]))
                lines.append(ind + "    " + r.pick(["pass", r.pick(names), "x = " + r.pick(names) + "." + r.pick(attrs), "return" if "def" in lines[-1] else "pass"]))
            elif k == 5:
                lines.append(ind + "x = [" + r.pick(names) + " for y in " + r.pick(names) + "]")
            elif k == 6:
                lines.append(ind + "x = lambda " + r.pick(["a", "open", "*a"]) + ": " + r.pick(names) + "." + r.pick(attrs))
            elif k == 7:
                lines.append(ind + r.pick(["global ", "nonlocal "]) + r.pick(names) if ind else "y = f'{" + r.pick(names) + "." + r.pick(attrs) + "}'")
            elif k == 8:
                lines.append(ind + "with open('f') as f: pass" if r.chance(0.5) else ind + "with " + r.pick(names) + "." + r.pick(attrs) + "('f'): pass")
            elif k == 9:
                lines.append(ind + r.pick(["async def g(): await h()", "del " + r.pick(names), r.pick(names) + " = 1", "x: " + r.pick(names) + " = 1"]))
            elif k == 10:
                lines.append(ind + "try:\n" + ind + "    " + r.pick(names) + "\n" + ind + "except " + r.pick(["OSError", "eval", "(A, open)"]) + ":\n" + ind + "    pass")
            else:
                lines.append(ind + "match x:\n" + ind + "    case " + r.pick(["1", "{'k': v}", "C(a=" + r.pick(names) + ")", r.pick(names) + "." + r.pick(attrs)]) + ":\n" + ind + "        pass")
        out.append("\n".join(lines) + "\n")
    return out


def corr_visit(model, r, n_gen, n_files):
    acc = Acc("SafetyAnalyzer.visit / import roots vs PyAst.visit / importRoots")
    items = []
    for src in gen_sources(r, n_gen):
        items.append(("gen", src))
    for p in corpus_files(r, n_files):
        try:
            items.append((os.path.relpath(p, "/"), open(p, encoding="utf-8").read()))
        except (OSError, UnicodeDecodeError):
            continue
    reqs, keep = [], []
    old = sys.getrecursionlimit()
    sys.setrecursionlimit(10000)
    try:
        for label, src in items:
            tree, impl = impl_visit(src)
            if tree is None:
                acc.stats["unparsable_or_too_deep"] += 1
                continue
            try:
                j = ser(tree)
            except RecursionError:
                acc.stats["unparsable_or_too_deep"] += 1
                continue
            reqs.append({"op": "py_visit", "tree": j})
            keep.append((label, src, impl))
    finally:
        sys.setrecursionlimit(old)
    reps = model.batch(reqs)
    for (label, src, impl), rep in zip(keep, reps):
        got = rep
        if isinstance(rep, dict) and "roots" in rep:
            got = {"violations": rep["violations"], "roots": sorted(set(rep["roots"]))}
        nv = len(impl["violations"])
        acc.case([label, src[:2000] if label == "gen" else label], impl, got, nontrivial=nv > 0,
                 tag=("corpus" if label != "gen" else "gen") + (":clean" if nv == 0 else ":violations"),
                 sample={"source": (src[:160] if label == "gen" else label), "violations": nv})
    return acc.result()


# ---------------------------------------------------------------- analyze_python_file (Model/PyFile.lean)

COOKIE_LINES = [
    "# -*- coding: utf-8 -*-", "# coding: latin-1", "#coding=utf-7", "# vim: set fileencoding=cp1252 :", "#!/usr/bin/python", "# coding:", "# coding: ", "# coding:\tUTF_8",
    "  \t# coding=US-ASCII", "\x0c# coding: utf8", "x = 1  # coding: latin-1", "# decoding: x coding: utf-16", "# coding: -", "# coding=İso", "# coding : latin-1", "# coding:latin_1 extra",
    "# -*- coding: utf-8-sig -*-", "#", "", "# coding:: utf-16 coding: ascii", "# Coding: latin-1", "# coding: ＵＴＦ-8", "# coding:.", "# coding: utf-8\r",
]
BODIES = [
    "import json\nprint(json.dumps(1))\n", "import os\nos.system('id')\n", "x = (\n", "import json, math\nfrom collections import OrderedDict\n", "from . import x\n", "print(1)\n", "",
    "import json.decoder\nimport xml.etree.ElementTree as ET\n", "def f():\n    import random\n    return random.random()\n", "x = eval('1')\n", "import calendar\ncalendar.sys\n",
]


def record_facts(path):
    import pathlib

    p = pathlib.Path(path)
    facts = {"exists": p.exists(), "is_file": p.is_file(), "suffix": p.suffix, "size": None, "source": None, "tree": None, "shadowed": []}
    try:
        facts["size"] = p.stat().st_size
    except OSError:
        pass
    try:
        facts["source"] = p.read_text(encoding="utf-8")
    except (OSError, UnicodeDecodeError):
        pass
    if facts["source"] is not None:
        try:
            tree = ast.parse(facts["source"])
            facts["tree"] = ser(tree)
            roots = set()
            for node in ast.walk(tree):
                if isinstance(node, ast.Import):
                    roots |= {a.name.split(".")[0] for a in node.names}
                elif isinstance(node, ast.ImportFrom) and node.module:
                    roots.add(node.module.split(".")[0])
            for root in sorted(roots):
                try:
                    sh = (p.parent / f"{root}.py").exists() or (p.parent / root).is_dir()
                except OSError:
                    sh = True
                facts["shadowed"].append([root, sh])
        except (SyntaxError, ValueError, RecursionError):
            pass
    return facts


def reason_class(reason: str, facts) -> str:
    for pre in ("file not found", "not a file", "cannot stat file", "cannot read file", "syntax"):
        if reason.startswith(pre):
            return pre
    if reason.startswith("local module shadows import: "):
        root = reason.split(": ", 1)[1]
        return "local module shadows import: <" + ("a shadowed root" if [root, True] in facts["shadowed"] else "NOT SHADOWED " + root) + ">"
    return reason


def corr_pyfile(model, r, n):
    import shutil
    import tempfile

    import dippy.cli.python as P

    acc = Acc("analyze_python_file vs PyFile.analyzeFile (recorded file facts)")
    root = os.path.realpath(tempfile.mkdtemp(prefix="dippy-verif-pyfile-"))
    try:
        items = []
        for i in range(n):
            d = os.path.join(root, "d%d" % i)
            os.makedirs(d)
            name = r.pick(["s.py", "s.py", "s.py", "s.pyw", "s.txt", "s.PY", "s", "s.py.bak", ".py", "a.b.py"])
            path = os.path.join(d, name)
            kind = r.pick(["text", "text", "text", "text", "missing", "dir", "big", "badutf8", "latin1bytes", "symlink", "dangling"])
            lines = []
            for _ in range(r.randint(0, 2)):
                lines.append(r.pick(COOKIE_LINES) if r.chance(0.6) else r.pick(["#!/usr/bin/env python3", "'''doc'''", "", "import math"]))
            text = "\n".join(lines + [r.pick(BODIES)])
            if kind == "text":
                open(path, "w", encoding="utf-8", newline="").write(text)
            elif kind == "dir":
                os.makedirs(path)
            elif kind == "big":
                # sizes around the 100000-byte limit; one long comment keeps the tree small
                open(path, "w").write("x = 1\n" + "#" * (100_000 - 6 + r.pick([-1, 0, 1, 2, 5000])))
            elif kind == "badutf8":
                open(path, "wb").write(b"# coding: latin-1\nx = '\xe9'\n")
            elif kind == "latin1bytes":
                open(path, "wb").write(b"x = 1\n\xff\xfe\n")
            elif kind == "symlink":
                tgt = os.path.join(d, "target.py")
                open(tgt, "w").write(text)
                os.symlink(tgt, path)
            elif kind == "dangling":
                os.symlink(os.path.join(d, "nothing"), path)
            # siblings that may shadow an import
            for sib in r.sample(["json.py", "math.py", "json", "collections", "random.py", "calendar", "xml.py", "os.py"], r.randint(0, 2)):
                sp = os.path.join(d, sib)
                if not os.path.lexists(sp):
                    if sib.endswith(".py"):
                        open(sp, "w").write("")
                    else:
                        os.makedirs(sp)
            items.append((kind, path))
        reqs, keep = [], []
        import pathlib

        for kind, path in items:
            facts = record_facts(path)
            try:
                ok, reason = P.analyze_python_file(pathlib.Path(path))
            except Exception as e:  # noqa: BLE001
                ok, reason = None, "raised " + type(e).__name__
            reqs.append({"op": "py_file", "facts": facts})
            keep.append((kind, path, facts, ok, reason))
        reps = model.batch(reqs)
        for (kind, path, facts, ok, reason), rep in zip(keep, reps):
            impl = {"safe": ok, "reason": reason_class(reason, facts) if ok is False else None}
            got = rep
            if isinstance(rep, dict) and "safe" in rep:
                got = {"safe": rep["safe"], "reason": reason_class(rep.get("reason") or "", facts) if rep["safe"] is False else None}
            acc.case([kind, os.path.basename(path), (facts["source"] or "")[:300], facts["shadowed"]], impl, got, nontrivial=facts["source"] is not None,
                     tag=kind + ":" + ("safe" if ok else (impl["reason"] or "?").split(":")[0][:30]), sample={"kind": kind, "name": os.path.basename(path), "result": impl})
    finally:
        shutil.rmtree(root, ignore_errors=True)
    return acc.result()
