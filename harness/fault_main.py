#!/usr/bin/env python3
"""Run dippy.dippy.main() with a fault injected from outside (no source hook):
   fault_main.py REPO_SRC FAULT   where FAULT is one of
     analyze:<ExcName>[:k]     analyze() raises at its k-th call (default 1)
     load:<ExcName>            load_config() raises
     logdecision:<ExcName>     log_decision() raises
     handler:<ExcName>         every CLI handler's classify() raises
     parse:<ExcName>           the bash parser raises
"""
import builtins
import sys

sys.path.insert(0, sys.argv[1])
fault = sys.argv[2].split(":")
sys.argv = [sys.argv[0]] + sys.argv[3:]

import dippy.dippy as D  # noqa: E402
import dippy.core.analyzer as A  # noqa: E402

EXC = {n: getattr(builtins, n) for n in ("ValueError", "TypeError", "KeyError", "RuntimeError", "OSError", "AttributeError", "RecursionError", "MemoryError", "UnicodeError", "AssertionError", "IndexError", "ZeroDivisionError", "NotImplementedError", "PermissionError")}
exc = EXC[fault[1]]
k = int(fault[2]) if len(fault) > 2 else 1
count = [0]


def raiser(real):
    def f(*a, **kw):
        count[0] += 1
        if count[0] >= k:
            raise exc("injected")
        return real(*a, **kw)

    return f


if fault[0] == "analyze":
    D.analyze = raiser(D.analyze)
elif fault[0] == "load":
    D.load_config = raiser(D.load_config)
elif fault[0] == "logdecision":
    D.log_decision = raiser(D.log_decision)
elif fault[0] == "parse":
    A.parse = raiser(A.parse)
elif fault[0] == "handler":
    real_get = A.get_handler

    class P:
        def __init__(self, h):
            self.h = h

        def classify(self, ctx):
            raise exc("injected")

        def __getattr__(self, n):
            return getattr(self.h, n)

    A.get_handler = lambda name: (P(real_get(name)) if real_get(name) is not None else None)
D.main()
