#!/usr/bin/env python3
"""Run registered checks against a seeded change: apply patch to /repo, run demo + checks, undo.
Usage: seedtest.py <seed_dir> <PROP> [<PROP>...] [--suite]"""
import json
import os
import subprocess
import sys

REPO = "/repo"
VERIF = os.path.dirname(os.path.dirname(os.path.abspath(__file__)))


def sh(cmd, **kw):
    return subprocess.run(cmd, shell=True, capture_output=True, text=True, **kw)


def main():
    args = [a for a in sys.argv[1:] if not a.startswith("--")]
    seed = args[0]
    props = args[1:]
    suite = "--suite" in sys.argv
    patch = os.path.join(seed, "patch.diff")
    demo = os.path.join(seed, "demo.py")
    assert sh(f"git -C {REPO} status --porcelain").stdout.strip() == "", "/repo not clean"
    res = {"seed": seed}
    r0 = sh(f"PYTHONPATH={REPO}/src /venv/bin/python {demo} {REPO}", cwd="/tmp")
    res["demo_unpatched_exit"] = r0.returncode
    a = sh(f"git -C {REPO} apply {patch}")
    if a.returncode != 0:
        a = sh(f"git -C {REPO} apply --3way {patch}")
    if a.returncode != 0:
        print(json.dumps({"error": "patch does not apply", "stderr": a.stderr[-500:]}))
        sh(f"git -C {REPO} reset -q --hard HEAD")
        return 2
    # the evidence files describe the unchanged tree: what the checks write while the seed is applied is put back afterwards
    import shutil
    import tempfile

    ev_backup = tempfile.mkdtemp(prefix="dippy-verif-evidence-")
    shutil.copytree(os.path.join(VERIF, "evidence"), os.path.join(ev_backup, "evidence"))
    try:
        r1 = sh(f"PYTHONPATH={REPO}/src /venv/bin/python {demo} {REPO}", cwd="/tmp")
        res["demo_patched_exit"] = r1.returncode
        res["demo_patched_tail"] = (r1.stdout + r1.stderr)[-300:]
        if suite:
            t = sh(f"cd {REPO} && /venv/bin/python -m pytest -q -p no:cacheprovider -n 16 tests 2>&1 | tail -2")
            res["suite"] = t.stdout.strip().splitlines()[-1] if t.stdout.strip() else ""
        res["checks"] = {}
        for p in props:
            c = sh(f"cd {VERIF} && ./check {p}")
            lines = [l for l in c.stdout.splitlines() if l.startswith("VIOLATION") or l.startswith(p + ":")]
            replay = None
            for l in c.stdout.splitlines():
                if l.startswith("VIOLATION") and "replay=" in l:
                    replay = l.split("replay=")[1].split()[0]
                    break
            info = {"exit": c.returncode, "lines": lines[:3]}
            if replay:
                try:
                    pl = json.load(open(os.path.join(VERIF, replay)))
                    info["replay"] = {k: pl.get(k) for k in ("kind", "oracle", "input", "required") if k in pl}
                    if isinstance(info["replay"].get("input"), dict):
                        info["replay"]["input"] = {k: (v if len(json.dumps(v)) < 1500 else "<%d bytes omitted>" % len(json.dumps(v))) for k, v in info["replay"]["input"].items()}
                except Exception:
                    pass
            res["checks"][p] = info
    finally:
        sh(f"git -C {REPO} reset -q --hard HEAD; git -C {REPO} clean -fdq src")
        for f in os.listdir(os.path.join(ev_backup, "evidence")):
            shutil.copy2(os.path.join(ev_backup, "evidence", f), os.path.join(VERIF, "evidence", f))
        shutil.rmtree(ev_backup, ignore_errors=True)
    print(json.dumps(res, indent=1, ensure_ascii=True, default=str))
    return 0


if __name__ == "__main__":
    sys.exit(main())
