#!/usr/bin/env python3
"""Regenerate MANIFEST.json from the table below (run after adding a property check)."""
import json
import os

VERIF = os.path.dirname(os.path.dirname(os.path.abspath(__file__)))

COMMON_NOTE = (
    "Trusted base: Lean 4.33.0 kernel; axioms ⊆ {propext, Classical.choice, Quot.sound} (audited per theorem on every run); "
    "the T0 translator (harness/gen_tables.py) and the T1 correspondence harness (the hand model is shown equal to the code only on "
    "generated inputs); vendor/parable.py, CPython's re/fnmatch/pathlib/json and the un-modelled handler modules are modelled as oracles, not verified."
)

CLAIMED = {
    "C03": {
        "text": "Proof (Lean 4): for every World (rule set, handler answers, parser answers), cwd and fuel, the verdict of each composition "
        "constructor of the analyzer model equals the join (deny>ask>allow) of its constituents' verdicts, a simple command's verdict is the join of "
        "its substitutions, redirections and the command proper, and order/repetition/nesting depth are irrelevant (29 theorems, unbounded). The model is tied to "
        "analyzer.py by differential runs on the same Parable AST (action and reason); a metamorphic max-of-parts oracle on the real analyze() finds failing inputs.",
        "design_ref": "DESIGN.md §8 C03",
        "technique": "Lean 4 theorems over a hand model (structural induction, R1) + T0 generated tables + T1 model/implementation correspondence + metamorphic failing-input search",
    },
    "C07": {
        "text": "Proof (Lean 4): for every rule list, path environment and command the rule engine returns the last matching rule (R3), a non-matching rule is inert "
        "wherever it is inserted, a matching rule decides the simple command's verdict (deny/ask carry the message), no match gives the built-in verdict, literal patterns "
        "match exactly by whole-word prefix (exactly with |) – via a hand model of CPython's fnmatch – and env-assignment prefixes / transparent wrappers hide nothing from the rules. "
        "Tied to config.py/analyzer.py by differential runs (fnmatch, match_command, analyze with the model computing rule lookups from the parsed config)."
        " Added in the hardening rounds: the command proper is judged on the words as spelled and on the words after bash's quote removal (removeQuotes, a four-mode scanner whose tables come from T0), the stricter verdict counts: a rule matching the words as bash reads them bounds the verdict from below (rule_on_unquoted_bounds, rule_bounds_env_prefix); rule_through_env_prefix holds when quote removal changes nothing.",
        "design_ref": "DESIGN.md §8 C07",
        "technique": "Lean 4 theorems over a hand model (R3 last-match, fnmatch literal lemmas) + T0 tables + T1 correspondence + rule-by-rule failing-input search",
    },
    "C08": {
        "text": "Proof (Lean 4): R1 flattened (verdict_eq_leaves: the verdict of any tree is the join of the decisions of its syntactic atoms, one mutual structural induction over the whole AST). "
        "For the world after adding an allow rule (withAllow): the atoms of a tree are unchanged, redirect/injection/unknown atoms give identical decisions, a command none of whose word suffixes the rule matches keeps "
        "verdict and reason, the matched command's proper atom becomes allow, and every atom's decision bounds the new verdict from below (redirect_survives, unmatched_command_survives, unmatched_tree_unchanged). "
        "Tied to the code by end-to-end correspondence under extended rule sets; failing-input search by rule-locality oracles on analyze().",
        "design_ref": "DESIGN.md §8 C08",
        "technique": "Lean 4 theorems (R1 flattened over syntactic atoms, two-world comparison) + T1 correspondence in config mode + rule-locality failing-input search",
    },
    "C14": {
        "text": "Proof (Lean 4): match_mcp is last-matching-glob over the *-mcp rules only; the shell rule lookups depend only on command rules, redirect rules and aliases (hence the whole analysis: World.withConfig equal); "
        "at the level of config text, deleting/adding MCP lines leaves every shell-relevant field of the parsed configuration unchanged and vice versa (R4 projections of the line-fold parser). "
        "Tied to config.py by differential runs (parse_config, match_mcp, match_after_mcp, fnmatch); failing-input search by paired config edits on analyze() and check_mcp_tool().",
        "design_ref": "DESIGN.md §8 C14",
        "technique": "Lean 4 theorems (R3 last-match, R4 parser projections) + T1 correspondence + paired-config failing-input search",
    },
    "C11": {
        "text": "Proof (Lean 4): the parser model is a fold of per-line results (line_local), a line whose result is skip is the identity wherever it stands (bad_line_identity), parsing a concatenation "
        "is parsing the second text on top of the first and agrees with _merge_configs on every rule list, log and log-full (parse_merge_hom; default_not_hom records the dead field), and the quoted-message syntax "
        "round-trips for every message over all characters and every pattern without trailing whitespace (unescape_escape, extract_render, by induction). White space around a line never changes its meaning and a white-space-only line is skipped, for every line and text (line_congr, line_padding_invariant, text_padding_invariant, blank_line_skip). Totality of the real parser (no exception escapes) and the "
        "rule-level round trip are established by correspondence and by the direct oracle, not by a theorem; the last sentence (broken config never allows) is exercised on the real hook under config-layer faults.",
        "design_ref": "DESIGN.md §8 C11",
        "technique": "Lean 4 theorems (R4 parser fold, escape round trip by induction) + T1 correspondence on parse_config and helpers + round-trip / bad-line / hook-fault failing-input search",
    },
    "C10": {
        "text": "Proof (Lean 4): over an arbitrary file-system oracle (any layout, symlinks, cwd), _find_project_config returns the nearest ancestor-or-self .dippy that is a regular file (find_nearest/find_none), "
        "load_config on a readable layout returns the ordered merge user -> project -> env (load_is_merged), and that merge is observably (all five rule lists, log, log-full) the parse of the single text "
        "user NEWLINE project NEWLINE env with absent layers contributing nothing (layers_concat, via the parser homomorphism and splitLines_join). Aliases and the error branches are tied by correspondence only. "
        "The model is tied to config.py by running the real load_config on generated directory layouts with every pathlib answer recorded as the FS oracle.",
        "design_ref": "DESIGN.md §8 C10",
        "technique": "Lean 4 theorems (layer merge = concatenation via R4, nearest-file walk) + T1 correspondence on real directory layouts + independent concatenation oracle",
    },
    "C09": {
        "text": "Proof (Lean 4): relative to a file-system resolution oracle, a redirect target (and a path argument of a command rule) is normalised to the file it denotes (normalizePath_denotes), hence two spellings "
        "of the same file get the same redirect-rule verdict for every rule set and cwd (spelling_invariant); for the symlink-free resolution, x/.. detours, . segments, repeated and trailing slashes do not change the file "
        "(four lemmas by induction over segment lists); a target granted by allow-redirect D/** denotes a file under D/ (confined, via a model of the regex _glob_to_regex builds); inside ** patterns * and ? never consume '/'. "
        "Tied to config.py by differential runs with every Path.resolve answer recorded; failing-input search in a real scratch tree with symlinks (realpath-equal spellings, confinement).",
        "design_ref": "DESIGN.md §8 C09",
        "technique": "Lean 4 theorems (denotation spec vs normalisation, lexical resolution lemmas, ** regex model) + T1 correspondence with recorded pathlib answers + realpath-based failing-input search",
    },
    "C05": {
        "text": "Proof (Lean 4): for every World, a simple command whose program is on no table, matches no rule and is not a wrapper is answered ask with its description unless the help/version predicate holds "
        "(unknown_asks, unknown_never_allowed), that predicate is exactly the documented shape (help_shape), parse errors / empty text / no nodes / unknown node kinds yield ask, _strip_quotes can only turn n, \"n\" or 'n' into n "
        "(name_spelling) and - as obligations on the tables regenerated from the source on every run - every table name is plain, no launcher is on the always-safe list, the help tuples are the documented ones. The command text loses only blanks, tabs and newlines and only at its ends, for every text (strip_removes_only_blanks, strip_ends_clean, strip_idem), and such padding never changes a verdict (analyze_padding_invariant). "
        "Tied to analyzer.py by differential runs on unknown names and malformed text; failing-input search with the program name computed by real bash.",
        "design_ref": "DESIGN.md §8 C05",
        "technique": "Lean 4 theorems + decide-checked obligations on T0-generated tables + T1 correspondence + bash-grounded failing-input search",
    },
    "C06": {
        "text": "Proof (Lean 4): over a total model of main() in which every external answer (cwd resolution, config loading, analysis, tokenisation, log sinks) is an arbitrary oracle that may also raise, and stdin is any byte string "
        "(undecodable / not JSON / a JSON value of any shape): a pre-execution event always yields exactly one JSON object (hook_one_object), any output is one object, one feedback line or nothing, an allow answer implies a completed analysis "
        "that said allow, an MCP rule that allows, or a bypass mode (hook_allow_only_if + analysis_provenance), and every failure path (exception anywhere inside the try, unusable cwd, config error) yields {} or ask. "
        "That nothing escapes the try and the process exits 0 is a T0 obligation on the shape of main() re-derived from the source on every run. Tied by subprocess correspondence and fault injection from outside the source.",
        "design_ref": "DESIGN.md §8 C06",
        "technique": "Lean 4 theorems over a total hook model (Option monad for Python exceptions) + T0 shape obligations on main() + subprocess correspondence + fault injection",
    },
    "C12": {
        "text": "Proof (Lean 4): in the hook model the verdict (Result) is computed by functions that do not take the host mode as an argument; the mode only selects the route to the command text and the envelope. "
        "Theorems: mode_precedence / explicit_order (flag or variable first, claude > gemini > cursor, input shape otherwise), verdict_mode_free (decision and reason read from any two hosts' envelopes coincide), "
        "shell_route_mode_free (Cursor-shaped and Claude/Gemini-shaped inputs with the same command reach the same result), the three envelope_* equalities (exact fields), output_is_envelope, mismatched_shape_defers. "
        "Tied by subprocess correspondence over the flag/variable cross product; failing-input search compares the three hosts on the same command and validates envelope schemas.",
        "design_ref": "DESIGN.md §8 C12",
        "technique": "Lean 4 theorems over the hook model + T0 name tables + subprocess correspondence + three-host differential search",
    },
    "C19": {
        "text": "Proof (Lean 4): for every stdin and environment a PostToolUse event prints nothing, one duck-prefixed message, or {} and never a permission decision (post_output, post_no_decision); the message is that of the last matching "
        "after / after-mcp rule (R3); the rule lookups of the analysis and the MCP lookup do not read the after rules, and deleting or adding after lines anywhere in a config text leaves rules, redirect rules, aliases and mcp rules unchanged "
        "(after_rules_invisible, after_lines_invisible). tokenize() is an oracle of the model (tied by correspondence). Search: real hook on PostToolUse inputs against an independently computed expected line; pre-execution stdout with vs without after lines.",
        "design_ref": "DESIGN.md §8 C19",
        "technique": "Lean 4 theorems over the hook model and the parser fold + subprocess correspondence + independent expected-feedback oracle",
    },
    "C15": {
        "text": "Proof (Lean 4): (i) over a fault-schedule model of configure_logging/log_decision (each of mkdir/open/write ends ok, OSError, ValueError or other), logging never raises under any schedule of swallowed classes, hence the hook's "
        "stdout is identical to the run where logging works or is off (log_transparent); the hypothesis is shown necessary (log_transparent_full_fails); a working sink appends exactly one entry with the documented keys and 'command' iff "
        "log-full (one_line_per_decision, entry_keys, full_only_if_set). (ii) N processes each doing one atomic write leave a permutation of whole lines under every interleaving (concurrent_lines). Which real faults map to which exception "
        "class, and that one entry is one write(2) on an O_APPEND descriptor, are established by running the real hook under real faults, by strace and by concurrent runs - validation, not proof.",
        "design_ref": "DESIGN.md §8 C15",
        "technique": "Lean 4 theorems over a fault-schedule model and an interleaving model + in-process fault-injection correspondence + real-fault subprocess differential + strace",
    },
    "C01": {
        "text": "Proof (Lean 4): Spec/Reach.lean lists, one constructor per syntactic position and without reference to the analyzer, every evaluation step bash performs (command words and redirect targets, lists, pipelines, "
        "if/while/until/for/select/case incl. patterns, functions, subshells, groups, time, !, coproc, [[ ]] operands, (( )), command/process substitutions, ${..} names with subscripts and arguments, $((..)), $[..], array elements, "
        "unquoted here-document bodies, for((..)) headers). Theorems: every such step stays inside the flattened atoms (child_atoms/reach_atoms, ~70 cases); if a tree is approved every reachable command node is approved on its own "
        "(no_hidden_execution), every substitution the scanner finds in a reachable raw text is reliably delimited and approved (text_substitutions_allowed), and by induction on fuel the same holds for command strings to any depth "
        "of re-parsed text (no_hidden_execution_deep). T0 obligations: every Parable node kind is dispatched, sub-syntax or asked about. Not proved: that Parable's AST and the scanner's reading of raw text agree with bash - that half "
        "is validated by executing every approved generated program under real bash 5.2 in a jail of logging stubs (also the failing-input search)."
        " Added in the hardening rounds: the subscript of an array assignment is taken up to the last ]= of the word, and the body of a substitution that contains a single quote is scanned as raw text as well (scan_rescans_quoted_body); the parser's reading of 'esac )' was repaired after the thorough tier found it (F01m) - the parser remains an oracle, tied by the jail and by C03's composition matrix.",
        "design_ref": "DESIGN.md §8 C01",
        "technique": "Lean 4 theorems (independent Reach spec vs flattened atoms, induction on fuel) + T0 kind obligations + T1 correspondence on ASTs + real-bash jail execution (T2)",
    },
    "C02": {
        "text": "Proof (Lean 4): in an approved tree every redirection in every evaluated position (simple commands, groups, subshells, loops, conditionals, case, [[ ]], (( )), nested substitutions - via the Reach specification of C01) whose operator "
        "writes and whose target is not a non-file sink is granted by a redirect rule whose decision is allow (write_redirect_granted), that rule is the last one matching the file the target denotes (R3, C09), a later ask/deny rule overrides, and a handler CLI is "
        "allowed only if every write target it reports is granted (tool_targets_granted). Independent operator/sink tables are checked against the tables regenerated from the source (op_table_complete/sound, fd-prefix regex). "
        "Not proved: which directory bash is in (finding F02b) and what the tools really write - validated by executing every approved generated command under real bash with real tee/sort/sed/awk/iconv in a jail and diffing the file tree against match_redirect on real paths.",
        "design_ref": "DESIGN.md §8 C02",
        "technique": "Lean 4 theorems (coverage of redirect atoms, R3, tool-target loop) + T0 operator/sink obligations + T1 correspondence in config mode + real-bash/real-tool file-tree diff (T2)",
    },
    "C04": {
        "text": "Proof (Lean 4): (a) for every argument vector, bash's lexer (specified independently as shellWords over the quoting sub-language) reads bash_join(ts) back as exactly ts (quote_roundtrip, for every sound alnum predicate and "
        "for Python's isalnum via T0's Unicode table), and the first word is never an assignment prefix (first_word_is_command); (b) a handler's delegate answer is the whole verdict: builtinVerdict = analyze(inner text), and a launcher that runs "
        "something never takes the generic help/version shortcut (delegate_verdict, no_help_shortcut_for_launchers); (c) pure wrappers give exactly the wrapped command's verdict (pure_wrapper_exact + skip_* lemmas incl. timeout -s/-k, nice -n); "
        "(d) Lean models of shell/env/xargs/find/fd/arch/caffeinate/script classify and docker/kubectl exec extraction: the delegated text is the re-quoting of a suffix of the command line (nothing dropped/reordered/invented), a shell's -c string is "
        "delegated verbatim, find delegates every -exec/-execdir clause (find_all_clauses vs the independent execClauses spec), kubectl exec delegates exactly the words after the first --. Not proved: that the skipped option prefix is what the real tool "
        "treats as options - validated by running every approved wrapper form under the real env/xargs/find/timeout/nice/nohup/sh in a jail (T2). The fzf handler and docker's dispatch remain oracles (monotonicity search only)."
        " Added in the hardening rounds: models and theorems for uv run, tar (delegation only when extracting; abbreviated program-running options), fd (every -x/-X clause, =-joined and combined forms: fdLoop_keeps, fdLoop_fuel), script (option clusters; unknown options ask), the shells' option scan before -c (afterCFlag_position, shell_script_operand_asks), kubectl's action detection (C13.kubectl_delegates_exec_only), option clusters of timeout/nice (skip_cluster_with_arg); decoy forms and a cwd-sensitive inner command in the search.",
        "design_ref": "DESIGN.md §8 C04",
        "technique": "Lean 4 theorems (lexer round trip by induction, handler models, delegate = verdict) + T0 flag tables + T1 correspondence (bash_quote, 8 handler classify models, analyzer) + monotone-verdict search + real-tool jail (T2)",
    },
    "C13": {
        "text": "Proof (Lean 4): (1) the remote flag is constant through the walk of one tree (walk_flag_constant: mutual induction over every node, word, redirection, condition and arithmetic position), so a local analysis judges every command, raw text and "
        "redirection of the outer command line locally (outer_commands_local, outer_texts_local, local_verdict_local_atoms with R1); the flag changes only at a handler's delegation (C04.delegate_verdict); (2) a remote walk consults no file-redirection atom "
        "but still walks redirect targets and here-documents for substitutions; (3) remote rule lookups read neither the path environment, the cwd nor the aliases (remote_rules_env_free, remote_rules_alias_free) but every rule: a matching rule decides "
        "(remote_rule_decides, remote_literal_deny); (4) a simple command whose lookups agree in both modes and whose handler reports no write targets gets the same verdict and reason (remote_eq_local_simple, induction through wrappers); (5) kubectl exec "
        "delegates exactly the words after the first --, docker exec a non-empty suffix after the container. The docker/kubectl dispatch up to `exec` is an oracle (World.classify). Search on the implementation: delegate = analyze(INNER, remote=True), "
        "remote <= local, path-free equality, deny rules bite, outer contexts keep their verdict."
        " Added in the hardening rounds: which kubectl command lines are an exec at all (kubectlOperands/kubectlDelegates with the source's FLAGS_WITH_ARG: kubectl_delegates_exec_only, exec_not_tabled); exec forms in the search are drawn from reference option grammars of kubectl and docker.",
        "design_ref": "DESIGN.md §8 C13",
        "technique": "Lean 4 theorems (flag constancy by mutual induction, env-free remote matching, simple-command equality) + T1 correspondence in config mode (remote lookups computed by the model) + exec-extraction models + metamorphic search",
    },
    "C18": {
        "text": "Proof (Lean 4): over a model of the process state T0 finds in the source (the lru_cache around _load_handler, MODE, _log_config, _log_disabled) and of an analysis as an arbitrary adaptive lookup program: the cache is transparent "
        "(lru_transparent: value = loader's value, invariant kept, size <= capacity, for every capacity and key sequence), an analysis computes against any sound cache what it computes against the loader (analysis_cache_free, by induction on the program), "
        "and by induction over histories the stdout and logging effect of an invocation after ANY sequence of earlier invocations (any commands, configurations, hosts, failing log sinks, more handlers than the cache holds) equal those of a fresh process "
        "(history_free, repeat_same, cache_bounded). T0 obligations: the extracted inventory of mutable process state equals what the model accounts for (inventory_covered), MODE is assigned before it is read and nowhere else, configure_logging "
        "re-arms logging first (shape_facts). Tie: LRU model vs functools.lru_cache and vs the real _load_handler statistics; long random histories in one interpreter vs a fresh process per query. What an analysis computes from its inputs is the analyzer model of C01-C08 (here a parameter).",
        "design_ref": "DESIGN.md §8 C18",
        "technique": "Lean 4 theorems (LRU invariant, free-monad lookup programs, induction over histories) + T0 mutable-state inventory obligation + LRU correspondence + fresh-vs-history differential search",
    },
    "C20": {
        "text": "Proof (Lean 4): (i) for every session id the cache entry's file name has no '/', is not '.'/'..', ends in 'e' - so it is inside the cache directory and is neither the MCP list (mcp.list) nor any temporary '….tmp.<pid>' - and truthy "
        "non-string ids never reach the file system (cache_confined, entry_is_not_a_tmp, cachePath_cases, nonstring_id_no_cache); (ii) over a model of main/build_statusline in which every data source and the whole cache directory are arbitrary oracles, "
        "the output is non-empty and is one line whenever the fragments are, whatever the cache holds (main_nonempty, main_single_line), and file-sourced text is collapsed to one line (collapse_single_line, via Python's str.split on T0's Unicode table); "
        "(iii) over a small-step model of open(tmp.PID,'w'); write*; rename(tmp.PID, path) with arbitrary interleaving of any number of invocations and a kill between any two system calls, the entry is always its previous content or the complete output of one "
        "invocation (untorn, invariant by induction over schedules, assuming distinct temporary names), and the assumption is necessary (shared_tmp_tears). T0: names and protocol shape (t0_statusline). That no exception escapes main for any JSON shape and file state "
        "is established by the subprocess search (exit 0, no traceback, tree diff), not by a theorem.",
        "design_ref": "DESIGN.md §8 C20",
        "technique": "Lean 4 theorems (name confinement, oracle-parametrised output model, interleaving invariant with crash points) + T0 protocol-shape obligation + name/collapse correspondence + subprocess search over stdin x file states + forced schedules and concurrent runs",
    },
    "C16": {
        "text": "Proof (Lean 4), classifier side, for every input text: a text with a second statement after a separator outside quotes and comments is never read-only (second_statement_detected, multi_never_ro, ro_single); read-only implies the main statement - after any WITH prefix, "
        "as located by the modelled _skip_cte - begins with SELECT without INTO before FROM or with a read-only keyword (ro_shape); a write keyword first, an unknown first token (dot-commands included) or SELECT INTO is never read-only; a sqlite3 command line is a read-only query "
        "only if every SQL argument and -cmd argument is read-only on its own (args_separate, write_arg_asks, allowed_cases). The regular expressions are modelled by what CPython's backtracking matcher returns (greedy quote pairs with end-of-text backtracking, non-greedy block comments); "
        "str.upper is modelled for everything that can become an ASCII keyword (T0 table). T0 obligations: keyword sets disjoint, the six alternatives of the quoting pattern. NOT proved (engine semantics, exercised by T2): that such a single statement leaves an SQLite database unchanged - "
        "every generated text classified read-only is executed by the real engine and the state diffed. Shell-only side-effect functions: finding F16b."
        " Added in the hardening rounds: -readonly/-safe/-init count only in option position (optionWords: option_value_skipped, readonly_mode_option) and -init asks whatever else is given (init_script_asks); the shell's option grammar is simulated in the search (assumption: the binary is not installed). -safe treated as read-only: finding F16d (pinned by the suite).",
        "design_ref": "DESIGN.md §8 C16",
        "technique": "Lean 4 theorems over a hand model of the scanner (regex semantics modelled) + T0 keyword/pattern obligations + T1 correspondence (strip, multi, classify, sqlite3 handler) + real SQLite engine state diff (T2)",
    },
    "C17": {
        "text": "Proof (Lean 4), command-line half, for every token list: against an independently written CPython argv grammar (pythonRuns: options end at the first non-option word; -c, -m and a lone dash end them; option values are skipped) an approved `python ...` "
        "only prints help/version, runs -m calendar, or runs a script whose file - resolved in the command's cwd - passed the file analysis (runs_analysed_file, via spec_holds relating the handler's two scans to the grammar by induction); whatever follows the script word cannot change "
        "the verdict (program_args_inert); a program read from stdin or given inline is never approved; the only three ways to an approval (approval_needs). T0: flag tables, suffix and size gates, module tables disjoint. NOT modelled: CPython's run-time "
        "behaviour - 'a script that passes the checker raises no dangerous audit event' is exercised by executing every approved generated script (60 access paths x wrappers x option placements) in a child interpreter whose PEP 578 audit hook records and vetoes file, process, "
        "network, ctypes, exec/compile and unlisted-import events. Library-internal compile events (dataclasses, namedtuple): finding F17d."
        " Added in the hardening rounds: SafetyAnalyzer and analyze_python_file are modelled (approved_covers, safe_means, approved_command_runs_checked_script); a script word the shell would tilde-expand is never resolved (tilde_refused, tilde_script_asks). Launchers that change directory first (env -C, uv run --directory): finding F17i.",
        "design_ref": "DESIGN.md §8 C17",
        "technique": "Lean 4 theorems over a model of the handler's option scans vs a CPython argv-grammar spec + T0 tables + T1 correspondence (classify with recorded file analysis; grammar vs the real interpreter) + audit-hook execution of approved scripts (T2)",
    },
}

PENDING_REASON = "check not built yet in this round (DESIGN.md §10 build order); no technique other than Lean proof + correspondence is substituted"


def main():
    props = [json.loads(l) for l in open(os.path.join(VERIF, "properties.jsonl"))]
    checks = []
    na = []
    for p in props:
        pid = p["id"]
        if pid in CLAIMED:
            c = CLAIMED[pid]
            checks.append(
                {
                    "property_id": pid,
                    "quick_cmd": f"./check {pid} --tier quick",
                    "thorough_cmd": f"./check {pid} --tier thorough",
                    "evidence_file": f"evidence/{pid}.json",
                    "replay_cmd_template": f"./check {pid} --replay {{path}}",
                    "engine": "lean-model",
                    "level_claimed": {"category": "proof", "text": c["text"], "design_ref": c["design_ref"]},
                    "level_note": c.get("note", COMMON_NOTE),
                    "technique": c["technique"],
                }
            )
        else:
            na.append({"property_id": pid, "reason": NA.get(pid, PENDING_REASON)})
    m = {
        "version": 1,
        "setup_cmd": "./setup.sh",
        "hooks": {
            "guard": "DIPPY_VERIF",
            "enable": "no source hooks are needed: the harness wraps the implementation from outside (monkeypatching in its own process, subprocess runs of bin/*)",
            "baseline_off_cmd": "cd /repo && /venv/bin/python -m pytest -ra -q -p no:cacheprovider --timeout=900 --continue-on-collection-errors",
            "source_commits": [],
            "add_only": True,
        },
        "engines": [
            {
                "name": "lean-model",
                "path": "lean/",
                "serves_properties": sorted(CLAIMED),
                "kind_free_text": "Lean 4 model (lean/Dippy/Model) + property theorems (lean/Dippy/Props) + generated tables (T0) + JSON line-protocol driver; Python correspondence harness in harness/",
            }
        ],
        "checks": checks,
        "not_applicable": na,
        "notes": "Every check: regenerate tables from /repo's working tree, lake build theorems + driver, audit axioms, run model/implementation correspondence, run the property's direct oracle on the implementation, report KNOWN-FINDING / VIOLATION. Exit 2 = infrastructure problem, never a violation.",
    }
    with open(os.path.join(VERIF, "MANIFEST.json"), "w") as f:
        json.dump(m, f, indent=1, ensure_ascii=False)
    print("claimed:", sorted(CLAIMED), "pending:", [x["property_id"] for x in na])


NA: dict = {}

if __name__ == "__main__":
    main()
