"""C03 — verdicts compose exactly as most-restrictive-wins."""
from __future__ import annotations

import collections
import re
import subprocess
from pathlib import Path

import bashgen as B
from common import rng
from corr_analyzer import correspondence as corr_run

ID = "C03"
PROP_FILES = ["C03"]
RULE = (
    "correspondence: grammar-generated bash programs (all compound kinds, substitutions, redirects, here-documents; "
    "allow/ask/deny atoms under a fixed rule set) analysed by the real analyze() and by the Lean model on the same "
    "Parable AST and recorded external answers, compared on action and reason; non-trivial = distinct text that parses. "
    "search: metamorphic oracle on the implementation: at every node of a generated program tree the verdict of the "
    "node's text equals the max of the verdicts of its direct constituents' texts (children, substitutions, redirect "
    "atoms, command proper), plus permutation / duplication / k-fold wrapping invariance."
)
TRUSTED = [
    "T0 translator harness/gen_tables.py",
    "T1 correspondence harness (harness/corr_analyzer.py, harness/ser.py): model = code only on generated inputs",
    "vendor/parable.py modelled as the oracle World.parse (AST taken as given)",
    "handler modules' classify() modelled as the oracle World.classify",
]
ASSUMES = [
    "Parable returns the AST the harness serialises; strings Parable rejects are answered ask (parse error) and are outside the compositional statement (F03b)",
    "the cwd is fixed: lists starting with a literal `cd` analyse their parts under the resolved directory (stated in list_eq)",
]

RANK = {"allow": 0, "ask": 1, "deny": 2}


def _cfg():
    from dippy.core.config import parse_config

    return parse_config(B.CONFIG_TEXT)


def correspondence(ctx):
    cfg = _cfg()
    n = ctx.scale(1500, 40000)
    if ctx.broken:
        n *= 2
    g = B.Gen(rng("c03-corr"), exotic=True, p_ask=0.2, p_deny=0.12)

    def cases():
        for _ in range(n):
            p, t = g.program()
            yield t, None

    res = corr_run(ctx.model, cases(), cfg)
    res["area"] = "analyzer (T1-b)"
    import corr_config as CC

    return [CC.corr_tables(ctx.model), res]


class Oracle:
    """max-of-parts on the implementation, node by node."""

    def __init__(self, cfg_text=None):
        from dippy.core.analyzer import analyze
        from dippy.core.config import parse_config

        self.analyze = analyze
        self.cfg_text = cfg_text if cfg_text is not None else B.CONFIG_TEXT
        self.cfg = parse_config(self.cfg_text)
        self.cwd = Path("/tmp/probe")
        self.cache: dict[str, tuple[str, str]] = {}
        self.evals = 0

    def verdict(self, text: str):
        if text not in self.cache:
            d = self.analyze(text, self.cfg, self.cwd)
            self.evals += 1
            self.cache[text] = (d.action, d.reason)
        return self.cache[text]

    def text(self, p: B.P) -> str:
        return B.finish_heredocs(p.render(), p)

    def proper_text(self, s: B.Simple) -> str:
        parts = [n + "[0]=X" for n, _sub, _w in getattr(s, "elem_assigns", [])] + [n + "=X" for n, _ in s.assigns]
        for w in s.argv:
            parts.append(w.render() if w.is_plain() else "X")
        return " ".join(parts)

    def redirect_atoms(self, p: B.P):
        out = []
        for r in getattr(p, "redirs", []):
            if r.heredoc is not None:
                continue
            t = r.target
            tt = t.render() if t.is_plain() or all(s.kind in ("lit", "sq", "dq") for s in t.segs) else None
            if tt is None:
                # target contains a substitution: the substitution is a separate part; the
                # redirect atom keeps the full text
                tt = t.render()
            out.append("true " + r.op + ("" if tt.startswith("&") else " ") + tt)
        return out

    def direct_parts(self, p: B.P):
        """(label, text) of every direct constituent."""
        parts = []
        if isinstance(p, B.Simple):
            parts.append(("proper", self.proper_text(p)))
            # the documented extra prompt: a pure $(…) argument of a handler CLI that the handler itself (rules apart)
            # does not approve is asked about ("cmdsub injection risk") - a part of its own, independent of the rules
            from dippy.cli import HandlerContext, get_handler
            from dippy.core.allowlists import SIMPLE_SAFE

            words = [w.render() for w in p.argv]
            h = get_handler(words[0]) if words else None
            if h is not None and words[0] not in SIMPLE_SAFE and any(len(w.segs) == 1 and w.segs[0].kind == "cmdsub" for w in p.argv[1:]):
                try:
                    if h.classify(HandlerContext(words, self.cwd)).action != "allow":
                        parts.append(("inject", "@ask"))
                except Exception:  # noqa: BLE001
                    pass
        if isinstance(p, B.CondExpr):
            # Dippy re-reads the whole text of a [[ ]] operand (bash evaluates -v 'a[$(cmd)]' and arithmetic operands even
            # when quoted), so a $(…) spelled inside single quotes there is a part too
            import re

            for wd in p.words():
                for sg in wd.segs:
                    if sg.kind == "sq":
                        for inner in re.findall(r"\$\(([^()]*)\)", sg.text):
                            parts.append(("quoted-text", inner))
        for c in p.children():
            parts.append(("child", self.text(c)))
        for pos, sp in p.subprograms():
            parts.append(("subst:" + pos, self.text(sp)))
        for a in self.redirect_atoms(p):
            parts.append(("redirect", a))
        return parts

    def check_node(self, p: B.P):
        """None if fine / skipped, else a violation dict."""
        text = self.text(p)
        act, reason = self.verdict(text)
        if reason.startswith("parse error"):
            return "skip"
        parts = self.direct_parts(p)
        worst = "allow"
        for label, t in parts:
            a, r = ("ask", "injection prompt") if label == "inject" else self.verdict(t)
            if r.startswith("parse error"):
                return "skip"
            if RANK[a] > RANK[worst]:
                worst = a
        if isinstance(p, B.CondExpr) and RANK[act] > RANK[worst]:
            # `[[ ]]` is not one of the composition operators the statement lists, and Dippy re-reads the raw text of its
            # operands conservatively (a quote, `=~`): only "hides nothing" is demanded here, not equality
            return None
        if act != worst:
            return {
                "input": {"command": text, "config": self.cfg_text, "cwd": str(self.cwd)},
                "observed": {"verdict": act, "reason": reason, "parts": [(l, t, "ask" if l == "inject" else self.verdict(t)[0]) for l, t in parts]},
                "required": f"verdict == most restrictive of the parts == {worst}",
                "oracle": "max-of-parts",
                "node_kind": p.kind,
            }
        return None

    def walk(self, p: B.P, out, stats):
        for c in p.children():
            self.walk(c, out, stats)
        for _, sp in p.subprograms():
            self.walk(sp, out, stats)
        r = self.check_node(p)
        stats["nodes"] += 1
        if r == "skip":
            stats["skipped_parse_error"] += 1
        elif r is not None:
            out.append(r)

    def wrap_checks(self, p: B.P, r, out, stats):
        """permutation, duplication, k-fold wrapping at the root."""
        base = self.verdict(self.text(p))
        if base[1].startswith("parse error") or p.all_heredocs():
            return
        k = r.randint(1, 4)
        q = p
        for _ in range(k):
            style = r.pick(["subshell", "brace", "negation", "time", "func"])
            if style in ("subshell", "brace"):
                q = B.Group(q, style)
            elif style == "func":
                q = B.Func("wf", B.Group(q, "brace"))
            else:
                if isinstance(q, (B.Prefix, B.Seq, B.Func)):
                    q = B.Group(q, "brace")
                q = B.Prefix(style, q)
        v = self.verdict(q.render())
        stats["wrap_checks"] += 1
        if not v[1].startswith("parse error") and v[0] != base[0]:
            out.append({"input": {"command": q.render(), "config": self.cfg_text, "cwd": str(self.cwd)}, "observed": {"verdict": v[0], "unwrapped": self.text(p), "unwrapped_verdict": base[0]}, "required": "wrapping changes nothing", "oracle": "depth-free"})
        if isinstance(p, (B.Seq, B.Pipe)) and len(p.items) >= 2:
            items = list(p.items)
            r.shuffle(items)
            if isinstance(p, B.Pipe):
                items = [it if not isinstance(it, B.Prefix) else B.Group(it, "brace") for it in items]
                q2 = B.Pipe(items + [items[0]], ["|"] * len(items))
            else:
                q2 = B.Seq(items + [items[0]], [";"] * len(items))
            v2 = self.verdict(q2.render())
            want = base[0]
            if isinstance(p, B.Pipe) and "|&" in p.ops:
                return
            stats["perm_dup_checks"] += 1
            if not v2[1].startswith("parse error") and v2[0] != want:
                out.append({"input": {"command": q2.render(), "config": self.cfg_text, "cwd": str(self.cwd)}, "observed": {"verdict": v2[0], "original": self.text(p), "original_verdict": want}, "required": "order and repetition of parts change nothing", "oracle": "perm-dup"})


COMPOSE = [
    "A; B", "A && B", "A || B", "A | B", "A & B", "A\nB", "A; B; C", "A && B || C", "A | B | C", "A; B &", "( A )", "( A; B )", "{ A; }", "{ A; B; }", "! A", "time A", "time A | B", "! A | B",
    "if A; then B; fi", "if A; then B; else C; fi", "if A; then B; elif C; then D; fi", "if A; then B; elif C; then D; else E; fi", "if A; B; then C; fi",
    "while A; do B; done", "until A; do B; done", "while A; B; do C; done", "for i in 1 2; do A; done", "for i in 1; do A; B; done", "for ((i=0;i<1;i++)); do A; done",
    "case x in x) A ;; esac", "case x in a) A ;; b) B ;; *) C ;; esac", "case x in a) A ;& b) B ;;& c) C ;; esac", "f() { A; }", "f() { A; B; }", "function g { A; }; B", "f() ( A )",
    "echo $(A)", "echo $(A) $(B)", "echo $(A; B)", "echo `A`", "cat <(A)", "cat <(A) <(B)", "echo \"$(A)\"", "echo $(echo $(A))", "echo $(A | B)",
    "( A ) && { B; } || ! C", "if ( A ); then { B; }; fi", "while ! A; do ( B ); done", "{ A; } | ( B )", "A | ( B; C )", "( ( A ) )", "{ { A; }; }", "time ( A )", "! { A; }",
    "coproc A", "coproc { A; }", "A > /dev/null", "{ A; } > /dev/null", "( A ) 2> /dev/null", "if A; then B; fi > /dev/null", "while A; do B; done < /dev/null",
    # a compound that ends right before the parenthesis or brace closing an enclosing construct, with more after it
    "( case x in a) A ;; esac ); B", "( case x in a) A ;; esac ) ; B ; ( case x in b) C ;; esac )", "echo $(case x in a) A ;; esac); B", "{ case x in a) A ;; esac; }; B", "( if A; then B; fi ); C",
    "( while A; do B; done ); C", "( for i in 1; do A; done ) ; B", "f() ( case x in a) A ;; esac ); B", "( A; case x in a) B ;; esac ) | C", "( case x in a) A ;;& b) B ;& c) C ;; esac ); D", "( ( case x in a) A ;; esac ) ); B",
    "cat <(case x in a) A ;; esac); B", "( case x in (a) A ;; (esac) B ;; esac ); C", "( case x in a) A ;; esac; B ); C", "( case x in a) A ;; esac ) && B || ( case y in b) C ;; esac )",
    # a leading `cd` with more than a directory on it: its redirections and the expansions in its target are parts too
    "cd /tmp > /tmp/no && A", "cd /tmp > /tmp/q; A", "cd /tmp 2> /tmp/no; A", "{ cd /tmp > /tmp/no; }", "{ cd /tmp > /tmp/q; A; }", "( cd /tmp > /tmp/no && A )", "if cd /tmp > /tmp/no; then A; fi", "A; cd /tmp > /tmp/no",
    "cd /tmp/$((1+$(B))); A", "cd /tmp/$[1+$(B)] && A", "cd /tmp <<EOF\n$(B)\nEOF\nA", "cd /tmp < <(B); A", "cd /tmp; A > /tmp/q", "cd /tmp && A; B", "while cd /tmp > /tmp/q; do A; done", "f() { cd /tmp > /tmp/no; A; }",
    "ok1 $(A) > /tmp/ok", "ok1 $(A) > /tmp/q", "ok1 $(A) > /tmp/no", "ok1 > /tmp/ok $(A)", "ok1 $(A) $(B) > /tmp/q 2> /tmp/ok", "X=$(A) ok1", "X=$(A) Y=$(B) ok1 > /tmp/q", "X=$(A)", "ok1 <(A) > /tmp/no",
]
PART_CMDS = {"allow": "ok1 a", "ask": "askme x", "deny": "denied y"}
TARGET_VERDICT = {"/tmp/ok": "allow", "/tmp/q": "ask", "/tmp/no": "deny", "/dev/null": "allow"}


def compose_matrix():
    """every composition operator of the statement x every assignment of allow/ask/deny commands to its parts: the verdict
    must be the most restrictive part (deterministic, exercised on every run)"""
    import itertools
    import re as _re

    for tmpl in COMPOSE:
        letters = sorted(set(_re.findall(r"\b[A-E]\b", tmpl)))
        for combo in itertools.product(("allow", "ask", "deny"), repeat=len(letters)):
            text = tmpl
            for L, v in zip(letters, combo):
                text = _re.sub(r"\b%s\b" % L, PART_CMDS[v], text)
            want = max(list(combo) + [TARGET_VERDICT[t] for t in TARGET_VERDICT if (" > " + t) in text or (" 2> " + t) in text], key=lambda a: RANK[a])
            yield text, want


def search(ctx):
    o = Oracle()
    r = rng("c03-search")
    g = B.Gen(r, exotic=False, pipe_both=False, p_ask=0.2, p_deny=0.12)
    g.p_plain_list = 0.2
    n = ctx.scale(500, 15000)
    if ctx.broken:
        n *= 6
    stats = collections.Counter()
    vios: list = []
    samples = []
    for text, want in compose_matrix():
        act, reason = o.verdict(text)
        stats["matrix_cases"] += 1
        if reason.startswith("parse error"):
            stats["matrix_parse_errors"] += 1
            continue
        if act != want and stats["matrix_violations"] < 5:
            stats["matrix_violations"] += 1
            vios.append({"input": {"command": text, "config": o.cfg_text, "cwd": str(o.cwd)}, "observed": {"verdict": act, "reason": reason}, "required": f"verdict == most restrictive of the parts == {want}", "oracle": "max-of-parts(composition matrix)", "node_kind": "matrix"})
    # a rule on `cd DIR` and a relative spelling of DIR: the cd at the head of a list is a part like any other (it is judged
    # where the list is entered, not where it leads)
    from dippy.core.analyzer import analyze as _an
    from dippy.core.config import parse_config as _pc

    cd_cfg = 'deny cd /tmp/probe/prod "no"\nask cd /tmp/probe/stage*\nallow ok1\n'
    for cdcmd in ("cd ./prod", "cd prod/../prod", "cd ./stage1", "cd /tmp/probe/prod", "cd ./sub/../prod"):
        alone = _an(cdcmd, _pc(cd_cfg), o.cwd)
        for tmpl in ("{c} && ok1 a", "{c}; ok1 a", "{c} || ok1 a", "{{ {c}; ok1 a; }}", "( {c} && ok1 a )", "if true; then {c}; ok1 a; fi", "{c} && ok1 a; ok1 b", "echo $({c}; ok1 a)", "{c}\nok1 a"):
            text = tmpl.format(c=cdcmd)
            whole = _an(text, _pc(cd_cfg), o.cwd)
            stats["leading_cd_cases"] += 1
            if RANK[whole.action] < RANK[alone.action] and stats["leading_cd_violations"] < 3:
                stats["leading_cd_violations"] += 1
                vios.append({"input": {"command": text, "config": cd_cfg, "cwd": str(o.cwd)}, "observed": {"verdict": whole.action, "reason": whole.reason, "cd_alone": [alone.action, alone.reason]},
                             "required": f"the part `{cdcmd}` is judged {alone.action} on its own: the list cannot be judged more leniently", "oracle": "max-of-parts(leading cd)", "node_kind": "list"})
    for i in range(n):
        p, t = g.program()
        self_out: list = []
        o.walk(p, self_out, stats)
        o.wrap_checks(p, r, self_out, stats)
        if i < 2:
            samples.append({"program": t[:300], "verdict": o.verdict(t)[0], "parts": [(l, x[:80], "ask" if l == "inject" else o.verdict(x)[0]) for l, x in o.direct_parts(p)][:6]})
        if self_out:
            # keep the smallest failing input of this program
            self_out.sort(key=lambda v: len(v["input"]["command"]))
            # inputs with the signature of known finding F03d are kept apart (at most two) so that they cannot use up the budget
            cut = [v for v in self_out if _cut_case_signature(v["input"]["command"])]
            rest = [v for v in self_out if not _cut_case_signature(v["input"]["command"])]
            if cut and stats["cut_case_reports"] < 2:
                stats["cut_case_reports"] += 1
                vios.append(cut[0])
            if rest:
                stats["reports"] += 1
                vios.append(rest[0])
            if stats["reports"] >= 5:
                break
    return {
        "violations": vios,
        "evaluations": o.evals,
        "distinct_nontrivial": len(o.cache),
        "programs": n,
        "stats": dict(stats),
        "samples": samples,
        "oracle": "max-of-parts / perm / dup / depth on analyze()",
    }


def _cut_case_signature(cmd: str) -> bool:
    """F03d's call site: a '$(' / '<(' / '>(' whose paren-counted end (what _find_cmdsub_end computes)
    falls inside a case statement: the cut text opens `case … in` and has no `esac`."""
    from dippy.core.analyzer import _find_cmdsub_end

    for m in re.finditer(r"\$\(|[<>]\(", cmd):
        j, _rel = _find_cmdsub_end(cmd, m.end())
        if j < 0:
            continue
        cut = cmd[m.end() : j - 1]
        if re.search(r"(^|[\s;(&|])case\s.*\sin\s", cut, re.S) and not re.search(r"\besac\b", cut):
            return True
    return False


def matches_finding(entry, v) -> bool:
    if entry.get("id") == "F03d":
        cmd = (v.get("input") or {}).get("command", "")
        return v.get("oracle") == "max-of-parts" and _cut_case_signature(cmd)
    return False


def finding_still_fails(ctx, entry) -> bool:
    """Replay a known finding's witness on the implementation."""
    w = entry.get("witness", {})
    if entry.get("id") == "F03b":
        from dippy.core.analyzer import analyze
        from dippy.core.config import parse_config

        d = analyze(w["command"], parse_config(w.get("config", "")), Path(w.get("cwd", "/tmp/probe")))
        ok_bash = subprocess.run(["bash", "-n", "-c", w["command"]], capture_output=True).returncode == 0
        return ok_bash and d.action != w["required"]
    if entry.get("id") == "F03d":
        from dippy.core.analyzer import analyze
        from dippy.core.config import parse_config

        d = analyze(w["command"], parse_config(w.get("config", "")), Path(w.get("cwd", "/tmp/probe")))
        ok_bash = subprocess.run(["bash", "-n", "-c", w["command"]], capture_output=True).returncode == 0
        return ok_bash and _cut_case_signature(w["command"]) and d.action != w["required"]
    return False


def replay(payload) -> int:
    from dippy.core.analyzer import analyze
    from dippy.core.config import parse_config

    inp = payload["input"]
    d = analyze(inp["command"], parse_config(inp.get("config", "")), Path(inp.get("cwd", "/tmp/probe")))
    print("observed now:", d.action, "|", d.reason)
    print("recorded    :", payload.get("observed"))
    print("required    :", payload.get("required"))
    req = payload.get("required", "")
    want = req.rsplit("== ", 1)[-1] if "== " in req else None
    if want in RANK:
        return 1 if d.action != want else 0
    return 1 if d.action == payload.get("observed", {}).get("verdict") else 0
