"""C20 — statusline never crashes; its cache stays confined and untorn."""
from __future__ import annotations

import collections
import json
import os
import shutil
import signal
import subprocess
import tempfile
import time
from concurrent.futures import ThreadPoolExecutor

import corr_config as CC
import corr_hook as CH
from common import REPO, has_surrogate, rng

ID = "C20"
PROP_FILES = ["C20"]
RULE = (
    "T0: names and protocol shape of set_cache/get_cache_path (theorem t0_statusline). correspondence: get_cache_path vs the model on arbitrary session ids (strings with separators, dots, NUL, very long, non-strings); "
    "' '.join(s.split()) vs collapse. search: the real bin/dippy-statusline as a subprocess with HOME, XDG_CACHE_HOME and PATH (stub git/claude/timeout) in a scratch tree: arbitrary stdin bytes and JSON shapes x generated states of the cache "
    "directory, entry, MCP list, settings, transcript, mcp.local.json and log (absent, empty, garbage, multi-line, huge, directory in place of file) must give exit 0, non-empty stdout, no traceback, one line when the input's text fields have no "
    "line break, and create no file outside the cache and log directories (tree diff); forced schedules (a writer paused right after opening its temporary while another publishes; kills mid-write) and concurrent runs sharing a session: "
    "the entry and every served line are one complete output."
)
TRUSTED = ["T0 translator (statusline facts)", "POSIX rename(2) atomicity; PIDs of concurrently live processes are distinct", "the scheduling aid harness/sl_site/sitecustomize.py only delays a process after an open()"]
ASSUMES = ["git/claude/timeout are stubs on PATH; their real output formats are not part of the property", "the cache TTL (3 s) makes served-from-cache paths reachable only within it: the search runs readers immediately"]

PY = "/venv/bin/python"
BIN = os.path.join(REPO, "bin", "dippy-statusline")
SITE = os.path.join(os.path.dirname(os.path.dirname(os.path.abspath(__file__))), "sl_site")


class Tree:
    def __init__(self, claude=True):
        self.root = os.path.realpath(tempfile.mkdtemp(prefix="dippy-verif-sl-"))
        self.home = os.path.join(self.root, "home")
        self.cache = os.path.join(self.root, "xdg")
        self.bin = os.path.join(self.root, "bin")
        self.work = os.path.join(self.root, "work")
        for d in (self.home, self.cache, self.bin, self.work, os.path.join(self.home, ".claude")):
            os.makedirs(d)
        for name, body in (("git", "#!/bin/sh\ncase \"$*\" in *branch*) echo main;; *) echo ' 1 file changed, 2 insertions(+)';; esac\n"), ("claude", "#!/bin/sh\necho 'srv: x - Connected'\n" if claude else "#!/bin/sh\nexit 0\n"), ("timeout", "#!/bin/sh\nshift; exec \"$@\"\n")):
            p = os.path.join(self.bin, name)
            with open(p, "w") as f:
                f.write(body)
            os.chmod(p, 0o755)
        self.cdir = os.path.join(self.cache, "claude-statusline")

    def env(self, extra=None):
        e = {"HOME": self.home, "XDG_CACHE_HOME": self.cache, "PATH": self.bin + ":/usr/bin:/bin", "LANG": "C.UTF-8"}
        if extra:
            e.update(extra)
        return e

    def run(self, stdin: bytes, extra=None, timeout=30):
        p = subprocess.run([PY, BIN], input=stdin, capture_output=True, env=self.env(extra), cwd=self.work, timeout=timeout)
        return p.returncode, p.stdout, p.stderr

    def snapshot(self):
        out = set()
        for d, dirs, files in os.walk(self.root):
            for f in files + dirs:
                out.add(os.path.join(d, f))
        return out

    def close(self):
        shutil.rmtree(self.root, ignore_errors=True)


FILE_STATES = ["absent", "empty", "garbage", "multiline", "huge", "dir", "valid"]


def put(path, state, valid=b"{}"):
    if os.path.isdir(path) and not os.path.islink(path):
        shutil.rmtree(path, ignore_errors=True)
    elif os.path.lexists(path):
        os.unlink(path)
    if state == "absent":
        return
    os.makedirs(os.path.dirname(path), exist_ok=True)
    if state == "dir":
        os.makedirs(path)
        return
    data = {"empty": b"", "garbage": b"\xff\xfe{[ not json \x00", "multiline": b"line one\nline two\r\nthree\n", "huge": b"x" * 300000, "valid": valid}[state]
    with open(path, "wb") as f:
        f.write(data)


ODD_JSON = [None, [], {}, 5, 1.5, "s", "  ", True, [None], {"x": None}, ["a", 5], {"hooks": None}, "dippy"]


def mutate_json(r, v):
    """valid JSON of an unexpected shape: one randomly chosen subtree replaced by something of another type"""
    paths = []

    def walk(x, path):
        paths.append(path)
        if isinstance(x, dict):
            for k in x:
                walk(x[k], path + [k])
        elif isinstance(x, list):
            for i in range(len(x)):
                walk(x[i], path + [i])

    walk(v, [])
    path = r.pick(paths)
    new = r.pick(ODD_JSON)
    if not path:
        return new
    v = json.loads(json.dumps(v))
    cur = v
    for k in path[:-1]:
        cur = cur[k]
    cur[path[-1]] = new
    return v


def has_break(x) -> bool:
    if isinstance(x, str):
        return any(c in x for c in "\n\r\x0b\x0c\x1c\x1d\x1e\x85  ")
    if isinstance(x, dict):
        return any(has_break(k) or has_break(v) for k, v in x.items())
    if isinstance(x, list):
        return any(has_break(v) for v in x)
    return False


SIDS = ["s\ud800", "\udc80", "", "abc", "a/b", "../../etc/x", "..", ".", "mcp", "mcp.list", "default", "x" * 300, "x" * 5000, "a\x00b", "sp ace", "é中", "a.cache.tmp.1", "/abs/path", "-", "~", 5, 0, None, True, False, ["a"], [], {"a": 1}, {}, 1.5]


def gen_input(r, tree):
    k = r.random()
    if k < 0.12:
        return None, r.pick([b"", b"{", b"[]", b"5", b"null", b"\"x\"", b"\xff\xfe", b"{\"session_id\": ", b"[1,2", b"true"])
    v = {}
    if r.chance(0.8):
        v["session_id"] = r.pick(SIDS)
    if r.chance(0.7):
        v["model"] = r.pick([{"display_name": "Opus"}, {"display_name": ""}, {"display_name": 5}, {"display_name": "a\nb"}, {}, 5, None, [], {"display_name": ["x"]}, {"display_name": "Sonnet 4 (1M context)"}, {"display_name": "m\ud800"}, {"display_name": "\udfff x \U0001f424"}, {"display_name": "\x1b[31m\x07\x00"}])
    if r.chance(0.7):
        v["workspace"] = r.pick([{"current_dir": tree.work}, {"current_dir": "/nonexistent/x"}, {"current_dir": 5}, {"current_dir": ["a"]}, {"current_dir": ""}, {}, 5, None, {"current_dir": "a\nb"}, {"current_dir": {"x": 1}}, {"current_dir": "/tmp/a\udc00b"}, {"current_dir": tree.work + "/\ud83d"}])
    if r.chance(0.5):
        v["transcript_path"] = r.pick([os.path.join(tree.home, "t.jsonl"), "/nonexistent", 5, None, "", ["x"], tree.home, 0, 1, 2, True, 1.0, {"a": 1}, "\ud800"])
    if r.chance(0.4):
        v["context_window"] = r.pick([{"context_window_size": 200000}, {"context_window_size": 200000}, {"total_input_tokens": 5, "context_window_size": 200000}, {"total_input_tokens": "x"}, 5, None, {}, {"context_window_size": 0}, {"current_usage": {"input_tokens": 5}}, []])
    if r.chance(0.15):
        # the transcript is only consulted when a context window size is given: probe it with every kind of "path"
        v["context_window"] = {"context_window_size": r.pick([200000, 1, 10**9])}
        v["transcript_path"] = r.pick([0, 1, 2, True, False, 1.0, -1, 99999, {"a": 1}, ["x"], "\ud800", "", "\x00", tree.home, os.path.join(tree.home, "t.jsonl"), "/dev/stdout", "/proc/self/fd/1", "/dev/full", "/dev/zero"])
    if r.chance(0.2):
        v[r.pick(["exceeds_200k_tokens", "cost", "version", "x"])] = r.pick([True, 5, "s", None, {}])
    if r.chance(0.05):
        v = r.pick([[], 5, "x", None, [v]])
    return v, json.dumps(v).encode()


def corr_names(model, r, n):
    import dippy.dippy_statusline as S

    acc = CC.Acc("get_cache_path vs the model")
    items = []
    for _ in range(n):
        if r.chance(0.5):
            sid = r.pick(SIDS)
        else:
            sid = "".join(r.pick(list("ab/._-~ \x00é")) for _ in range(r.randint(0, 8)))
        if isinstance(sid, str) and has_surrogate(sid):
            continue
        items.append(sid)
    reqs = []
    for sid in items:
        if isinstance(sid, str):
            reqs.append({"op": "sl_cachename", "sid": {"str": sid}})
        else:
            reqs.append({"op": "sl_cachename", "sid": "truthy" if sid else "falsy"})
    reps = model.batch(reqs)
    for sid, rep in zip(items, reps):
        try:
            p = S.get_cache_path(sid)
            impl = os.path.basename(p) if os.path.dirname(p) == S.CACHE_DIR else "ESCAPES:" + p
        except Exception as e:  # noqa: BLE001
            impl = None
        acc.case(repr(sid)[:80], impl, rep, nontrivial=isinstance(sid, str) and "/" in sid, tag=type(sid).__name__, sample={"session_id": repr(sid)[:60], "name": impl if impl is None else impl[:60]})
    return acc.result()


def corr_collapse(model, r, n):
    acc = CC.Acc("' '.join(s.split()) vs collapse")
    items = ["".join(r.pick(list("ab \t\n\r\x0b\x0c\x1c\x85  é,")) for _ in range(r.randint(0, 12))) for _ in range(n)]
    reps = model.batch([{"op": "sl_collapse", "s": s} for s in items])
    for s, rep in zip(items, reps):
        acc.case(s, " ".join(s.split()), rep, nontrivial=any(c in s for c in "\n\r"), tag="breaks" if any(c in s for c in "\n\r") else "plain")
    return acc.result()


def correspondence(ctx):
    k = 2 if ctx.broken else 1
    return [corr_names(ctx.model, rng("c20-names"), ctx.scale(1500, 40000) * k), corr_collapse(ctx.model, rng("c20-col"), ctx.scale(1500, 40000) * k)]


def check_output(rc, out, err, value, allow_multiline):
    if rc is None:
        return "no exit within the time limit"
    if rc != 0:
        return "exit status %d" % rc
    if b"Traceback" in err:
        return "traceback on stderr"
    if not out.strip(b"\n"):
        return "empty output"
    if not allow_multiline and out.rstrip(b"\n").count(b"\n") + out.count(b"\r") > 0:
        return "more than one line although no input text field has a line break"
    return None


def search(ctx):
    r = rng("c20-search")
    stats = collections.Counter()
    vios = []
    samples = []
    n = ctx.scale(420, 8000) * (3 if ctx.broken else 1)

    def one(seed_i):
        rr = rng("c20-search-%d" % seed_i)
        tree = Tree()
        res = []
        try:
            for _ in range(6):
                value, stdin = gen_input(rr, tree)
                states = {}
                sid = value.get("session_id") if isinstance(value, dict) else ""
                entry = None
                if isinstance(sid, str) or not sid:
                    name = (sid.replace("/", "_") if sid else "default") + ".cache" if isinstance(sid, str) or not sid else None
                    if name and "\x00" not in name and len(name) < 200 and not has_surrogate(name):
                        entry = os.path.join(tree.cdir, name)
                targets = {"cachedir": tree.cdir, "mcp": os.path.join(tree.cdir, "mcp.list"), "settings": os.path.join(tree.home, ".claude", "settings.json"), "mcplocal": os.path.join(tree.home, ".claude", "mcp.local.json"),
                           "transcript": os.path.join(tree.home, "t.jsonl"), "log": os.path.join(tree.home, ".claude", "dippy-statusline.log")}
                st = rr.pick(["ok", "ok", "ok", "absent", "file"])
                states["cachedir"] = st
                if st == "absent":
                    shutil.rmtree(tree.cdir, ignore_errors=True) if os.path.isdir(tree.cdir) else (os.path.lexists(tree.cdir) and os.unlink(tree.cdir))
                elif st == "file":
                    shutil.rmtree(tree.cdir, ignore_errors=True) if os.path.isdir(tree.cdir) else None
                    if not os.path.lexists(tree.cdir):
                        os.makedirs(os.path.dirname(tree.cdir), exist_ok=True)
                        open(tree.cdir, "w").close()
                else:
                    if os.path.isfile(tree.cdir):
                        os.unlink(tree.cdir)
                    os.makedirs(tree.cdir, exist_ok=True)
                    if entry:
                        states["entry"] = rr.pick(FILE_STATES)
                        put(entry, states["entry"], valid=b"cached line")
                    states["mcp"] = rr.pick(FILE_STATES)
                    put(targets["mcp"], states["mcp"], valid=b"srv1, srv2")
                # "shape": valid JSON with a subtree of an unexpected type ({"hooks": null}, a string where a list is expected …)
                settings_ok = {"hooks": {"PreToolUse": [{"matcher": "Bash", "hooks": [{"type": "command", "command": "dippy"}]}]}}
                states["settings"] = rr.pick(FILE_STATES + ["shape", "shape"])
                if states["settings"] == "shape":
                    shaped = mutate_json(rr, settings_ok)
                    states["settings"] = "shape:" + json.dumps(shaped)[:80]
                    put(targets["settings"], "valid", valid=json.dumps(shaped).encode())
                else:
                    put(targets["settings"], states["settings"], valid=json.dumps(settings_ok).encode())
                states["mcplocal"] = rr.pick(FILE_STATES + ["names-with-breaks", "shape"])
                if states["mcplocal"] == "names-with-breaks":
                    put(targets["mcplocal"], "valid", valid=json.dumps({"mcpServers": {"a\nb": {}, "c\r\nd": {}}}).encode())
                elif states["mcplocal"] == "shape":
                    shaped = mutate_json(rr, {"mcpServers": {"local1": {"command": "x"}, "l2": {}}})
                    states["mcplocal"] = "shape:" + json.dumps(shaped)[:80]
                    put(targets["mcplocal"], "valid", valid=json.dumps(shaped).encode())
                else:
                    put(targets["mcplocal"], states["mcplocal"], valid=json.dumps({"mcpServers": {"local1": {}}}).encode())
                states["transcript"] = rr.pick(FILE_STATES + ["shape"])
                tr_ok = {"message": {"usage": {"input_tokens": 100, "cache_read_input_tokens": 5, "cache_creation_input_tokens": 7}}}
                if states["transcript"] == "shape":
                    lines = [json.dumps(mutate_json(rr, tr_ok)) for _ in range(rr.randint(1, 3))]
                    states["transcript"] = "shape:" + lines[-1][:80]
                    put(targets["transcript"], "valid", valid=("\n".join(lines) + "\n").encode())
                else:
                    put(targets["transcript"], states["transcript"], valid=(json.dumps(tr_ok) + "\n").encode())
                states["log"] = rr.pick(["absent", "absent", "dir", "huge", "rotate", "rotate"])
                bak = targets["log"] + ".1"
                if os.path.isdir(bak) and not os.path.islink(bak):
                    shutil.rmtree(bak, ignore_errors=True)
                elif os.path.lexists(bak):
                    os.unlink(bak)
                if states["log"] == "rotate":
                    # a log over the rotation threshold (1 MiB) x every state of the backup name it is rotated to
                    os.makedirs(os.path.dirname(targets["log"]), exist_ok=True)
                    put(targets["log"], "absent")
                    with open(targets["log"], "wb") as f:
                        f.write(b"x" * (1024 * 1024 + rr.pick([1, 4096])))
                    bk = rr.pick(["absent", "file", "dir", "dir-nonempty", "dangling", "readonly-file"])
                    states["log"] = "rotate:backup=" + bk
                    if bk == "file":
                        open(bak, "w").write("old\n")
                    elif bk == "readonly-file":
                        open(bak, "w").write("old\n")
                        os.chmod(bak, 0o400)
                    elif bk == "dir":
                        os.makedirs(bak)
                    elif bk == "dir-nonempty":
                        os.makedirs(bak)
                        open(os.path.join(bak, "keep"), "w").write("x")
                    elif bk == "dangling":
                        os.symlink(os.path.join(tree.home, "nowhere"), bak)
                else:
                    put(targets["log"], states["log"])
                # the directory the log and the settings live in, and HOME itself
                extra_env = None
                hs = rr.random()
                cl = os.path.join(tree.home, ".claude")
                if hs < 0.06:
                    states["home"] = "claude-is-file"
                    shutil.rmtree(cl, ignore_errors=True)
                    open(cl, "w").write("x")
                elif hs < 0.12:
                    states["home"] = "claude-dangling-symlink"
                    shutil.rmtree(cl, ignore_errors=True)
                    os.symlink(os.path.join(tree.root, "nowhere"), cl)
                elif hs < 0.16:
                    states["home"] = "claude-absent"
                    shutil.rmtree(cl, ignore_errors=True)
                elif hs < 0.2:
                    states["home"] = "HOME=/dev/null"
                    extra_env = {"HOME": "/dev/null"}
                elif hs < 0.24:
                    states["home"] = "HOME=nonexistent"
                    extra_env = {"HOME": os.path.join(tree.root, "no", "such", "home")}
                elif hs < 0.27:
                    states["home"] = "HOME=a-file"
                    hf = os.path.join(tree.root, "homefile")
                    open(hf, "w").write("x")
                    extra_env = {"HOME": hf}
                before = tree.snapshot()
                try:
                    rc, out, err = tree.run(stdin, extra=extra_env)
                except subprocess.TimeoutExpired:
                    rc, out, err = None, b"", b"timeout"
                time.sleep(0.02)
                after = tree.snapshot()
                new = [p for p in after - before if not (p.startswith(tree.cdir) or p == tree.cdir or p.startswith(os.path.join(tree.home, ".claude", "dippy-statusline.log")) or p == os.path.dirname(tree.cdir))]
                bad = check_output(rc, out, err, value, allow_multiline=(value is not None and has_break(value)))
                if bad is None and new:
                    bad = "created outside the cache and log directories: " + ", ".join(os.path.relpath(p, tree.root) for p in new[:3])
                res.append((value, stdin, states, rc, out, err, bad))
                if states.get("home", "").startswith("claude-"):
                    # put the directory back for the next input of this tree
                    if os.path.islink(cl) or os.path.isfile(cl):
                        os.unlink(cl)
                    os.makedirs(cl, exist_ok=True)
        finally:
            tree.close()
        return res

    with ThreadPoolExecutor(12) as ex:
        for batch in ex.map(one, range(n // 6 + 1)):
            for value, stdin, states, rc, out, err, bad in batch:
                stats["evaluations"] += 1
                stats["stdin:" + ("raw" if value is None else type(value).__name__)] += 1
                for k2, v2 in states.items():
                    stats["state:%s=%s" % (k2, v2)] += 1
                if bad:
                    if len(vios) < 6:
                        vios.append({"input": {"stdin": stdin[:3000].decode("utf-8", "replace"), "file_states": states}, "observed": {"exit": rc, "stdout": out[:300].decode("utf-8", "replace"), "stderr_tail": err[-400:].decode("utf-8", "replace")}, "required": bad, "oracle": "statusline-total"})
                elif len(samples) < 3:
                    samples.append({"stdin": stdin[:200].decode("utf-8", "replace"), "file_states": states, "stdout": out[:120].decode("utf-8", "replace")})
    # forced schedules on one session
    sched_vios, sched_stats = schedules(ctx)
    vios.extend(sched_vios)
    stats.update(sched_stats)
    return {"violations": vios[:8], "evaluations": stats["evaluations"], "distinct_nontrivial": stats["evaluations"], "stats": dict(stats), "samples": samples, "oracle": "subprocess: exit 0, non-empty, no traceback, single line, tree diff; forced schedules and concurrent runs: entry is one complete line"}


def inp(session, model):
    return json.dumps({"session_id": session, "model": {"display_name": model}}).encode()


def schedules(ctx):
    """a writer paused right after opening its temporary while another publishes; kills mid-write; concurrent runs"""
    stats = collections.Counter()
    vios = []
    reps = ctx.scale(3, 40)
    for rep in range(reps):
        for order in ("short-paused", "long-paused", "kill-paused"):
            tree = Tree(claude=False)
            try:
                session = "sess%d" % rep
                short, long_ = "S", "Long-model-name (1M context, extended thinking) " + "x" * (20 + rep)
                # reference lines: what a lone invocation prints for each input
                ref = {}
                for m in (short, long_):
                    t2 = Tree(claude=False)
                    try:
                        rc, out, err = t2.run(inp(session, m))
                        ref[m] = out.rstrip(b"\n")
                    finally:
                        t2.close()
                gate = os.path.join(tree.root, "gate")
                paused_model, free_model = (short, long_) if order != "long-paused" else (long_, short)
                env = tree.env({"PYTHONPATH": SITE, "SL_PAUSE_DIR": tree.cdir, "SL_GATE": gate})
                p = subprocess.Popen([PY, BIN], stdin=subprocess.PIPE, stdout=subprocess.PIPE, stderr=subprocess.PIPE, env=env, cwd=tree.work)
                p.stdin.write(inp(session, paused_model))
                p.stdin.close()
                t0 = time.time()
                while not os.path.exists(gate + ".paused") and time.time() - t0 < 10:
                    time.sleep(0.01)
                stats["paused_reached"] += int(os.path.exists(gate + ".paused"))
                rc2, out2, err2 = tree.run(inp(session, free_model))
                if order == "kill-paused":
                    p.send_signal(signal.SIGKILL)
                else:
                    open(gate, "w").close()
                try:
                    p.wait(timeout=15)
                except subprocess.TimeoutExpired:
                    p.kill()
                # what is in the entry now, and what a reader is served
                entry = os.path.join(tree.cdir, session + ".cache")
                try:
                    content = open(entry, "rb").read()
                except OSError:
                    content = None
                rc3, out3, err3 = tree.run(inp(session, "reader"))
                stats["evaluations"] += 1
                stats["schedule:" + order] += 1
                complete = set(ref.values()) | {out2.rstrip(b"\n")}
                bad = None
                if content is not None and content not in complete:
                    bad = "the cache entry is not one complete output"
                elif rc3 != 0 or b"Traceback" in err3:
                    bad = "reader failed"
                elif content is not None and out3.rstrip(b"\n") not in complete and out3.rstrip(b"\n") != content:
                    # (the reader may also have rebuilt if the TTL ran out: then it prints its own line)
                    t3 = Tree(claude=False)
                    try:
                        own = t3.run(inp(session, "reader"))[1].rstrip(b"\n")
                    finally:
                        t3.close()
                    if out3.rstrip(b"\n") != own:
                        bad = "a reader was served a line that no invocation produced"
                if bad and len(vios) < 4:
                    vios.append({"input": {"schedule": order, "paused_writer_model": paused_model, "other_writer_model": free_model, "session": session}, "observed": {"entry": None if content is None else content.decode("utf-8", "replace"), "served": out3.decode("utf-8", "replace")}, "required": bad + " (complete outputs: " + ", ".join(sorted(x.decode("utf-8", "replace") for x in complete)) + ")", "oracle": "forced-schedule"})
            finally:
                tree.close()
    # plain concurrency: many writers with different lines, readers in between
    tree = Tree(claude=False)
    try:
        models = ["M%d-%s" % (i, "y" * (3 * i)) for i in range(12)]
        ref = set()
        for m in models:
            t2 = Tree(claude=False)
            try:
                ref.add(t2.run(inp("conc", m))[1].rstrip(b"\n"))
            finally:
                t2.close()
        rounds = ctx.scale(2, 30)
        for _ in range(rounds):
            shutil.rmtree(tree.cdir, ignore_errors=True)
            with ThreadPoolExecutor(12) as ex:
                outs = list(ex.map(lambda m: tree.run(inp("conc", m)), models))
            try:
                content = open(os.path.join(tree.cdir, "conc.cache"), "rb").read()
            except OSError:
                content = None
            stats["evaluations"] += 1
            stats["concurrent_rounds"] += 1
            served = [o[1].rstrip(b"\n") for o in outs]
            if (content is not None and content not in ref) or any(s not in ref for s in served) or any(o[0] != 0 for o in outs):
                if len(vios) < 6:
                    vios.append({"input": {"concurrent_models": models}, "observed": {"entry": None if content is None else content.decode("utf-8", "replace"), "served_not_complete": [s.decode("utf-8", "replace") for s in served if s not in ref][:3]}, "required": "under concurrency the entry and every printed line are complete outputs", "oracle": "concurrent"})
    finally:
        tree.close()
    # the same session twice in a row, for lines of every size class (around the buffer sizes a bounded read would use):
    # the second invocation is answered from the cache and must print the whole line the first one built
    sizes = [50, 900, 4000, 4090, 4096, 4097, 5000, 8191, 8192, 8193, 20000, 70000]
    for n in (sizes if ctx.tier == "thorough" or ctx.broken else sizes[ctx_seed_offset(ctx) % 2::2] + [4097, 8193]):
        tree = Tree(claude=False)
        try:
            model = "L" + "z" * n + "-end"
            session = "long%d" % n
            rc1, out1, err1 = tree.run(inp(session, model))
            rc2, out2, err2 = tree.run(inp(session, "other-model"))
            stats["evaluations"] += 1
            stats["sequential_same_session"] += 1
            t3 = Tree(claude=False)
            try:
                own = t3.run(inp(session, "other-model"))[1]
            finally:
                t3.close()
            served_from_cache = out2 != own
            stats["served_from_cache"] += int(served_from_cache)
            if rc1 != 0 or rc2 != 0 or (out2 != out1 and out2 != own):
                if len(vios) < 8:
                    vios.append({"input": {"schedule": "same session twice", "first_model_length": len(model), "session": session, "stdin_first": inp(session, model).decode()[:200] + "…"},
                                 "observed": {"first_line_length": len(out1), "second_line_length": len(out2), "second_line_tail": out2[-60:].decode("utf-8", "replace")},
                                 "required": "the second invocation prints the complete line the first one built (served from the cache) or a line of its own - not a part of it", "oracle": "cache-serves-whole-line"})
        finally:
            tree.close()
    return vios, stats


def ctx_seed_offset(ctx) -> int:
    try:
        return int(os.environ.get("VERIF_SEED", "0"))
    except ValueError:
        return 0


def matches_finding(entry, v) -> bool:
    return False


def finding_still_fails(ctx, entry) -> bool:
    return False


def replay(payload) -> int:
    i = payload["input"]
    if "stdin" in i:
        tree = Tree(claude=False)
        try:
            rc, out, err = tree.run(i["stdin"].encode("utf-8", "replace"))
            print("exit", rc, "stdout", out[:300], "stderr", err[-300:])
            print("(file states at check time: %s)" % i.get("file_states"))
        finally:
            tree.close()
    else:
        print("schedule replay: run ./check C20 again; recorded observation:", payload.get("observed"))
    print("required:", payload.get("required"))
    return 1
