"""C13 — remote delegation relaxes only local-path checks, only for the inner command."""
from __future__ import annotations

import collections
from pathlib import Path

import corr_config as CC
from common import rng
from corr_analyzer import correspondence_cfg
from props import c04

ID = "C13"
PROP_FILES = ["C13"]
RULE = (
    "correspondence: analyze() vs the model in config mode (the model computes local and remote rule lookups itself from the parsed configuration) on docker/podman/kubectl exec "
    "command lines in outer contexts (redirects, substitutions, lists, pipelines) over rule sets with path rules, aliases and deny rules; match_command with remote=True/False; the exec "
    "inner-command extraction vs its Lean model. search (implementation only): (a) the verdict of `exec … INNER` equals analyze(INNER, remote=True); (b) it is never stricter than the local verdict "
    "of INNER and equals it when neither INNER nor the rule set mentions a path, a redirect or an alias; (c) a rule that denies INNER by its plain text denies the delegated form; "
    "(d) an outer context (redirect, sibling, substitution) around the exec keeps at least the verdict it gives around `true`."
)
TRUSTED = ["T0 translator", "T1 correspondence harness (config mode)", "docker/kubectl handlers apart from the exec extraction are oracles of the model (World.classify)"]
ASSUMES = ["docker, podman and kubectl are not installed: what they execute in the container is taken from their documentation (exec [OPTIONS] CONTAINER COMMAND; kubectl exec POD [-c C] -- COMMAND)"]
CWD = "/tmp/probe"
RANK = {"allow": 0, "ask": 1, "deny": 2}

CONFIGS = [
    "allow ok1\ndeny denied \"denied by rule\"\ndeny rm -rf *\nask git push *\nallow-redirect /tmp/ok\ndeny-redirect /tmp/no \"no\"\n",
    "deny rm *\nallow cat /tmp/probe/ok.txt\ndeny cat /etc/shadow \"secret\"\nallow foo\nalias g git\ndeny git push *\nallow-redirect /tmp/probe/out/**\n",
    "allow ./run.sh\ndeny ~/bin/tool *\nask curl *\nallow-redirect **\ndeny denied\nalias ll ls\n",
    "",
    # blanks and tabs inside the pattern: a rule is a sequence of words, however they are spaced in the file
    "deny git  log\nask git\tpush  *\ndeny   rm   -rf  *\nallow  foo\ndeny denied\n",
]
EXEC_FORMS = [
    "docker exec c1 {i}", "docker exec -it c1 {i}", "docker exec -e A=1 -u root c1 {i}", "docker exec -- c1 {i}", "docker exec -itw /srv c1 {i}", "docker exec --env=A=1 --privileged c1 {i}",
    "podman exec c1 {i}", "docker --context x exec c1 {i}", "kubectl exec pod -- {i}", "kubectl exec -it -n ns pod -c main -- {i}", "kubectl -n ns exec pod -- {i}", "docker container exec c1 {i}", "docker compose exec web {i}",
]
INNERS_PATHFREE = ["ls", "ls -la", "rm -rf build", "rm x", "denied", "denied x", "git push origin", "git status", "foo", "ok1", "echo hi", "sh -c 'ls'", "sh -c 'rm x'", "env nice rm x", "timeout 5 foo", "g push x", "ll", "curl x", "foo --help", "bar -h", "ls -- denied", "echo a -- rm x"]
INNERS_PATHY = ["cat /etc/shadow", "cat ok.txt", "cat /tmp/probe/ok.txt", "./run.sh", "~/bin/tool x", "echo x > /tmp/no", "echo x > out/f", "ls > /tmp/ok", "tee /tmp/no", "sort -o /tmp/no in", "sh -c 'echo x > /tmp/no'", "cd /tmp && echo x > ok", "cat ./ok.txt", "rm -rf /"]
CONTEXTS = [
    ("plain", "{x}"), ("outer redirect deny", "{x} > /tmp/no"), ("outer redirect ask", "{x} > somefile"), ("outer redirect allow", "{x} > /tmp/ok"), ("outer redirect append", "{x} >> /var/log/z"),
    ("sibling ;", "{x}; rm y"), ("sibling &&", "{x} && denied"), ("sibling before", "foo && {x}"), ("pipeline", "{x} | tee /tmp/no"), ("pipeline in", "cat /etc/shadow | {x}"),
    ("substitution arg", "{x} $(rm y)"), ("substitution backtick", "{x} `denied`"), ("in substitution", "echo $({x} > /tmp/no)"), ("group redirect", "{{ {x}; }} > /tmp/no"), ("subshell", "( {x} ) 2> /tmp/no"),
    ("if", "if {x}; then rm y; fi"), ("heredoc", "{x} <<EOF\n$(rm y)\nEOF"), ("procsub", "{x} < <(denied)"), ("cd first", "cd /tmp && {x} > no"),
]


# reference option grammars (kubectl options / kubectl exec --help / docker exec --help; the tools are not installed): which
# options stand alone and which take a value, as a separate word or =-joined
K_GLOBAL_BOOL = ["--insecure-skip-tls-verify", "--match-server-version", "--warnings-as-errors", "--insecure-skip-tls-verify=true", "--match-server-version=false"]
K_GLOBAL_VAL = ["--as", "--as-group", "--as-uid", "--cache-dir", "--certificate-authority", "--client-certificate", "--client-key", "--cluster", "--context", "--kubeconfig", "--log-flush-frequency", "-n", "--namespace",
                "--password", "--profile", "--profile-output", "--request-timeout", "-s", "--server", "--tls-server-name", "--token", "--user", "--username", "-v", "--vmodule"]
K_EXEC_BOOL = ["-i", "-t", "-it", "-ti", "--stdin", "--tty", "-q", "--quiet"]
K_EXEC_VAL = ["-c", "--container", "--pod-running-timeout", "-f", "--filename"]
# names that are also kubectl verbs: a value or a pod called like this must not be taken for the action
K_NAMES = ["pod", "web-0", "get", "logs", "top", "version", "config", "auth", "wait", "diff", "describe", "exec", "explain", "x", "deploy/web"]
D_EXEC_BOOL = ["-d", "-i", "-t", "-it", "-ti", "--detach", "--interactive", "--tty", "--privileged", "-itd"]
D_EXEC_VAL = ["-e", "--env", "--env-file", "-u", "--user", "-w", "--workdir", "--detach-keys"]
D_NAMES = ["c1", "web", "ls", "exec", "ps", "images", "x"]


def gen_exec_form(r):
    """a command line from the reference grammar, with {i} where the inner command goes"""
    def opts(bools, vals, names, n):
        out = []
        for _ in range(n):
            if r.chance(0.45):
                out.append(r.pick(bools))
            else:
                o, v = r.pick(vals), r.pick(names)
                if o.startswith("--") and r.chance(0.4):
                    out.append(o + "=" + v)
                elif not o.startswith("--") and r.chance(0.3):
                    out.append(o + v)
                else:
                    out += [o, v]
        return out

    if r.chance(0.6):
        words = ["kubectl"] + opts(K_GLOBAL_BOOL, K_GLOBAL_VAL, K_NAMES, r.randint(0, 2)) + ["exec"] + opts(K_EXEC_BOOL, K_EXEC_VAL, K_NAMES, r.randint(0, 2)) + [r.pick(K_NAMES)]
        words += opts(K_EXEC_BOOL, K_EXEC_VAL, K_NAMES, r.randint(0, 1)) + ["--", "{i}"]
    else:
        words = [r.pick(["docker", "podman"]), "exec"] + opts(D_EXEC_BOOL, D_EXEC_VAL, D_NAMES, r.randint(0, 3)) + [r.pick(D_NAMES), "{i}"]
    return " ".join(words)


def gen(r):
    form = gen_exec_form(r) if r.chance(0.5) else r.pick(EXEC_FORMS)
    pathfree = r.chance(0.55)
    inner = r.pick(INNERS_PATHFREE if pathfree else INNERS_PATHY)
    ctxname, ctx = r.pick(CONTEXTS) if r.chance(0.6) else CONTEXTS[0]
    return form, inner, pathfree, ctxname, ctx


def correspondence(ctx):
    k = 2 if ctx.broken else 1
    r = rng("c13-corr")

    def cases():
        for _ in range(ctx.scale(900, 30000) * k):
            form, inner, _pf, _cn, c = gen(r)
            yield c.format(x=form.format(i=inner)), r.pick(CONFIGS), CWD

    return [
        CC.corr_tables(ctx.model),
        CC.corr_match_words(ctx.model, rng("c13-mw"), ctx.scale(300, 10000) * k),
        c04.corr_handlers(ctx.model, rng("c13-h"), ctx.scale(1500, 40000) * k),
        correspondence_cfg(ctx.model, cases(), area="analyze: exec forms x inner commands x outer contexts (config mode, remote rule lookups computed by the model)"),
    ]


def pathfree_config(text: str) -> bool:
    return not any(ch in text for ch in "/~.") and "alias" not in text and "redirect" not in text


def search(ctx):
    from dippy.core.analyzer import analyze
    from dippy.core.config import parse_config

    r = rng("c13-search")
    stats = collections.Counter()
    vios = []
    samples = []
    cfgs = [(t, parse_config(t)) for t in CONFIGS + ["deny rm *\nallow foo\ndeny denied\nask git push *\n"]]
    n = ctx.scale(2500, 80000) * (3 if ctx.broken else 1)
    cwd = Path(CWD)

    def vio(cmd, cfg_text, required, observed, oracle):
        if len(vios) < 8:
            vios.append({"input": {"command": cmd, "config": cfg_text, "cwd": CWD}, "observed": observed, "required": required, "oracle": oracle})

    for _ in range(n):
        form, inner, pathfree, ctxname, c = gen(r)
        cfg_text, cfg = r.pick(cfgs)
        x = form.format(i=inner)
        full = c.format(x=x)
        d = analyze(full, cfg, cwd)
        stats["evaluations"] += 1
        stats["ctx:" + ctxname] += 1
        stats["verdict:" + d.action] += 1
        is_exec = not form.startswith(("docker compose", "docker --context", "docker container"))  # forms whose dispatch is the handler's business
        shell_syntax = any(t in inner for t in (" > ", " && ", " | ", ";")) and not inner.startswith("sh -c")
        if ctxname == "plain" and shell_syntax:
            # the operator belongs to the outer (local) shell, not to the delegated command
            stats["inner_with_outer_syntax"] += 1
        elif ctxname == "plain":
            dr = analyze(inner, cfg, cwd, remote=True)
            dl = analyze(inner, cfg, cwd)
            stats["inner_local:" + dl.action] += 1
            if d.action == "allow" or is_exec:
                # (a) the delegated verdict is the inner command's remote verdict (a handler may still refuse to delegate: ask)
                if RANK[d.action] < RANK[dr.action]:
                    vio(full, cfg_text, "exec form judged more leniently than analyze(INNER, remote=True) = %s" % dr.action, {"exec": [d.action, d.reason], "inner_remote": [dr.action, dr.reason]}, "delegate=remote-inner")
                elif is_exec and d.action != dr.action and not d.reason.startswith(("docker", "podman", "kubectl")):
                    vio(full, cfg_text, "exec form differs from analyze(INNER, remote=True) = %s" % dr.action, {"exec": [d.action, d.reason], "inner_remote": [dr.action, dr.reason]}, "delegate=remote-inner")
            # (b) remote only relaxes, and only what depends on paths
            if RANK[dr.action] > RANK[dl.action]:
                vio(inner, cfg_text, "remote mode judged INNER more strictly (%s) than local mode (%s)" % (dr.action, dl.action), {"remote": [dr.action, dr.reason], "local": [dl.action, dl.reason]}, "remote<=local")
            if pathfree and pathfree_config(cfg_text) and (dr.action, dr.reason) != (dl.action, dl.reason):
                vio(inner, cfg_text, "path-free command under a path-free rule set: remote and local verdicts must coincide", {"remote": [dr.action, dr.reason], "local": [dl.action, dl.reason]}, "pathfree-equal")
            # (c) plain-text deny rules bite
            if pathfree and dl.action == "deny" and "alias" not in cfg_text and not inner.startswith(("g ", "ll")) and d.action != "deny" and is_exec and not d.reason.startswith(("docker", "podman", "kubectl")):
                vio(full, cfg_text, "INNER is denied by a rule on its plain text; the delegated form must be denied too", {"exec": [d.action, d.reason], "inner_local": [dl.action, dl.reason]}, "deny-bites")
            if len(samples) < 3 and dr.action != dl.action:
                samples.append({"exec": full, "verdict": d.action, "inner_local": dl.action, "inner_remote": dr.action})
        else:
            # (d) the outer context keeps full local checking
            base = analyze(c.format(x="true"), cfg, cwd)
            if RANK[d.action] < RANK[base.action]:
                vio(full, cfg_text, "the context alone (around `true`) is judged %s; around an exec it must not be judged more leniently" % base.action, {"with_exec": [d.action, d.reason], "with_true": [base.action, base.reason]}, "outer-context-local")
    return {"violations": vios, "evaluations": stats["evaluations"], "distinct_nontrivial": stats["evaluations"], "stats": dict(stats), "samples": samples, "oracle": "delegate = remote inner; remote <= local; path-free equality; deny bites; outer context local"}


def matches_finding(entry, v) -> bool:
    return False


def finding_still_fails(ctx, entry) -> bool:
    return False


def replay(payload) -> int:
    from dippy.core.analyzer import analyze
    from dippy.core.config import parse_config

    inp = payload["input"]
    cfg = parse_config(inp.get("config", ""))
    d = analyze(inp["command"], cfg, Path(inp.get("cwd", CWD)))
    print("analyze(%r) ->" % inp["command"], d.action, "|", d.reason)
    print("observed at check time:", payload.get("observed"))
    print("required:", payload.get("required"))
    return 1
