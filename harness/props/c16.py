"""C16 — SQL classified read-only really is read-only."""
from __future__ import annotations

import collections
import os
import shutil
import sqlite3
import tempfile
from concurrent.futures import ThreadPoolExecutor
from pathlib import Path

import corr_config as CC
from common import has_surrogate, rng

ID = "C16"
PROP_FILES = ["C16"]
RULE = (
    "correspondence: _strip_quoted, _has_multiple_statements and is_readonly_sql (with the sqlite3 write set) vs the Lean model on SQL texts built from statements x CTE prefixes x line and block comments x four quoting styles "
    "(with embedded separators, doubled quotes, backslashes, unterminated forms) x separators x letter case x non-ASCII word characters whose upper() is ASCII; sqlite3 classify() vs the model on option/argument lists. "
    "search (T2): every generated text classified read-only - alone, and split into successive sqlite3 arguments - is executed by the real SQLite engine (Python's sqlite3 module, executescript per argument) on a scratch database with tables, "
    "an index, a view, a trigger, user_version and a neighbouring attachable file; contents, schema, pragmas and the directory listing must be unchanged; analyze('sqlite3 db ARGS') = allow implies the same."
)
TRUSTED = ["T0 translator (keyword sets, quoting alternatives, option tuples, str.upper table)", "T1 correspondence harness", "SQLite %s through Python's sqlite3 module stands for the sqlite3 shell's engine" % sqlite3.sqlite_version]
ASSUMES = [
    "engine semantics (a single SELECT/EXPLAIN statement without side-effect functions leaves the database unchanged) are exercised, not proved",
    "the sqlite3 shell binary is not installed: dot-commands and shell-only SQL functions (writefile, edit, .shell) cannot be executed here (finding F16b is by documentation)",
    "the shell's option grammar (which options take one or two values, -readonly opens mode=ro, -safe leaves DML on the main database enabled, an unknown option stops the run) is taken from shell.c / sqlite.org/cli.html and simulated with Python's sqlite3 (shell_reads, execute_cli)",
]
CWD = "/tmp/probe"
SQLITE_WRITE = ["PRAGMA", "ATTACH", "DETACH", "VACUUM", "REINDEX", "ANALYZE"]

READS = ["PRAGMA table_info(t)", "PRAGMA user_version", "pragma index_list(t)", "PRAGMA main.table_info(t)", "SELECT 1", "select * from t", "SELECT a, b FROM t WHERE a > 1", "SELECT count(*) FROM t2", "EXPLAIN SELECT 1", "explain query plan select * from t", "SELECT * FROM v", "SELECT 'x' AS y", "SELECT \"a\" FROM t",
         "SELECT [a] FROM t", "SELECT `a` FROM t", "SELECT a FROM t ORDER BY 1 LIMIT 1", "VALUES (1)", "SELECT sqlite_version()", "SELECT 1 UNION SELECT 2", "SELECT (SELECT max(a) FROM t)"]
WRITES = ["INSERT INTO t VALUES (9, 'w')", "DELETE FROM t", "UPDATE t SET b = 'z'", "DROP TABLE t2", "CREATE TABLE n (x)", "REPLACE INTO t VALUES (1, 'r')", "ALTER TABLE t ADD COLUMN c", "CREATE INDEX i2 ON t(b)",
          "PRAGMA user_version = 7", "PRAGMA user_version(7)", "PRAGMA application_id(1234)", "pragma main.user_version(9)", "PRAGMA journal_mode(wal)", "PRAGMA main.application_id = 5", "ATTACH 'other.db' AS o", "VACUUM", "DROP VIEW v", "CREATE TABLE n2 AS SELECT 1", "INSERT INTO t2 SELECT a FROM t", "DELETE FROM t WHERE a = 1", "ANALYZE", "REINDEX"]
CTES = ["WITH show AS (SELECT 1 AS x) ", "WITH describe(x) AS (SELECT 1) ", "WITH explain AS MATERIALIZED (SELECT 1) ", "with Show as (select 1), b as (select 2) ", "WITH a AS (SELECT 1), desc AS (SELECT 2) ",
        "WITH RECURSIVE show(n) AS (SELECT 1 UNION ALL SELECT n+1 FROM show WHERE n < 3) ", "WITH replace AS (SELECT 1) ", "WITH pragma AS (SELECT 1) ", "WITH \"select\" AS (SELECT 1) ", "WITH [show] AS (SELECT 1) ", "WITH values_ AS (SELECT 1) ",
        "WITH x AS (SELECT 1) ", "WITH RECURSIVE c(n) AS (SELECT 1 UNION ALL SELECT n+1 FROM c WHERE n < 3) ", "with a as (select 1), b as (select 2) ", "WITH x(y) AS (VALUES (1)) ", "WITH x AS (SELECT ')' ) ", "WITH x AS MATERIALIZED (SELECT 1) "]
QUOTED = ["'lit'", "'it''s'", "';'", "'a; DELETE FROM t; --'", "\"col\"", "\"a\"\"b\"", "`bt`", "[br]", "'a\\'", "'C:\\dir\\'", "'--'", "'/*'", "\"';\"", "'\n'", "[;]", "`;`", "'unterminated", "\"unterminated", "''", "''''"]
COMMENTS = ["-- c\n", "/* c */", "/* ; */", "-- ; DROP TABLE t\n", "/* ' */", "-- '\n", "/**/", "/* \n */", "--", "/* unterminated", "-- x"]
SEPS = [";", "; ", " ;", ";\n", ";;", "; ;", " ; ; ", ";\t"]
ODD = ["ſelect 1", "DEſCRIBE t", "EXPLAıN SELECT 1", "SELECT\u00a01", "ＳＥＬＥＣＴ 1", "S\u200bELECT 1", "select/**/1", "SELECT(1)", "(SELECT 1)", ".shell id", ".read x.sql", ".dump", "1", "", " ", "SELECT", "WITH", "EXPLAIN", "SELECT 1 INTO x FROM t", "SELECT into_col FROM t", "SELECT 1 -- ; \n; DELETE FROM t"]


# delimiters that quote in *other* SQL dialects (PostgreSQL dollar quoting and E'' strings, Oracle q'[]', MySQL '#' comments,
# nested comments) or are bind parameters in SQLite: SQLite executes what stands between them
PSEUDO = [("$a(')", "--'"), (":a(')", "--'"), ("@v(\")", "--\""), ("#t(')", "-- '"), ("$a::b(')", "--'"), ("$a(x')", "--')"), ("x::numeric(10,2) '", "'"), ("$$", "$$"), ("$a$", "$a$"), ("$q_1$", "$q_1$"), ("?", "?"), ("?1", "?1"), (":x", ":x"), ("@v", "@v"), ("# ", "\n"), ("/* /* */", "*/"), ("E'\\'", "'"), ("q'[", "]'"),
          ("{", "}"), ("<<", ">>"), ("N'", "'"), ("x'", "'"), ("$$ --", "\n$$"), ("U&'", "'")]


def gen_pseudo(r):
    o, c = r.pick(PSEUDO)
    w = gen_stmt(r, write=True)
    k = r.randrange(3)
    if k == 0:
        return "SELECT %s%s%s%sSELECT %s" % (o, r.pick(SEPS), w, r.pick(SEPS), c)
    if k == 1:
        return "SELECT %s AS x; %s; --%s" % (o, w, c)
    return "SELECT 1 %s; %s %s" % (o, w, c)


def flip_case(r, s):
    return "".join(c.upper() if r.chance(0.3) else c.lower() if r.chance(0.3) else c for c in s)


def gen_stmt(r, write=None):
    if write is None:
        write = r.chance(0.4)
    base = r.pick(WRITES if write else READS)
    if r.chance(0.25):
        base = r.pick(CTES) + base
    if r.chance(0.3):
        base = flip_case(r, base)
    return base


def gen_sql(r):
    k = r.random()
    if k < 0.08:
        return r.pick(ODD)
    if k < 0.16:
        return gen_pseudo(r)
    parts = []
    n = 1 if r.chance(0.55) else r.randint(2, 3)
    for i in range(n):
        st = gen_stmt(r, write=(None if i else r.chance(0.25)))
        # decorate with comments and quoted things at the front, middle, end
        if r.chance(0.35):
            st = r.pick(COMMENTS) + st
        if r.chance(0.35):
            st = st + " " + r.pick(["", "AS q", ","]) + r.pick(QUOTED) if st.upper().lstrip().startswith(("SELECT", "WITH", "EXPLAIN")) and r.chance(0.7) else st + " " + r.pick(COMMENTS)
        if r.chance(0.2):
            st = st + " " + r.pick(COMMENTS)
        parts.append(st)
    sql = parts[0]
    for p in parts[1:]:
        sql += r.pick(SEPS) + p
    if r.chance(0.3):
        sql += r.pick(SEPS)
    if r.chance(0.1):
        sql = r.pick([" ", "\n", "\t"]) + sql
    return sql


def corr_sql(model, r, n):
    from dippy.core import sql as S

    acc = CC.Acc("is_readonly_sql / _strip_quoted / _has_multiple_statements")
    items = [x for x in (gen_sql(r) for _ in range(n)) if not has_surrogate(x)]
    reps = model.batch([y for x in items for y in ({"op": "sql_strip", "s": x}, {"op": "sql_multi", "s": x}, {"op": "sql_readonly", "s": x, "xr": [], "xw": SQLITE_WRITE})])
    for i, x in enumerate(items):
        impl = [S._strip_quoted(x), S._has_multiple_statements(x), S.is_readonly_sql(x, extra_write=frozenset(SQLITE_WRITE))]
        rep = reps[3 * i: 3 * i + 3]
        acc.case(x, impl, rep, nontrivial=impl[2] is not None, tag="ro:" + str(impl[2]), sample={"sql": x[:120], "readonly": impl[2]})
    return acc.result()


OPTS = ["-readonly", "-safe", "-init", "x.sql", "-cmd", "-header", "-csv", "-separator", "|", "-lookaside", "10", "-batch", "-unknown", "-A", "--help", "-help", "-version", "-json", "-newline", "-", "--",
        "-pagecache", "-mmap", "-heap", "-threadsafe", "-sorterref", "1", "-nullvalue", "-vfs", "-maxsize"]


def gen_tokens(r):
    toks = ["sqlite3"]
    for _ in range(r.randint(0, 3)):
        toks.append(r.pick(OPTS))
    if r.chance(0.9):
        toks.append(r.pick(["db", ":memory:", "/tmp/x.db"]))
    for _ in range(r.randint(0, 3)):
        toks.append(gen_sql(r) if r.chance(0.75) else r.pick(OPTS))
    return toks


def corr_sqlite(model, r, n):
    import dippy.cli.sqlite3 as H
    from dippy.cli import HandlerContext

    acc = CC.Acc("sqlite3 classify() vs the model")
    items = [t for t in (gen_tokens(r) for _ in range(n)) if not has_surrogate("".join(t))]
    reps = model.batch([{"op": "sqlite_classify", "tokens": t} for t in items])
    for t, rep in zip(items, reps):
        c = H.classify(HandlerContext(t))
        acc.case(t, c.description, rep, nontrivial=c.action == "allow", tag=c.description, sample={"tokens": t[:6], "classification": c.description})
    return acc.result()


def corr_t0(model):
    from dippy.core import sql as S

    acc = CC.Acc("T0: compiled pattern flags and upper() table")
    import re

    acc.case("_QUOTED_PATTERN flags", S._QUOTED_PATTERN.flags & (re.VERBOSE | re.DOTALL | re.IGNORECASE | re.MULTILINE), int(re.VERBOSE | re.DOTALL), sample={"flags": "VERBOSE|DOTALL"})
    acc.case("_KEYWORD_PATTERN", S._KEYWORD_PATTERN.pattern, r"[A-Za-z_]\w*")
    acc.case("_WHITESPACE_PATTERN", S._WHITESPACE_PATTERN.pattern, r"\s+")
    return acc.result()


def correspondence(ctx):
    k = 2 if ctx.broken else 1
    return [corr_t0(ctx.model), corr_sql(ctx.model, rng("c16-sql"), ctx.scale(5000, 150000) * k), corr_sqlite(ctx.model, rng("c16-cli"), ctx.scale(2500, 60000) * k)]


# ------------------------------------------------------------------ the engine


def make_db(d):
    p = os.path.join(d, "main.db")
    con = sqlite3.connect(p)
    con.executescript(
        "CREATE TABLE t (a INTEGER, b TEXT); INSERT INTO t VALUES (1,'x'),(2,'y'),(3,'z');"
        "CREATE TABLE t2 (a); INSERT INTO t2 VALUES (10),(20); CREATE INDEX i1 ON t(a); CREATE VIEW v AS SELECT a FROM t;"
        "CREATE TABLE log (m); CREATE TRIGGER tr AFTER INSERT ON t BEGIN INSERT INTO log VALUES ('ins'); END; PRAGMA user_version = 3;"
    )
    con.commit()
    con.close()
    con = sqlite3.connect(os.path.join(d, "other.db"))
    con.executescript("CREATE TABLE o (x); INSERT INTO o VALUES (1);")
    con.commit()
    con.close()
    return p


def state(d):
    out = {}
    for name in sorted(os.listdir(d)):
        p = os.path.join(d, name)
        if name.endswith(".db"):
            try:
                con = sqlite3.connect("file:" + p + "?mode=ro", uri=True)
                out[name] = ("\n".join(con.iterdump()), con.execute("PRAGMA user_version").fetchone(), con.execute("PRAGMA schema_version").fetchone())
                con.close()
            except sqlite3.Error as e:
                out[name] = "unreadable: %s" % e
        else:
            out[name] = os.path.getsize(p)
    return out


def execute(args):
    """run each argument as the shell would (one executescript per argument); returns the state diff or None"""
    d = tempfile.mkdtemp(prefix="dippy-verif-sql-")
    try:
        p = make_db(d)
        before = state(d)
        try:
            saved = os.getcwd()
        except OSError:
            saved = "/"
        os.chdir(d)
        try:
            con = sqlite3.connect(p)
            for a in args:
                try:
                    con.executescript(a)
                except (sqlite3.Error, sqlite3.Warning, ValueError):
                    pass  # the shell reports the error and goes on with the next argument
            try:
                con.commit()
            except sqlite3.Error:
                pass
            con.close()
        finally:
            os.chdir(saved)
        after = state(d)
        if before != after:
            changed = [k for k in sorted(set(before) | set(after)) if before.get(k) != after.get(k)]
            return changed
        return None
    finally:
        shutil.rmtree(d, ignore_errors=True)


# the sqlite3 shell's command line, as shell.c's main() reads it (the binary is not installed here: this reading is an
# assumption, listed in ASSUMES): option words start with '-' ('--x' = '-x'); these take one value, those two; the first
# other word is the database, the following ones are run as SQL; -cmd's value is run before them; an unknown option ends
# the run before anything is executed
SHELL_ONE = {"-separator", "-nullvalue", "-newline", "-cmd", "-init", "-heap", "-mmap", "-vfs", "-maxsize", "-nonce", "-threadsafe", "-sorterref"}
SHELL_TWO = {"-lookaside", "-pagecache"}
SHELL_ZERO = {"-readonly", "-safe", "-batch", "-bail", "-header", "-noheader", "-csv", "-json", "-list", "-line", "-column", "-html", "-quote", "-table", "-box", "-markdown", "-tabs", "-ascii", "-echo", "-stats", "-interactive",
              "-nofollow", "-append", "-deserialize", "-memtrace", "-zip", "-multiplex"}


def shell_reads(argv):
    """(readonly?, safe?, init file?, [SQL texts in execution order]) or None when the shell stops at an unknown option / help"""
    ro = safe = False
    init = None
    cmds, sqls = [], []
    db = None
    i = 0
    while i < len(argv):
        z = argv[i]
        if not z.startswith("-"):
            if db is None:
                db = z
            else:
                sqls.append(z)
            i += 1
            continue
        if z.startswith("--"):
            z = z[1:]
        if z in SHELL_ONE:
            if i + 1 >= len(argv):
                return None
            if z == "-cmd":
                cmds.append(argv[i + 1])
            if z == "-init":
                init = argv[i + 1]
            i += 2
        elif z in SHELL_TWO:
            if i + 2 >= len(argv):
                return None
            i += 3
        elif z in SHELL_ZERO:
            ro = ro or z == "-readonly"
            safe = safe or z == "-safe"
            i += 1
        else:
            return None
    if db is None:
        return None
    return ro, safe, init, cmds + sqls


def execute_cli(argv):
    """run the command line the way shell_reads says the shell would: state diff or None"""
    rd = shell_reads(argv)
    if rd is None:
        return None
    ro, _safe, init, texts = rd
    if init is not None:
        return ["<-init script: unknown content>"]
    d = tempfile.mkdtemp(prefix="dippy-verif-sqlcli-")
    try:
        p = make_db(d)
        before = state(d)
        saved = os.getcwd()
        os.chdir(d)
        try:
            con = sqlite3.connect("file:" + p + ("?mode=ro" if ro else ""), uri=True)
            if ro:
                # the shell opens with SQLITE_OPEN_READONLY and attached databases inherit the flags (no file is created, none
                # is writable); Python's module always opens read-write+create and narrows the main file only: refuse ATTACH,
                # which leaves the same state behind
                con.set_authorizer(lambda action, *a: sqlite3.SQLITE_DENY if action == sqlite3.SQLITE_ATTACH else sqlite3.SQLITE_OK)
            for a in texts:
                try:
                    con.executescript(a)
                except (sqlite3.Error, sqlite3.Warning, ValueError):
                    pass
            try:
                con.commit()
            except sqlite3.Error:
                pass
            con.close()
        finally:
            os.chdir(saved)
        after = state(d)
        if before != after:
            return [k for k in sorted(set(before) | set(after)) if before.get(k) != after.get(k)]
        return None
    finally:
        shutil.rmtree(d, ignore_errors=True)


VALUES = ["-readonly", "-safe", "1", "0", ",", "x", "-batch", "-init", "-cmd"]


def gen_cli(r):
    """option words (with values that look like options) + database + SQL arguments"""
    argv = []
    for _ in range(r.randint(1, 3)):
        k = r.random()
        if k < 0.3:
            argv.append(r.pick(["-readonly", "-safe", "-batch", "-header", "-csv", "-bail", "--readonly"]))
        elif k < 0.7:
            argv += [r.pick(sorted(SHELL_ONE - {"-init"})), r.pick(VALUES)]
        else:
            argv += [r.pick(sorted(SHELL_TWO)), r.pick(VALUES), r.pick(VALUES)]
    argv.append("main.db")
    for _ in range(r.randint(1, 2)):
        argv.append(gen_stmt(r, write=r.chance(0.7)))
    if r.chance(0.15):
        argv.insert(r.randint(0, len(argv)), r.pick(["-readonly", "-safe"]))
    return argv


def shell_quote(s):
    return "'" + s.replace("'", "'\"'\"'") + "'"


def search(ctx):
    from dippy.core import sql as S
    from dippy.core.analyzer import analyze
    from dippy.core.config import Config

    r = rng("c16-search")
    stats = collections.Counter()
    vios = []
    samples = []
    n = ctx.scale(6000, 200000) * (3 if ctx.broken else 1)
    jobs = []
    xw = frozenset(SQLITE_WRITE)
    for _ in range(n):
        if r.chance(0.7):
            args = [gen_sql(r)]
        else:
            args = [gen_sql(r) for _ in range(r.randint(2, 3))]
        if any("\0" in a or has_surrogate(a) for a in args):
            continue
        if any(a.startswith("-") for a in args):
            # the shell takes such an argument for an option ("unknown option", exit 1, nothing is run): not an SQL argument
            stats["skipped_option_like_argument"] += 1
            continue
        stats["evaluations"] += 1
        ro = [S.is_readonly_sql(a, extra_write=xw) for a in args]
        stats["classified:" + ("ro" if all(x is True for x in ro) else "write" if any(x is False for x in ro) else "unknown")] += 1
        cmd = "sqlite3 main.db " + " ".join(shell_quote(a) for a in args)
        try:
            d = analyze(cmd, Config(), Path(CWD))
        except Exception:  # noqa: BLE001
            continue
        if d.action == "allow" or all(x is True for x in ro):
            jobs.append((args, ro, cmd, d.action))
    stats["executed"] = len(jobs)

    import multiprocessing as mp

    # processes, not threads: the engine is run with the scratch directory as cwd (relative ATTACH/VACUUM INTO names)
    with mp.get_context("fork").Pool(16) as pool:
        results = pool.map(execute, [j[0] for j in jobs], chunksize=16)
    for (args, ro, cmd, action), changed in zip(jobs, results):
        if True:
            if changed:
                which = "analyze() = allow" if action == "allow" else "is_readonly_sql = True for every argument"
                if len(vios) < 6:
                    vios.append({"input": {"sql_args": args, "command": cmd, "cwd": CWD, "config": ""}, "observed": {"verdict": action, "is_readonly": ro, "changed": changed}, "required": which + ", but executing the text with SQLite %s changed: %s" % (sqlite3.sqlite_version, ", ".join(changed)), "oracle": "sqlite-state-diff"})
            elif len(samples) < 3 and any(";" in a or "'" in a for a in args):
                samples.append({"sql_args": [a[:100] for a in args], "verdict": action, "state": "unchanged"})
    # (2) option words: the verdict on a whole sqlite3 command line against what the shell does with its options
    r2 = rng("c16-cli")
    cli_jobs = []
    for _ in range(ctx.scale(1500, 30000) * (3 if ctx.broken else 1)):
        argv = gen_cli(r2)
        if any("\0" in a or has_surrogate(a) for a in argv):
            continue
        cmd = "sqlite3 " + " ".join(shell_quote(a) for a in argv)
        try:
            d = analyze(cmd, Config(), Path(CWD))
        except Exception:  # noqa: BLE001
            continue
        stats["evaluations"] += 1
        stats["cli_lines"] += 1
        rd = shell_reads(argv)
        stats["cli:" + ("stops" if rd is None else "readonly" if rd[0] else "safe" if rd[1] else "read-write") + ":" + d.action] += 1
        if d.action == "allow":
            cli_jobs.append((argv, cmd))
    stats["cli_executed"] = len(cli_jobs)
    with mp.get_context("fork").Pool(16) as pool:
        results = pool.map(execute_cli, [j[0] for j in cli_jobs], chunksize=16)
    nk = 0
    for (argv, cmd), changed in zip(cli_jobs, results):
        if changed:
            rd = shell_reads(argv)
            tag = "F16d" if rd and rd[1] and not rd[0] else None
            v = {"input": {"argv": argv, "command": cmd, "cwd": CWD, "config": ""}, "finding_tag": tag, "observed": {"verdict": "allow", "shell_reads": {"readonly": rd[0], "safe": rd[1], "sql": rd[3]}, "changed": changed},
                 "required": "analyze() = allow, but with these options the shell opens the database read-write and runs the SQL arguments, which changed: " + ", ".join(changed), "oracle": "sqlite-cli-options"}
            if tag:
                nk += 1
                if nk <= 2:
                    vios.append(v)
            elif len(vios) < 8:
                vios.append(v)
    return {"violations": vios, "evaluations": stats["evaluations"], "distinct_nontrivial": stats["executed"] + stats["cli_executed"], "stats": dict(stats), "samples": samples, "oracle": "state diff of a scratch SQLite database (dump, schema_version, user_version, directory) after executing every text classified read-only"}


def matches_finding(entry, v) -> bool:
    m = entry.get("match") or {}
    if m.get("finding_tag"):
        return v.get("finding_tag") == m["finding_tag"]
    return False


def finding_still_fails(ctx, entry) -> bool:
    from dippy.core.analyzer import analyze
    from dippy.core.config import Config

    w = entry["witness"]
    return analyze(w["command"], Config(), Path(w.get("cwd", CWD))).action == "allow"


def replay(payload) -> int:
    from dippy.core import sql as S
    from dippy.core.analyzer import analyze
    from dippy.core.config import Config

    i = payload["input"]
    print("is_readonly_sql:", [S.is_readonly_sql(a, extra_write=frozenset(SQLITE_WRITE)) for a in i["sql_args"]])
    print("analyze:", analyze(i["command"], Config(), Path(CWD)))
    print("engine state changed:", execute(i["sql_args"]))
    print("required:", payload.get("required"))
    return 1
