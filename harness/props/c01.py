"""C01 — no hidden execution: approval covers every command bash would run."""
from __future__ import annotations

import collections
from concurrent.futures import ThreadPoolExecutor
from pathlib import Path

import bashgen as B
import corr_config as CC
from common import rng
from corr_analyzer import correspondence as corr_run
from jail import Jail

ID = "C01"
PROP_FILES = ["C01"]
RULE = (
    "correspondence: grammar-generated programs covering every compound kind and every expansion position (command/process substitutions, ${..} arguments and subscripts, $((..)), $[..], array assignments, "
    "case patterns, [[ ]] operands, here-documents, for((..)) headers, redirect targets) – also with raw texts that stress the scanner (quotes, escapes, comments, bare parentheses) – analysed by the real "
    "analyze() and by the model on the same Parable AST, compared on action, reason and the exact set of re-parsed strings. "
    "search (T2): every generated program Dippy auto-approves is executed by real /usr/bin/bash 5.2 in a jail whose external commands are logging stubs; a stub of a command Dippy would not approve on its own must never run."
)
TRUSTED = ["T0 translator (node kinds, tables)", "T1 correspondence harness", "vendor/parable.py = the oracle World.parse", "real bash 5.2 in a jail of logging stubs (T2; validation and failing-input search only)"]
ASSUMES = [
    "Parable returns the AST the harness serialises; what bash evaluates inside a raw text is what the scanner finds when it vouches for it (validated by T2, not proved)",
    "aliases, functions defined elsewhere, PATH lookups, eval/source of computed text and commands reached through handlers' delegation (C04) are outside this property's theorem",
    "bash builtins that are on the always-safe list (echo, true, pwd, cd, printf, read …) do not appear in the jail's exec log; only external programs do",
]
CWD = "/tmp/probe"

NONAPPROVABLE = {"rm", "foo", "askme", "mv", "chmod", "script.sh", "curl", "denied", "nope"}
STUBS = ["ls", "cat", "git", "ok1", "grep", "wc", "head", "rm", "foo", "askme", "mv", "chmod", "script.sh", "curl", "denied", "nope"]
RAW_NOISE = ["", " ", "a", "\\)", "'x)'", '"y)"', "#c", " #c\n", "(", ")", "$(", "`", "\\`", "$((1+2))", "'", '"', "\\", ";", "\n", "$x", "${y}", "z z"]


def _cfg():
    from dippy.core.config import parse_config

    return parse_config(B.CONFIG_TEXT)


def raw_stress(r) -> str:
    """a simple command whose raw-text positions contain things the scanner must handle or refuse"""
    inner = r.pick(["rm x", "ls", "denied", "echo hi", "foo"])
    opener = r.pick(["$(", "$(", "$(", "<(", ">("])  # bash runs <( ) and >( ) in ${..} arguments, [[ ]] operands and case patterns
    body = "".join(r.pick(RAW_NOISE) for _ in range(r.randint(0, 3))) + r.pick(["", "", "", "\\\\", "\\\\\\\\", "x\\\\"]) + opener + r.pick(["echo a", "ls", inner]) + "".join(r.pick(RAW_NOISE) for _ in range(r.randint(0, 2))) + "; " + inner + ")" + "".join(r.pick(RAW_NOISE) for _ in range(r.randint(0, 2)))
    k = r.random()
    if k < 0.3:
        return "echo ${x:-" + body + "}"
    if k < 0.42:
        return "[[ x " + r.pick(["==", "=~", "!="]) + " " + body.replace("\n", " ") + " ]]"
    if k < 0.55:
        return "cat <<EOF\n" + body + "\nEOF"
    if k < 0.7:
        return "(( " + body + " ))"
    if k < 0.8:
        return "echo $(( " + body + " ))"
    if k < 0.9:
        return "case x in " + body.replace("\n", " ") + ") ls;; esac"
    return "echo ${a[" + body + "]}"


POSITIONS = [
    "echo @", "echo pre@post", "X=@ true", "X=@", "a=(@ b)", "a+=(@)", "export X=@", "declare -a b=(@)", "local x=@",
    "echo ${x:-@}", "echo ${x:=@}", "echo ${HOME:+@}", "echo ${x-@}", "echo ${HOME+@}", "echo ${HOME#@}", "echo ${HOME%%@}", "echo ${HOME/@/y}", "echo ${HOME//x/@}", "echo ${HOME:@}",
    "echo ${a[@]}", "echo ${#a[@]}", "echo ${!a[@]}", "a[@]=1", "echo ${x:-${y:-@}}", "echo ${x:-a ${y:-b @} c}",
    "echo $(( @ + 1 ))", "echo $(( a[@] ))", "echo $[ @ ]", "(( @ ))", "(( x = @ ))", "for ((i=@; i<1; i++)); do :; done", "for ((i=0; i<@; i++)); do break; done", "let x=@",
    "for i in @; do :; done", "for i in a @; do :; done", "case @ in x) ;; esac", "case x in @) ;; esac", "case x in a|@) ;; esac", "case x in x) echo @ ;; esac",
    "[[ -n @ ]]", "[[ @ == x ]]", "[[ x == @ ]]", "[[ x =~ @ ]]", "[[ x == a@b ]]", "[[ -v a[@] ]]", "[[ ! ( -z @ && x ) ]]", "[ -n @ ]", "test -n @",
    "cat <<EOF\n@\nEOF", "cat <<-EOF\n\t@\nEOF", "cat <<< @", "cat < @", "echo hi > @", "echo hi >> @", "echo hi >| @", "echo hi 2> @", "echo hi &> @", "echo hi 2>&@", "echo hi >&@", "exec 3> @", "cat 0< @",
    "f() { echo @; }; f", "function g { echo @; }; g", "time echo @", "! echo @", "( echo @ )", "{ echo @; }", "echo a | echo @", "true && echo @", "false || echo @", "echo a; echo @", "echo @ &",
    "if echo @; then :; fi", "if true; then echo @; fi", "if false; then :; else echo @; fi", "if false; then :; elif echo @; then :; fi", "while echo @; do break; done", "until echo @; do break; done", "while true; do echo @; break; done",
    "echo \"${x:-@}\"", "echo \"pre ${x:-a @ b} post\"", "echo \"$(echo @)\"", "echo $(echo @)", "echo `echo @`", "echo $(echo $(echo @))", "echo <(echo @)", "cat <(echo @)", "echo @ > /dev/null 2>&1", "x=${y:-@} true",
    "echo msg=\"${x:-@}\"", "X=\"${x:-@}\" true", "echo pre\"${x:-@}\"post", "echo --a=\"${x:-a @ b}\"", "X=\"${HOME:+@}\"", "for i in a\"${x-@}\"; do :; done", "echo 'lit'\"${x:=@}\"",
    # a subscript with brackets of its own; text where a ' may or may not quote; a compound ending right before a closer
    "a['$(while b[$(true)]=v; do echo @; break; done)']=1", "a[b[1]+@]=1", "a[${b[0]}@]+=1", "echo ${HOME:+a '$(A='@' true)' b}", "[[ x == ${HOME:+a '$(A='@' true 'c;d')' b} ]]", "echo \"${HOME:+a '$(A='@' true)' b}\"",
    "case x in ${HOME:+a '$(A='@' true)'}) ;; esac", "( case x in a) : ;; esac ); echo @; ( case x in b) : ;; esac )", "( case x in x) : ;; esac ) ; echo @", "echo $(case x in x) : ;; esac); echo @",
    "printf '%s' @", "eval echo @", "echo {a,@}", "echo ~/@", "echo $'x'@", "echo ${x:-'lit'@}", "echo ${x:-\"dq\"@}", "echo ${x:-\\@}",
]
SUBSTS = ["$(rm x)", "`rm x`", "<(rm x)", ">(rm x)", "$( rm x )", "$(rm x;)", "$(rm x\n)", "$(rm x #c\n)", "$((1)); rm x", "${z:-$(rm x)}", "$(echo a; rm x)", "$(true && rm x)", "$(true | rm x)", "$(if true; then rm x; fi)"]
QUOTES = ["@", "\"@\"", "\"a @ b\"", "'@'", "\"'@'\"", "a'b'@", "\\@", "\"it's @ isn't\"", "@@"]


def position_matrix():
    """every syntactic position x substitution syntax x quoting context, with the non-approvable `rm x` inside:
    deterministic (no seed), so each combination is exercised on every run"""
    for pos in POSITIONS:
        for s in SUBSTS:
            for q in QUOTES:
                yield pos.replace("@", q.replace("@", s))


def correspondence(ctx):
    cfg = _cfg()
    r = rng("c01-corr")
    n = ctx.scale(1800, 50000) * (2 if ctx.broken else 1)
    g1 = B.Gen(r, exotic=True, raw_safe=True, p_ask=0.15, p_deny=0.05)
    g2 = B.Gen(r, exotic=True, raw_safe=False, p_ask=0.15, p_deny=0.05)

    def cases():
        # the deterministic position matrix (every third entry, rotating with the seed) also goes through the model
        off = r.randrange(3)
        for i, t in enumerate(position_matrix()):
            if i % 3 == off:
                yield t, None
        for i in range(n):
            x = r.random()
            if x < 0.45:
                yield g1.program()[1], None
            elif x < 0.75:
                yield g2.program()[1], None
            else:
                yield raw_stress(r), None

    res = corr_run(ctx.model, cases(), cfg)
    res["area"] = "analyzer incl. every expansion position and scanner stress (T1-b)"
    return [CC.corr_tables(ctx.model), res]


def search(ctx):
    from dippy.core.analyzer import analyze

    cfg = _cfg()
    r = rng("c01-search")
    stats = collections.Counter()
    vios = []
    samples = []
    n = ctx.scale(900, 30000) * (3 if ctx.broken else 1)
    g = B.Gen(r, exotic=True, raw_safe=False, p_ask=0.12, p_deny=0.04, pipe_both=False)
    g.no_file_redirects = True
    progs = []
    matrix = list(position_matrix())
    stats["matrix_commands"] = len(matrix)
    for t in matrix:
        try:
            d = analyze(t, cfg, Path(CWD))
        except Exception:  # noqa: BLE001
            continue
        stats["evaluations"] += 1
        stats["matrix:" + d.action] += 1
        if d.action == "allow":
            progs.append(t)
    for i in range(n):
        if r.chance(0.7):
            p, t = g.program()
        else:
            t = raw_stress(r)
        # keep file effects inside /dev/null: drop programs that write elsewhere
        d = analyze(t, cfg, Path(CWD))
        stats["evaluations"] += 1
        stats["verdict:" + d.action] += 1
        if d.action == "allow":
            progs.append(t)
    workers = 12
    jails = [Jail(STUBS) for _ in range(workers)]
    try:
        chunks = [progs[i::workers] for i in range(workers)]

        def run_chunk(args):
            jail, chunk = args
            out = []
            for t in chunk:
                rc, executed, err = jail.run(t, timeout=3)
                out.append((t, rc, executed, err))
            return out

        with ThreadPoolExecutor(workers) as ex:
            results = [x for part in ex.map(run_chunk, zip(jails, chunks)) for x in part]
    finally:
        for j in jails:
            j.cleanup()
    distinct = set()
    for t, rc, executed, err in results:
        stats["bash_runs"] += 1
        distinct.add(t)
        if rc is None:
            stats["bash_timeouts"] += 1
        if b"syntax error" in err:
            stats["bash_syntax_errors"] += 1
        ran_bad = [argv for argv in executed if argv and argv[0] in NONAPPROVABLE]
        stats["stub_execs"] += len(executed)
        if ran_bad:
            vios.append({"input": {"command": t, "config": B.CONFIG_TEXT, "cwd": CWD}, "observed": {"verdict": "allow", "bash_executed": executed[:10]}, "required": "every program bash runs is one Dippy would approve on its own; it ran: " + " ".join(ran_bad[0]), "oracle": "bash-jail"})
        elif executed and len(samples) < 3:
            samples.append({"program": t[:300], "verdict": "allow", "bash_executed": executed[:6]})
        if len(vios) >= 5:
            break
    return {"violations": vios[:5], "evaluations": stats["evaluations"] + stats["bash_runs"], "distinct_nontrivial": len(distinct), "stats": dict(stats), "samples": samples, "oracle": "approved programs executed by real bash in a stub jail"}


def matches_finding(entry, v) -> bool:
    return False


def finding_still_fails(ctx, entry) -> bool:
    return False


def replay(payload) -> int:
    from dippy.core.analyzer import analyze
    from dippy.core.config import parse_config

    inp = payload["input"]
    d = analyze(inp["command"], parse_config(inp.get("config", "")), Path(inp.get("cwd", CWD)))
    print("verdict now:", d.action, "|", d.reason)
    with Jail(STUBS) as j:
        rc, executed, err = j.run(inp["command"])
    print("bash executed:", executed)
    bad = [a for a in executed if a and a[0] in NONAPPROVABLE]
    return 1 if d.action == "allow" and bad else 0
