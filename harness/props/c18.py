"""C18 — verdicts are a pure function of command, configuration, cwd and referenced files."""
from __future__ import annotations

import collections
import functools
import json
import os
import subprocess
from concurrent.futures import ThreadPoolExecutor

import corr_config as CC
import hookrun as H
from common import REPO, rng

ID = "C18"
PROP_FILES = ["C18"]
RULE = (
    "T0: the inventory of process-level mutable state (global statements, cache decorators, stores into / mutator calls on module-level names, attribute stores on modules, setattr, "
    "mutable defaults, mutated class-level containers) extracted from every module of src/dippy must equal the four items the model accounts for (theorem inventory_covered), with the shape facts of main() and "
    "configure_logging (shape_facts). correspondence: the LRU model vs functools.lru_cache on random key sequences (hit/miss and size per operation, capacities 1..5 and 32) and vs the real _load_handler statistics after a "
    "history touching more than 32 handler modules. search: random histories (analyze queries over > 40 handler modules, three rule sets, word-boundary variants of the same text, python scripts; in-process main() calls alternating "
    "host shapes, working and failing log sinks) run in one long-lived interpreter; every answer compared with a fresh process given only that query."
)
TRUSTED = ["T0 state inventory scan (harness/gen_tables.py: scan_state)", "importlib.import_module is deterministic per module name (sys.modules)", "CPython's functools.lru_cache (validated against the model)", "stdlib caches (re, fnmatch) are transparent memoisations of pure functions"]
ASSUMES = ["files are inputs: when a history changes them (fs_histories) the reference is a fresh process in the same file state; HOME, process cwd and environment are inputs, not history", "the vendored parser keeps no state between parse() calls (its module defines no mutated global: part of the T0 scan)"]

HIST = os.path.join(os.path.dirname(os.path.dirname(os.path.abspath(__file__))), "history_proc.py")
CONFIGS = ["", "allow frob\ndeny rm -rf *\nask git push *\nallow-redirect /tmp/ok\n", "deny find * -delete\nallow python3 *\ndeny curl *\nalias g git\n",
           # rules with cwd-relative path tokens: what they denote depends on the effective cwd of each match
           "allow ./run.sh\nallow tools/*\ndeny ./danger.sh \"use make\"\nallow-redirect out/**\nalias ./mk frob\n"]


def corr_lru(model, r, n):
    acc = CC.Acc("LRU model vs functools.lru_cache")
    for _ in range(n):
        cap = r.pick([1, 2, 3, 4, 5, 32])
        keys = ["k%d" % r.randint(0, cap + 3) for _ in range(r.randint(1, 3 * cap + 10))]
        calls = []

        @functools.lru_cache(maxsize=cap)
        def f(k):
            calls.append(k)
            return k

        impl = []
        for k in keys:
            before = f.cache_info().hits
            f(k)
            ci = f.cache_info()
            impl.append({"hit": ci.hits > before, "size": ci.currsize})
        rep = model.ask({"op": "lru", "cap": cap, "keys": keys})
        rep2 = [{"hit": x["hit"], "size": x["size"]} for x in rep] if isinstance(rep, list) else rep
        acc.case([cap, keys], impl, rep2, nontrivial=len(set(keys)) > cap, tag="evicting" if len(set(keys)) > cap else "fits", sample={"cap": cap, "keys": keys[:12]})
    return acc.result()


def start_proc(home, env_extra=None, args=()):
    env = {"HOME": home, "PATH": "/usr/bin:/bin", "LANG": "C.UTF-8"}
    env.update(env_extra or {})
    return subprocess.Popen([H.PY, HIST, os.path.join(REPO, "src"), *args], stdin=subprocess.PIPE, stdout=subprocess.PIPE, stderr=subprocess.DEVNULL, env=env, text=True, cwd=home)


def ask_proc(p, q):
    p.stdin.write(json.dumps(q) + "\n")
    p.stdin.flush()
    line = p.stdout.readline()
    return json.loads(line) if line else {"died": True}


def run_queries(home, qs, env_extra=None):
    p = start_proc(home, env_extra)
    try:
        return [ask_proc(p, q) for q in qs]
    finally:
        try:
            p.stdin.close()
            p.wait(timeout=10)
        except Exception:  # noqa: BLE001
            p.kill()


def corr_handler_cache(model):
    """the real _load_handler statistics after a long history vs the model replaying the same module names"""
    import dippy.cli as CLI

    acc = CC.Acc("_load_handler statistics vs the LRU model")
    facts = model.ask({"op": "statefacts"})
    acc.case("maxsize", CLI._load_handler.cache_info().maxsize, facts["handlerCacheSize"])
    r = rng("c18-cache")
    names = sorted(CLI.KNOWN_HANDLERS)
    seq = [r.pick(names) for _ in range(400)]
    CLI._load_handler.cache_clear()
    base = CLI._load_handler.cache_info()
    for nme in seq:
        CLI.get_handler(nme)
    ci = CLI._load_handler.cache_info()
    rep = model.ask({"op": "lru", "cap": facts["handlerCacheSize"], "keys": [CLI.KNOWN_HANDLERS[x] for x in seq]})
    hits = sum(1 for x in rep if x["hit"])
    acc.case("hits/misses/currsize after 400 lookups over %d modules" % len(set(CLI.KNOWN_HANDLERS.values())), [ci.hits - base.hits, ci.misses - base.misses, ci.currsize], [hits, len(rep) - hits, rep[-1]["size"]], nontrivial=True, sample={"modules": len(set(CLI.KNOWN_HANDLERS.values())), "hits": ci.hits, "misses": ci.misses})
    CLI._load_handler.cache_clear()
    return acc.result()


def correspondence(ctx):
    k = 2 if ctx.broken else 1
    return [corr_lru(ctx.model, rng("c18-lru"), ctx.scale(400, 10000) * k), corr_handler_cache(ctx.model)]


def variants(cmd: str, r):
    """the same text with different word boundaries (quotes moved), so that anything keyed on the joined text collides"""
    toks = cmd.split(" ")
    out = [cmd]
    if len(toks) >= 3:
        i = r.randint(1, len(toks) - 2)
        out.append(" ".join(toks[:i] + ['"' + toks[i] + " " + toks[i + 1] + '"'] + toks[i + 2:]))
    return out


def gen_pool(r, home):
    import dippy.cli as CLI

    names = sorted(CLI.KNOWN_HANDLERS)
    pool = []
    tails = ["", " --help", " -v", " list", " status", " get x", " delete x", " -o out.txt", " x y", " --version"]
    for nme in r.sample(names, min(70, len(names))):
        pool.append(nme + r.pick(tails))
    special = [
        "find . -name x -delete", "curl -o out http://x", "curl http://x", "sed -i s/a/b/ f", "sed -n p f", "echo a | xargs rm -f x", "xargs -I {} ls {}", "git push origin main", "git status", "g push x",
        "rm -rf build", "frob x", "ls > /tmp/ok", "ls > /tmp/nope", "sort -o f f", "tee out.txt", "awk '{print}' f", "docker exec c ls", "kubectl get pods", "kubectl delete pod x", "sh -c 'rm x'", "env -S 'rm x'",
        "./run.sh", "./run.sh x", "cd sub && ls", "cd sub && ./run.sh", "tools/wipe --all", "sub/tools/wipe --all", "cd sub && tools/wipe", "./danger.sh", "cd sub && ./danger.sh", "ls > out/a", "cd sub && ls > out/a", "./mk x", "cd .. && ./run.sh",
        "python3 " + os.path.join(home, "safe.py"), "python3 " + os.path.join(home, "unsafe.py"), "timeout 5 rm x", "nice ls", "cat $(rm x)", "tar -tf a.tar", "tar -xf a.tar", "npm install", "pip list",
    ]
    for s in special:
        pool.extend(variants(s, r))
    return pool


SAFE_A = "import json\nx = json.dumps([1, 2])\nprint(x)\n"
# same length as SAFE_A, not approvable
UNSAFE_SAME_LEN = "import json\nx = eval('2+2')       \nprint(x)\n"
assert len(SAFE_A) == len(UNSAFE_SAME_LEN)


def fs_histories(ctx, r, stats, vios, samples):
    """histories in which the *files* change between queries (script replaced keeping size and mtime, a sibling module
    appearing next to it, a config layer rewritten): each answer must be the answer of a fresh process started in the same file state"""
    n = ctx.scale(24, 400) * (2 if ctx.broken else 1)

    def one(i):
        rr = rng("c18-fs-%d" % i)
        out = []
        with H.Scratch() as s:
            home = s.home
            os.makedirs(os.path.join(home, ".dippy"), exist_ok=True)
            d = os.path.join(s.root, "work")
            os.makedirs(d, exist_ok=True)
            script, other = os.path.join(d, "s.py"), os.path.join(d, "t.py")
            open(script, "w").write(SAFE_A)
            open(other, "w").write("import os\nos.system('id')\n")
            open(os.path.join(d, ".dippy"), "w").write("allow frob\n")
            queries = [
                {"kind": "analyze", "cmd": "python3 " + script, "config": "", "cwd": d},
                {"kind": "analyze", "cmd": "python3 s.py", "config": "", "cwd": d},
                {"kind": "analyze", "cmd": "python3 -B s.py x y", "config": "", "cwd": d},
                {"kind": "analyze", "cmd": "uv run " + script, "config": "", "cwd": d},
                {"kind": "analyze", "cmd": "echo $(python3 " + script + ")", "config": "", "cwd": d},
                {"kind": "main", "stdin": json.dumps({"tool_name": "Bash", "tool_input": {"command": "frob x"}, "cwd": d})},
                {"kind": "main", "stdin": json.dumps({"tool_name": "Bash", "tool_input": {"command": "python3 " + script}, "cwd": d})},
                {"kind": "main", "stdin": json.dumps({"command": "frob x", "cwd": d})},
            ]
            changes = [
                {"kind": "fs", "op": "write", "path": script, "content": UNSAFE_SAME_LEN, "keep_stamp": True},
                {"kind": "fs", "op": "write", "path": script, "content": SAFE_A, "keep_stamp": True},
                {"kind": "fs", "op": "write", "path": script, "content": "import os\nos.remove('x')\n"},
                {"kind": "fs", "op": "write", "path": script, "content": SAFE_A},
                {"kind": "fs", "op": "write", "path": os.path.join(d, "json.py"), "content": "import os\n"},
                {"kind": "fs", "op": "remove", "path": os.path.join(d, "json.py")},
                {"kind": "fs", "op": "mkdir", "path": os.path.join(d, "json")},
                {"kind": "fs", "op": "remove", "path": os.path.join(d, "json")},
                {"kind": "fs", "op": "symlink", "path": script, "target": other},
                {"kind": "fs", "op": "write", "path": os.path.join(d, ".dippy"), "content": "deny frob \"no\"\n"},
                {"kind": "fs", "op": "write", "path": os.path.join(d, ".dippy"), "content": "allow frob\n"},
                {"kind": "fs", "op": "remove", "path": os.path.join(d, ".dippy")},
                {"kind": "fs", "op": "write", "path": os.path.join(home, ".dippy", "config"), "content": "ask frob \"user says ask\"\n"},
                {"kind": "fs", "op": "remove", "path": os.path.join(home, ".dippy", "config")},
            ]
            p = start_proc(home)
            trace = []
            try:
                for _ in range(rr.randint(10, 18)):
                    if rr.chance(0.4):
                        c = rr.pick(changes)
                        ask_proc(p, c)
                        trace.append(c)
                        continue
                    q = rr.pick(queries)
                    a = ask_proc(p, q)
                    want = run_queries(home, [q])[0]
                    out.append((q, list(trace), a, want))
                    trace.append(q)
            finally:
                try:
                    p.stdin.close()
                    p.wait(timeout=10)
                except Exception:  # noqa: BLE001
                    p.kill()
        return out

    with ThreadPoolExecutor(12) as ex:
        for res in ex.map(one, range(n)):
            for q, trace, a, want in res:
                stats["evaluations"] += 1
                stats["fs_history_queries"] += 1
                if a != want:
                    if len(vios) < 6:
                        vios.append({"input": {"query": q, "history_with_file_changes": trace[-12:]}, "observed": {"after_history": a, "fresh_process_same_files": want}, "required": "the answer equals the answer of a fresh process in the same file state (files are inputs, history is not)", "oracle": "fresh-vs-history(files change)"})
                elif len(samples) < 4 and any(x.get("kind") == "fs" for x in trace):
                    samples.append({"query": q, "answer": a, "file_changes_before": sum(1 for x in trace if x.get("kind") == "fs")})


def table_histories(r):
    """one history per handler module with several program names: `NAME KEY MEMBER x` for the pairs of its dict tables"""
    import importlib

    import dippy.cli as CLI

    out = []
    for m in sorted(set(CLI.KNOWN_HANDLERS.values())):
        try:
            mod = importlib.import_module("dippy.cli." + m)
        except Exception:  # noqa: BLE001
            continue
        names = [c for c in getattr(mod, "COMMANDS", []) if isinstance(c, str)]
        if len(names) < 2:
            continue
        pairs = set()
        for v in vars(mod).values():
            if isinstance(v, dict):
                for a, b in v.items():
                    if isinstance(a, str) and isinstance(b, (set, frozenset, list, tuple)):
                        pairs.update((a, x) for x in b if isinstance(x, str))
        if not pairs:
            continue
        cmds = ["%s %s %s x" % (nme, a, b) for nme in names for a, b in sorted(pairs)]
        qs = [{"kind": "analyze", "cmd": c, "config": "", "cwd": "/tmp/probe", "reuse": True} for c in cmds]
        first = list(qs)
        second = list(qs)
        r.shuffle(first)
        r.shuffle(second)
        out.append(first + second)
    return out


def search(ctx):
    r = rng("c18-search")
    stats = collections.Counter()
    vios = []
    samples = []
    with H.Scratch() as s:
        home = s.home
        os.makedirs(home, exist_ok=True)
        with open(os.path.join(home, "safe.py"), "w") as f:
            f.write("import math\nprint(math.sqrt(2))\n")
        with open(os.path.join(home, "unsafe.py"), "w") as f:
            f.write("import os\nos.system('id')\n")
        # projects with different logging sinks
        projs = {}
        for name, cfgtext in (("plain", "allow frob\n"), ("logok", "set log " + os.path.join(s.root, "logs", "d.log") + "\nallow frob\n"), ("logbad", "set log /proc/nonexistent/x/d.log\nallow frob\n"), ("logfull", "set log /dev/full\nset log-full\ndeny frob\n")):
            d = os.path.join(s.root, "p_" + name)
            os.makedirs(d, exist_ok=True)
            with open(os.path.join(d, ".dippy"), "w") as f:
                f.write(cfgtext)
            projs[name] = d
        pool = gen_pool(r, home)

        def gen_query():
            if r.chance(0.65):
                return {"kind": "analyze", "cmd": r.pick(pool), "config": r.pick(CONFIGS), "cwd": r.pick([home, "/tmp/probe", os.path.join(home, "sub")]), "reuse": r.chance(0.7)}
            cmd = r.pick(pool)
            cwd = projs[r.pick(sorted(projs))]
            shape = r.pick(["claude", "gemini", "cursor", "post", "mcp", "bad"])
            if shape == "claude":
                v = {"tool_name": "Bash", "tool_input": {"command": cmd}, "cwd": cwd}
            elif shape == "gemini":
                v = {"tool_name": "run_shell_command", "tool_input": {"command": cmd}, "cwd": cwd}
            elif shape == "cursor":
                v = {"command": cmd, "cwd": cwd}
            elif shape == "post":
                v = {"tool_name": "Bash", "tool_input": {"command": cmd}, "cwd": cwd, "hook_event_name": "PostToolUse"}
            elif shape == "mcp":
                v = {"tool_name": "mcp__x__y", "tool_input": {}, "cwd": cwd}
            else:
                return {"kind": "main", "stdin": r.pick(["{", "[]", "5", '{"tool_name": 5}', ""])}
            return {"kind": "main", "stdin": json.dumps(v)}

        n_hist = ctx.scale(6, 120) * (2 if ctx.broken else 1)
        hist_len = 90
        modes = [None, None, "DIPPY_CLAUDE", "DIPPY_GEMINI", "DIPPY_CURSOR"]
        hists = []
        for _ in range(n_hist):
            qs = [gen_query() for _ in range(hist_len)]
            # repeat some queries later in the same history
            for _ in range(15):
                qs.insert(r.randint(len(qs) // 2, len(qs)), r.pick(qs[: len(qs) // 2]))
            hists.append((r.pick(modes), qs))

        # directed: one Config object serving a run of commands whose rules denote different files under different effective cwds
        rel_cmds = ["./run.sh", "./run.sh x", "cd sub && ls", "cd sub && ./run.sh", "tools/wipe --all", "sub/tools/wipe --all", "cd sub && tools/wipe", "./danger.sh", "cd sub && ./danger.sh", "ls > out/a", "cd sub && ls > out/a",
                    "./mk x", "cd .. && ./run.sh", "cd sub && ls -l", "make test", "sub/run.sh", "cd /tmp && ./run.sh"]
        for _ in range(ctx.scale(6, 100) * (2 if ctx.broken else 1)):
            qs = [{"kind": "analyze", "cmd": r.pick(rel_cmds), "config": CONFIGS[3], "cwd": r.pick([home, os.path.join(home, "sub"), "/tmp/probe"]), "reuse": True} for _ in range(25)]
            hists.append((None, qs))

        # directed: handler modules that serve several program names (docker/podman, npm/yarn/pnpm, pip/pip3 …) share their
        # module-level tables between those names: every (action, subcommand) pair of the tables under every name, twice over
        # in different orders, so that each query also comes after all the others
        prio = set()
        for qs in table_histories(r):
            hists.append((None, qs))
            prio.update(json.dumps(q, sort_keys=True) for q in qs)
        stats["table_history_queries"] = len(prio)

        def run_hist(hq):
            mode, qs = hq
            env = {mode: "1"} if mode else {}
            return run_queries(home, qs + [{"kind": "cacheinfo"}], env)

        with ThreadPoolExecutor(8) as ex:
            hist_results = list(ex.map(run_hist, hists))
        # fresh answers, one process per distinct (mode, query)
        fresh_keys = {}
        for (mode, qs), res in zip(hists, hist_results):
            for q in qs:
                fresh_keys.setdefault((mode, json.dumps(q, sort_keys=True)), None)
        # budget: sample when there are too many
        keys = sorted(fresh_keys, key=lambda kq: (str(kq[0]), kq[1]))
        budget = ctx.scale(500, 12000) * (2 if ctx.broken else 1)
        if len(keys) > budget:
            rest = [kq for kq in keys if kq[1] not in prio]
            keys = [kq for kq in keys if kq[1] in prio] + r.sample(rest, min(budget, len(rest)))

        def run_fresh(kq):
            mode, qj = kq
            return kq, run_queries(home, [json.loads(qj)], {mode: "1"} if mode else {})[0]

        with ThreadPoolExecutor(16) as ex:
            for kq, ans in ex.map(run_fresh, keys):
                fresh_keys[kq] = ans
        for (mode, qs), res in zip(hists, hist_results):
            ci = res[-1]
            stats["max_cache_misses"] = max(stats["max_cache_misses"], ci.get("misses", 0))
            for i, (q, a) in enumerate(zip(qs, res)):
                want = fresh_keys.get((mode, json.dumps(q, sort_keys=True)))
                if want is None:
                    continue
                stats["evaluations"] += 1
                stats["kind:" + q["kind"]] += 1
                if "action" in a:
                    stats["verdict:" + a["action"]] += 1
                if a != want:
                    if len(vios) < 6:
                        vios.append({"input": {"query": q, "explicit_mode_env": mode, "history": qs[:i][-40:], "history_len": i}, "observed": {"after_history": a, "fresh_process": want}, "required": "the answer after any history equals the answer of a fresh process", "oracle": "fresh-vs-history"})
                elif len(samples) < 3 and i > 60:
                    samples.append({"query": q, "answer": a, "position_in_history": i})
    if len(vios) < 6:
        fs_histories(ctx, r, stats, vios, samples)
    return {"violations": vios, "evaluations": stats["evaluations"], "distinct_nontrivial": len([k for k in fresh_keys if fresh_keys[k] is not None]), "stats": dict(stats), "samples": samples, "oracle": "same query: fresh process vs after a history in one interpreter (action, reason, stdout)"}


def matches_finding(entry, v) -> bool:
    return False


def finding_still_fails(ctx, entry) -> bool:
    return False


def replay(payload) -> int:
    inp = payload["input"]
    with H.Scratch() as s:
        env = {inp["explicit_mode_env"]: "1"} if inp.get("explicit_mode_env") else {}
        after = run_queries(s.home, inp["history"] + [inp["query"]], env)[-1]
        fresh = run_queries(s.home, [inp["query"]], env)[0]
    print("after history:", after)
    print("fresh process:", fresh)
    print("(paths of the original scratch HOME are gone; the recorded observation was:", payload.get("observed"), ")")
    return 1
