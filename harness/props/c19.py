"""C19 — post-execution feedback rules are advisory only."""
from __future__ import annotations

import collections
import json

import corr_config as CC
import corr_hook as CH
import hookrun as H
from common import rng

ID = "C19"
PROP_FILES = ["C19"]
RULE = (
    "correspondence: match_after / match_after_mcp on generated rule texts; the hook subprocess vs Model/Hook with PostToolUse-heavy inputs (simple, pipeline, list, unparseable commands, MCP tools, other tools, odd event names). "
    "search: on the real hook, a PostToolUse event prints nothing, exactly one duck-prefixed line equal to the message of the last matching after/after-mcp rule (computed independently), or {} for a non-shell non-MCP tool, "
    "exits 0 and never prints a permission key; PreToolUse stdout with vs without the after lines is byte-identical."
)
TRUSTED = ["T1 subprocess correspondence (corr_hook.py)", "tokenize() (words of the first command) is an oracle of the hook model"]
ASSUMES = ["a PostToolUse event for a tool that is neither shell nor MCP prints {} (no decision): {} is the protocol's 'no output'"]

AFTER_TEXT = """\
after git push "check CI"
after git push origin * "pushed to origin"
after git commit ""
after npm *
after ls "listed"
after-mcp mcp__github__create_* "posted"
after-mcp mcp__github__* ""
after-mcp mcp__x__* "x tool"
"""
BASE_TEXT = "allow ok1\ndeny denied \"no\"\nask git push * \"think twice\"\nallow-mcp mcp__github__get_*\ndeny-mcp mcp__fs__* \"no fs\"\nask-mcp mcp__github__create_* \"confirm first\"\nask-mcp mcp__x__*\n"


def correspondence(ctx):
    k = 2 if ctx.broken else 1
    return [CC.corr_after_mcp(ctx.model, rng("c19-am"), ctx.scale(500, 15000) * k), CH.corr_hook(ctx.model, rng("c19-hook"), ctx.scale(350, 8000) * k)]


def search(ctx):
    import fnmatch

    from dippy.core import config as C
    from dippy.core.parser import tokenize

    r = rng("c19-search")
    stats = collections.Counter()
    vios = []
    samples = []
    with H.Scratch() as s:
        # interleave after lines with the other rules
        lines = BASE_TEXT.splitlines() + AFTER_TEXT.splitlines()
        r.shuffle(lines)
        # keep relative order inside each family deterministic enough: re-sort after lines to their original order
        after_lines = [l for l in AFTER_TEXT.splitlines()]
        other_lines = [l for l in BASE_TEXT.splitlines()]
        mixed = []
        ai = oi = 0
        while ai < len(after_lines) or oi < len(other_lines):
            if oi >= len(other_lines) or (ai < len(after_lines) and r.chance(0.5)):
                mixed.append(after_lines[ai]); ai += 1
            else:
                mixed.append(other_lines[oi]); oi += 1
        with_after = "\n".join(mixed) + "\n"
        without_after = BASE_TEXT
        # the two after families separately: a family with no rule at all must stay silent whatever the other rules say
        after_only = BASE_TEXT + "".join(l + "\n" for l in after_lines if l.startswith("after "))
        aftermcp_only = "".join(l + "\n" for l in after_lines if l.startswith("after-mcp ")) + BASE_TEXT
        texts = {"with": with_after, "without": without_after, "after_only": after_only, "aftermcp_only": aftermcp_only}
        cfgs = {k: C.parse_config(t) for k, t in texts.items()}
        cmds = ["git push", "git push origin main", "git commit -m x", "npm run build", "ls", "ls -la | cat", "git push; ls", "rm x", "'unterminated", "", "if true; then git push; fi", "X=1 git push", "git status"]
        tools = ["mcp__github__create_pr", "mcp__github__get_issue", "mcp__x__t", "mcp__none__t", "mcp__fs__read"]
        n = ctx.scale(120, 3000) * (3 if ctx.broken else 1)
        jobs, metas = [], []
        for _ in range(n):
            x = r.random()
            ev = r.pick(["PostToolUse", "PostToolUse", "PostToolUse", "PreToolUse", None, "Other", 5])
            if x < 0.55:
                cmd = r.pick(cmds)
                host = r.pick(["claude", "gemini", "cursor"])
                v = {"claude": {"tool_name": "Bash", "tool_input": {"command": cmd}}, "gemini": {"tool_name": "run_shell_command", "tool_input": {"command": cmd}}, "cursor": {"command": cmd}}[host]
                meta = ("shell", cmd)
            elif x < 0.85:
                tool = r.pick(tools)
                v = {"tool_name": tool, "tool_input": {}}
                meta = ("mcp", tool)
            else:
                v = {"tool_name": r.pick(["Read", "Write", "Edit"]), "tool_input": {"file_path": "/x"}}
                meta = ("other", v["tool_name"])
            v["cwd"] = s.proj
            if ev is not None:
                v["hook_event_name"] = ev
            if r.chance(0.15):
                v["permission_mode"] = "bypassPermissions"
            if r.chance(0.6):
                # what the hosts send along after a tool ran (docs/hook-systems): the feedback depends on none of it
                v["tool_response"] = r.pick([{"stdout": "ok", "stderr": "", "interrupted": False, "isImage": False}, {"stdout": "", "stderr": "boom", "interrupted": True}, {"interrupted": True}, {},
                                             [{"type": "text", "text": "done"}], [], "plain text result", "", None, 5, True, {"interrupted": "yes"}, {"content": [{"type": "text", "text": "x"}], "isError": True}])
                stats["with_tool_response"] += 1
            if r.chance(0.3):
                v.update({"session_id": "abc123", "transcript_path": s.home + "/t.jsonl", "tool_use_id": "toolu_01"})
            for cfgname, text in texts.items():
                p = s.write("cfg_%s.conf" % cfgname, text)
                jobs.append({"stdin": json.dumps(v).encode(), "home": s.home, "env_extra": {"DIPPY_CONFIG": p}, "cwd": s.proj})
                metas.append((meta, ev, cfgname, v))
        results = H.run_many(jobs)
        by_input = {}
        for (meta, ev, cfgname, v), (rc, out, err) in zip(metas, results):
            stats["evaluations"] += 1
            key = json.dumps(v, sort_keys=True)
            by_input.setdefault(key, {})[cfgname] = out
            cfg = cfgs[cfgname]
            base = {"input": {"stdin": v, "config": texts[cfgname]}, "observed": {"exit": rc, "stdout": out[:300].decode("utf-8", "replace")}}
            if rc != 0 or b"Traceback" in err:
                vios.append(dict(base, required="exit 0, no traceback", oracle="post-total"))
                continue
            if ev == "PostToolUse":
                stats["post_events"] += 1
                text = out.decode("utf-8", "replace")
                if any(k in text for k in ("permissionDecision", '"permission"', '"decision"')):
                    vios.append(dict(base, required="a PostToolUse event never emits a permission decision", oracle="post-no-decision"))
                    continue
                # expected message, computed independently
                if meta[0] == "shell":
                    words = tokenize(meta[1])
                    from pathlib import Path

                    want = C.match_after(words, cfg, Path(s.proj))
                elif meta[0] == "mcp":
                    hits = [x for x in cfg.after_mcp_rules if fnmatch.fnmatch(meta[1], x.pattern)]
                    want = (hits[-1].message if hits[-1].message is not None else "") if hits else None
                else:
                    want = "<other>"
                if want == "<other>":
                    exp = "{}\n"
                else:
                    exp = ("🐤 " + want + "\n") if want else ""
                stats["feedback:" + ("msg" if exp.startswith("🐤") else "silent" if exp == "" else "{}")] += 1
                if text != exp:
                    vios.append(dict(base, required=f"stdout == {exp!r} (message of the last matching after rule, nothing when none/empty)", oracle="post-output"))
                elif len(samples) < 3:
                    samples.append({"stdin": v, "stdout": text})
        for key, outs in by_input.items():
            v = json.loads(key)
            if v.get("hook_event_name") == "PostToolUse":
                continue
            stats["pre_pairs"] += 1
            if outs.get("with") != outs.get("without"):
                vios.append({"input": {"stdin": v, "config_with_after": with_after, "config_without_after": without_after}, "observed": {"with": outs.get("with", b"")[:300].decode("utf-8", "replace"), "without": outs.get("without", b"")[:300].decode("utf-8", "replace")}, "required": "after rules never alter a pre-execution verdict (byte-identical stdout)", "oracle": "after-invisible"})
    return {"violations": vios[:5], "evaluations": stats["evaluations"], "distinct_nontrivial": stats["post_events"] + stats["pre_pairs"], "stats": dict(stats), "samples": samples, "oracle": "PostToolUse stdout == independent last-match message; no decision; pre-execution stdout independent of after lines"}


def matches_finding(entry, v) -> bool:
    return False


def finding_still_fails(ctx, entry) -> bool:
    return False


def replay(payload) -> int:
    inp = payload["input"]
    with H.Scratch() as s:
        p = s.write("cfg.conf", inp.get("config") or inp.get("config_with_after", ""))
        v = dict(inp["stdin"])
        v["cwd"] = s.proj
        rc, out, err = H.run_hook(json.dumps(v).encode(), home=s.home, env_extra={"DIPPY_CONFIG": p}, cwd=s.proj)
    print("exit", rc, "stdout", out[:300])
    print("required:", payload.get("required"))
    return 1
